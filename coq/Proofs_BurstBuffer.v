(** * Proofs_BurstBuffer: properties of the burst-buffer driver model (BurstBuffer.v).

    Part I (this part): core lemmas about the model's building blocks
      A. keys and maps ([zlist_eqb], [key_eqb], [apply_writes])
      B. the two loops of ncbbio_log_flush_core agree ([rounds_agree])
      C. buffer-size invariant ([log_ok], [req_ok], [flush_buffer_fits])
      D. per-rank flush and the multi-rank agreement
      E. replay refines direct application ([flush_refines_direct], [replay_rounds_refines])
      F. status delivery ([status_delivery], the old loop refuted)
      G. record-count rule
      H. log removed at close
    Session-level theorems are appended after Part I. *)
From Coq Require Import ZArith List Bool Lia Permutation.
From Pnc Require Import Gen_consts Gen_bbflush BurstBuffer.
Import ListNotations.
Local Open Scope Z_scope.

(* ------------------------------------------------------------------------------------------- *)
(** ** 0. Small list helpers (not in the 8.16 standard library under a stable name) *)

Lemma In_firstn_in : forall (A : Type) (n : nat) (l : list A) (x : A), In x (firstn n l) -> In x l.
Proof.
  intros A n l x H. rewrite <- (firstn_skipn n l). apply in_or_app. left. exact H.
Qed.

Lemma In_skipn_in : forall (A : Type) (n : nat) (l : list A) (x : A), In x (skipn n l) -> In x l.
Proof.
  intros A n l x H. rewrite <- (firstn_skipn n l). apply in_or_app. right. exact H.
Qed.

Lemma NoDup_app_l : forall (A : Type) (l1 l2 : list A), NoDup (l1 ++ l2) -> NoDup l1.
Proof.
  intros A l1. induction l1 as [|a l1 IH]; intros l2 H.
  - constructor.
  - cbn [app] in H. inversion H as [|x l Hnin Hnd]; subst.
    constructor.
    + intro Hin. apply Hnin. apply in_or_app. left. exact Hin.
    + apply (IH l2). exact Hnd.
Qed.

Lemma NoDup_app_r : forall (A : Type) (l1 l2 : list A), NoDup (l1 ++ l2) -> NoDup l2.
Proof.
  intros A l1. induction l1 as [|a l1 IH]; intros l2 H.
  - exact H.
  - cbn [app] in H. inversion H as [|x l Hnin Hnd]; subst. apply IH. exact Hnd.
Qed.

Lemma flat_map_nil_all : forall (A B : Type) (f : A -> list B) (l : list A),
  (forall x, In x l -> f x = []) -> flat_map f l = [].
Proof.
  intros A B f l. induction l as [|a l IH]; intros H.
  - reflexivity.
  - cbn [flat_map]. rewrite (H a (or_introl eq_refl)). cbn [app].
    apply IH. intros x Hx. apply H. right. exact Hx.
Qed.

Lemma flat_map_map_comp : forall (A B C : Type) (g : A -> B) (f : B -> list C) (l : list A),
  flat_map f (map g l) = flat_map (fun x => f (g x)) l.
Proof.
  intros A B C g f l. induction l as [|a l IH].
  - reflexivity.
  - cbn [map flat_map]. rewrite IH. reflexivity.
Qed.

Lemma fold_left_map_comp : forall (A B C : Type) (g : C -> B) (h : A -> B -> A) (l : list C) (a : A),
  fold_left h (map g l) a = fold_left (fun a x => h a (g x)) l a.
Proof.
  intros A B C g h l. induction l as [|x l IH]; intros a.
  - reflexivity.
  - cbn [map fold_left]. apply IH.
Qed.

(* ------------------------------------------------------------------------------------------- *)
(** ** A. Keys and maps *)

Lemma zlist_eqb_spec : forall a b, zlist_eqb a b = true <-> a = b.
Proof.
  induction a as [|x a IH]; intros [|y b]; cbn [zlist_eqb]; split; intro H;
    try reflexivity; try discriminate.
  - apply andb_true_iff in H. destruct H as [H1 H2].
    apply Z.eqb_eq in H1. apply IH in H2. subst. reflexivity.
  - inversion H; subst. apply andb_true_iff. split.
    + apply Z.eqb_refl.
    + apply IH. reflexivity.
Qed.

Lemma key_eqb_spec : forall a b, key_eqb a b = true <-> a = b.
Proof.
  intros [a1 a2] [b1 b2]. unfold key_eqb. cbn [fst snd]. split; intro H.
  - apply andb_true_iff in H. destruct H as [H1 H2].
    apply Z.eqb_eq in H1. apply zlist_eqb_spec in H2. subst. reflexivity.
  - inversion H; subst. apply andb_true_iff. split.
    + apply Z.eqb_refl.
    + apply zlist_eqb_spec. reflexivity.
Qed.

Lemma key_eqb_refl : forall k, key_eqb k k = true.
Proof. intro k. apply key_eqb_spec. reflexivity. Qed.

Lemma key_eq_dec : forall a b : key, {a = b} + {a <> b}.
Proof.
  intros a b. destruct (key_eqb a b) eqn:E.
  - left. apply key_eqb_spec. exact E.
  - right. intro H. apply key_eqb_spec in H. rewrite H in E. discriminate.
Qed.

Lemma upd_same : forall f k v, upd f k v k = Some v.
Proof. intros f k v. unfold upd. rewrite key_eqb_refl. reflexivity. Qed.

Lemma upd_other : forall f k v k', k' <> k -> upd f k v k' = f k'.
Proof.
  intros f k v k' H. unfold upd. destruct (key_eqb k' k) eqn:E.
  - apply key_eqb_spec in E. contradiction.
  - reflexivity.
Qed.

Lemma apply_writes_app : forall a b f, apply_writes (a ++ b) f = apply_writes b (apply_writes a f).
Proof.
  induction a as [|kv a IH]; intros b f.
  - reflexivity.
  - cbn [app apply_writes]. apply IH.
Qed.

Lemma apply_writes_notin : forall ws f k, ~ In k (map fst ws) -> apply_writes ws f k = f k.
Proof.
  induction ws as [|kv ws IH]; intros f k H.
  - reflexivity.
  - cbn [apply_writes]. cbn [map] in H. rewrite IH.
    + apply upd_other. intro E. apply H. left. symmetry. exact E.
    + intro Hin. apply H. right. exact Hin.
Qed.

Lemma apply_writes_in : forall ws f k v, NoDup (map fst ws) -> In (k, v) ws -> apply_writes ws f k = Some v.
Proof.
  induction ws as [|kv ws IH]; intros f k v Hnd Hin.
  - destruct Hin.
  - cbn [map] in Hnd. inversion Hnd as [|x l Hnin Hnd']; subst.
    cbn [apply_writes]. destruct Hin as [Heq | Hin].
    + subst kv. cbn [fst snd] in *. rewrite apply_writes_notin by exact Hnin. apply upd_same.
    + apply IH; assumption.
Qed.

(** [apply_writes] respects pointwise equality of the starting map (no functional extensionality) *)
Lemma apply_writes_ext : forall ws f g, (forall k, f k = g k) -> forall k, apply_writes ws f k = apply_writes ws g k.
Proof.
  induction ws as [|kv ws IH]; intros f g H k.
  - apply H.
  - cbn [apply_writes]. apply IH. intro k'. unfold upd.
    destruct (key_eqb k' (fst kv)); [reflexivity | apply H].
Qed.

Lemma apply_writes_perm : forall ws ws' f, Permutation ws ws' -> NoDup (map fst ws) ->
  forall k, apply_writes ws f k = apply_writes ws' f k.
Proof.
  intros ws ws' f Hp Hnd k.
  assert (Hnd' : NoDup (map fst ws')).
  { apply (Permutation_NoDup (l := map fst ws)); [apply Permutation_map; exact Hp | exact Hnd]. }
  destruct (in_dec key_eq_dec k (map fst ws)) as [Hin | Hnin].
  - apply in_map_iff in Hin. destruct Hin as [[k0 v] [Hk Hin]]. cbn [fst] in Hk. subst k0.
    rewrite (apply_writes_in ws f k v Hnd Hin).
    rewrite (apply_writes_in ws' f k v Hnd' (Permutation_in _ Hp Hin)). reflexivity.
  - rewrite (apply_writes_notin ws f k Hnin).
    rewrite apply_writes_notin; [reflexivity|].
    intro Hin. apply Hnin.
    apply (Permutation_in (l := map fst ws') (l' := map fst ws)); [|exact Hin].
    apply Permutation_map. apply Permutation_sym. exact Hp.
Qed.

Example apply_writes_perm_ex :
  let ws := [((1, [0; 1]), 7); ((1, [0; 2]), 8); ((2, []), 9)] in
  NoDup (map fst ws) /\ Permutation ws (rev ws) /\
  apply_writes ws fempty (1, [0; 2]) = Some 8 /\ apply_writes (rev ws) fempty (1, [0; 2]) = Some 8.
Proof.
  cbv zeta. split; [|split; [|split]].
  - repeat constructor; cbn; intuition discriminate.
  - apply Permutation_rev.
  - vm_compute. reflexivity.
  - vm_compute. reflexivity.
Qed.

(* ------------------------------------------------------------------------------------------- *)
(** ** B. The two loops of ncbbio_log_flush_core agree *)

(** total data length of the valid entries of a batch (what is read into the flush buffer) *)
Definition batch_bytes (b : list entry) : Z := fold_right Z.add 0 (map e_datalen (valid_entries b)).

(** the first loop with an arbitrary starting state *)
Definition cstate (buf : Z) (es : list entry) (st : Z * Z) : Z * Z := fold_left (count_step buf) es st.
Definition cnt (buf used : Z) (es : list entry) : Z := fst (cstate buf es (0, used)).

Lemma count_loop_cnt : forall buf es, count_loop buf es = cnt buf 0 es + 1.
Proof. reflexivity. Qed.

Lemma cstate_cons : forall buf e es st, cstate buf (e :: es) st = cstate buf es (count_step buf st e).
Proof. reflexivity. Qed.

(** shift lemma: the round counter of the accumulator is only ever incremented *)
Lemma cstate_shift : forall buf es n u,
  cstate buf es (n, u) = (n + fst (cstate buf es (0, u)), snd (cstate buf es (0, u))).
Proof.
  intros buf es. induction es as [|e es IH]; intros n u.
  - unfold cstate. cbn [fold_left fst snd]. f_equal. lia.
  - rewrite !cstate_cons. unfold count_step. cbn [fst snd].
    destruct (e_valid e).
    + destruct (buf <? e_datalen e + u).
      * rewrite (IH (n + 1) (e_datalen e)). rewrite (IH (0 + 1) (e_datalen e)).
        cbn [fst snd]. f_equal. lia.
      * apply IH.
    + apply IH.
Qed.

Lemma scan_batch_cons : forall buf used e r,
  scan_batch buf used (e :: r) =
  if e_valid e
  then if buf <? e_datalen e + used then ([], e :: r)
       else (e :: fst (scan_batch buf (used + e_datalen e) r), snd (scan_batch buf (used + e_datalen e) r))
  else (e :: fst (scan_batch buf used r), snd (scan_batch buf used r)).
Proof. reflexivity. Qed.

(** the inner scan splits the list *)
Lemma scan_batch_app : forall buf es used,
  fst (scan_batch buf used es) ++ snd (scan_batch buf used es) = es.
Proof.
  intros buf es. induction es as [|e r IH]; intros used.
  - reflexivity.
  - rewrite scan_batch_cons. destruct (e_valid e).
    + destruct (buf <? e_datalen e + used).
      * reflexivity.
      * cbn [fst snd app]. rewrite IH. reflexivity.
    + cbn [fst snd app]. rewrite IH. reflexivity.
Qed.

(** where the scan breaks, the count loop increments exactly once *)
Lemma scan_count : forall buf es used n,
  match snd (scan_batch buf used es) with
  | [] => fst (cstate buf es (n, used)) = n
  | e :: r => e_valid e = true /\ cstate buf es (n, used) = cstate buf r (n + 1, e_datalen e)
  end.
Proof.
  intros buf es. induction es as [|e r IH]; intros used n.
  - reflexivity.
  - rewrite scan_batch_cons. rewrite cstate_cons. unfold count_step. cbn [fst snd].
    destruct (e_valid e) eqn:Ev.
    + destruct (buf <? e_datalen e + used) eqn:Eb.
      * cbn [snd]. split; [exact Ev | reflexivity].
      * cbn [snd]. apply IH.
    + cbn [snd]. apply IH.
Qed.

(** the first batch of a non-empty list whose head fits is non-empty *)
Lemma scan_batch_progress : forall buf e r,
  (e_valid e = true -> e_datalen e <= buf) -> fst (scan_batch buf 0 (e :: r)) <> [].
Proof.
  intros buf e r H. rewrite scan_batch_cons. destruct (e_valid e).
  - destruct (buf <? e_datalen e + 0) eqn:Eb.
    + apply Z.ltb_lt in Eb. specialize (H eq_refl). lia.
    + cbn [fst]. discriminate.
  - cbn [fst]. discriminate.
Qed.

(** the batch never exceeds the buffer (or holds no valid data at all) *)
Lemma scan_batch_bytes : forall buf es used,
  batch_bytes (fst (scan_batch buf used es)) = 0 \/
  used + batch_bytes (fst (scan_batch buf used es)) <= buf.
Proof.
  intros buf es. induction es as [|e r IH]; intros used.
  - left. reflexivity.
  - rewrite scan_batch_cons. destruct (e_valid e) eqn:Ev.
    + destruct (buf <? e_datalen e + used) eqn:Eb.
      * left. reflexivity.
      * cbn [fst]. apply Z.ltb_ge in Eb.
        unfold batch_bytes, valid_entries. cbn [filter]. rewrite Ev. cbn [map fold_right].
        fold (valid_entries (fst (scan_batch buf (used + e_datalen e) r))).
        fold (batch_bytes (fst (scan_batch buf (used + e_datalen e) r))).
        destruct (IH (used + e_datalen e)) as [H0 | Hle].
        -- right. rewrite H0. lia.
        -- right. lia.
    + cbn [fst]. unfold batch_bytes, valid_entries. cbn [filter]. rewrite Ev.
      fold (valid_entries (fst (scan_batch buf used r))).
      fold (batch_bytes (fst (scan_batch buf used r))).
      apply IH.
Qed.

(** unfolding of the count loop along the first batch *)
Lemma count_loop_unfold : forall buf es,
  (forall e, In e es -> e_valid e = true -> 0 <= e_datalen e <= buf) ->
  count_loop buf es =
  match snd (scan_batch buf 0 es) with
  | [] => 1
  | _ :: _ => 1 + count_loop buf (snd (scan_batch buf 0 es))
  end.
Proof.
  intros buf es Hb. rewrite !count_loop_cnt. unfold cnt.
  pose proof (scan_count buf es 0 0) as Hs.
  pose proof (scan_batch_app buf es 0) as Happ.
  destruct (snd (scan_batch buf 0 es)) as [|e r] eqn:Er.
  - rewrite Hs. reflexivity.
  - destruct Hs as [Hv Hc]. rewrite Hc.
    assert (Hin : In e es).
    { rewrite <- Happ. apply in_or_app. right. left. reflexivity. }
    specialize (Hb e Hin Hv).
    rewrite (cstate_shift buf r (0 + 1) (e_datalen e)). cbn [fst].
    rewrite cstate_cons. unfold count_step. cbn [fst snd]. rewrite Hv.
    replace (buf <? e_datalen e + 0) with false by (symmetry; apply Z.ltb_ge; lia).
    rewrite (Z.add_0_l (e_datalen e)). lia.
Qed.

Lemma batch_loop_cons : forall f buf e r,
  batch_loop (S f) buf (e :: r) =
  match batch_loop f buf (snd (scan_batch buf 0 (e :: r))) with
  | Some bs => Some (fst (scan_batch buf 0 (e :: r)) :: bs)
  | None => None
  end.
Proof. reflexivity. Qed.

Lemma batch_loop_nil : forall f buf, batch_loop f buf [] = Some [].
Proof. intros [|f] buf; reflexivity. Qed.

(** fuel monotonicity *)
Lemma batch_loop_fuel_S : forall f buf es bs,
  batch_loop f buf es = Some bs -> batch_loop (S f) buf es = Some bs.
Proof.
  induction f as [|f IH]; intros buf es bs H.
  - destruct es as [|e r].
    + rewrite batch_loop_nil. exact H.
    + discriminate H.
  - destruct es as [|e r].
    + rewrite batch_loop_nil. rewrite batch_loop_nil in H. exact H.
    + rewrite batch_loop_cons in H. rewrite batch_loop_cons.
      destruct (batch_loop f buf (snd (scan_batch buf 0 (e :: r)))) as [bs'|] eqn:E.
      * rewrite (IH _ _ _ E). exact H.
      * discriminate H.
Qed.

Lemma batch_loop_fuel_le : forall f f' buf es bs, (f <= f')%nat ->
  batch_loop f buf es = Some bs -> batch_loop f' buf es = Some bs.
Proof.
  intros f f' buf es bs Hle H. induction Hle as [|m Hle IH].
  - exact H.
  - apply batch_loop_fuel_S. exact IH.
Qed.

(** core: fuel [length es] is already enough *)
Lemma rounds_core : forall buf n es, (length es <= n)%nat ->
  (forall e, In e es -> e_valid e = true -> 0 <= e_datalen e <= buf) ->
  exists bs, batch_loop n buf es = Some bs
    /\ concat bs = es
    /\ (forall b, In b bs -> b <> [])
    /\ (es <> [] -> Z.of_nat (length bs) = count_loop buf es)
    /\ (es = [] -> bs = [])
    /\ (forall b, In b bs -> batch_bytes b = 0 \/ batch_bytes b <= buf).
Proof.
  intros buf n. induction n as [|n IH]; intros es Hlen Hb.
  - destruct es as [|e r]; [|cbn [length] in Hlen; lia].
    exists []. repeat split; try reflexivity.
    + intros b [].
    + intro H. contradiction H. reflexivity.
    + intros b [].
  - destruct es as [|e r].
    + exists []. repeat split; try reflexivity.
      * intros b [].
      * intro H. contradiction H. reflexivity.
      * intros b [].
    + rewrite batch_loop_cons.
      pose proof (scan_batch_app buf (e :: r) 0) as Happ.
      pose proof (scan_batch_progress buf e r) as Hprog.
      pose proof (scan_batch_bytes buf (e :: r) 0) as Hbytes.
      pose proof (count_loop_unfold buf (e :: r) Hb) as Hcnt.
      remember (fst (scan_batch buf 0 (e :: r))) as b eqn:Eb.
      remember (snd (scan_batch buf 0 (e :: r))) as rest eqn:Erest.
      assert (Hbne : b <> []).
      { apply Hprog. intro Hv. apply (Hb e (or_introl eq_refl) Hv). }
      assert (Hlr : (length rest <= n)%nat).
      { assert (Hl : length (b ++ rest) = length (e :: r)) by (rewrite Happ; reflexivity).
        rewrite app_length in Hl. cbn [length] in Hl, Hlen.
        destruct b as [|b0 b']; [contradiction Hbne; reflexivity|]. cbn [length] in Hl. lia. }
      assert (Hbr : forall x, In x rest -> e_valid x = true -> 0 <= e_datalen x <= buf).
      { intros x Hx. apply Hb. rewrite <- Happ. apply in_or_app. right. exact Hx. }
      destruct (IH rest Hlr Hbr) as (bs' & Hbl & Hcat & Hne & Hcount & Hnil & Hsz).
      rewrite Hbl. exists (b :: bs'). split; [reflexivity|].
      split; [cbn [concat]; rewrite Hcat; exact Happ|].
      split.
      { intros x [Hx | Hx]; [subst x; exact Hbne | apply Hne; exact Hx]. }
      split.
      { intros _. cbn [length]. rewrite Hcnt. destruct rest as [|e' r'].
        - rewrite (Hnil eq_refl). reflexivity.
        - rewrite <- Hcount by discriminate. lia. }
      split; [discriminate|].
      intros x [Hx | Hx]; [subst x | apply Hsz; exact Hx].
      destruct Hbytes as [H0 | Hle]; [left; exact H0 | right; lia].
Qed.

(** THE main theorem, strongest form: no hypothesis on the sign of [buf].  The last conjunct of
    the statement as first proposed ([batch_bytes b <= buf]) is false when [buf < 0] and every
    entry is cancelled (see [rounds_agree_refuted]); the true bound is [Z.max 0 buf]. *)
Theorem rounds_agree_partial : forall buf es,
  (forall e, In e es -> e_valid e = true -> 0 <= e_datalen e <= buf) ->
  exists bs, batch_loop (S (length es)) buf es = Some bs
    /\ concat bs = es
    /\ (forall b, In b bs -> b <> [])
    /\ (es <> [] -> Z.of_nat (length bs) = count_loop buf es)
    /\ (es = [] -> bs = [] /\ count_loop buf es = 1)
    /\ (forall b, In b bs -> fold_right Z.add 0 (map e_datalen (valid_entries b)) <= Z.max 0 buf)
    /\ (forall b, In b bs -> valid_entries b <> [] -> fold_right Z.add 0 (map e_datalen (valid_entries b)) <= buf).
Proof.
  intros buf es Hb.
  destruct (rounds_core buf (length es) es (le_n _) Hb) as (bs & Hbl & Hcat & Hne & Hcount & Hnil & Hsz).
  exists bs. split.
  { apply (batch_loop_fuel_le (length es)); [lia | exact Hbl]. }
  split; [exact Hcat|]. split; [exact Hne|]. split; [exact Hcount|].
  split.
  { intro E. split; [apply Hnil; exact E | rewrite E; reflexivity]. }
  split.
  { intros b Hin. fold (batch_bytes b). destruct (Hsz b Hin) as [H0 | Hle]; lia. }
  intros b Hin Hv. fold (batch_bytes b). destruct (Hsz b Hin) as [H0 | Hle]; [|exact Hle].
  (* a valid entry of b is an entry of es, hence 0 <= buf *)
  destruct (valid_entries b) as [|x vs] eqn:Evs; [contradiction Hv; reflexivity|].
  assert (Hx : In x (valid_entries b)) by (rewrite Evs; left; reflexivity).
  unfold valid_entries in Hx. apply filter_In in Hx. destruct Hx as [Hxb Hxv].
  assert (Hxe : In x es).
  { rewrite <- Hcat. apply in_concat. exists b. split; assumption. }
  specialize (Hb x Hxe Hxv). lia.
Qed.

(** The statement as first proposed (no sign hypothesis on [buf]) ... *)
Definition rounds_agree_full : Prop := forall buf es,
  (forall e, In e es -> e_valid e = true -> 0 <= e_datalen e <= buf) ->
  exists bs, batch_loop (S (length es)) buf es = Some bs
    /\ concat bs = es
    /\ (forall b, In b bs -> b <> [])
    /\ (es <> [] -> Z.of_nat (length bs) = count_loop buf es)
    /\ (es = [] -> bs = [] /\ count_loop buf es = 1)
    /\ (forall b, In b bs -> fold_right Z.add 0 (map e_datalen (valid_entries b)) <= buf).

Definition ex_req (n : Z) : request := RVar 0 false 1 [0] (Some [n]) None [].
Definition ex_entry (valid : bool) (id len line : Z) : entry :=
  mkEntry valid id 64 BB_KIND_VARA 0 len (ex_req len) line.

(** ... is false: negative buffer size, one cancelled entry: the batch holds 0 bytes > buf. *)
Lemma rounds_agree_refuted : ~ rounds_agree_full.
Proof.
  intro H. specialize (H (-1) [ex_entry false (-1) 5 1]).
  destruct H as (bs & Hbl & _ & _ & _ & _ & Hsz).
  - intros e [He | []] Hv. subst e. discriminate Hv.
  - vm_compute in Hbl. inversion Hbl; subst bs.
    specialize (Hsz _ (or_introl eq_refl)). vm_compute in Hsz. apply Hsz. reflexivity.
Qed.

(** The main theorem with the statement as proposed, under the (always true in the driver:
    the buffer size is at least the data-log header) extra hypothesis [0 <= buf]. *)
Theorem rounds_agree : forall buf es, 0 <= buf ->
  (forall e, In e es -> e_valid e = true -> 0 <= e_datalen e <= buf) ->
  exists bs, batch_loop (S (length es)) buf es = Some bs
    /\ concat bs = es                                   (* every entry replayed exactly once, in order *)
    /\ (forall b, In b bs -> b <> [])                   (* every round makes progress: no spinning *)
    /\ (es <> [] -> Z.of_nat (length bs) = count_loop buf es)   (* count loop = batch loop *)
    /\ (es = [] -> bs = [] /\ count_loop buf es = 1)    (* empty log: one participation round *)
    /\ (forall b, In b bs -> fold_right Z.add 0 (map e_datalen (valid_entries b)) <= buf).
Proof.
  intros buf es H0 Hb.
  destruct (rounds_agree_partial buf es Hb) as (bs & Hbl & Hcat & Hne & Hcount & Hnil & Hsz & _).
  exists bs. repeat (split; [assumption|]).
  intros b Hin. specialize (Hsz b Hin). lia.
Qed.

(** a 3-entry log with one cancelled entry, buffer 10: two rounds *)
Definition ex_log3 : list entry := [ex_entry true 0 6 1; ex_entry false 1 9 2; ex_entry true (-1) 7 3].

Example rounds_agree_ex :
  (forall e, In e ex_log3 -> e_valid e = true -> 0 <= e_datalen e <= 10) /\
  batch_loop (S (length ex_log3)) 10 ex_log3
    = Some [[ex_entry true 0 6 1; ex_entry false 1 9 2]; [ex_entry true (-1) 7 3]] /\
  count_loop 10 ex_log3 = 2.
Proof.
  split; [|split].
  - intros e [H | [H | [H | []]]] Hv; subst e; cbn [e_datalen ex_entry]; first [lia | discriminate Hv].
  - vm_compute. reflexivity.
  - vm_compute. reflexivity.
Qed.

(** without the bound [e_datalen e <= buf] the batch loop spins while the count loop answers *)
Example rounds_refuted_without_bound :
  e_valid (ex_entry true (-1) 11 1) = true /\
  batch_loop 100 10 [ex_entry true (-1) 11 1] = None /\
  count_loop 10 [ex_entry true (-1) 11 1] = 2.
Proof. vm_compute. repeat split. Qed.

(* ------------------------------------------------------------------------------------------- *)
(** ** C. Buffer-size invariant: every entry fits into the flush buffer *)

Definition log_ok (l : logst) : Prop :=
  forall e, In e (l_entries l) -> 0 <= e_datalen e <= l_maxentry l.

Definition counts_nonneg (c : option (list Z)) : Prop :=
  match c with Some c => Forall (fun x => 0 <= x) c | None => True end.

Definition req_ok (r : request) : Prop :=
  match r with
  | RVar _ _ elsz _ cnt _ _ => 0 <= elsz /\ counts_nonneg cnt
  | RVarn _ _ elsz subs _ _ => 0 <= elsz /\ Forall (fun sc => counts_nonneg (snd sc)) subs
  end.

Lemma zprod_nonneg : forall c, Forall (fun x => 0 <= x) c -> 0 <= zprod c.
Proof.
  intros c H. induction H as [|x c Hx Hc IH].
  - unfold zprod. cbn [fold_right]. lia.
  - unfold zprod in *. cbn [fold_right]. apply Z.mul_nonneg_nonneg; assumption.
Qed.

Lemma put_size_var_nonneg : forall elsz c, 0 <= elsz -> counts_nonneg c -> 0 <= put_size_var elsz c.
Proof.
  intros elsz c He Hc. unfold put_size_var. destruct c as [c|].
  - apply Z.mul_nonneg_nonneg; [exact He | apply zprod_nonneg; exact Hc].
  - lia.
Qed.

Lemma sub_count_nonneg : forall hc sc, counts_nonneg (snd sc) -> counts_nonneg (sub_count hc sc).
Proof.
  intros hc sc H. unfold sub_count. destruct hc; [exact H | exact I].
Qed.

Lemma varn_step_fst : forall elsz isrec hc acc sc,
  fst (varn_step elsz isrec hc acc sc) = fst acc + put_size_var elsz (sub_count hc sc).
Proof.
  intros elsz isrec hc acc sc. unfold varn_step. cbv zeta.
  destruct (put_size_var elsz (sub_count hc sc) =? 0); [reflexivity|].
  destruct isrec; reflexivity.
Qed.

Lemma varn_scan_fst_ge : forall elsz isrec hc subs acc, 0 <= elsz ->
  Forall (fun sc => counts_nonneg (snd sc)) subs ->
  fst acc <= fst (fold_left (varn_step elsz isrec hc) subs acc).
Proof.
  intros elsz isrec hc subs. induction subs as [|sc subs IH]; intros acc He Hs.
  - cbn [fold_left]. lia.
  - inversion Hs as [|x l Hsc Hrest]; subst. cbn [fold_left].
    specialize (IH (varn_step elsz isrec hc acc sc) He Hrest).
    rewrite varn_step_fst in IH.
    pose proof (put_size_var_nonneg elsz (sub_count hc sc) He (sub_count_nonneg hc sc Hsc)). lia.
Qed.

Lemma buffer_size_ge_max : forall hint l, l_maxentry l <= buffer_size hint l.
Proof.
  intros hint l. unfold buffer_size. cbv zeta.
  set (b := if (0 <? hint) && (hint <? l_datalogsize l) then hint else l_datalogsize l).
  destruct (b <? l_maxentry l) eqn:E.
  - lia.
  - apply Z.ltb_ge in E. exact E.
Qed.

Lemma log_init_ok : log_ok log_init.
Proof. intros e H. destruct H. Qed.

Lemma log_put_ok : forall line r l, req_ok r -> log_ok l -> log_ok (log_put line r l).
Proof.
  intros line r l Hr Hl. destruct r as [vid isrec elsz st cnt str data | vid isrec elsz subs hc data].
  - destruct Hr as [He Hc]. unfold log_put.
    pose proof (put_size_var_nonneg elsz cnt He Hc) as Hp.
    destruct (put_size_var elsz cnt =? 0); [exact Hl|].
    cbv zeta. intros e Hin. cbn [l_entries l_maxentry] in *.
    apply in_app_or in Hin. destruct Hin as [Hin | [Hin | []]].
    + specialize (Hl e Hin). lia.
    + subst e. cbn [e_datalen]. lia.
  - destruct Hr as [He Hs]. unfold log_put. cbv zeta.
    pose proof (varn_scan_fst_ge elsz isrec hc subs (0, l_recdim l) He Hs) as Hp.
    cbn [fst] in Hp. fold (varn_scan elsz isrec hc subs (l_recdim l)) in Hp.
    intros e Hin. cbn [l_entries l_maxentry] in *.
    apply in_app_or in Hin. destruct Hin as [Hin | [Hin | []]].
    + specialize (Hl e Hin). lia.
    + subst e. cbn [e_datalen]. lia.
Qed.

Lemma log_reset_ok : forall l, log_ok (log_reset l).
Proof. intros l e H. destruct H. Qed.

Lemma mark_range_datalen : forall id a b es e, In e (mark_range id a b es) ->
  exists e0, In e0 es /\ e_datalen e = e_datalen e0.
Proof.
  intros id a b es e H. unfold mark_range in H.
  apply in_app_or in H. destruct H as [H | H].
  - exists e. split; [eapply In_firstn_in; exact H | reflexivity].
  - apply in_app_or in H. destruct H as [H | H].
    + apply in_map_iff in H. destruct H as [e0 [Heq Hin]]. exists e0. split.
      * eapply In_skipn_in. eapply In_firstn_in. exact Hin.
      * subst e. reflexivity.
    + exists e. split; [eapply In_skipn_in; exact H | reflexivity].
Qed.

Lemma invalidate_datalen : forall a b es e, In e (invalidate a b es) ->
  exists e0, In e0 es /\ e_datalen e = e_datalen e0.
Proof.
  intros a b es e H. unfold invalidate in H.
  apply in_app_or in H. destruct H as [H | H].
  - exists e. split; [eapply In_firstn_in; exact H | reflexivity].
  - apply in_app_or in H. destruct H as [H | H].
    + apply in_map_iff in H. destruct H as [e0 [Heq Hin]]. exists e0. split.
      * eapply In_skipn_in. eapply In_firstn_in. exact Hin.
      * subst e. reflexivity.
    + exists e. split; [eapply In_skipn_in; exact H | reflexivity].
Qed.

(** [log_ok] is preserved by the two in-place edits of the entry list (iput, cancel) *)
Lemma mark_range_ok : forall id a b l, log_ok l ->
  log_ok (mkLogst (mark_range id a b (l_entries l)) (l_datalogsize l) (l_maxentry l) (l_recdim l)).
Proof.
  intros id a b l Hl e Hin. cbn [l_entries l_maxentry] in *.
  destruct (mark_range_datalen _ _ _ _ _ Hin) as [e0 [Hin0 Heq]]. rewrite Heq. apply Hl. exact Hin0.
Qed.

Lemma invalidate_ok : forall a b l, log_ok l ->
  log_ok (mkLogst (invalidate a b (l_entries l)) (l_datalogsize l) (l_maxentry l) (l_recdim l)).
Proof.
  intros a b l Hl e Hin. cbn [l_entries l_maxentry] in *.
  destruct (invalidate_datalen _ _ _ _ Hin) as [e0 [Hin0 Heq]]. rewrite Heq. apply Hl. exact Hin0.
Qed.

Corollary flush_buffer_fits : forall hint l, log_ok l ->
  forall e, In e (l_entries l) -> e_valid e = true -> 0 <= e_datalen e <= buffer_size hint l.
Proof.
  intros hint l Hl e Hin _. specialize (Hl e Hin).
  pose proof (buffer_size_ge_max hint l). lia.
Qed.

Definition ex_req3 : request := RVar 1 true 4 [2; 0] (Some [3; 5]) None (repeat 7 15).
Definition ex_reqn : request := RVarn 2 true 8 [([0; 1], Some [1; 2]); ([4; 0], Some [2; 2])] true (repeat 1 6).

Example log_put_ok_ex :
  req_ok ex_req3 /\ req_ok ex_reqn /\
  map e_datalen (l_entries (log_put 2 ex_reqn (log_put 1 ex_req3 log_init))) = [60; 48] /\
  l_maxentry (log_put 2 ex_reqn (log_put 1 ex_req3 log_init)) = 60 /\
  buffer_size 16 (log_put 2 ex_reqn (log_put 1 ex_req3 log_init)) = 60.
Proof.
  split; [|split; [|split; [|split]]].
  - unfold ex_req3, req_ok, counts_nonneg. split; [lia|]. repeat constructor; lia.
  - unfold ex_reqn, req_ok, counts_nonneg. split; [lia|]. repeat constructor; cbn [snd]; lia.
  - vm_compute. reflexivity.
  - vm_compute. reflexivity.
  - vm_compute. reflexivity.
Qed.

(* ------------------------------------------------------------------------------------------- *)
(** ** D. Per-rank flush and the multi-rank agreement *)

Definition is_wait (e : event) : bool := match e with EvW _ _ => true | _ => false end.

Lemma filter_is_wait_map_EvI : forall (A : Type) (f : A -> Z) (l : list A),
  filter is_wait (map (fun e => EvI (f e)) l) = [].
Proof.
  intros A f l. induction l as [|a l IH]; [reflexivity|]. cbn [map filter is_wait]. exact IH.
Qed.

Lemma batch_events_waits : forall coll b, length (filter is_wait (batch_events coll b)) = 1%nat.
Proof.
  intros coll b. unfold batch_events. rewrite filter_app.
  rewrite (filter_is_wait_map_EvI entry e_line). reflexivity.
Qed.

Lemma run_batches_cons : forall coll inj b r g pl,
  run_batches coll inj (b :: r) g pl =
  (batch_events coll b ++ fst (run_batches coll inj r (g + Z.of_nat (length (valid_entries b)))
                                            (deliver_c b (batch_stats inj g b) pl)),
   snd (run_batches coll inj r (g + Z.of_nat (length (valid_entries b)))
                    (deliver_c b (batch_stats inj g b) pl))).
Proof. reflexivity. Qed.

(** one wait per batch *)
Lemma run_batches_waits : forall coll inj bs g pl,
  length (filter is_wait (fst (run_batches coll inj bs g pl))) = length bs.
Proof.
  intros coll inj bs. induction bs as [|b r IH]; intros g pl.
  - reflexivity.
  - rewrite run_batches_cons. cbn [fst]. rewrite filter_app, app_length.
    rewrite batch_events_waits. rewrite IH. reflexivity.
Qed.

(** every wait of the batch loop carries the mode of the flush *)
Lemma run_batches_wait_mode : forall coll inj bs g pl n c,
  In (EvW n c) (fst (run_batches coll inj bs g pl)) -> c = coll.
Proof.
  intros coll inj bs. induction bs as [|b r IH]; intros g pl n c H.
  - destruct H.
  - rewrite run_batches_cons in H. cbn [fst] in H. apply in_app_or in H. destruct H as [H | H].
    + unfold batch_events in H. apply in_app_or in H. destruct H as [H | H].
      * apply in_map_iff in H. destruct H as [x [Hx _]]. discriminate Hx.
      * destruct H as [H | []]. inversion H. reflexivity.
    + eapply IH. exact H.
Qed.

Lemma filter_is_wait_repeat : forall n c k, filter is_wait (repeat (EvW n c) k) = repeat (EvW n c) k.
Proof.
  intros n c k. induction k as [|k IH]; [reflexivity|]. cbn [repeat filter is_wait]. rewrite IH. reflexivity.
Qed.

Theorem flush_core_rank_ok : forall hint indep inj nall l pl g,
  log_ok l -> count_loop (buffer_size hint l) (l_entries l) <= nall ->
  exists fr, flush_core_rank hint indep inj nall l pl g = Some fr
    /\ concat (fr_batches fr) = l_entries l
    /\ 0 <= fr_trailing fr
    /\ Z.of_nat (length (filter is_wait (fr_events fr))) = nall
    (* additional facts used at session level *)
    /\ fr_trailing fr = nall - Z.of_nat (length (fr_batches fr))
    /\ (l_entries l <> [] ->
        Z.of_nat (length (fr_batches fr)) = count_loop (buffer_size hint l) (l_entries l))
    /\ (l_entries l = [] -> fr_batches fr = [] /\ fr_trailing fr = nall)
    /\ (forall b, In b (fr_batches fr) -> b <> [])
    /\ fr_events fr = fst (run_batches (negb indep) inj (fr_batches fr) g pl)
                      ++ repeat (EvW 0 true) (Z.to_nat (fr_trailing fr))
    /\ fr_putlist fr = fst (snd (run_batches (negb indep) inj (fr_batches fr) g pl))
    /\ fr_g fr = snd (snd (run_batches (negb indep) inj (fr_batches fr) g pl)).
Proof.
  intros hint indep inj nall l pl g Hl Hn.
  destruct (rounds_agree_partial (buffer_size hint l) (l_entries l) (flush_buffer_fits hint l Hl))
    as (bs & Hbl & Hcat & Hne & Hcount & Hnil & _).
  unfold flush_core_rank. cbv zeta. rewrite Hbl.
  assert (Htr : 0 <= nall - Z.of_nat (length bs)).
  { destruct (l_entries l) as [|e r] eqn:Ees.
    - destruct (Hnil eq_refl) as [Hbs H1]. subst bs. cbn [length]. lia.
    - rewrite Hcount by discriminate. lia. }
  destruct (nall - Z.of_nat (length bs) <? 0) eqn:Elt; [apply Z.ltb_lt in Elt; lia|].
  eexists. split; [reflexivity|]. cbn [fr_batches fr_trailing fr_events fr_putlist fr_g].
  split; [exact Hcat|]. split; [exact Htr|].
  split.
  { rewrite filter_app, app_length, run_batches_waits, filter_is_wait_repeat, repeat_length. lia. }
  split; [reflexivity|]. split; [exact Hcount|].
  split.
  { intro E. destruct (Hnil E) as [Hbs _]. subst bs. split; [reflexivity | cbn [length]; lia]. }
  split; [exact Hne|]. repeat split.
Qed.

Example flush_core_rank_ok_ex :
  let l := mkLogst ex_log3 30 9 0 in
  log_ok l /\ buffer_size 10 l = 10 /\ count_loop (buffer_size 10 l) (l_entries l) = 2 /\
  (exists fr, flush_core_rank 10 false (fun _ => 0) 3 l [] 0 = Some fr /\ fr_trailing fr = 1 /\
     fr_events fr = [EvI 1; EvW 1 true; EvI 3; EvW 1 true; EvW 0 true]).
Proof.
  cbv zeta. split; [|split; [|split]].
  - intros e [H | [H | [H | []]]]; subst e; cbn [e_datalen ex_entry l_maxentry]; lia.
  - vm_compute. reflexivity.
  - vm_compute. reflexivity.
  - eexists. split; [vm_compute; reflexivity|]. split; reflexivity.
Qed.

Lemma fold_left_zmax_ge : forall l a,
  a <= fold_left Z.max l a /\ forall x, In x l -> x <= fold_left Z.max l a.
Proof.
  induction l as [|y l IH]; intros a.
  - cbn [fold_left]. split; [lia | intros x []].
  - cbn [fold_left]. destruct (IH (Z.max a y)) as [H1 H2]. split; [lia|].
    intros x [Hx | Hx]; [subst x; lia | apply H2; exact Hx].
Qed.

Lemma zmax_list_ge : forall l x, In x l -> x <= zmax_list l.
Proof. intros l x H. unfold zmax_list. apply (proj2 (fold_left_zmax_ge l 0)). exact H. Qed.

Lemma zmax_list_nonneg : forall l, 0 <= zmax_list l.
Proof. intros l. unfold zmax_list. apply (proj1 (fold_left_zmax_ge l 0)). Qed.

(** MPI_Allreduce(MAX) of the round counts dominates every rank's own count
    (the [Forall] hypothesis is not needed for this inequality; it is kept because the
    consumer [flush_all_rank_ok] needs it) *)
Theorem collective_rounds_agree : forall cfg rs, Forall (fun r => log_ok (r_log r)) rs ->
  forall r, In r rs -> rank_rounds cfg r <= zmax_list (map (rank_rounds cfg) rs).
Proof.
  intros cfg rs _ r Hin. apply zmax_list_ge. apply in_map. exact Hin.
Qed.

(** hence in a collective flush every rank completes, with exactly [nall] waits *)
Corollary flush_all_rank_ok : forall cfg rs, Forall (fun r => log_ok (r_log r)) rs ->
  forall r inj, In r rs ->
  let nall := zmax_list (map (rank_rounds cfg) rs) in
  exists fr, flush_core_rank (c_hint cfg) false inj nall (r_log r) (r_pl r) (r_g r) = Some fr
    /\ concat (fr_batches fr) = l_entries (r_log r)
    /\ 0 <= fr_trailing fr
    /\ Z.of_nat (length (filter is_wait (fr_events fr))) = nall
    /\ (length (fr_batches fr) <= Z.to_nat nall)%nat.
Proof.
  intros cfg rs Hall r inj Hin nall.
  assert (Hl : log_ok (r_log r)) by (rewrite Forall_forall in Hall; apply Hall; exact Hin).
  pose proof (collective_rounds_agree cfg rs Hall r Hin) as Hle. fold nall in Hle. unfold rank_rounds in Hle.
  destruct (flush_core_rank_ok (c_hint cfg) false inj nall (r_log r) (r_pl r) (r_g r) Hl Hle)
    as (fr & Hfr & Hcat & Htr & Hw & Htreq & _).
  exists fr. repeat (split; [assumption|]). lia.
Qed.

(** the whole collective never spins *)
Lemma flush_ranks_ok : forall cfg nall rs k, Forall (fun r => log_ok (r_log r)) rs ->
  (forall r, In r rs -> rank_rounds cfg r <= nall) ->
  exists l, flush_ranks cfg nall k rs = Some l /\ length l = length rs.
Proof.
  intros cfg nall rs. induction rs as [|r rest IH]; intros k Hall Hle.
  - exists []. split; reflexivity.
  - inversion Hall as [|x xs Hr Hrest]; subst.
    destruct (flush_core_rank_ok (c_hint cfg) false (c_inj cfg k) nall (r_log r) (r_pl r) (r_g r) Hr
                (Hle r (or_introl eq_refl))) as (fr & Hfr & _).
    destruct (IH (S k) Hrest (fun x Hx => Hle x (or_intror Hx))) as (l & Hl & Hlen).
    cbn [flush_ranks]. rewrite Hfr, Hl. eexists. split; [reflexivity|]. cbn [length]. rewrite Hlen. reflexivity.
Qed.

Example collective_rounds_agree_ex :
  let cfg := mkCfg 10 true (fun _ _ => 0) in
  let r1 := set_log (mkLogst ex_log3 30 9 0) rank_init in
  let rs := [r1; rank_init] in
  Forall (fun r => log_ok (r_log r)) rs /\ map (rank_rounds cfg) rs = [2; 1] /\
  zmax_list (map (rank_rounds cfg) rs) = 2.
Proof.
  cbv zeta. split; [|split].
  - constructor; [|constructor; [|constructor]].
    + intros e [H | [H | [H | []]]]; subst e; cbn; lia.
    + exact log_init_ok.
  - vm_compute. reflexivity.
  - vm_compute. reflexivity.
Qed.

(** an independent flush never issues a collective wait and has no trailing rounds *)
Theorem indep_no_collective_wait : forall hint inj l pl g, log_ok l -> l_entries l <> [] ->
  exists fr, flush_core_rank hint true inj (count_loop (buffer_size hint l) (l_entries l)) l pl g = Some fr
    /\ fr_trailing fr = 0
    /\ forall n, In (EvW n true) (fr_events fr) -> False.
Proof.
  intros hint inj l pl g Hl Hne.
  destruct (flush_core_rank_ok hint true inj (count_loop (buffer_size hint l) (l_entries l)) l pl g Hl
              (Z.le_refl _)) as (fr & Hfr & _ & _ & _ & Htreq & Hcount & _ & _ & Hev & _).
  exists fr. split; [exact Hfr|].
  assert (Ht0 : fr_trailing fr = 0) by (rewrite Htreq, (Hcount Hne); lia).
  split; [exact Ht0|].
  intros n Hin. rewrite Hev, Ht0 in Hin. cbn [Z.to_nat repeat] in Hin. rewrite app_nil_r in Hin.
  apply run_batches_wait_mode in Hin. discriminate Hin.
Qed.

Example indep_no_collective_wait_ex :
  let l := mkLogst ex_log3 30 9 0 in
  log_ok l /\ l_entries l <> [] /\
  (exists fr, flush_core_rank 10 true (fun _ => 0) (count_loop (buffer_size 10 l) (l_entries l)) l [] 0 = Some fr /\
     fr_events fr = [EvI 1; EvW 1 false; EvI 3; EvW 1 false]).
Proof.
  cbv zeta. split; [|split].
  - intros e [H | [H | [H | []]]]; subst e; cbn [e_datalen ex_entry l_maxentry]; lia.
  - discriminate.
  - eexists. split; vm_compute; reflexivity.
Qed.

(* ------------------------------------------------------------------------------------------- *)
(** ** E. Replay refines direct application, for any batching and any order inside a batch *)

Lemma log_writes_app : forall a b, log_writes (a ++ b) = log_writes a ++ log_writes b.
Proof. intros a b. unfold log_writes. apply flat_map_app. Qed.

Lemma log_writes_concat : forall bs, log_writes (concat bs) = concat (map log_writes bs).
Proof.
  induction bs as [|b bs IH]; [reflexivity|].
  cbn [concat map]. rewrite log_writes_app, IH. reflexivity.
Qed.

Section Order.
  Variable ord : list wr -> list wr.
  Hypothesis ord_perm : forall l, Permutation (ord l) l.

  (** applying chunk after chunk, each chunk in an order chosen by [ord] *)
  Definition apply_chunks (chunks : list (list wr)) (f : fmap) : fmap :=
    fold_left (fun f c => apply_writes (ord c) f) chunks f.

  Lemma apply_chunks_ext : forall chunks f g, (forall k, f k = g k) ->
    forall k, apply_chunks chunks f k = apply_chunks chunks g k.
  Proof.
    induction chunks as [|c chunks IH]; intros f g H k.
    - apply H.
    - unfold apply_chunks. cbn [fold_left]. apply IH. intro k'. apply apply_writes_ext. exact H.
  Qed.

  Lemma apply_chunks_concat : forall chunks f, NoDup (map fst (concat chunks)) ->
    forall k, apply_chunks chunks f k = apply_writes (concat chunks) f k.
  Proof.
    induction chunks as [|c chunks IH]; intros f Hnd k.
    - reflexivity.
    - cbn [concat] in Hnd. rewrite map_app in Hnd.
      unfold apply_chunks. cbn [fold_left concat]. fold (apply_chunks chunks (apply_writes (ord c) f)).
      rewrite apply_writes_app.
      rewrite (apply_chunks_ext chunks (apply_writes (ord c) f) (apply_writes c f)).
      + apply IH. eapply NoDup_app_r. exact Hnd.
      + intro k'. symmetry. apply apply_writes_perm.
        * apply Permutation_sym. apply ord_perm.
        * eapply NoDup_app_l. exact Hnd.
  Qed.

  (** the general order-independence lemma *)
  Lemma apply_sequence_perm : forall chunks ws f, Permutation (concat chunks) ws ->
    NoDup (map fst ws) ->
    forall k, apply_chunks chunks f k = apply_writes ws f k.
  Proof.
    intros chunks ws f Hp Hnd k.
    assert (Hnd' : NoDup (map fst (concat chunks))).
    { apply (Permutation_NoDup (l := map fst ws)); [|exact Hnd].
      apply Permutation_map. apply Permutation_sym. exact Hp. }
    rewrite (apply_chunks_concat chunks f Hnd' k).
    apply apply_writes_perm; assumption.
  Qed.

  Lemma replay_chunks : forall bs f, replay ord bs f = apply_chunks (map log_writes bs) f.
  Proof.
    intros bs f. unfold replay, apply_chunks, commit_batch.
    rewrite fold_left_map_comp. reflexivity.
  Qed.

  Theorem flush_refines_direct_ord : forall bs f,
    NoDup (map fst (log_writes (concat bs))) ->
    forall k, replay ord bs f k = apply_writes (log_writes (concat bs)) f k.
  Proof.
    intros bs f Hnd k. rewrite replay_chunks. rewrite log_writes_concat in *.
    apply apply_chunks_concat. exact Hnd.
  Qed.

  (** *** Multi-rank rounds *)

  Lemma replay_rounds_chunks : forall bss n f,
    replay_rounds ord bss n f =
    apply_chunks (map (fun k => log_writes (round_entries bss k)) (seq 0 n)) f.
  Proof.
    intros bss n f. unfold replay_rounds, apply_chunks, commit_batch.
    rewrite fold_left_map_comp. reflexivity.
  Qed.
End Order.

Lemma flat_map_app_perm : forall (A B : Type) (f g : A -> list B) (l : list A),
  Permutation (flat_map (fun x => f x ++ g x) l) (flat_map f l ++ flat_map g l).
Proof.
  intros A B f g l. induction l as [|a l IH].
  - apply perm_nil.
  - cbn [flat_map]. rewrite <- !app_assoc. apply Permutation_app_head.
    eapply Permutation_trans; [apply Permutation_app_head; exact IH|].
    apply Permutation_app_swap_app.
Qed.

(** reading one rank's batches round by round gives back its log, if [n] bounds the number of batches *)
Lemma rounds_of_rank : forall (bs : list (list entry)) n, (length bs <= n)%nat ->
  flat_map (fun k => log_writes (nth k bs [])) (seq 0 n) = log_writes (concat bs).
Proof.
  induction bs as [|b bs IH]; intros n Hlen.
  - apply flat_map_nil_all. intros k _. destruct k; reflexivity.
  - destruct n as [|n]; [cbn [length] in Hlen; lia|].
    cbn [seq flat_map nth concat]. rewrite log_writes_app. f_equal.
    rewrite <- seq_shift. rewrite flat_map_map_comp. cbn [nth].
    apply IH. cbn [length] in Hlen. lia.
Qed.

Lemma round_entries_cons : forall bs bss k,
  round_entries (bs :: bss) k = nth k bs [] ++ round_entries bss k.
Proof. reflexivity. Qed.

Lemma rounds_perm : forall bss n, (forall bs, In bs bss -> (length bs <= n)%nat) ->
  Permutation (flat_map (fun k => log_writes (round_entries bss k)) (seq 0 n))
              (flat_map (fun bs => log_writes (concat bs)) bss).
Proof.
  induction bss as [|bs bss IH]; intros n Hlen.
  - cbn [flat_map]. rewrite flat_map_nil_all; [apply perm_nil | reflexivity].
  - cbn [flat_map].
    rewrite (flat_map_ext (fun k => log_writes (round_entries (bs :: bss) k))
                          (fun k => log_writes (nth k bs []) ++ log_writes (round_entries bss k))).
    + eapply Permutation_trans; [apply flat_map_app_perm|].
      rewrite (rounds_of_rank bs n (Hlen bs (or_introl eq_refl))).
      apply Permutation_app_head. apply IH. intros x Hx. apply Hlen. right. exact Hx.
    + intro k. rewrite round_entries_cons. apply log_writes_app.
Qed.

Theorem flush_refines_direct : forall ord, (forall l, Permutation (ord l) l) -> forall bs f,
  NoDup (map fst (log_writes (concat bs))) ->
  forall k, replay ord bs f k = apply_writes (log_writes (concat bs)) f k.
Proof. intros ord Hord bs f Hnd k. apply flush_refines_direct_ord; assumption. Qed.

Theorem replay_rounds_refines : forall ord, (forall l, Permutation (ord l) l) -> forall bss n f,
  (forall bs, In bs bss -> (length bs <= n)%nat) ->
  NoDup (map fst (flat_map (fun bs => log_writes (concat bs)) bss)) ->
  forall k, replay_rounds ord bss n f k = apply_writes (flat_map (fun bs => log_writes (concat bs)) bss) f k.
Proof.
  intros ord Hord bss n f Hlen Hnd k. rewrite replay_rounds_chunks.
  apply (apply_sequence_perm ord Hord); [|exact Hnd].
  rewrite <- flat_map_concat_map. apply rounds_perm. exact Hlen.
Qed.

(** the SPEC side: a sequence of direct puts *)
Lemma direct_puts_map : forall reqs f0,
  lf_map (fold_left (fun f r => direct_put r f) reqs f0) = apply_writes (flat_map req_writes reqs) (lf_map f0).
Proof.
  induction reqs as [|r reqs IH]; intros f0.
  - reflexivity.
  - cbn [fold_left flat_map]. rewrite IH. rewrite apply_writes_app. reflexivity.
Qed.

Lemma direct_puts_numrecs : forall reqs f0,
  lf_numrecs (fold_left (fun f r => direct_put r f) reqs f0)
  = fold_left (fun m r => Z.max m (req_recs r)) reqs (lf_numrecs f0).
Proof.
  induction reqs as [|r reqs IH]; intros f0.
  - reflexivity.
  - cbn [fold_left]. rewrite IH. reflexivity.
Qed.

(** examples: two entries writing distinct elements (plus a cancelled one), reversed inside a batch *)
Definition ex_w1 : request := RVar 1 false 4 [0] (Some [2]) None [10; 11].
Definition ex_w2 : request := RVar 1 false 4 [2] (Some [2]) None [12; 13].
Definition ex_e (valid : bool) (r : request) (line : Z) : entry := mkEntry valid (-1) 64 BB_KIND_VARA 0 8 r line.
Definition ex_bs : list (list entry) := [[ex_e true ex_w1 1; ex_e false ex_w1 2]; [ex_e true ex_w2 3]].

Example flush_refines_direct_ex :
  (forall l : list wr, Permutation (rev l) l) /\
  NoDup (map fst (log_writes (concat ex_bs))) /\
  map (fun i => replay (@rev wr) ex_bs fempty (1, [i])) [0; 1; 2; 3; 4]
    = [Some 10; Some 11; Some 12; Some 13; None].
Proof.
  split; [|split].
  - intro l. apply Permutation_sym. apply Permutation_rev.
  - vm_compute. repeat constructor; cbn; intuition discriminate.
  - vm_compute. reflexivity.
Qed.

Example replay_rounds_refines_ex :
  let bss := [ex_bs; [[ex_e true (RVar 2 false 4 [0] (Some [1]) None [99]) 4]]] in
  (forall bs, In bs bss -> (length bs <= 2)%nat) /\
  NoDup (map fst (flat_map (fun bs => log_writes (concat bs)) bss)) /\
  replay_rounds (@rev wr) bss 2 fempty (2, [0]) = Some 99 /\
  replay_rounds (@rev wr) bss 2 fempty (1, [3]) = Some 13.
Proof.
  cbv zeta. split; [|split; [|split]].
  - intros bs [H | [H | []]]; subst bs; cbn [length ex_bs]; lia.
  - vm_compute. repeat constructor; cbn; intuition discriminate.
  - vm_compute. reflexivity.
  - vm_compute. reflexivity.
Qed.

(* ------------------------------------------------------------------------------------------- *)
(** ** F. Status delivery (the status loop of ncbbio_log_flush_core) *)

(** *** put-list lemmas *)

Lemma pl_get_set_same : forall pl id p, pl_get pl id <> None -> pl_get (pl_set pl id p) id = Some p.
Proof.
  induction pl as [|ip pl IH]; intros id p H.
  - contradiction H. reflexivity.
  - cbn [pl_get pl_set] in *. destruct (fst ip =? id) eqn:E.
    + cbn [pl_get fst snd]. rewrite Z.eqb_refl. reflexivity.
    + cbn [pl_get]. rewrite E. apply IH. exact H.
Qed.

Lemma pl_get_set_other : forall pl id p id', id' <> id -> pl_get (pl_set pl id p) id' = pl_get pl id'.
Proof.
  induction pl as [|ip pl IH]; intros id p id' H.
  - reflexivity.
  - cbn [pl_get pl_set]. destruct (fst ip =? id) eqn:E.
    + cbn [pl_get fst snd]. apply Z.eqb_eq in E.
      replace (id =? id') with false by (symmetry; apply Z.eqb_neq; lia).
      replace (fst ip =? id') with false by (symmetry; apply Z.eqb_neq; lia). reflexivity.
    + cbn [pl_get]. destruct (fst ip =? id'); [reflexivity|]. apply IH. exact H.
Qed.

Lemma pl_set_keys : forall pl id p, map fst (pl_set pl id p) = map fst pl.
Proof.
  induction pl as [|ip pl IH]; intros id p.
  - reflexivity.
  - cbn [pl_set]. destruct (fst ip =? id) eqn:E.
    + cbn [map fst]. apply Z.eqb_eq in E. rewrite E. reflexivity.
    + cbn [map]. rewrite IH. reflexivity.
Qed.

Lemma pl_complete_same : forall pl id st p, pl_get pl id = Some p ->
  pl_get (pl_complete pl id st) id = Some (mkPreq true st (p_start p) (p_end p)).
Proof.
  intros pl id st p H. unfold pl_complete. rewrite H. apply pl_get_set_same. rewrite H. discriminate.
Qed.

Lemma pl_complete_other : forall pl id st id', id' <> id -> pl_get (pl_complete pl id st) id' = pl_get pl id'.
Proof.
  intros pl id st id' H. unfold pl_complete. destruct (pl_get pl id); [|reflexivity].
  apply pl_get_set_other. exact H.
Qed.

Lemma pl_complete_keys : forall pl id st, map fst (pl_complete pl id st) = map fst pl.
Proof.
  intros pl id st. unfold pl_complete. destruct (pl_get pl id); [apply pl_set_keys | reflexivity].
Qed.

Lemma pl_complete_present : forall pl id st id', pl_get pl id' <> None -> pl_get (pl_complete pl id st) id' <> None.
Proof.
  intros pl id st id' H. destruct (Z.eq_dec id' id) as [E | E].
  - subst id'. destruct (pl_get pl id) as [p|] eqn:Eg; [|contradiction H; reflexivity].
    rewrite (pl_complete_same pl id st p Eg). discriminate.
  - rewrite pl_complete_other by exact E. exact H.
Qed.

(** *** the loop *)

Lemma deliver_loop_cons : forall ri e r stats j pl,
  deliver_loop ri (e :: r) stats j pl =
  if e_valid e
  then deliver_loop ri r stats (S (if ri then 0%nat else j))
         (if 0 <=? e_reqid e then pl_complete pl (e_reqid e) (nth (if ri then 0%nat else j) stats 0) else pl)
  else deliver_loop ri r stats (if ri then 0%nat else j) pl.
Proof. reflexivity. Qed.

(** the nonblocking requests of a batch: valid entries with a request id *)
Definition batch_reqids (batch : list entry) : list Z :=
  map e_reqid (filter (fun e => 0 <=? e_reqid e) (valid_entries batch)).

(** what a correct status loop must do, parameterised by the loop *)
Definition delivers (loop : list entry -> list Z -> putlist -> putlist) : Prop :=
  forall batch stats pl,
    NoDup (batch_reqids batch) ->
    (forall e, In e (valid_entries batch) -> 0 <= e_reqid e -> pl_get pl (e_reqid e) <> None) ->
    (forall j e, nth_error (valid_entries batch) j = Some e -> 0 <= e_reqid e ->
       exists p', pl_get (loop batch stats pl) (e_reqid e) = Some p'
                  /\ p_ready p' = true /\ p_status p' = nth j stats 0)
    /\ (forall id, (forall e, In e (valid_entries batch) -> 0 <= e_reqid e -> e_reqid e <> id) ->
          pl_get (loop batch stats pl) id = pl_get pl id).

Lemma valid_entries_cons : forall e r,
  valid_entries (e :: r) = if e_valid e then e :: valid_entries r else valid_entries r.
Proof. reflexivity. Qed.

(** general form: the loop entered with counter [j0]; [pick] says which status index an entry
    at valid-position [j] receives ([j0 + j] for the fixed loop, [0] for the old one) *)
Lemma deliver_loop_gen : forall ri batch stats j0 pl,
  NoDup (batch_reqids batch) ->
  (forall e, In e (valid_entries batch) -> 0 <= e_reqid e -> pl_get pl (e_reqid e) <> None) ->
  (forall j e, nth_error (valid_entries batch) j = Some e -> 0 <= e_reqid e ->
     exists p', pl_get (deliver_loop ri batch stats j0 pl) (e_reqid e) = Some p'
                /\ p_ready p' = true
                /\ p_status p' = nth (if ri then 0%nat else (j0 + j)%nat) stats 0)
  /\ (forall id, (forall e, In e (valid_entries batch) -> 0 <= e_reqid e -> e_reqid e <> id) ->
        pl_get (deliver_loop ri batch stats j0 pl) id = pl_get pl id).
Proof.
  intros ri batch stats. induction batch as [|e r IH]; intros j0 pl Hnd Hpres.
  - split.
    + intros j x Hj. destruct j; discriminate Hj.
    + intros id _. reflexivity.
  - rewrite deliver_loop_cons. unfold batch_reqids in Hnd. rewrite valid_entries_cons in Hnd, Hpres |- *.
    destruct (e_valid e) eqn:Ev.
    + (* valid entry *)
      cbn [filter] in Hnd.
      destruct (0 <=? e_reqid e) eqn:Eid.
      * (* nonblocking: status delivered *)
        apply Z.leb_le in Eid. cbn [map] in Hnd.
        inversion Hnd as [|x l Hnin Hnd']; subst.
        fold (batch_reqids r) in Hnin, Hnd'.
        set (jj := if ri then 0%nat else j0) in *.
        set (pl' := pl_complete pl (e_reqid e) (nth jj stats 0)).
        assert (Hpres' : forall x, In x (valid_entries r) -> 0 <= e_reqid x -> pl_get pl' (e_reqid x) <> None).
        { intros x Hx Hx0. apply pl_complete_present. apply Hpres; [right; exact Hx | exact Hx0]. }
        destruct (IH (S jj) pl' Hnd' Hpres') as [IH1 IH2].
        assert (Hfresh : forall x, In x (valid_entries r) -> 0 <= e_reqid x -> e_reqid x <> e_reqid e).
        { intros x Hx Hx0 Heq. apply Hnin. unfold batch_reqids. rewrite <- Heq.
          apply in_map. apply filter_In. split; [exact Hx | apply Z.leb_le; exact Hx0]. }
        split.
        -- intros j x Hj Hx0. destruct j as [|j].
           ++ cbn [nth_error] in Hj. inversion Hj; subst x.
              rewrite (IH2 (e_reqid e) Hfresh).
              destruct (pl_get pl (e_reqid e)) as [p|] eqn:Eg.
              ** unfold pl'. rewrite (pl_complete_same pl (e_reqid e) _ p Eg).
                 eexists. split; [reflexivity|]. cbn [p_ready p_status]. split; [reflexivity|].
                 unfold jj. destruct ri; [reflexivity|]. rewrite Nat.add_0_r. reflexivity.
              ** exfalso. apply (Hpres e (or_introl eq_refl) Eid). exact Eg.
           ++ cbn [nth_error] in Hj. destruct (IH1 j x Hj Hx0) as (p' & Hg & Hr & Hs).
              exists p'. split; [exact Hg|]. split; [exact Hr|]. rewrite Hs.
              unfold jj. destruct ri; [reflexivity|].
              replace (S j0 + j)%nat with (j0 + S j)%nat by lia. reflexivity.
        -- intros id Hid. rewrite IH2.
           ++ unfold pl'. apply pl_complete_other. intro Heq. apply (Hid e (or_introl eq_refl) Eid). symmetry. exact Heq.
           ++ intros x Hx Hx0. apply Hid; [right; exact Hx | exact Hx0].
      * (* blocking put: nothing to deliver, but the counter advances *)
        apply Z.leb_gt in Eid. fold (batch_reqids r) in Hnd.
        set (jj := if ri then 0%nat else j0) in *.
        assert (Hpres' : forall x, In x (valid_entries r) -> 0 <= e_reqid x -> pl_get pl (e_reqid x) <> None).
        { intros x Hx Hx0. apply Hpres; [right; exact Hx | exact Hx0]. }
        destruct (IH (S jj) pl Hnd Hpres') as [IH1 IH2].
        split.
        -- intros j x Hj Hx0. destruct j as [|j].
           ++ cbn [nth_error] in Hj. inversion Hj; subst x. lia.
           ++ cbn [nth_error] in Hj. destruct (IH1 j x Hj Hx0) as (p' & Hg & Hr & Hs).
              exists p'. split; [exact Hg|]. split; [exact Hr|]. rewrite Hs.
              unfold jj. destruct ri; [reflexivity|].
              replace (S j0 + j)%nat with (j0 + S j)%nat by lia. reflexivity.
        -- intros id Hid. apply IH2. intros x Hx Hx0. apply Hid; [right; exact Hx | exact Hx0].
    + (* cancelled entry: skipped, counter unchanged *)
      fold (batch_reqids r) in Hnd.
      set (jj := if ri then 0%nat else j0) in *.
      destruct (IH jj pl Hnd Hpres) as [IH1 IH2].
      split.
      * intros j x Hj Hx0. destruct (IH1 j x Hj Hx0) as (p' & Hg & Hr & Hs).
        exists p'. split; [exact Hg|]. split; [exact Hr|]. rewrite Hs.
        unfold jj. destruct ri; reflexivity.
      * exact IH2.
Qed.

(** the loop with [j = 0] before the loop is correct *)
Theorem deliver_fixed_correct : delivers (fun batch stats pl => deliver_loop false batch stats 0 pl).
Proof.
  intros batch stats pl Hnd Hpres.
  destruct (deliver_loop_gen false batch stats 0%nat pl Hnd Hpres) as [H1 H2].
  split; [|exact H2].
  intros j e Hj He. destruct (H1 j e Hj He) as (p' & Hg & Hr & Hs).
  exists p'. split; [exact Hg|]. split; [exact Hr|]. rewrite Hs. reflexivity.
Qed.

(** the loop of the tree as built is that loop *)
Theorem status_delivery : delivers deliver_c.
Proof.
  unfold deliver_c. change bb_status_j_reset_inside with false. exact deliver_fixed_correct.
Qed.

(** explicit form of [status_delivery], for use without unfolding [delivers] *)
Corollary status_delivery_explicit : forall batch stats pl,
  NoDup (batch_reqids batch) ->
  (forall e, In e (valid_entries batch) -> 0 <= e_reqid e -> pl_get pl (e_reqid e) <> None) ->
  (forall j e, nth_error (valid_entries batch) j = Some e -> 0 <= e_reqid e ->
     exists p', pl_get (deliver_c batch stats pl) (e_reqid e) = Some p'
                /\ p_ready p' = true /\ p_status p' = nth j stats 0)
  /\ (forall id, (forall e, In e (valid_entries batch) -> 0 <= e_reqid e -> e_reqid e <> id) ->
        pl_get (deliver_c batch stats pl) id = pl_get pl id).
Proof. exact status_delivery. Qed.

(** the status loop never changes which ids are in the put list *)
Lemma deliver_loop_keys : forall ri batch stats j pl, map fst (deliver_loop ri batch stats j pl) = map fst pl.
Proof.
  intros ri batch stats. induction batch as [|e r IH]; intros j pl.
  - reflexivity.
  - rewrite deliver_loop_cons. destruct (e_valid e).
    + rewrite IH. destruct (0 <=? e_reqid e); [apply pl_complete_keys | reflexivity].
    + apply IH.
Qed.

(** the loop with [j = 0] inside the loop (tree before adb6eb2b, finding F10) *)
Definition status_delivery_old_full : Prop :=
  delivers (fun batch stats pl => deliver_loop true batch stats 0 pl).

Definition ex_pl2 : putlist := [(0, mkPreq false 0 0 1); (1, mkPreq false 0 1 2)].
Definition ex_batch2 : list entry := [ex_entry true 0 4 1; ex_entry true 1 4 2].

Lemma status_delivery_old_refuted : ~ status_delivery_old_full.
Proof.
  intro H. destruct (H ex_batch2 [0; -5] ex_pl2) as [H1 _].
  - vm_compute. constructor; [intros [E | []]; discriminate E|]. constructor; [intros []|]. constructor.
  - intros e [E | [E | []]] _; subst e; vm_compute; discriminate.
  - destruct (H1 1%nat (ex_entry true 1 4 2) eq_refl) as (p' & Hg & _ & Hs).
    + cbn [e_reqid ex_entry]. lia.
    + vm_compute in Hg. inversion Hg; subst p'. vm_compute in Hs. discriminate Hs.
Qed.

(** what the old loop does: every request of the batch gets the status of the FIRST replayed put *)
Theorem status_delivery_old_partial : forall batch stats pl,
  NoDup (batch_reqids batch) ->
  (forall e, In e (valid_entries batch) -> 0 <= e_reqid e -> pl_get pl (e_reqid e) <> None) ->
  (forall j e, nth_error (valid_entries batch) j = Some e -> 0 <= e_reqid e ->
     exists p', pl_get (deliver_loop true batch stats 0 pl) (e_reqid e) = Some p'
                /\ p_ready p' = true /\ p_status p' = nth 0 stats 0)
  /\ (forall id, (forall e, In e (valid_entries batch) -> 0 <= e_reqid e -> e_reqid e <> id) ->
        pl_get (deliver_loop true batch stats 0 pl) id = pl_get pl id).
Proof.
  intros batch stats pl Hnd Hpres.
  exact (deliver_loop_gen true batch stats 0%nat pl Hnd Hpres).
Qed.

(** a 3-entry batch with one cancelled entry and one blocking put *)
Example status_delivery_ex :
  let batch := [ex_entry true 1 4 1; ex_entry false 0 4 2; ex_entry true (-1) 4 3; ex_entry true 0 4 4] in
  NoDup (batch_reqids batch) /\
  (forall e, In e (valid_entries batch) -> 0 <= e_reqid e -> pl_get ex_pl2 (e_reqid e) <> None) /\
  map (fun id => option_map p_status (pl_get (deliver_c batch [-7; 0; -9] ex_pl2) id)) [0; 1] = [Some (-9); Some (-7)] /\
  map (fun id => option_map p_status (pl_get (deliver_loop true batch [-7; 0; -9] 0 ex_pl2) id)) [0; 1]
    = [Some (-7); Some (-7)].
Proof.
  cbv zeta. split; [|split; [|split]].
  - vm_compute. constructor; [intros [E | []]; discriminate E|]. constructor; [intros []|]. constructor.
  - intros e [E | [E | [E | []]]] H0; subst e; vm_compute; try discriminate. vm_compute in H0. contradiction H0. reflexivity.
  - vm_compute. reflexivity.
  - vm_compute. reflexivity.
Qed.

(* ------------------------------------------------------------------------------------------- *)
(** ** G. Record-count rule: the driver's recdimsize follows the default driver's rule *)

Lemma hd_ones : forall n, hd 1 (ones n) = 1.
Proof. intros [|n]; reflexivity. Qed.

Lemma zprod_ones : forall n, zprod (ones n) = 1.
Proof.
  induction n as [|n IH]; [reflexivity|].
  unfold ones, zprod in *. cbn [repeat fold_right]. rewrite IH. reflexivity.
Qed.

(** (no hypothesis on lengths is needed: [hd 1 (ones n) = 1] also for [n = 0]) *)
Lemma bb_recsize_eq_default : forall elsz st c t, put_size_var elsz (Some c) <> 0 ->
  bb_recsize_var st (Some c) t = recs_of st c (eff_count (length st) t).
Proof.
  intros elsz st c t Hp. unfold put_size_var in Hp. unfold recs_of.
  destruct (zprod c =? 0) eqn:Ez.
  - apply Z.eqb_eq in Ez. rewrite Ez in Hp. contradiction Hp. apply Z.mul_0_r.
  - unfold bb_recsize_var, eff_count. destruct t as [t|].
    + reflexivity.
    + rewrite hd_ones. lia.
Qed.

(** same, also covering [count = NULL] (var1-like: one element) *)
Lemma bb_recsize_eq_default_gen : forall st cnt t,
  zprod (eff_count (length st) cnt) <> 0 ->
  bb_recsize_var st cnt t = recs_of st (eff_count (length st) cnt) (eff_count (length st) t).
Proof.
  intros st cnt t Hp. unfold recs_of.
  destruct (zprod (eff_count (length st) cnt) =? 0) eqn:Ez; [apply Z.eqb_eq in Ez; contradiction|].
  unfold bb_recsize_var, eff_count. destruct t as [t|]; destruct cnt as [c|]; rewrite ?hd_ones; lia.
Qed.

Theorem log_put_recdim_var : forall line vid elsz st c t data l,
  0 < elsz -> 0 <= l_recdim l ->
  let r := RVar vid true elsz st (Some c) t data in
  l_recdim (log_put line r l) = Z.max (l_recdim l) (req_recs r).
Proof.
  intros line vid elsz st c t data l He Hrd r. unfold r, log_put, req_recs. cbn [req_isrec negb].
  destruct (put_size_var elsz (Some c) =? 0) eqn:Ep.
  - (* empty request: skipped by the driver, contributes 0 records *)
    apply Z.eqb_eq in Ep. unfold put_size_var in Ep.
    assert (Hz : zprod c = 0) by nia.
    unfold recs_of, eff_count at 1. rewrite Hz. cbn [Z.eqb]. lia.
  - apply Z.eqb_neq in Ep. cbv zeta. cbn [l_recdim].
    rewrite (bb_recsize_eq_default elsz st c t Ep). reflexivity.
Qed.

Example log_put_recdim_var_ex :
  l_recdim (log_put 1 ex_req3 log_init) = 5 /\ req_recs ex_req3 = 5 /\
  l_recdim (log_put 2 (RVar 1 true 4 [9; 0] (Some [0; 5]) None []) (log_put 1 ex_req3 log_init)) = 5.
Proof. vm_compute. repeat split. Qed.

Definition fmax_sub (hc : bool) (m : Z) (sc : list Z * option (list Z)) : Z := Z.max m (sub_recs hc sc).

Lemma fold_fmax_sub_max : forall hc subs a b,
  fold_left (fmax_sub hc) subs (Z.max a b) = Z.max a (fold_left (fmax_sub hc) subs b).
Proof.
  intros hc subs. induction subs as [|sc subs IH]; intros a b.
  - reflexivity.
  - cbn [fold_left]. unfold fmax_sub at 2 4. rewrite <- Z.max_assoc. apply IH.
Qed.

(** one step of the varn loop follows the default rule for that sub-request *)
Lemma varn_step_snd : forall elsz hc acc sc, 0 < elsz -> 0 <= snd acc ->
  snd (varn_step elsz true hc acc sc) = Z.max (snd acc) (sub_recs hc sc).
Proof.
  intros elsz hc acc sc He Hacc. unfold varn_step, sub_recs, recs_of. cbv zeta.
  destruct (sub_count hc sc) as [c|] eqn:Ec.
  - unfold put_size_var, eff_count.
    destruct (elsz * zprod c =? 0) eqn:Ep.
    + apply Z.eqb_eq in Ep. assert (Hz : zprod c = 0) by nia. rewrite Hz. cbn [Z.eqb snd]. lia.
    + apply Z.eqb_neq in Ep. assert (Hz : zprod c <> 0) by nia.
      apply Z.eqb_neq in Hz. rewrite Hz. cbn [snd]. rewrite hd_ones. f_equal. lia.
  - unfold put_size_var, eff_count. rewrite zprod_ones.
    replace (elsz * 1 =? 0) with false by (symmetry; apply Z.eqb_neq; lia).
    cbn [Z.eqb snd]. rewrite !hd_ones. f_equal. lia.
Qed.

Lemma varn_step_snd_nonneg : forall elsz hc acc sc, 0 <= snd acc -> 0 <= snd (varn_step elsz true hc acc sc).
Proof.
  intros elsz hc acc sc H. unfold varn_step. cbv zeta.
  destruct (put_size_var elsz (sub_count hc sc) =? 0); cbn [snd]; lia.
Qed.

Lemma varn_scan_snd : forall elsz hc subs acc, 0 < elsz -> 0 <= snd acc ->
  snd (fold_left (varn_step elsz true hc) subs acc) = fold_left (fmax_sub hc) subs (snd acc).
Proof.
  intros elsz hc subs. induction subs as [|sc subs IH]; intros acc He Hacc.
  - reflexivity.
  - cbn [fold_left]. rewrite IH; [|exact He | apply varn_step_snd_nonneg; exact Hacc].
    rewrite varn_step_snd by assumption. reflexivity.
Qed.

(** (holds for any [hascounts] and any sub-requests, with or without counts) *)
Theorem log_put_recdim_varn : forall line vid elsz subs hc data l,
  0 < elsz -> 0 <= l_recdim l ->
  let r := RVarn vid true elsz subs hc data in
  l_recdim (log_put line r l) = Z.max (l_recdim l) (req_recs r).
Proof.
  intros line vid elsz subs hc data l He Hrd r. unfold r, log_put, req_recs. cbn [req_isrec negb].
  cbv zeta. cbn [l_recdim]. unfold varn_scan.
  rewrite varn_scan_snd; [|exact He | exact Hrd]. cbn [snd].
  change (fun m sc => Z.max m (sub_recs hc sc)) with (fmax_sub hc).
  rewrite <- fold_fmax_sub_max. rewrite Z.max_l by exact Hrd. reflexivity.
Qed.

Example log_put_recdim_varn_ex :
  l_recdim (log_put 2 ex_reqn (log_put 1 ex_req3 log_init)) = 6 /\ req_recs ex_reqn = 6 /\
  l_recdim (log_put 1 ex_reqn log_init) = Z.max 0 (req_recs ex_reqn).
Proof. vm_compute. repeat split. Qed.

(* ------------------------------------------------------------------------------------------- *)
(** ** H. The log files are removed at close unless the user asked to keep them *)

Theorem log_removed_at_close : forall cfg ord w, w_logs (close_all cfg ord w) = negb (c_del cfg).
Proof.
  intros cfg ord w. unfold close_all. cbn [w_logs].
  change bb_unlink_on_close with true. destruct (c_del cfg); reflexivity.
Qed.

Example log_removed_at_close_ex :
  w_logs (close_all (mkCfg 0 true (fun _ _ => 0)) ord_id (world_init 2)) = false /\
  w_logs (close_all (mkCfg 0 false (fun _ _ => 0)) ord_id (world_init 2)) = true.
Proof. vm_compute. split; reflexivity. Qed.

(* ------------------------------------------------------------------------------------------- *)
(** ** End of Part I: assumptions of the main results *)

Print Assumptions rounds_agree.
Print Assumptions rounds_agree_partial.
Print Assumptions flush_refines_direct.
Print Assumptions replay_rounds_refines.
Print Assumptions status_delivery.
Print Assumptions collective_rounds_agree.

(* ------------------------------------------------------------------------------------------- *)
(** * Part II: sessions.  The burst-buffer world refines the default driver. *)

(** ** list surgery on the rank table *)
Lemma upd_nth_length : forall (A : Type) (k : nat) (x : A) (l : list A), length (upd_nth k x l) = length l.
Proof.
  intros A k x l. revert k. induction l as [|y r IH]; intros [|k]; cbn [upd_nth length]; try reflexivity.
  rewrite IH. reflexivity.
Qed.

Lemma upd_nth_split : forall (A : Type) (k : nat) (x : A) (l : list A), (k < length l)%nat ->
  upd_nth k x l = firstn k l ++ x :: skipn (S k) l.
Proof.
  intros A k x l. revert k. induction l as [|y r IH]; intros [|k] Hk; cbn [length] in Hk; try lia.
  - reflexivity.
  - cbn [upd_nth firstn skipn app]. f_equal. apply IH. lia.
Qed.

Lemma nth_split_eq : forall (A : Type) (k : nat) (d : A) (l : list A), (k < length l)%nat ->
  l = firstn k l ++ nth k l d :: skipn (S k) l.
Proof.
  intros A k d l. revert k. induction l as [|y r IH]; intros [|k] Hk; cbn [length] in Hk; try lia.
  - reflexivity.
  - cbn [firstn skipn nth app]. f_equal. apply IH. lia.
Qed.

Lemma upd_nth_ge : forall (A : Type) (k : nat) (x : A) (l : list A), (length l <= k)%nat -> upd_nth k x l = l.
Proof.
  intros A k x l. revert k. induction l as [|y r IH]; intros [|k] Hk; cbn [length] in Hk; try lia; try reflexivity.
  cbn [upd_nth]. f_equal. apply IH. lia.
Qed.

Lemma nth_upd_nth_same : forall (A : Type) (k : nat) (x d : A) (l : list A), (k < length l)%nat ->
  nth k (upd_nth k x l) d = x.
Proof.
  intros A k x d l. revert k. induction l as [|y r IH]; intros [|k] Hk; cbn [length] in Hk; try lia.
  - reflexivity.
  - cbn [upd_nth nth]. apply IH. lia.
Qed.

Lemma nth_upd_nth_other : forall (A : Type) (k j : nat) (x d : A) (l : list A), j <> k ->
  nth j (upd_nth k x l) d = nth j l d.
Proof.
  intros A k j x d l. revert k j. induction l as [|y r IH]; intros [|k] [|j] Hne; cbn [upd_nth nth]; try reflexivity; try lia.
  apply IH. lia.
Qed.

Lemma Forall_upd_nth : forall (A : Type) (P : A -> Prop) (k : nat) (x : A) (l : list A),
  Forall P l -> P x -> Forall P (upd_nth k x l).
Proof.
  intros A P k x l Hl Hx. revert k. induction Hl as [|y r Hy Hr IH]; intros [|k]; cbn [upd_nth]; constructor; auto.
Qed.

Lemma nth_overflow_default : forall (A : Type) (k : nat) (d : A) (l : list A), (length l <= k)%nat -> nth k l d = d.
Proof. intros. apply nth_overflow. assumption. Qed.

(** ** pending writes, eventual file, well-formed worlds *)
Definition rank_writes (r : rstate) : list wr := log_writes (l_entries (r_log r)).
Definition pending (w : world) : list wr := flat_map rank_writes (w_rs w).
Definition EB (w : world) : fmap := apply_writes (pending w) (w_file w).

Definition good (w : world) : Prop :=
  NoDup (map fst (pending w)) /\ Forall (fun r => log_ok (r_log r)) (w_rs w) /\ w_spin w = false.

Lemma rank_writes_init : rank_writes rank_init = [].
Proof. reflexivity. Qed.

Lemma get_rank_overflow : forall w k, (length (w_rs w) <= k)%nat -> get_rank w k = rank_init.
Proof. intros w k H. unfold get_rank. apply nth_overflow. exact H. Qed.

Lemma pending_split : forall w k, (k < length (w_rs w))%nat ->
  pending w = flat_map rank_writes (firstn k (w_rs w)) ++ rank_writes (get_rank w k)
              ++ flat_map rank_writes (skipn (S k) (w_rs w)).
Proof.
  intros w k Hk. unfold pending, get_rank.
  rewrite (nth_split_eq rstate k rank_init (w_rs w) Hk) at 1.
  rewrite flat_map_app. cbn [flat_map]. reflexivity.
Qed.

Lemma pending_set_rank : forall w k r, (k < length (w_rs w))%nat ->
  pending (set_rank w k r) = flat_map rank_writes (firstn k (w_rs w)) ++ rank_writes r
                             ++ flat_map rank_writes (skipn (S k) (w_rs w)).
Proof.
  intros w k r Hk. unfold pending, set_rank. cbn [w_rs].
  rewrite upd_nth_split by exact Hk. rewrite flat_map_app. cbn [flat_map]. reflexivity.
Qed.

Lemma set_rank_overflow : forall w k r, (length (w_rs w) <= k)%nat -> w_rs (set_rank w k r) = w_rs w.
Proof. intros w k r H. unfold set_rank. cbn [w_rs]. apply upd_nth_ge. exact H. Qed.

Lemma NoDup_keys_perm : forall a b : list wr, Permutation a b -> NoDup (map fst a) -> NoDup (map fst b).
Proof. intros a b Hp Hn. eapply Permutation_NoDup; [apply Permutation_map; exact Hp | exact Hn]. Qed.

Lemma perm_middle_front : forall (A : Type) (a w b : list A), Permutation (a ++ w ++ b) (w ++ a ++ b).
Proof. intros. rewrite !app_assoc. apply Permutation_app_tail. apply Permutation_app_comm. Qed.

Lemma NoDup_keys_drop_middle : forall a w b : list wr, NoDup (map fst (a ++ w ++ b)) -> NoDup (map fst (a ++ b)).
Proof.
  intros a w b H. apply (NoDup_keys_perm _ _ (perm_middle_front _ a w b)) in H.
  rewrite map_app in H. apply NoDup_app_r in H. exact H.
Qed.

Section Session.
Variable ord : list wr -> list wr.
Hypothesis Hord : forall l, Permutation (ord l) l.
Variable cfg : config.

(** ** flushing one rank (independent mode) *)
Lemma flush_rank_spec : forall k w, good w ->
  let w' := flush_rank cfg ord k w in
  good w' /\ (forall x, EB w' x = EB w x) /\ rank_writes (get_rank w' k) = [] /\
  (forall j, j <> k -> get_rank w' j = get_rank w j) /\
  length (w_rs w') = length (w_rs w) /\ w_indep w' = w_indep w.
Proof.
  intros k w (Hnd & Hok & Hsp). cbv zeta. unfold flush_rank.
  destruct (l_entries (r_log (get_rank w k))) as [|e0 es0] eqn:Ees.
  - (* nothing logged *)
    repeat split; try assumption; try reflexivity.
    unfold rank_writes. rewrite Ees. reflexivity.
  - assert (Hk : (k < length (w_rs w))%nat).
    { destruct (Nat.lt_ge_cases k (length (w_rs w))) as [H|H]; [exact H|].
      rewrite (get_rank_overflow w k H) in Ees. discriminate. }
    assert (Hlk : log_ok (r_log (get_rank w k))).
    { rewrite Forall_forall in Hok. apply Hok. unfold get_rank. apply nth_In. exact Hk. }
    rewrite <- Ees.
    destruct (flush_core_rank_ok (c_hint cfg) true (c_inj cfg k)
                (count_loop (buffer_size (c_hint cfg) (r_log (get_rank w k))) (l_entries (r_log (get_rank w k))))
                (r_log (get_rank w k)) (r_pl (get_rank w k)) (r_g (get_rank w k)) Hlk (Z.le_refl _))
      as (fr & Hfr & Hcat & _).
    rewrite Hfr.
    set (r' := mkR (log_reset (r_log (get_rank w k))) (fr_putlist fr) (r_slots (get_rank w k))
                   (r_stack (get_rank w k)) (r_fresh (get_rank w k))
                   (Z.max (r_nr (get_rank w k)) (log_recs (l_entries (r_log (get_rank w k)))))
                   (fr_g fr) (r_ev (get_rank w k) ++ fr_events fr)).
    set (f' := replay ord (fr_batches fr) (w_file w)).
    assert (Hrw' : rank_writes r' = []) by reflexivity.
    assert (Hlen' : length (w_rs (set_file w f')) = length (w_rs w)) by reflexivity.
    assert (Hpend' : pending (set_rank (set_file w f') k r') =
                     flat_map rank_writes (firstn k (w_rs w)) ++ flat_map rank_writes (skipn (S k) (w_rs w))).
    { rewrite pending_set_rank by (rewrite Hlen'; exact Hk). rewrite Hrw'. reflexivity. }
    pose proof (pending_split w k Hk) as Hsplit.
    set (A := flat_map rank_writes (firstn k (w_rs w))) in *.
    set (B := flat_map rank_writes (skipn (S k) (w_rs w))) in *.
    set (W := rank_writes (get_rank w k)) in *.
    assert (HndW : NoDup (map fst W)).
    { rewrite Hsplit in Hnd. rewrite map_app in Hnd. apply NoDup_app_r in Hnd.
      rewrite map_app in Hnd. apply NoDup_app_l in Hnd. exact Hnd. }
    assert (Hf' : forall x, f' x = apply_writes W (w_file w) x).
    { intro x. unfold f'. rewrite (flush_refines_direct ord Hord).
      - rewrite Hcat. reflexivity.
      - rewrite Hcat. exact HndW. }
    split; [|split; [|split; [|split; [|split]]]].
    + (* good *)
      split; [|split].
      * rewrite Hpend'. rewrite Hsplit in Hnd. apply (NoDup_keys_drop_middle A W B). exact Hnd.
      * unfold set_rank, set_file. cbn [w_rs]. apply Forall_upd_nth; [exact Hok|]. apply log_reset_ok.
      * unfold set_rank, set_file. cbn [w_spin]. exact Hsp.
    + intro x. unfold EB. rewrite Hpend'.
      change (w_file (set_rank (set_file w f') k r')) with f'.
      rewrite (apply_writes_ext (A ++ B) f' (apply_writes W (w_file w)) Hf').
      rewrite <- apply_writes_app. rewrite Hsplit.
      apply apply_writes_perm.
      * apply Permutation_sym. apply perm_middle_front.
      * apply (NoDup_keys_perm (A ++ W ++ B)); [apply perm_middle_front|]. rewrite <- Hsplit. exact Hnd.
    + unfold get_rank, set_rank, set_file. cbn [w_rs]. rewrite nth_upd_nth_same by exact Hk. exact Hrw'.
    + intros j Hj. unfold get_rank, set_rank, set_file. cbn [w_rs]. apply nth_upd_nth_other. exact Hj.
    + unfold set_rank, set_file. cbn [w_rs]. apply upd_nth_length.
    + reflexivity.
Qed.

(** ** the collective flush *)
Lemma flush_ranks_spec : forall nall rs k, Forall (fun r => log_ok (r_log r)) rs ->
  (forall r, In r rs -> rank_rounds cfg r <= nall) ->
  exists l, flush_ranks cfg nall k rs = Some l /\
    Forall2 (fun r x => concat (snd x) = l_entries (r_log r) /\ (length (snd x) <= Z.to_nat nall)%nat /\
                        r_log (fst x) = log_reset (r_log r)) rs l.
Proof.
  intros nall rs. induction rs as [|r rest IH]; intros k Hall Hle.
  - exists []. split; [reflexivity | constructor].
  - inversion Hall as [|x xs Hr Hrest]; subst.
    destruct (flush_core_rank_ok (c_hint cfg) false (c_inj cfg k) nall (r_log r) (r_pl r) (r_g r) Hr
                (Hle r (or_introl eq_refl))) as (fr & Hfr & Hcat & Htr & _ & Htreq & _).
    destruct (IH (S k) Hrest (fun x Hx => Hle x (or_intror Hx))) as (l & Hl & Hf2).
    cbn [flush_ranks]. rewrite Hfr, Hl. eexists. split; [reflexivity|].
    constructor; [|exact Hf2]. cbn [fst snd r_log]. split; [exact Hcat|]. split; [lia | reflexivity].
Qed.

Lemma Forall2_pending : forall rs (l : list (rstate * list (list entry))),
  Forall2 (fun r x => concat (snd x) = l_entries (r_log r) /\ (length (snd x) <= 0 + Z.to_nat 0 + length (snd x))%nat /\ True) rs l ->
  flat_map (fun bs => log_writes (concat bs)) (map snd l) = flat_map rank_writes rs.
Proof.
  intros rs l H. induction H as [|r x rs l (Hc & _) _ IH]; [reflexivity|].
  cbn [map flat_map]. rewrite IH, Hc. reflexivity.
Qed.

Lemma flush_all_spec : forall w, good w ->
  let w' := flush_all cfg ord w in
  good w' /\ (forall x, EB w' x = EB w x) /\ pending w' = [] /\
  length (w_rs w') = length (w_rs w) /\ w_indep w' = w_indep w.
Proof.
  intros w (Hnd & Hok & Hsp). cbv zeta. unfold flush_all.
  set (nall := zmax_list (map (rank_rounds cfg) (w_rs w))).
  destruct (flush_ranks_spec nall (w_rs w) 0 Hok) as (l & Hl & Hf2).
  { intros r Hin. apply zmax_list_ge. apply in_map. exact Hin. }
  rewrite Hl. clearbody nall.
  set (m := zmax_list (map (fun r => log_recs (l_entries (r_log r))) (w_rs w))). clearbody m.
  assert (Hbss : flat_map (fun bs => log_writes (concat bs)) (map snd l) = pending w).
  { unfold pending. clear - Hf2. induction Hf2 as [|r x rs l (Hc & _) _ IH]; [reflexivity|].
    cbn [map flat_map]. rewrite IH, Hc. reflexivity. }
  assert (Hlenb : forall bs, In bs (map snd l) -> (length bs <= Z.to_nat nall)%nat).
  { intros bs Hin. apply in_map_iff in Hin. destruct Hin as (x & Hx & Hin). subst bs.
    clear - Hf2 Hin. induction Hf2 as [|r y rs l (_ & Hle & _) _ IH]; [destruct Hin|].
    destruct Hin as [E | Hin]; [subst; exact Hle | apply IH; exact Hin]. }
  assert (Hfile : forall x, replay_rounds ord (map snd l) (Z.to_nat nall) (w_file w) x = EB w x).
  { intro x. rewrite (replay_rounds_refines ord Hord _ _ _ Hlenb); rewrite Hbss; [reflexivity | exact Hnd]. }
  assert (Hpend' : flat_map rank_writes (map (fun x => set_nr (Z.max (r_nr (fst x)) m) (fst x)) l) = []).
  { clear - Hf2. induction Hf2 as [|r x rs l (_ & _ & Hlog) _ IH]; [reflexivity|].
    cbn [map flat_map]. rewrite IH. unfold rank_writes, set_nr. cbn [r_log]. rewrite Hlog. reflexivity. }
  split; [|split; [|split; [|split]]].
  - split; [|split].
    + unfold pending. cbn [w_rs]. rewrite Hpend'. constructor.
    + cbn [w_rs]. clear - Hf2. induction Hf2 as [|r x rs l (_ & _ & Hlog) _ IH]; [constructor|].
      cbn [map]. constructor; [|exact IH]. unfold set_nr. cbn [r_log]. rewrite Hlog. apply log_reset_ok.
    + cbn [w_spin]. exact Hsp.
  - intro x. unfold EB at 1. unfold pending. cbn [w_rs w_file]. rewrite Hpend'. cbn [apply_writes]. apply Hfile.
  - unfold pending. cbn [w_rs]. exact Hpend'.
  - cbn [w_rs]. rewrite map_length. clear - Hf2. induction Hf2; cbn [length]; [reflexivity | f_equal; assumption].
  - reflexivity.
Qed.

Lemma in_pending_rank : forall w y, In y (pending w) ->
  exists j, (j < length (w_rs w))%nat /\ In y (rank_writes (get_rank w j)).
Proof.
  intros w y H. unfold pending in H. apply in_flat_map in H. destruct H as (r & Hr & Hy).
  destruct (In_nth _ _ rank_init Hr) as (j & Hj & Ej). exists j. split; [exact Hj|].
  unfold get_rank. rewrite Ej. exact Hy.
Qed.

(** ** any flush trigger *)
Lemma flush_ranks_indep_spec : forall who w, good w ->
  let w' := fold_left (fun w k => flush_rank cfg ord k w) who w in
  good w' /\ (forall x, EB w' x = EB w x) /\ length (w_rs w') = length (w_rs w) /\ w_indep w' = w_indep w /\
  (forall k, In k who -> rank_writes (get_rank w' k) = []) /\
  (forall k, rank_writes (get_rank w' k) = [] \/ get_rank w' k = get_rank w k).
Proof.
  induction who as [|k who IH]; intros w Hg; cbv zeta.
  - cbn [fold_left]. split; [exact Hg|]. split; [reflexivity|]. split; [reflexivity|]. split; [reflexivity|].
    split; [intros k [] | intro k; right; reflexivity].
  - cbn [fold_left].
    destruct (flush_rank_spec k w Hg) as (Hg1 & He1 & Hk1 & Ho1 & Hl1 & Hi1).
    set (w1 := flush_rank cfg ord k w) in *.
    destruct (IH w1 Hg1) as (Hg2 & He2 & Hl2 & Hi2 & Hin2 & Hor2).
    split; [exact Hg2|]. split; [intro x; rewrite He2; apply He1|].
    split; [rewrite Hl2; exact Hl1|]. split; [rewrite Hi2; exact Hi1|].
    split.
    + intros j [E | Hj]; [subst j | apply Hin2; exact Hj].
      destruct (Hor2 k) as [H | H]; [exact H | rewrite H; exact Hk1].
    + intro j. destruct (Hor2 j) as [H | H]; [left; exact H|].
      destruct (Nat.eq_dec j k) as [E | Hne].
      * subst j. left. rewrite H. exact Hk1.
      * right. rewrite H. apply Ho1. exact Hne.
Qed.

Lemma trigger_flush_spec : forall who w, good w ->
  let w' := trigger_flush cfg ord who w in
  good w' /\ (forall x, EB w' x = EB w x) /\ length (w_rs w') = length (w_rs w) /\ w_indep w' = w_indep w /\
  (forall k, In k who -> rank_writes (get_rank w' k) = []) /\
  (forall k, rank_writes (get_rank w' k) = [] \/ get_rank w' k = get_rank w k) /\
  (w_indep w = false -> pending w' = []).
Proof.
  intros who w Hg. cbv zeta. unfold trigger_flush. destruct (w_indep w) eqn:Ei.
  - destruct (flush_ranks_indep_spec who w Hg) as (H1 & H2 & H3 & H4 & H5 & H6).
    split; [exact H1|]. split; [exact H2|]. split; [exact H3|]. split; [rewrite H4; exact Ei|].
    split; [exact H5|]. split; [exact H6 | intro H; discriminate].
  - destruct (flush_all_spec w Hg) as (Hg1 & He1 & Hp1 & Hl1 & Hi1).
    split; [exact Hg1|]. split; [exact He1|]. split; [exact Hl1|]. split; [rewrite Hi1; exact Ei|].
    assert (Hall : forall k, rank_writes (get_rank (flush_all cfg ord w) k) = []).
    { intro k. destruct (Nat.lt_ge_cases k (length (w_rs (flush_all cfg ord w)))) as [Hk | Hk].
      - pose proof (pending_split _ k Hk) as Hs. rewrite Hp1 in Hs.
        symmetry in Hs. apply app_eq_nil in Hs. destruct Hs as [_ Hs]. apply app_eq_nil in Hs. tauto.
      - rewrite get_rank_overflow by exact Hk. reflexivity. }
    split; [intros k _; apply Hall|]. split; [intro k; left; apply Hall|]. intros _. exact Hp1.
Qed.

(** ** the SPEC side of a session and the simulation relation *)
Definition dpend (d : dworld) : list wr := flat_map (fun t => req_writes (snd t)) (d_pend d).
Definition ED (d : dworld) : fmap := apply_writes (dpend d) (lf_map (d_file d)).
Definition sim (w : world) (d : dworld) : Prop :=
  (forall x, EB w x = ED d x) /\ NoDup (map fst (dpend d)).

(** executable well-formedness of one operation (the documented discipline) *)
Definition keys (ws : list wr) : list key := map fst ws.
Definition memk (x : key) (l : list key) : bool := existsb (key_eqb x) l.
Fixpoint nodupk (l : list key) : bool :=
  match l with [] => true | x :: r => negb (memk x r) && nodupk r end.
Definition disjk (a b : list key) : bool := forallb (fun x => negb (memk x b)) a.

Definition wf_reqb (r : request) : bool :=
  match r with
  | RVar _ _ elsz _ cnt _ _ => (0 <? elsz) && match cnt with Some c => forallb (fun x => 0 <? x) c | None => true end
  | RVarn _ _ elsz subs _ _ =>
      (0 <=? elsz) && forallb (fun sc => match snd sc with Some c => forallb (fun x => 0 <=? x) c | None => true end) subs
  end.

Definition wf_write (w : world) (d : dworld) (k : nat) (req : request) : bool :=
  (k <? length (w_rs w))%nat && wf_reqb req && nodupk (keys (req_writes req))
  && disjk (keys (req_writes req)) (keys (pending w)) && disjk (keys (req_writes req)) (keys (dpend d)).

Definition wf_read (w : world) (d : dworld) (who : list (nat * list key)) : bool :=
  forallb (fun rk => forallb (fun x =>
      negb (memk x (keys (dpend d))) &&
      (negb (w_indep w) ||
       forallb (fun j => existsb (Nat.eqb j) (map fst who) || negb (memk x (keys (rank_writes (get_rank w j)))))
               (all_ranks w)))
    (snd rk)) who.

Definition wf_wait (w : world) (who : list (nat * waitarg)) : bool :=
  let calls := map (fun ka => calls_ncmpio_wait (w_indep w) (snd ka)) who in
  w_indep w || negb (existsb id calls && existsb negb calls).

Definition wf_stepb (w : world) (d : dworld) (o : op) : bool :=
  match o with
  | OPut _ k req => wf_write w d k req
  | OIput _ k _ req => wf_write w d k req
  | OCancel _ _ _ => false          (* cancellation is covered by the correspondence check only *)
  | OGet _ who => wf_read w d who
  | OWait _ _ who => wf_wait w who
  | OReopen _ => match pending w with [] => true | _ => false end
  | _ => true
  end.

Lemma memk_spec : forall x l, memk x l = true <-> In x l.
Proof.
  intros x l. unfold memk. rewrite existsb_exists. split.
  - intros (y & Hy & E). apply key_eqb_spec in E. subst y. exact Hy.
  - intro H. exists x. split; [exact H | apply key_eqb_refl].
Qed.

Lemma memk_false : forall x l, memk x l = false -> ~ In x l.
Proof. intros x l H Hin. apply memk_spec in Hin. rewrite Hin in H. discriminate. Qed.

Lemma nodupk_spec : forall l, nodupk l = true -> NoDup l.
Proof.
  induction l as [|x r IH]; intro H; [constructor|].
  cbn [nodupk] in H. apply andb_true_iff in H. destruct H as [H1 H2].
  constructor; [apply memk_false; apply negb_true_iff; exact H1 | apply IH; exact H2].
Qed.

Lemma disjk_spec : forall a b, disjk a b = true -> forall x, In x a -> ~ In x b.
Proof.
  intros a b H x Hx. unfold disjk in H. rewrite forallb_forall in H.
  apply memk_false. apply negb_true_iff. apply H. exact Hx.
Qed.

Lemma NoDup_app_intro : forall (A : Type) (a b : list A), NoDup a -> NoDup b ->
  (forall x, In x a -> ~ In x b) -> NoDup (a ++ b).
Proof.
  intros A a b Ha Hb Hd. induction Ha as [|x r Hx Hr IH]; [exact Hb|].
  cbn [app]. constructor.
  - intro Hin. apply in_app_or in Hin. destruct Hin as [Hin | Hin]; [exact (Hx Hin)|].
    exact (Hd x (or_introl eq_refl) Hin).
  - apply IH. intros y Hy. apply Hd. right. exact Hy.
Qed.

Lemma apply_pt : forall ws f g x, f x = g x -> apply_writes ws f x = apply_writes ws g x.
Proof.
  induction ws as [|kv r IH]; intros f g x H; [exact H|].
  cbn [apply_writes]. apply IH. unfold upd. destruct (key_eqb x (fst kv)); [reflexivity | exact H].
Qed.

Lemma apply_key_in : forall ws f x, NoDup (map fst ws) -> In x (map fst ws) ->
  exists v, In (x, v) ws /\ apply_writes ws f x = Some v.
Proof.
  intros ws f x Hnd Hin. apply in_map_iff in Hin. destruct Hin as ((k, v) & E & Hin). cbn [fst] in E. subst k.
  exists v. split; [exact Hin | apply apply_writes_in; assumption].
Qed.

Lemma key_in_dec : forall (x : key) l, {In x l} + {~ In x l}.
Proof. intros x l. apply in_dec. apply key_eq_dec. Qed.

(** adding the writes [W] of one request to both sides *)
Lemma add_writes_both : forall (P Dp W : list wr) (fb fd : fmap),
  NoDup (map fst P) -> NoDup (map fst W) -> NoDup (map fst Dp) ->
  (forall x, In x (map fst W) -> ~ In x (map fst P)) ->
  (forall x, In x (map fst W) -> ~ In x (map fst Dp)) ->
  (forall x, apply_writes P fb x = apply_writes Dp fd x) ->
  forall x, apply_writes (P ++ W) fb x = apply_writes Dp (apply_writes W fd) x.
Proof.
  intros P Dp W fb fd HP HW HD HWP HWD Heq x. rewrite apply_writes_app.
  destruct (key_in_dec x (map fst W)) as [Hin | Hout].
  - destruct (apply_key_in W (apply_writes P fb) x HW Hin) as (v & Hv & E). rewrite E.
    rewrite apply_writes_notin by (apply HWD; exact Hin).
    symmetry. apply apply_writes_in; assumption.
  - rewrite apply_writes_notin by exact Hout. rewrite Heq.
    apply apply_pt. symmetry. apply apply_writes_notin. exact Hout.
Qed.

(** ** log_put on a well-formed request appends exactly one valid entry *)
Lemma zprod_pos : forall c, forallb (fun x => 0 <? x) c = true -> 0 < zprod c.
Proof.
  induction c as [|x r IH]; intro H; [cbn; lia|].
  cbn [forallb] in H. apply andb_true_iff in H. destruct H as [H1 H2]. apply Z.ltb_lt in H1.
  cbn [zprod fold_right]. specialize (IH H2). unfold zprod in IH. nia.
Qed.

Lemma wf_req_ok : forall r, wf_reqb r = true -> req_ok r.
Proof.
  intros [vid isrec elsz st cnt str data | vid isrec elsz subs hc data] H; cbn [wf_reqb] in H;
    apply andb_true_iff in H; destruct H as [H1 H2]; cbn [req_ok].
  - apply Z.ltb_lt in H1. split; [lia|]. destruct cnt as [c|]; cbn [counts_nonneg]; [|exact I].
    rewrite Forall_forall. rewrite forallb_forall in H2. intros x Hx. specialize (H2 x Hx). apply Z.ltb_lt in H2. lia.
  - apply Z.leb_le in H1. split; [exact H1|]. rewrite Forall_forall. rewrite forallb_forall in H2.
    intros sc Hsc. specialize (H2 sc Hsc). destruct (snd sc) as [c|]; cbn [counts_nonneg]; [|exact I].
    rewrite Forall_forall. rewrite forallb_forall in H2. intros x Hx. specialize (H2 x Hx). apply Z.leb_le in H2. exact H2.
Qed.

Lemma log_put_entries : forall line r l, wf_reqb r = true ->
  exists e, l_entries (log_put line r l) = l_entries l ++ [e] /\ e_valid e = true /\ e_req e = r.
Proof.
  intros line [vid isrec elsz st cnt str data | vid isrec elsz subs hc data] l H; cbn [wf_reqb] in H;
    apply andb_true_iff in H; destruct H as [H1 H2]; cbn [log_put].
  - apply Z.ltb_lt in H1.
    assert (Hp : put_size_var elsz cnt <> 0).
    { unfold put_size_var. destruct cnt as [c|]; [pose proof (zprod_pos c H2); nia | lia]. }
    apply Z.eqb_neq in Hp. rewrite Hp. eexists. cbn [l_entries]. split; [reflexivity|]. split; reflexivity.
  - eexists. cbn [l_entries]. split; [reflexivity|]. split; reflexivity.
Qed.

Lemma log_put_writes : forall line r l, wf_reqb r = true ->
  log_writes (l_entries (log_put line r l)) = log_writes (l_entries l) ++ req_writes r.
Proof.
  intros line r l H. destruct (log_put_entries line r l H) as (e & He & Hv & Hr).
  rewrite He, log_writes_app. f_equal. unfold log_writes. cbn [flat_map]. rewrite app_nil_r.
  unfold entry_writes. rewrite Hv, Hr. reflexivity.
Qed.

Lemma log_writes_map_reqid : forall id es, log_writes (map (set_reqid id) es) = log_writes es.
Proof.
  intros id es. unfold log_writes. induction es as [|e r IH]; [reflexivity|].
  cbn [map flat_map]. rewrite IH. reflexivity.
Qed.

Lemma skipn_add : forall (A : Type) (y x : nat) (l : list A), skipn x (skipn y l) = skipn (y + x) l.
Proof.
  intros A y. induction y as [|y IH]; intros x l; [reflexivity|].
  destruct l as [|a r]; [cbn [skipn plus]; destruct x; reflexivity|]. cbn [skipn plus]. apply IH.
Qed.

Lemma mark_range_writes : forall id a b es, (a <= b)%nat -> log_writes (mark_range id a b es) = log_writes es.
Proof.
  intros id a b es Hab. unfold mark_range. rewrite !log_writes_app, log_writes_map_reqid.
  rewrite <- !log_writes_app. f_equal.
  replace (skipn b es) with (skipn (b - a) (skipn a es)).
  - rewrite firstn_skipn. apply firstn_skipn.
  - rewrite skipn_add. f_equal. lia.
Qed.

Lemma do_put_spec : forall line req r, wf_reqb req = true -> log_ok (r_log r) ->
  rank_writes (do_put line req r) = rank_writes r ++ req_writes req /\ log_ok (r_log (do_put line req r)).
Proof.
  intros line req r Hwf Hok. unfold do_put, rank_writes, set_log. cbn [r_log]. split.
  - apply log_put_writes. exact Hwf.
  - apply log_put_ok; [apply wf_req_ok; exact Hwf | exact Hok].
Qed.

Lemma do_iput_spec : forall line slot req r, wf_reqb req = true -> log_ok (r_log r) ->
  rank_writes (snd (do_iput line slot req r)) = rank_writes r ++ req_writes req /\
  log_ok (r_log (snd (do_iput line slot req r))).
Proof.
  intros line slot req r Hwf Hok. unfold do_iput.
  assert (Hal : r_log (snd (id_alloc r)) = r_log r).
  { unfold id_alloc. destruct (r_stack r); reflexivity. }
  destruct (id_alloc r) as [id r1] eqn:Ea. cbn [snd] in Hal. cbn [snd].
  destruct (log_put_entries line req (r_log r1) Hwf) as (e & He & Hv & Hr).
  unfold rank_writes. cbn [r_log l_entries]. split.
  - rewrite mark_range_writes.
    + rewrite log_put_writes by exact Hwf. rewrite Hal. reflexivity.
    + rewrite He, app_length. lia.
  - apply (mark_range_ok id _ _ (log_put line req (r_log r1))).
    apply log_put_ok; [apply wf_req_ok; exact Hwf | rewrite Hal; exact Hok].
Qed.

(** replacing rank [k] by a state whose log holds [W] more writes *)
Lemma set_rank_add_writes : forall w k r' W, (k < length (w_rs w))%nat -> good w ->
  rank_writes r' = rank_writes (get_rank w k) ++ W -> log_ok (r_log r') ->
  NoDup (map fst W) -> (forall x, In x (map fst W) -> ~ In x (map fst (pending w))) ->
  good (set_rank w k r') /\ Permutation (pending (set_rank w k r')) (pending w ++ W) /\
  w_file (set_rank w k r') = w_file w.
Proof.
  intros w k r' W Hk (Hnd & Hok & Hsp) Hrw Hlog HW Hdis.
  pose proof (pending_split w k Hk) as Hs. pose proof (pending_set_rank w k r' Hk) as Hs'.
  rewrite Hrw in Hs'.
  assert (Hperm : Permutation (pending (set_rank w k r')) (pending w ++ W)).
  { rewrite Hs', Hs. rewrite <- !app_assoc. apply Permutation_app_head. apply Permutation_app_head.
    apply Permutation_app_comm. }
  split; [|split; [exact Hperm | reflexivity]].
  split; [|split].
  - apply (NoDup_keys_perm (pending w ++ W)); [apply Permutation_sym; exact Hperm|].
    rewrite map_app. apply NoDup_app_intro; [exact Hnd | exact HW|].
    intros x Hx Hx'. exact (Hdis x Hx' Hx).
  - unfold set_rank. cbn [w_rs]. apply Forall_upd_nth; assumption.
  - exact Hsp.
Qed.

(** replacing rank [k] by a state with the same log *)
Lemma set_rank_same_log : forall w k r', good w -> r_log r' = r_log (get_rank w k) ->
  good (set_rank w k r') /\ pending (set_rank w k r') = pending w /\ w_file (set_rank w k r') = w_file w /\
  length (w_rs (set_rank w k r')) = length (w_rs w) /\ w_indep (set_rank w k r') = w_indep w.
Proof.
  intros w k r' (Hnd & Hok & Hsp) Hlog.
  assert (Hp : pending (set_rank w k r') = pending w).
  { destruct (Nat.lt_ge_cases k (length (w_rs w))) as [Hk | Hk].
    - rewrite pending_set_rank, (pending_split w k Hk) by exact Hk. unfold rank_writes. rewrite Hlog. reflexivity.
    - unfold pending. rewrite set_rank_overflow by exact Hk. reflexivity. }
  split; [|split; [exact Hp | split; [reflexivity | split; [apply upd_nth_length | reflexivity]]]].
  split; [rewrite Hp; exact Hnd | split; [|exact Hsp]].
  unfold set_rank. cbn [w_rs]. apply Forall_upd_nth; [exact Hok|]. rewrite Hlog.
  destruct (Nat.lt_ge_cases k (length (w_rs w))) as [Hk | Hk].
  - rewrite Forall_forall in Hok. apply Hok. unfold get_rank. apply nth_In. exact Hk.
  - rewrite get_rank_overflow by exact Hk. exact log_init_ok.
Qed.

(** ** one operation preserves the simulation *)
Lemma wf_write_facts : forall w d k req, wf_write w d k req = true ->
  (k < length (w_rs w))%nat /\ wf_reqb req = true /\ NoDup (map fst (req_writes req)) /\
  (forall x, In x (map fst (req_writes req)) -> ~ In x (map fst (pending w))) /\
  (forall x, In x (map fst (req_writes req)) -> ~ In x (map fst (dpend d))).
Proof.
  intros w d k req H. unfold wf_write in H. repeat rewrite andb_true_iff in H.
  destruct H as ((((H1 & H2) & H3) & H4) & H5).
  split; [apply Nat.ltb_lt; exact H1|]. split; [exact H2|]. split; [apply nodupk_spec; exact H3|].
  split; [apply disjk_spec; exact H4 | apply disjk_spec; exact H5].
Qed.

Lemma sim_add_writes : forall w d k req r', good w -> sim w d -> wf_write w d k req = true ->
  rank_writes r' = rank_writes (get_rank w k) ++ req_writes req -> log_ok (r_log r') ->
  good (set_rank w k r') /\
  (forall x, EB (set_rank w k r') x = apply_writes (dpend d) (apply_writes (req_writes req) (lf_map (d_file d))) x) /\
  (forall x, EB (set_rank w k r') x = apply_writes (dpend d ++ req_writes req) (lf_map (d_file d)) x) /\
  NoDup (map fst (dpend d ++ req_writes req)).
Proof.
  intros w d k req r' Hg (Hs & Hdn) Hwf Hrw Hlog.
  destruct (wf_write_facts w d k req Hwf) as (Hk & Hreq & HW & HWP & HWD).
  destruct (set_rank_add_writes w k r' (req_writes req) Hk Hg Hrw Hlog HW HWP) as (Hg' & Hperm & Hfile).
  pose proof Hg as (Hnd & _ & _). pose proof Hg' as (Hnd' & _ & _).
  assert (E1 : forall x, EB (set_rank w k r') x = apply_writes (pending w ++ req_writes req) (w_file w) x).
  { intro x. unfold EB. rewrite Hfile. apply apply_writes_perm; [exact Hperm | exact Hnd']. }
  split; [exact Hg'|]. split; [|split].
  - intro x. rewrite E1. apply add_writes_both; assumption.
  - intro x. rewrite E1. rewrite !apply_writes_app. apply apply_writes_ext. exact Hs.
  - rewrite map_app. apply NoDup_app_intro; [exact Hdn | exact HW|]. intros x Hx Hx'. exact (HWD x Hx' Hx).
Qed.

(** waiting does not touch the log *)
Lemma id_free_log : forall id r, r_log (id_free id r) = r_log r.
Proof. reflexivity. Qed.

Lemma handle_put_log : forall s r, r_log (snd (handle_put s r)) = r_log r.
Proof.
  intros s r. unfold handle_put. destruct (slot_get (r_slots r) s); [|reflexivity].
  destruct (pl_get (r_pl r) z); reflexivity.
Qed.

Lemma handle_list_log : forall l r, r_log (snd (handle_list l r)) = r_log r.
Proof.
  induction l as [|s l IH]; intro r; [reflexivity|]. cbn [handle_list].
  destruct s as [sl | |].
  - pose proof (handle_put_log sl r) as H1. destruct (handle_put sl r) as [st r1]. cbn [snd] in H1.
    pose proof (IH r1) as H2. destruct (handle_list l r1) as [sts r2]. cbn [snd] in *. rewrite H2. exact H1.
  - pose proof (IH r) as H2. destruct (handle_list l r) as [sts r2]. cbn [snd] in *. exact H2.
  - pose proof (IH r) as H2. destruct (handle_list l r) as [sts r2]. cbn [snd] in *. exact H2.
Qed.

Lemma handle_all_log : forall r, r_log (handle_all r) = r_log r.
Proof.
  intro r. unfold handle_all. generalize (sort_z (map fst (r_pl r))). intro l. revert r.
  induction l as [|id l IH]; intro r; [reflexivity|]. cbn [fold_left]. rewrite IH. reflexivity.
Qed.

Lemma wait_rank_log : forall line coll indep k a r, r_log (snd (wait_rank line coll indep k a r)) = r_log r.
Proof.
  intros line coll indep k a r. unfold wait_rank. destruct a as [l | num].
  - pose proof (handle_list_log l r) as H. destruct (handle_list l r) as [sts r1]. cbn [snd] in *.
    destruct ((0 <? count_gets l) || negb indep); cbn [snd]; [unfold add_ev; cbn [r_log]|]; exact H.
  - cbn [snd].
    destruct ((num =? NC_REQ_ALL) || (num =? NC_PUT_REQ_ALL)); destruct ((num =? NC_REQ_ALL) || (num =? NC_GET_REQ_ALL));
      unfold add_ev; cbn [r_log]; try rewrite handle_all_log; reflexivity.
Qed.

Definition same_state (w w' : world) : Prop :=
  good w' /\ pending w' = pending w /\ w_file w' = w_file w /\ length (w_rs w') = length (w_rs w) /\ w_indep w' = w_indep w.

Lemma same_state_refl : forall w, good w -> same_state w w.
Proof. intros w H. repeat split; try reflexivity; apply H. Qed.

Lemma wait_fold_same : forall line coll indep who w obs0, good w ->
  same_state w (fst (fold_left (fun (acc : world * list obs) (ka : nat * waitarg) =>
                   let '(sts, r') := wait_rank line coll indep (fst ka) (snd ka) (get_rank (fst acc) (fst ka)) in
                   (set_rank (fst acc) (fst ka) r', snd acc ++ [sts])) who (w, obs0))).
Proof.
  intros line coll indep who. induction who as [|ka who IH]; intros w obs0 Hg.
  - cbn [fold_left fst]. apply same_state_refl. exact Hg.
  - cbn [fold_left]. cbn [fst snd].
    pose proof (wait_rank_log line coll indep (fst ka) (snd ka) (get_rank w (fst ka))) as Hl.
    destruct (wait_rank line coll indep (fst ka) (snd ka) (get_rank w (fst ka))) as [sts r'] eqn:Ew. cbn [snd] in Hl.
    destruct (set_rank_same_log w (fst ka) r' Hg Hl) as (Hg1 & Hp1 & Hf1 & Hn1 & Hi1).
    destruct (IH (set_rank w (fst ka) r') (obs0 ++ [sts]) Hg1) as (Hg2 & Hp2 & Hf2 & Hn2 & Hi2).
    split; [exact Hg2|]. split; [rewrite Hp2; exact Hp1|]. split; [rewrite Hf2; exact Hf1|].
    split; [rewrite Hn2; exact Hn1 | rewrite Hi2; exact Hi1].
Qed.

(** the SPEC side of a wait: completed requests move from the pending list into the file *)
Lemma filter_partition_perm : forall (A : Type) (f : A -> bool) (l : list A),
  Permutation l (filter f l ++ filter (fun x => negb (f x)) l).
Proof.
  intros A f l. induction l as [|x r IH]; [constructor|].
  cbn [filter]. destruct (f x); cbn [negb app].
  - constructor. exact IH.
  - apply Permutation_cons_app. exact IH.
Qed.

Lemma dwait_one : forall d k sl, NoDup (map fst (dpend d)) ->
  let '(reqs, rest) := d_take k sl (d_pend d) in
  let d' := mkD (fold_left (fun f r => direct_put r f) reqs (d_file d)) rest in
  (forall x, ED d' x = ED d x) /\ NoDup (map fst (dpend d')).
Proof.
  intros d k sl Hnd. unfold d_take.
  set (sel := fun x : nat * Z * request =>
                Nat.eqb (fst (fst x)) k && match sl with None => true | Some l => existsb (Z.eqb (snd (fst x))) l end).
  cbv zeta.
  set (tk := filter sel (d_pend d)). set (rest := filter (fun x => negb (sel x)) (d_pend d)).
  assert (Hperm : Permutation (dpend d) (flat_map req_writes (map snd tk) ++ flat_map (fun t => req_writes (snd t)) rest)).
  { unfold dpend. rewrite flat_map_map_comp. rewrite <- flat_map_app.
    apply Permutation_flat_map. apply filter_partition_perm. }
  assert (Hnd2 : NoDup (map fst (flat_map req_writes (map snd tk) ++ flat_map (fun t => req_writes (snd t)) rest))).
  { apply (NoDup_keys_perm _ _ Hperm). exact Hnd. }
  split.
  - intro x. unfold ED, dpend. cbn [d_pend d_file]. rewrite direct_puts_map. rewrite <- apply_writes_app.
    symmetry. apply apply_writes_perm; [exact Hperm | exact Hnd].
  - unfold dpend. cbn [d_pend]. rewrite map_app in Hnd2. apply NoDup_app_r in Hnd2. exact Hnd2.
Qed.

Lemma dwait_fold : forall who d, NoDup (map fst (dpend d)) ->
  let d' := fold_left (fun d (ka : nat * waitarg) =>
                    let sl := match snd ka with
                              | WList l => Some (wslots_puts l)
                              | WAllKind num => if num =? NC_GET_REQ_ALL then Some [] else None
                              end in
                    let '(reqs, rest) := d_take (fst ka) sl (d_pend d) in
                    mkD (fold_left (fun f r => direct_put r f) reqs (d_file d)) rest) who d in
  (forall x, ED d' x = ED d x) /\ NoDup (map fst (dpend d')).
Proof.
  induction who as [|ka who IH]; intros d Hnd; cbv zeta.
  - cbn [fold_left]. split; [reflexivity | exact Hnd].
  - cbn [fold_left].
    set (sl := match snd ka with
               | WList l => Some (wslots_puts l)
               | WAllKind num => if num =? NC_GET_REQ_ALL then Some [] else None
               end).
    pose proof (dwait_one d (fst ka) sl Hnd) as H1.
    destruct (d_take (fst ka) sl (d_pend d)) as [reqs rest]. cbv zeta in H1. destruct H1 as [He1 Hn1].
    destruct (IH _ Hn1) as [He2 Hn2]. cbv zeta in He2, Hn2.
    split; [intro x; rewrite He2; apply He1 | exact Hn2].
Qed.

Lemma sync_numrecs_same : forall w, good w -> same_state w (sync_numrecs w).
Proof.
  intros w (Hnd & Hok & Hsp). unfold sync_numrecs.
  set (m := zmax_list (map r_nr (w_rs w))). clearbody m.
  assert (Hp : pending (mkW (w_file w) (map (set_nr m) (w_rs w)) (w_indep w) (w_logs w) (w_spin w)) = pending w).
  { unfold pending. cbn [w_rs]. rewrite flat_map_map_comp. reflexivity. }
  split; [|split; [exact Hp | split; [reflexivity | split; [cbn [w_rs]; apply map_length | reflexivity]]]].
  split; [rewrite Hp; exact Hnd | split; [|exact Hsp]].
  cbn [w_rs]. rewrite Forall_forall in *. intros r Hr. apply in_map_iff in Hr. destruct Hr as (r0 & E & Hr0).
  subst r. unfold set_nr. cbn [r_log]. apply Hok. exact Hr0.
Qed.

Lemma reflag_good : forall w b l, good w ->
  good (mkW (w_file w) (w_rs w) b l (w_spin w)) /\
  pending (mkW (w_file w) (w_rs w) b l (w_spin w)) = pending w /\
  w_file (mkW (w_file w) (w_rs w) b l (w_spin w)) = w_file w.
Proof.
  intros w b l (Hnd & Hok & Hsp). split; [|split; reflexivity]. split; [exact Hnd | split; [exact Hok | exact Hsp]].
Qed.

Lemma EB_same : forall w w', pending w' = pending w -> w_file w' = w_file w -> forall x, EB w' x = EB w x.
Proof. intros w w' Hp Hf x. unfold EB. rewrite Hp, Hf. reflexivity. Qed.

Definition is_get (o : op) : bool := match o with OGet _ _ => true | _ => false end.

Lemma all_ranks_in : forall w j, (j < length (w_rs w))%nat -> In j (all_ranks w).
Proof. intros w j H. unfold all_ranks. apply in_seq. lia. Qed.

(** operations after which every rank's log is empty *)
Definition is_sync_point (w : world) (o : op) : bool :=
  match o with
  | OSync _ | OFlush _ | ORedef _ | OClose _ => true
  | OWait _ _ _ | OGet _ _ => negb (w_indep w)       (* wait_all / get_all in collective mode *)
  | _ => false
  end.

Lemma all_flushed : forall w w1, length (w_rs w1) = length (w_rs w) ->
  (forall k, In k (all_ranks w) -> rank_writes (get_rank w1 k) = []) -> pending w1 = [].
Proof.
  intros w w1 Hl H. unfold pending. apply flat_map_nil_all. intros r Hr.
  destruct (In_nth _ _ rank_init Hr) as (j & Hj & Ej). rewrite <- Ej. apply (H j).
  apply all_ranks_in. rewrite <- Hl. exact Hj.
Qed.

Theorem step_sim : forall w d o, good w -> sim w d -> wf_stepb w d o = true ->
  good (fst (step cfg ord w o)) /\ sim (fst (step cfg ord w o)) (fst (dstep d o)) /\
  (is_get o = true -> snd (step cfg ord w o) = snd (dstep d o)) /\
  (is_sync_point w o = true -> pending (fst (step cfg ord w o)) = []).
Proof.
  intros w d o Hg Hsim Hwf. pose proof Hsim as (Hs & Hdn).
  destruct o as [line k req | line k slot req | line k slots | line who | line coll who | line | line | line | | | line | line | line];
    cbn [wf_stepb] in Hwf; cbn [step dstep is_get is_sync_point].
  - (* OPut *)
    destruct (wf_write_facts w d k req Hwf) as (Hk & Hreq & _).
    assert (Hlk : log_ok (r_log (get_rank w k))).
    { destruct Hg as (_ & Hok & _). rewrite Forall_forall in Hok. apply Hok. unfold get_rank. apply nth_In. exact Hk. }
    destruct (do_put_spec line req (get_rank w k) Hreq Hlk) as (Hrw & Hlog).
    destruct (sim_add_writes w d k req _ Hg Hsim Hwf Hrw Hlog) as (Hg' & E1 & _ & _).
    cbn [fst snd]. split; [exact Hg'|]. split; [|split; intro H; discriminate].
    split; [|exact Hdn]. intro x. rewrite E1. reflexivity.
  - (* OIput *)
    destruct (wf_write_facts w d k req Hwf) as (Hk & Hreq & _).
    assert (Hlk : log_ok (r_log (get_rank w k))).
    { destruct Hg as (_ & Hok & _). rewrite Forall_forall in Hok. apply Hok. unfold get_rank. apply nth_In. exact Hk. }
    destruct (do_iput_spec line slot req (get_rank w k) Hreq Hlk) as (Hrw & Hlog).
    destruct (do_iput line slot req (get_rank w k)) as [id r'] eqn:Ei. cbn [snd] in Hrw, Hlog.
    destruct (sim_add_writes w d k req r' Hg Hsim Hwf Hrw Hlog) as (Hg' & _ & E2 & Hn2).
    cbn [fst snd]. split; [exact Hg'|]. split; [|split; intro H; discriminate].
    assert (Edp : dpend (mkD (d_file d) (d_pend d ++ [(k, slot, req)])) = dpend d ++ req_writes req).
    { unfold dpend. cbn [d_pend]. rewrite flat_map_app. cbn [flat_map snd]. rewrite app_nil_r. reflexivity. }
    split; [|rewrite Edp; exact Hn2]. intro x. rewrite E2. unfold ED. rewrite Edp. reflexivity.
  - discriminate.
  - (* OGet *)
    change (bb_trig_get && bb_trig_getn) with true. cbv iota.
    destruct (trigger_flush_spec (map fst who) w Hg) as (Hg1 & He1 & Hl1 & Hi1 & Hin1 & Hor1 & Hcoll1).
    set (w1 := trigger_flush cfg ord (map fst who) w) in *.
    cbn [fst snd]. split; [exact Hg1|]. split; [split; [intro x; rewrite He1; apply Hs | exact Hdn]|].
    split; [|intro H; apply Hcoll1; apply negb_true_iff; exact H].
    intros _. apply map_ext_in. intros rk Hrk. do 3 f_equal. apply map_ext_in. intros x Hx. f_equal.
    unfold wf_read in Hwf. rewrite forallb_forall in Hwf. specialize (Hwf rk Hrk).
    rewrite forallb_forall in Hwf. specialize (Hwf x Hx). apply andb_true_iff in Hwf. destruct Hwf as [Hd Hr].
    assert (Hnd : ~ In x (map fst (dpend d))) by (apply memk_false; apply negb_true_iff; exact Hd).
    assert (Hnp : ~ In x (map fst (pending w1))).
    { intro Hin. apply in_map_iff in Hin. destruct Hin as (y & Ey & Hy).
      destruct (in_pending_rank w1 y Hy) as (j & Hj & Hyj).
      destruct (w_indep w) eqn:Ei.
      - cbn [negb orb] in Hr. rewrite forallb_forall in Hr.
        assert (Hja : In j (all_ranks w)) by (apply all_ranks_in; rewrite <- Hl1; exact Hj).
        specialize (Hr j Hja). apply orb_true_iff in Hr. destruct Hr as [Hr | Hr].
        + apply existsb_exists in Hr. destruct Hr as (j' & Hj' & E). apply Nat.eqb_eq in E. subst j'.
          rewrite (Hin1 j Hj') in Hyj. destruct Hyj.
        + destruct (Hor1 j) as [H | H]; [rewrite H in Hyj; destruct Hyj|].
          rewrite H in Hyj. apply negb_true_iff in Hr. apply memk_false in Hr. apply Hr.
          unfold keys. apply in_map_iff. exists y. split; [exact Ey | exact Hyj].
      - rewrite (Hcoll1 eq_refl) in Hy. destruct Hy. }
    transitivity (EB w1 x).
    + unfold EB. symmetry. apply apply_writes_notin. exact Hnp.
    + rewrite He1, Hs. unfold ED. apply apply_writes_notin. exact Hnd.
  - (* OWait *)
    change bb_trig_wait with true. cbv iota.
    destruct (trigger_flush_spec (map fst who) w Hg) as (Hg1 & He1 & Hl1 & Hi1 & _ & _ & Hcoll1).
    set (w1 := trigger_flush cfg ord (map fst who) w) in *. cbv zeta.
    assert (Hno : (negb (w_indep w1) && existsb id (map (fun ka => calls_ncmpio_wait (w_indep w1) (snd ka)) who)
                   && existsb negb (map (fun ka => calls_ncmpio_wait (w_indep w1) (snd ka)) who)) = false).
    { unfold wf_wait in Hwf. cbv zeta in Hwf. rewrite Hi1. destruct (w_indep w); [reflexivity|].
      cbn [orb negb] in Hwf. cbn [negb andb]. apply negb_true_iff in Hwf. exact Hwf. }
    rewrite Hno.
    destruct (wait_fold_same line coll (w_indep w1) who w1 [] Hg1) as (Hg2 & Hp2 & Hf2 & _).
    split; [exact Hg2|].
    split; [|split; [intro H; discriminate | intro H; rewrite Hp2; apply Hcoll1; apply negb_true_iff; exact H]].
    destruct (dwait_fold who d Hdn) as (Hed & Hnd'). cbv zeta in Hed, Hnd'. cbn [fst].
    split; [|exact Hnd']. intro x. rewrite (EB_same w1 _ Hp2 Hf2), He1, Hs. symmetry. apply Hed.
  - (* OSync *)
    change bb_trig_sync with true. cbv iota.
    destruct (trigger_flush_spec (all_ranks w) w Hg) as (Hg1 & He1 & Hl1 & _ & Hin1 & _).
    set (w1 := trigger_flush cfg ord (all_ranks w) w) in *. cbn [fst snd].
    pose proof (all_flushed w w1 Hl1 Hin1) as Hemp.
    destruct (w_indep w1).
    + destruct (sync_numrecs_same w1 Hg1) as (Hg2 & Hp2 & Hf2 & _).
      split; [exact Hg2|]. split; [|split; [intro H; discriminate | intros _; rewrite Hp2; exact Hemp]]. split; [|exact Hdn].
      intro x. rewrite (EB_same w1 _ Hp2 Hf2), He1. apply Hs.
    + split; [exact Hg1|]. split; [|split; [intro H; discriminate | intros _; exact Hemp]]. split; [|exact Hdn].
      intro x. rewrite He1. apply Hs.
  - (* OFlush *)
    change bb_trig_flush with true. cbv iota.
    destruct (trigger_flush_spec (all_ranks w) w Hg) as (Hg1 & He1 & Hl1 & _ & Hin1 & _). cbn [fst snd].
    split; [exact Hg1|]. split; [|split; [intro H; discriminate | intros _; exact (all_flushed w _ Hl1 Hin1)]].
    split; [|exact Hdn]. intro x. rewrite He1. apply Hs.
  - (* ORedef *)
    change bb_trig_redef with true. cbv iota.
    destruct (trigger_flush_spec (all_ranks w) w Hg) as (Hg1 & He1 & Hl1 & _ & Hin1 & _). cbn [fst snd].
    split; [exact Hg1|]. split; [|split; [intro H; discriminate | intros _; exact (all_flushed w _ Hl1 Hin1)]].
    split; [|exact Hdn]. intro x. rewrite He1. apply Hs.
  - (* OBeginIndep *)
    destruct (reflag_good w true (w_logs w) Hg) as (Hg1 & Hp1 & Hf1). cbn [fst snd].
    split; [exact Hg1|]. split; [|split; intro H; discriminate]. split; [|exact Hdn].
    intro x. rewrite (EB_same w _ Hp1 Hf1). apply Hs.
  - (* OEndIndep *)
    destruct (sync_numrecs_same w Hg) as (Hg1 & Hp1 & Hf1 & _).
    destruct (reflag_good (sync_numrecs w) false (w_logs (sync_numrecs w)) Hg1) as (Hg2 & Hp2 & Hf2). cbn [fst snd].
    split; [exact Hg2|]. split; [|split; intro H; discriminate]. split; [|exact Hdn].
    intro x. rewrite (EB_same (sync_numrecs w) _ Hp2 Hf2), (EB_same w _ Hp1 Hf1). apply Hs.
  - (* OInq *)
    cbn [fst snd]. split; [exact Hg|]. split; [exact Hsim | split; intro H; discriminate].
  - (* OClose *)
    unfold close_all. change bb_trig_close with true. cbv iota.
    destruct (trigger_flush_spec (all_ranks w) w Hg) as (Hg1 & He1 & Hl1 & _ & Hin1 & _).
    set (w1 := trigger_flush cfg ord (all_ranks w) w) in *.
    pose proof (all_flushed w w1 Hl1 Hin1) as Hemp.
    destruct (sync_numrecs_same w1 Hg1) as (Hg2 & Hp2 & Hf2 & _).
    destruct (reflag_good (sync_numrecs w1) (w_indep (sync_numrecs w1))
                (if c_del cfg then negb bb_unlink_on_close else true) Hg2) as (Hg3 & Hp3 & Hf3).
    cbn [fst snd]. split; [exact Hg3|].
    split; [|split; [intro H; discriminate | intros _; rewrite Hp3, Hp2; exact Hemp]]. split; [|exact Hdn].
    intro x. rewrite (EB_same (sync_numrecs w1) _ Hp3 Hf3), (EB_same w1 _ Hp2 Hf2), He1. apply Hs.
  - (* OReopen *)
    destruct (pending w) as [|y ys] eqn:Ep; [|discriminate]. cbn [fst snd].
    set (m := zmax_list (map r_nr (w_rs w))). clearbody m.
    assert (Hp : pending (mkW (w_file w) (map (fun r => mkR log_init [] [] [] 0 m (r_g r) (r_ev r)) (w_rs w)) false true (w_spin w)) = []).
    { unfold pending. cbn [w_rs]. rewrite flat_map_map_comp. apply flat_map_nil_all. intros r _. reflexivity. }
    split; [|split; [|split; intro H; discriminate]].
    + split; [rewrite Hp; constructor | split; [|destruct Hg as (_ & _ & H); exact H]].
      cbn [w_rs]. rewrite Forall_forall. intros r Hr. apply in_map_iff in Hr. destruct Hr as (r0 & E & _). subst r.
      cbn [r_log]. exact log_init_ok.
    + split; [|exact Hdn]. intro x. unfold EB at 1. rewrite Hp. cbn [apply_writes w_file].
      rewrite <- Hs. unfold EB. rewrite Ep. reflexivity.
Qed.

(** ** whole sessions *)
Fixpoint wf_run (w : world) (d : dworld) (ops : list op) : Prop :=
  match ops with
  | [] => True
  | o :: r => wf_stepb w d o = true /\ wf_run (fst (step cfg ord w o)) (fst (dstep d o)) r
  end.

Lemma run_cons_fst : forall w o r, fst (run cfg ord w (o :: r)) = fst (run cfg ord (fst (step cfg ord w o)) r).
Proof.
  intros w o r. cbn [run]. destruct (step cfg ord w o) as [w1 ob1]. cbn [fst].
  destruct (run cfg ord w1 r) as [w2 ob2]. reflexivity.
Qed.

Lemma drun_cons_fst : forall d o r, fst (drun d (o :: r)) = fst (drun (fst (dstep d o)) r).
Proof.
  intros d o r. cbn [drun]. destruct (dstep d o) as [d1 ob1]. cbn [fst].
  destruct (drun d1 r) as [d2 ob2]. reflexivity.
Qed.

Lemma run_app_fst : forall a b w, fst (run cfg ord w (a ++ b)) = fst (run cfg ord (fst (run cfg ord w a)) b).
Proof.
  induction a as [|o a IH]; intros b w; [reflexivity|].
  rewrite <- app_comm_cons, !run_cons_fst. apply IH.
Qed.

Lemma drun_app_fst : forall a b d, fst (drun d (a ++ b)) = fst (drun (fst (drun d a)) b).
Proof.
  induction a as [|o a IH]; intros b d; [reflexivity|].
  rewrite <- app_comm_cons, !drun_cons_fst. apply IH.
Qed.

Lemma wf_run_app : forall a b w d, wf_run w d (a ++ b) ->
  wf_run w d a /\ wf_run (fst (run cfg ord w a)) (fst (drun d a)) b.
Proof.
  induction a as [|o a IH]; intros b w d H; [split; [exact I | exact H]|].
  rewrite <- app_comm_cons in H. cbn [wf_run] in H. destruct H as [H1 H2].
  destruct (IH b _ _ H2) as [H3 H4]. split; [split; assumption|].
  rewrite run_cons_fst, drun_cons_fst. exact H4.
Qed.

Theorem run_sim : forall ops w d, good w -> sim w d -> wf_run w d ops ->
  good (fst (run cfg ord w ops)) /\ sim (fst (run cfg ord w ops)) (fst (drun d ops)).
Proof.
  induction ops as [|o r IH]; intros w d Hg Hs Hwf; [split; assumption|].
  cbn [wf_run] in Hwf. destruct Hwf as [H1 H2].
  destruct (step_sim w d o Hg Hs H1) as (Hg1 & Hs1 & _).
  rewrite run_cons_fst, drun_cons_fst. apply IH; assumption.
Qed.

Lemma good_init : forall np, good (world_init np).
Proof.
  intro np. unfold world_init. split; [|split; [|reflexivity]].
  - unfold pending. cbn [w_rs]. rewrite (flat_map_nil_all _ _ rank_writes (repeat rank_init np)); [constructor|].
    intros r Hr. apply repeat_spec in Hr. subst r. reflexivity.
  - cbn [w_rs]. rewrite Forall_forall. intros r Hr. apply repeat_spec in Hr. subst r. exact log_init_ok.
Qed.

Lemma sim_init : forall np, sim (world_init np) dworld_init.
Proof.
  intro np. split; [|constructor]. intro x. unfold EB, ED, pending. cbn [w_rs world_init w_file].
  rewrite (flat_map_nil_all _ _ rank_writes (repeat rank_init np)); [reflexivity|].
  intros r Hr. apply repeat_spec in Hr. subst r. reflexivity.
Qed.

(** READ OWN WRITES: after any well-formed history, a well-formed get (its elements have no
    pending nonblocking write, and in independent mode no unflushed write of a rank that does not
    take part in the call) returns exactly what the default driver returns: the driver flushes the
    callers' logs first. *)
Theorem read_own_writes : forall np ops line who,
  wf_run (world_init np) dworld_init (ops ++ [OGet line who]) ->
  snd (step cfg ord (fst (run cfg ord (world_init np) ops)) (OGet line who)) =
  snd (dstep (fst (drun dworld_init ops)) (OGet line who)).
Proof.
  intros np ops line who Hwf. destruct (wf_run_app ops [OGet line who] _ _ Hwf) as [Ha Hb].
  destruct (run_sim ops _ _ (good_init np) (sim_init np) Ha) as [Hg Hs].
  cbn [wf_run] in Hb. destruct Hb as [Hb _].
  destruct (step_sim _ _ _ Hg Hs Hb) as (_ & _ & Hget & _). apply Hget. reflexivity.
Qed.

(** VISIBLE AFTER SYNC POINTS: after sync / flush / redef / close (any mode) and after wait_all /
    get_all in collective mode, no rank has anything left in its log and the destination file holds
    every write made so far by every process (all of the default driver's file, plus the nonblocking
    puts that the default driver still has pending). *)
Theorem visible_after_sync_points : forall np ops o,
  wf_run (world_init np) dworld_init (ops ++ [o]) ->
  is_sync_point (fst (run cfg ord (world_init np) ops)) o = true ->
  let w1 := fst (run cfg ord (world_init np) (ops ++ [o])) in
  let d1 := fst (drun dworld_init (ops ++ [o])) in
  pending w1 = [] /\ w_spin w1 = false /\ (forall x, w_file w1 x = ED d1 x) /\
  (d_pend d1 = [] -> forall x, w_file w1 x = lf_map (d_file d1) x).
Proof.
  intros np ops o Hwf Hsp. cbv zeta. destruct (wf_run_app ops [o] _ _ Hwf) as [Ha Hb].
  destruct (run_sim ops _ _ (good_init np) (sim_init np) Ha) as [Hg Hs].
  cbn [wf_run] in Hb. destruct Hb as [Hb _].
  destruct (step_sim _ _ _ Hg Hs Hb) as (Hg1 & (Hs1 & _) & _ & Hemp).
  rewrite run_app_fst, drun_app_fst. rewrite (run_cons_fst _ o []), (drun_cons_fst _ o []). cbn [run drun fst].
  specialize (Hemp Hsp).
  assert (Hfile : forall x, w_file (fst (step cfg ord (fst (run cfg ord (world_init np) ops)) o)) x =
                            ED (fst (dstep (fst (drun dworld_init ops)) o)) x).
  { intro x. rewrite <- Hs1. unfold EB. rewrite Hemp. reflexivity. }
  split; [exact Hemp|]. split; [destruct Hg1 as (_ & _ & H); exact H|]. split; [exact Hfile|].
  intros Hnone x. rewrite Hfile. unfold ED, dpend. rewrite Hnone. reflexivity.
Qed.

(** BB = DEFAULT AT CLOSE: for every well-formed program that ends with close and has waited for
    all its nonblocking puts, the destination file written through the burst-buffer driver equals the
    file written by the default driver, no rank hangs or spins on the way, and the log files exist
    afterwards iff retention was requested. *)
Theorem bb_equals_default : forall np ops line,
  wf_run (world_init np) dworld_init (ops ++ [OClose line]) ->
  let w1 := fst (run cfg ord (world_init np) (ops ++ [OClose line])) in
  let d1 := fst (drun dworld_init (ops ++ [OClose line])) in
  d_pend d1 = [] ->
  (forall x, w_file w1 x = lf_map (d_file d1) x) /\ w_spin w1 = false /\ w_logs w1 = negb (c_del cfg).
Proof.
  intros np ops line Hwf. cbv zeta. intro Hnone.
  destruct (visible_after_sync_points np ops (OClose line) Hwf eq_refl) as (_ & Hsp & _ & Hf). cbv zeta in Hf.
  split; [exact (Hf Hnone)|]. split; [exact Hsp|].
  rewrite run_app_fst, (run_cons_fst _ (OClose line) []). cbn [run fst step].
  apply log_removed_at_close.
Qed.

End Session.

(** the hypotheses are satisfiable: a two-rank session with blocking and nonblocking puts, an
    independent-mode phase, reads of own and of flushed foreign data, a one-entry flush buffer *)
Definition ex_cfg : config := mkCfg 1 true (fun _ _ => 0).
Definition ex_ops : list op :=
  [ OPut 1 0 (RVar 0 true 4 [0; 0] (Some [1; 4]) None [1; 2; 3; 4]);
    OPut 2 1 (RVar 0 true 4 [1; 0] (Some [1; 4]) None [5; 6; 7; 8]);
    OIput 3 0 0 (RVarn 1 false 8 [([0], Some [2]); ([3], Some [1])] true [9; 10; 11]);
    OGet 4 [(0%nat, [(0, [0; 1])]); (1%nat, [(0, [1; 2])])];
    OWait 5 true [(0%nat, WList [WPut 0]); (1%nat, WList [])];
    OGet 6 [(0%nat, [(0, [1; 3]); (1, [3])]); (1%nat, [(0, [0; 0])])];
    OBeginIndep;
    OPut 7 1 (RVar 0 true 4 [2; 1] (Some [1; 2]) (Some [1; 2]) [12; 13]);
    OGet 8 [(1%nat, [(0, [2; 3])])];
    OSync 9; OEndIndep;
    OPut 10 0 (RVar 0 true 4 [2; 1] (Some [1; 1]) None [14]);
    OClose 11 ].

Example session_example :
  wf_run ord_id ex_cfg (world_init 2) dworld_init ex_ops /\
  d_pend (fst (drun dworld_init ex_ops)) = [] /\
  snd (run ex_cfg ord_id (world_init 2) (firstn 4 ex_ops)) = [[20; 3; 0; 0]; [40; 4; 0; 2]; [40; 4; 1; 7]] /\
  map (fun x => w_file (fst (run ex_cfg ord_id (world_init 2) ex_ops)) x) [(0, [2; 1]); (0, [2; 3]); (1, [3]); (1, [2])]
  = [Some 14; Some 13; Some 11; None].
Proof.
  split; [|split; [|split]].
  - cbn [ex_ops wf_run]. repeat (split; [vm_compute; reflexivity|]). exact I.
  - vm_compute. reflexivity.
  - vm_compute. reflexivity.
  - vm_compute. reflexivity.
Qed.

(** ** record count *)
Lemma flush_ranks_nr : forall (cfg : config) nall rs k l, flush_ranks cfg nall k rs = Some l ->
  map (fun x => r_nr (fst x)) l = map r_nr rs.
Proof.
  intros cfg nall rs. induction rs as [|r rest IH]; intros k l H; cbn [flush_ranks] in H.
  - inversion H. reflexivity.
  - destruct (flush_core_rank (c_hint cfg) false (c_inj cfg k) nall (r_log r) (r_pl r) (r_g r)) as [fr|]; [|discriminate].
    destruct (flush_ranks cfg nall (S k) rest) as [l'|] eqn:E; [|discriminate].
    inversion H. subst l. cbn [map fst r_nr]. f_equal. apply (IH (S k)). exact E.
Qed.

Lemma map_set_nr : forall m (l : list (rstate * list (list entry))) rs,
  map (fun x => r_nr (fst x)) l = map r_nr rs ->
  map (fun x => r_nr (set_nr (Z.max (r_nr (fst x)) m) (fst x))) l = map (fun r => Z.max (r_nr r) m) rs.
Proof.
  intros m l. induction l as [|x l IH]; intros rs H; destruct rs as [|r rs]; cbn [map] in H |- *.
  - reflexivity.
  - discriminate H.
  - discriminate H.
  - inversion H as [[H1 H2]]. rewrite (IH rs H2). unfold set_nr at 1. cbn [r_nr]. rewrite H1. reflexivity.
Qed.

(** after a collective flush every rank's record count is its old count raised to the largest
    record extent of ANY rank's flushed entries: ranks that agreed before agree afterwards *)
Theorem collective_flush_numrecs : forall (ord : list wr -> list wr) (cfg : config) w, good w ->
  let m := zmax_list (map (fun r => log_recs (l_entries (r_log r))) (w_rs w)) in
  map r_nr (w_rs (flush_all cfg ord w)) = map (fun r => Z.max (r_nr r) m) (w_rs w) /\
  (forall r, In r (w_rs w) -> log_recs (l_entries (r_log r)) <= m).
Proof.
  intros ord cfg w (Hnd & Hok & Hsp). cbv zeta. split.
  - unfold flush_all.
    destruct (flush_ranks_spec cfg (zmax_list (map (rank_rounds cfg) (w_rs w))) (w_rs w) 0 Hok) as (l & Hl & _).
    { intros r Hin. apply zmax_list_ge. apply in_map. exact Hin. }
    rewrite Hl. cbn [w_rs]. rewrite map_map.
    pose proof (flush_ranks_nr cfg _ _ _ _ Hl) as Hnr.
    set (m := zmax_list (map (fun r => log_recs (l_entries (r_log r))) (w_rs w))) in *. clearbody m.
    apply map_set_nr. exact Hnr.
  - intros r Hin. apply zmax_list_ge. apply (in_map (fun r => log_recs (l_entries (r_log r)))). exact Hin.
Qed.

(** a process sees the records it has written at once (ncbbio_inq_dim), before any flush *)
Theorem own_records_visible_var : forall line vid elsz st c t data r, 0 < elsz -> 0 <= l_recdim (r_log r) ->
  req_recs (RVar vid true elsz st (Some c) t data) <= numrecs_view (do_put line (RVar vid true elsz st (Some c) t data) r).
Proof.
  intros line vid elsz st c t data r He Hr. unfold numrecs_view, do_put, set_log. cbn [r_log r_nr].
  pose proof (log_put_recdim_var line vid elsz st c t data (r_log r) He Hr) as H. cbv zeta in H. rewrite H. lia.
Qed.

Theorem own_records_visible_varn : forall line vid elsz subs hc data r, 0 < elsz -> 0 <= l_recdim (r_log r) ->
  req_recs (RVarn vid true elsz subs hc data) <= numrecs_view (do_put line (RVarn vid true elsz subs hc data) r).
Proof.
  intros line vid elsz subs hc data r He Hr. unfold numrecs_view, do_put, set_log. cbn [r_log r_nr].
  pose proof (log_put_recdim_varn line vid elsz subs hc data (r_log r) He Hr) as H. cbv zeta in H. rewrite H. lia.
Qed.

Print Assumptions step_sim.
Print Assumptions read_own_writes.
Print Assumptions visible_after_sync_points.
Print Assumptions bb_equals_default.
Print Assumptions collective_flush_numrecs.

(* ------------------------------------------------------------------------------------------- *)
(** * Part III: every replayed entry is given its OWN bytes of the data log, for any pattern of
      valid and cancelled entries (reads at [databuffer + dataread], seeks over cancelled bytes) *)
Section DataLogProofs.
Variable A : Type.
Variable cells : entry -> list A.

Lemma write_at_append : forall (d buf : list A), write_at A (length buf) d buf = buf ++ d.
Proof.
  intros d buf. unfold write_at. rewrite firstn_all. rewrite skipn_all2 by lia. rewrite app_nil_r. reflexivity.
Qed.

Lemma skipn_app_exact : forall (pre rest : list A), skipn (length pre) (pre ++ rest) = rest.
Proof. intros pre rest. rewrite skipn_app, skipn_all, Nat.sub_diag. reflexivity. Qed.

Lemma firstn_app_exact : forall (u rest : list A), firstn (length u) (u ++ rest) = u.
Proof. intros u rest. rewrite firstn_app, firstn_all, Nat.sub_diag. cbn [firstn]. apply app_nil_r. Qed.

Lemma do_read_spec : forall dl s B U pre R,
  dl = pre ++ U ++ R -> length pre = rd_pos A s -> rd_buf A s = B -> length B = rd_read A s ->
  rd_used A s = (rd_read A s + length U)%nat ->
  let s' := do_read A true dl s in
  rd_pos A s' = (length pre + length U)%nat /\ rd_buf A s' = B ++ U /\
  rd_read A s' = rd_used A s /\ rd_used A s' = rd_used A s.
Proof.
  intros dl s B U pre R Hdl Hpos Hbuf Hlen Hused. cbv zeta. unfold do_read.
  destruct (rd_read A s <? rd_used A s)%nat eqn:E.
  - cbn [rd_pos rd_buf rd_read rd_used].
    replace (rd_used A s - rd_read A s)%nat with (length U) by lia.
    split; [lia|]. split; [|split; reflexivity].
    rewrite Hbuf, <- Hlen, write_at_append. f_equal.
    rewrite Hdl, <- Hpos, skipn_app_exact. apply firstn_app_exact.
  - apply Nat.ltb_ge in E. assert (HU : length U = 0%nat) by lia.
    destruct U; [|discriminate]. cbn [length] in *. rewrite app_nil_r.
    split; [lia|]. split; [exact Hbuf|]. split; [lia | reflexivity].
Qed.

Lemma valid_entries_cons_true : forall e r, e_valid e = true -> valid_entries (e :: r) = e :: valid_entries r.
Proof. intros e r H. unfold valid_entries. cbn [filter]. rewrite H. reflexivity. Qed.

Lemma valid_entries_cons_false : forall e r, e_valid e = false -> valid_entries (e :: r) = valid_entries r.
Proof. intros e r H. unfold valid_entries. cbn [filter]. rewrite H. reflexivity. Qed.

Lemma scan_read_spec : forall dl b s B U pre R,
  dl = pre ++ U ++ flat_map cells b ++ R -> length pre = rd_pos A s -> rd_buf A s = B -> length B = rd_read A s ->
  rd_used A s = (rd_read A s + length U)%nat ->
  let s' := scan_read A cells true dl b s in
  rd_buf A s' = B ++ U ++ flat_map cells (valid_entries b) /\
  rd_pos A s' = (length pre + length U + length (flat_map cells b))%nat.
Proof.
  intros dl b. induction b as [|e r IH]; intros s B U pre R Hdl Hpos Hbuf Hlen Hused; cbv zeta; cbn [scan_read].
  - cbn [flat_map app] in Hdl.
    destruct (do_read_spec dl s B U pre R Hdl Hpos Hbuf Hlen Hused) as (H1 & H2 & _).
    cbn [valid_entries filter flat_map length]. rewrite app_nil_r. split; [exact H2 | lia].
  - destruct (e_valid e) eqn:Ev.
    + rewrite (valid_entries_cons_true e r Ev). cbn [flat_map].
      destruct (IH (mkRd A (rd_pos A s) (rd_buf A s) (rd_read A s) (rd_used A s + length (cells e))) B (U ++ cells e) pre R)
        as (H1 & H2); cbn [rd_pos rd_buf rd_read rd_used]; try assumption.
      * rewrite Hdl. cbn [flat_map]. rewrite <- !app_assoc. reflexivity.
      * rewrite app_length. lia.
      * cbv zeta in H1, H2. split; [rewrite H1, <- !app_assoc; reflexivity|].
        rewrite H2, !app_length. lia.
    + rewrite (valid_entries_cons_false e r Ev). cbn [flat_map] in Hdl.
      assert (Hdl1 : dl = pre ++ U ++ (cells e ++ flat_map cells r ++ R)) by (rewrite Hdl, <- !app_assoc; reflexivity).
      destruct (do_read_spec dl s B U pre _ Hdl1 Hpos Hbuf Hlen Hused) as (P1 & P2 & P3 & P4). cbv zeta in P1, P2, P3, P4.
      destruct (IH (mkRd A (rd_pos A (do_read A true dl s) + length (cells e)) (rd_buf A (do_read A true dl s))
                          (rd_read A (do_read A true dl s)) (rd_used A (do_read A true dl s)))
                   (B ++ U) [] (pre ++ U ++ cells e) R) as (H1 & H2); cbn [rd_pos rd_buf rd_read rd_used].
      * rewrite Hdl. cbn [app]. rewrite <- !app_assoc. reflexivity.
      * rewrite P1, !app_length. lia.
      * exact P2.
      * rewrite app_length, P3, Hused. lia.
      * cbn [length]. rewrite P3, P4. lia.
      * cbv zeta in H1, H2. cbn [app] in H1. split; [rewrite H1, <- app_assoc; reflexivity|].
        rewrite H2. cbn [flat_map length]. rewrite !app_length. lia.
Qed.

Lemma slice_data_spec : forall b tail,
  slice_data A cells b (flat_map cells (valid_entries b) ++ tail) = map cells (valid_entries b).
Proof.
  induction b as [|e r IH]; intro tail; [reflexivity|]. cbn [slice_data].
  destruct (e_valid e) eqn:Ev.
  - rewrite (valid_entries_cons_true e r Ev). cbn [flat_map map]. rewrite <- app_assoc.
    rewrite firstn_app_exact, skipn_app_exact, IH. reflexivity.
  - rewrite (valid_entries_cons_false e r Ev). apply IH.
Qed.

Theorem read_batches_correct : forall bs dl pre R,
  dl = pre ++ flat_map cells (concat bs) ++ R ->
  read_batches A cells true dl bs (length pre) = map (fun b => map cells (valid_entries b)) bs.
Proof.
  induction bs as [|b r IH]; intros dl pre R Hdl; [reflexivity|]. cbn [read_batches map].
  cbn [concat] in Hdl. rewrite flat_map_app, <- app_assoc in Hdl.
  destruct (scan_read_spec dl b (mkRd A (length pre) [] 0 0) [] [] pre (flat_map cells (concat r) ++ R))
    as (H1 & H2); cbn [rd_pos rd_buf rd_read rd_used length app]; try reflexivity; [exact Hdl|].
  cbv zeta in H1, H2. cbn [app] in H1. f_equal.
  - rewrite H1. rewrite <- (app_nil_r (flat_map cells (valid_entries b))). apply slice_data_spec.
  - rewrite H2. cbn [length]. rewrite Nat.add_0_r, <- app_length.
    apply (IH dl (pre ++ flat_map cells b) R). rewrite Hdl, <- app_assoc. reflexivity.
Qed.
End DataLogProofs.

Lemma valid_entries_app : forall a b, valid_entries (a ++ b) = valid_entries a ++ valid_entries b.
Proof. intros a b. unfold valid_entries. apply filter_app. Qed.

Lemma concat_map_valid : forall (B : Type) (f : entry -> B) bs,
  concat (map (fun b => map f (valid_entries b)) bs) = map f (valid_entries (concat bs)).
Proof.
  intros B f bs. induction bs as [|b r IH]; [reflexivity|].
  cbn [map concat]. rewrite IH, valid_entries_app, map_app. reflexivity.
Qed.

Lemma combine_map_map : forall (X B C : Type) (f : X -> B) (g : X -> C) l,
  combine (map f l) (map g l) = map (fun x => (f x, g x)) l.
Proof. intros X B C f g l. induction l as [|x r IH]; [reflexivity|]. cbn [map combine]. rewrite IH. reflexivity. Qed.

(** OWN DATA: whatever the pattern of valid and cancelled entries, the buffer size and the resulting
    batching, the flush hands every valid entry exactly the bytes it wrote into the data log *)
Theorem flush_data_correct : forall hint l, log_ok l ->
  flush_data hint l = Some (map (fun e => (e_line e, entry_cells e)) (valid_entries (l_entries l))).
Proof.
  intros hint l Hok. unfold flush_data.
  destruct (rounds_agree_partial (buffer_size hint l) (l_entries l) (flush_buffer_fits hint l Hok))
    as (bs & Hbl & Hcat & _).
  rewrite Hbl. change bb_read_at_dataread with true. f_equal.
  assert (Hdl : flat_map entry_cells (l_entries l) = [] ++ flat_map entry_cells (concat bs) ++ []).
  { cbn [app]. rewrite app_nil_r, Hcat. reflexivity. }
  pose proof (read_batches_correct Z entry_cells bs (flat_map entry_cells (l_entries l)) [] [] Hdl) as Hrb.
  cbn [length] in Hrb. rewrite Hrb, concat_map_valid, Hcat. apply combine_map_map.
Qed.

(** the hypothesis is necessary: reading at [databuffer] instead of [databuffer + dataread] (the seeded
    change C12_flush_read_offset_after_cancel) gives the first entry the bytes of a later one as soon as
    one round contains two cancelled entries that each follow an unread valid entry *)
Definition ex_e5 (v : bool) (line : Z) : entry := mkEntry v (-1) 64 BB_KIND_VARA 0 2 (ex_req 2) line.
Definition ex_log5 : list entry := [ex_e5 true 1; ex_e5 false 2; ex_e5 true 3; ex_e5 false 4; ex_e5 true 5].

Example read_offset_zero_refuted :
  read_batches Z entry_cells false (flat_map entry_cells ex_log5) [ex_log5] 0
    <> map (fun b => map entry_cells (valid_entries b)) [ex_log5] /\
  hd [] (hd [] (read_batches Z entry_cells false (flat_map entry_cells ex_log5) [ex_log5] 0)) = entry_cells (ex_e5 true 3) /\
  read_batches Z entry_cells true (flat_map entry_cells ex_log5) [ex_log5] 0
    = [[entry_cells (ex_e5 true 1); entry_cells (ex_e5 true 3); entry_cells (ex_e5 true 5)]].
Proof. split; [vm_compute; discriminate | split; vm_compute; reflexivity]. Qed.

Print Assumptions flush_data_correct.
Print Assumptions read_batches_correct.
