(** * Proofs_BurstBuffer: properties of the burst-buffer driver model (BurstBuffer.v).

    Part I (this part): core lemmas about the model's building blocks
      A. keys and maps ([zlist_eqb], [key_eqb], [apply_writes])
      B. the two loops of ncbbio_log_flush_core agree ([rounds_agree])
      C. buffer-size invariant ([log_ok], [req_ok], [flush_buffer_fits])
      D. per-rank flush and the multi-rank agreement
      E. replay refines direct application ([flush_refines_direct], [replay_rounds_refines])
      F. status delivery ([status_delivery], the old loop refuted)
      G. record-count rule
      H. log removed at close
    Session-level theorems are appended after Part I. *)
From Coq Require Import ZArith List Bool Lia Permutation.
From Pnc Require Import Gen_consts Gen_bbflush BurstBuffer.
Import ListNotations.
Local Open Scope Z_scope.

(* ------------------------------------------------------------------------------------------- *)
(** ** 0. Small list helpers (not in the 8.16 standard library under a stable name) *)

Lemma In_firstn_in : forall (A : Type) (n : nat) (l : list A) (x : A), In x (firstn n l) -> In x l.
Proof.
  intros A n l x H. rewrite <- (firstn_skipn n l). apply in_or_app. left. exact H.
Qed.

Lemma In_skipn_in : forall (A : Type) (n : nat) (l : list A) (x : A), In x (skipn n l) -> In x l.
Proof.
  intros A n l x H. rewrite <- (firstn_skipn n l). apply in_or_app. right. exact H.
Qed.

Lemma NoDup_app_l : forall (A : Type) (l1 l2 : list A), NoDup (l1 ++ l2) -> NoDup l1.
Proof.
  intros A l1. induction l1 as [|a l1 IH]; intros l2 H.
  - constructor.
  - cbn [app] in H. inversion H as [|x l Hnin Hnd]; subst.
    constructor.
    + intro Hin. apply Hnin. apply in_or_app. left. exact Hin.
    + apply (IH l2). exact Hnd.
Qed.

Lemma NoDup_app_r : forall (A : Type) (l1 l2 : list A), NoDup (l1 ++ l2) -> NoDup l2.
Proof.
  intros A l1. induction l1 as [|a l1 IH]; intros l2 H.
  - exact H.
  - cbn [app] in H. inversion H as [|x l Hnin Hnd]; subst. apply IH. exact Hnd.
Qed.

Lemma flat_map_nil_all : forall (A B : Type) (f : A -> list B) (l : list A),
  (forall x, In x l -> f x = []) -> flat_map f l = [].
Proof.
  intros A B f l. induction l as [|a l IH]; intros H.
  - reflexivity.
  - cbn [flat_map]. rewrite (H a (or_introl eq_refl)). cbn [app].
    apply IH. intros x Hx. apply H. right. exact Hx.
Qed.

Lemma flat_map_map_comp : forall (A B C : Type) (g : A -> B) (f : B -> list C) (l : list A),
  flat_map f (map g l) = flat_map (fun x => f (g x)) l.
Proof.
  intros A B C g f l. induction l as [|a l IH].
  - reflexivity.
  - cbn [map flat_map]. rewrite IH. reflexivity.
Qed.

Lemma fold_left_map_comp : forall (A B C : Type) (g : C -> B) (h : A -> B -> A) (l : list C) (a : A),
  fold_left h (map g l) a = fold_left (fun a x => h a (g x)) l a.
Proof.
  intros A B C g h l. induction l as [|x l IH]; intros a.
  - reflexivity.
  - cbn [map fold_left]. apply IH.
Qed.

(* ------------------------------------------------------------------------------------------- *)
(** ** A. Keys and maps *)

Lemma zlist_eqb_spec : forall a b, zlist_eqb a b = true <-> a = b.
Proof.
  induction a as [|x a IH]; intros [|y b]; cbn [zlist_eqb]; split; intro H;
    try reflexivity; try discriminate.
  - apply andb_true_iff in H. destruct H as [H1 H2].
    apply Z.eqb_eq in H1. apply IH in H2. subst. reflexivity.
  - inversion H; subst. apply andb_true_iff. split.
    + apply Z.eqb_refl.
    + apply IH. reflexivity.
Qed.

Lemma key_eqb_spec : forall a b, key_eqb a b = true <-> a = b.
Proof.
  intros [a1 a2] [b1 b2]. unfold key_eqb. cbn [fst snd]. split; intro H.
  - apply andb_true_iff in H. destruct H as [H1 H2].
    apply Z.eqb_eq in H1. apply zlist_eqb_spec in H2. subst. reflexivity.
  - inversion H; subst. apply andb_true_iff. split.
    + apply Z.eqb_refl.
    + apply zlist_eqb_spec. reflexivity.
Qed.

Lemma key_eqb_refl : forall k, key_eqb k k = true.
Proof. intro k. apply key_eqb_spec. reflexivity. Qed.

Lemma key_eq_dec : forall a b : key, {a = b} + {a <> b}.
Proof.
  intros a b. destruct (key_eqb a b) eqn:E.
  - left. apply key_eqb_spec. exact E.
  - right. intro H. apply key_eqb_spec in H. rewrite H in E. discriminate.
Qed.

Lemma upd_same : forall f k v, upd f k v k = Some v.
Proof. intros f k v. unfold upd. rewrite key_eqb_refl. reflexivity. Qed.

Lemma upd_other : forall f k v k', k' <> k -> upd f k v k' = f k'.
Proof.
  intros f k v k' H. unfold upd. destruct (key_eqb k' k) eqn:E.
  - apply key_eqb_spec in E. contradiction.
  - reflexivity.
Qed.

Lemma apply_writes_app : forall a b f, apply_writes (a ++ b) f = apply_writes b (apply_writes a f).
Proof.
  induction a as [|kv a IH]; intros b f.
  - reflexivity.
  - cbn [app apply_writes]. apply IH.
Qed.

Lemma apply_writes_notin : forall ws f k, ~ In k (map fst ws) -> apply_writes ws f k = f k.
Proof.
  induction ws as [|kv ws IH]; intros f k H.
  - reflexivity.
  - cbn [apply_writes]. cbn [map] in H. rewrite IH.
    + apply upd_other. intro E. apply H. left. symmetry. exact E.
    + intro Hin. apply H. right. exact Hin.
Qed.

Lemma apply_writes_in : forall ws f k v, NoDup (map fst ws) -> In (k, v) ws -> apply_writes ws f k = Some v.
Proof.
  induction ws as [|kv ws IH]; intros f k v Hnd Hin.
  - destruct Hin.
  - cbn [map] in Hnd. inversion Hnd as [|x l Hnin Hnd']; subst.
    cbn [apply_writes]. destruct Hin as [Heq | Hin].
    + subst kv. cbn [fst snd] in *. rewrite apply_writes_notin by exact Hnin. apply upd_same.
    + apply IH; assumption.
Qed.

(** [apply_writes] respects pointwise equality of the starting map (no functional extensionality) *)
Lemma apply_writes_ext : forall ws f g, (forall k, f k = g k) -> forall k, apply_writes ws f k = apply_writes ws g k.
Proof.
  induction ws as [|kv ws IH]; intros f g H k.
  - apply H.
  - cbn [apply_writes]. apply IH. intro k'. unfold upd.
    destruct (key_eqb k' (fst kv)); [reflexivity | apply H].
Qed.

Lemma apply_writes_perm : forall ws ws' f, Permutation ws ws' -> NoDup (map fst ws) ->
  forall k, apply_writes ws f k = apply_writes ws' f k.
Proof.
  intros ws ws' f Hp Hnd k.
  assert (Hnd' : NoDup (map fst ws')).
  { apply (Permutation_NoDup (l := map fst ws)); [apply Permutation_map; exact Hp | exact Hnd]. }
  destruct (in_dec key_eq_dec k (map fst ws)) as [Hin | Hnin].
  - apply in_map_iff in Hin. destruct Hin as [[k0 v] [Hk Hin]]. cbn [fst] in Hk. subst k0.
    rewrite (apply_writes_in ws f k v Hnd Hin).
    rewrite (apply_writes_in ws' f k v Hnd' (Permutation_in _ Hp Hin)). reflexivity.
  - rewrite (apply_writes_notin ws f k Hnin).
    rewrite apply_writes_notin; [reflexivity|].
    intro Hin. apply Hnin.
    apply (Permutation_in (l := map fst ws') (l' := map fst ws)); [|exact Hin].
    apply Permutation_map. apply Permutation_sym. exact Hp.
Qed.

Example apply_writes_perm_ex :
  let ws := [((1, [0; 1]), 7); ((1, [0; 2]), 8); ((2, []), 9)] in
  NoDup (map fst ws) /\ Permutation ws (rev ws) /\
  apply_writes ws fempty (1, [0; 2]) = Some 8 /\ apply_writes (rev ws) fempty (1, [0; 2]) = Some 8.
Proof.
  cbv zeta. split; [|split; [|split]].
  - repeat constructor; cbn; intuition discriminate.
  - apply Permutation_rev.
  - vm_compute. reflexivity.
  - vm_compute. reflexivity.
Qed.

(* ------------------------------------------------------------------------------------------- *)
(** ** B. The two loops of ncbbio_log_flush_core agree *)

(** total data length of the valid entries of a batch (what is read into the flush buffer) *)
Definition batch_bytes (b : list entry) : Z := fold_right Z.add 0 (map e_datalen (valid_entries b)).

(** the first loop with an arbitrary starting state *)
Definition cstate (buf : Z) (es : list entry) (st : Z * Z) : Z * Z := fold_left (count_step buf) es st.
Definition cnt (buf used : Z) (es : list entry) : Z := fst (cstate buf es (0, used)).

Lemma count_loop_cnt : forall buf es, count_loop buf es = cnt buf 0 es + 1.
Proof. reflexivity. Qed.

Lemma cstate_cons : forall buf e es st, cstate buf (e :: es) st = cstate buf es (count_step buf st e).
Proof. reflexivity. Qed.

(** shift lemma: the round counter of the accumulator is only ever incremented *)
Lemma cstate_shift : forall buf es n u,
  cstate buf es (n, u) = (n + fst (cstate buf es (0, u)), snd (cstate buf es (0, u))).
Proof.
  intros buf es. induction es as [|e es IH]; intros n u.
  - unfold cstate. cbn [fold_left fst snd]. f_equal. lia.
  - rewrite !cstate_cons. unfold count_step. cbn [fst snd].
    destruct (e_valid e).
    + destruct (buf <? e_datalen e + u).
      * rewrite (IH (n + 1) (e_datalen e)). rewrite (IH (0 + 1) (e_datalen e)).
        cbn [fst snd]. f_equal. lia.
      * apply IH.
    + apply IH.
Qed.

Lemma scan_batch_cons : forall buf used e r,
  scan_batch buf used (e :: r) =
  if e_valid e
  then if buf <? e_datalen e + used then ([], e :: r)
       else (e :: fst (scan_batch buf (used + e_datalen e) r), snd (scan_batch buf (used + e_datalen e) r))
  else (e :: fst (scan_batch buf used r), snd (scan_batch buf used r)).
Proof. reflexivity. Qed.

(** the inner scan splits the list *)
Lemma scan_batch_app : forall buf es used,
  fst (scan_batch buf used es) ++ snd (scan_batch buf used es) = es.
Proof.
  intros buf es. induction es as [|e r IH]; intros used.
  - reflexivity.
  - rewrite scan_batch_cons. destruct (e_valid e).
    + destruct (buf <? e_datalen e + used).
      * reflexivity.
      * cbn [fst snd app]. rewrite IH. reflexivity.
    + cbn [fst snd app]. rewrite IH. reflexivity.
Qed.

(** where the scan breaks, the count loop increments exactly once *)
Lemma scan_count : forall buf es used n,
  match snd (scan_batch buf used es) with
  | [] => fst (cstate buf es (n, used)) = n
  | e :: r => e_valid e = true /\ cstate buf es (n, used) = cstate buf r (n + 1, e_datalen e)
  end.
Proof.
  intros buf es. induction es as [|e r IH]; intros used n.
  - reflexivity.
  - rewrite scan_batch_cons. rewrite cstate_cons. unfold count_step. cbn [fst snd].
    destruct (e_valid e) eqn:Ev.
    + destruct (buf <? e_datalen e + used) eqn:Eb.
      * cbn [snd]. split; [exact Ev | reflexivity].
      * cbn [snd]. apply IH.
    + cbn [snd]. apply IH.
Qed.

(** the first batch of a non-empty list whose head fits is non-empty *)
Lemma scan_batch_progress : forall buf e r,
  (e_valid e = true -> e_datalen e <= buf) -> fst (scan_batch buf 0 (e :: r)) <> [].
Proof.
  intros buf e r H. rewrite scan_batch_cons. destruct (e_valid e).
  - destruct (buf <? e_datalen e + 0) eqn:Eb.
    + apply Z.ltb_lt in Eb. specialize (H eq_refl). lia.
    + cbn [fst]. discriminate.
  - cbn [fst]. discriminate.
Qed.

(** the batch never exceeds the buffer (or holds no valid data at all) *)
Lemma scan_batch_bytes : forall buf es used,
  batch_bytes (fst (scan_batch buf used es)) = 0 \/
  used + batch_bytes (fst (scan_batch buf used es)) <= buf.
Proof.
  intros buf es. induction es as [|e r IH]; intros used.
  - left. reflexivity.
  - rewrite scan_batch_cons. destruct (e_valid e) eqn:Ev.
    + destruct (buf <? e_datalen e + used) eqn:Eb.
      * left. reflexivity.
      * cbn [fst]. apply Z.ltb_ge in Eb.
        unfold batch_bytes, valid_entries. cbn [filter]. rewrite Ev. cbn [map fold_right].
        fold (valid_entries (fst (scan_batch buf (used + e_datalen e) r))).
        fold (batch_bytes (fst (scan_batch buf (used + e_datalen e) r))).
        destruct (IH (used + e_datalen e)) as [H0 | Hle].
        -- right. rewrite H0. lia.
        -- right. lia.
    + cbn [fst]. unfold batch_bytes, valid_entries. cbn [filter]. rewrite Ev.
      fold (valid_entries (fst (scan_batch buf used r))).
      fold (batch_bytes (fst (scan_batch buf used r))).
      apply IH.
Qed.

(** unfolding of the count loop along the first batch *)
Lemma count_loop_unfold : forall buf es,
  (forall e, In e es -> e_valid e = true -> 0 <= e_datalen e <= buf) ->
  count_loop buf es =
  match snd (scan_batch buf 0 es) with
  | [] => 1
  | _ :: _ => 1 + count_loop buf (snd (scan_batch buf 0 es))
  end.
Proof.
  intros buf es Hb. rewrite !count_loop_cnt. unfold cnt.
  pose proof (scan_count buf es 0 0) as Hs.
  pose proof (scan_batch_app buf es 0) as Happ.
  destruct (snd (scan_batch buf 0 es)) as [|e r] eqn:Er.
  - rewrite Hs. reflexivity.
  - destruct Hs as [Hv Hc]. rewrite Hc.
    assert (Hin : In e es).
    { rewrite <- Happ. apply in_or_app. right. left. reflexivity. }
    specialize (Hb e Hin Hv).
    rewrite (cstate_shift buf r (0 + 1) (e_datalen e)). cbn [fst].
    rewrite cstate_cons. unfold count_step. cbn [fst snd]. rewrite Hv.
    replace (buf <? e_datalen e + 0) with false by (symmetry; apply Z.ltb_ge; lia).
    rewrite (Z.add_0_l (e_datalen e)). lia.
Qed.

Lemma batch_loop_cons : forall f buf e r,
  batch_loop (S f) buf (e :: r) =
  match batch_loop f buf (snd (scan_batch buf 0 (e :: r))) with
  | Some bs => Some (fst (scan_batch buf 0 (e :: r)) :: bs)
  | None => None
  end.
Proof. reflexivity. Qed.

Lemma batch_loop_nil : forall f buf, batch_loop f buf [] = Some [].
Proof. intros [|f] buf; reflexivity. Qed.

(** fuel monotonicity *)
Lemma batch_loop_fuel_S : forall f buf es bs,
  batch_loop f buf es = Some bs -> batch_loop (S f) buf es = Some bs.
Proof.
  induction f as [|f IH]; intros buf es bs H.
  - destruct es as [|e r].
    + rewrite batch_loop_nil. exact H.
    + discriminate H.
  - destruct es as [|e r].
    + rewrite batch_loop_nil. rewrite batch_loop_nil in H. exact H.
    + rewrite batch_loop_cons in H. rewrite batch_loop_cons.
      destruct (batch_loop f buf (snd (scan_batch buf 0 (e :: r)))) as [bs'|] eqn:E.
      * rewrite (IH _ _ _ E). exact H.
      * discriminate H.
Qed.

Lemma batch_loop_fuel_le : forall f f' buf es bs, (f <= f')%nat ->
  batch_loop f buf es = Some bs -> batch_loop f' buf es = Some bs.
Proof.
  intros f f' buf es bs Hle H. induction Hle as [|m Hle IH].
  - exact H.
  - apply batch_loop_fuel_S. exact IH.
Qed.

(** core: fuel [length es] is already enough *)
Lemma rounds_core : forall buf n es, (length es <= n)%nat ->
  (forall e, In e es -> e_valid e = true -> 0 <= e_datalen e <= buf) ->
  exists bs, batch_loop n buf es = Some bs
    /\ concat bs = es
    /\ (forall b, In b bs -> b <> [])
    /\ (es <> [] -> Z.of_nat (length bs) = count_loop buf es)
    /\ (es = [] -> bs = [])
    /\ (forall b, In b bs -> batch_bytes b = 0 \/ batch_bytes b <= buf).
Proof.
  intros buf n. induction n as [|n IH]; intros es Hlen Hb.
  - destruct es as [|e r]; [|cbn [length] in Hlen; lia].
    exists []. repeat split; try reflexivity.
    + intros b [].
    + intro H. contradiction H. reflexivity.
    + intros b [].
  - destruct es as [|e r].
    + exists []. repeat split; try reflexivity.
      * intros b [].
      * intro H. contradiction H. reflexivity.
      * intros b [].
    + rewrite batch_loop_cons.
      pose proof (scan_batch_app buf (e :: r) 0) as Happ.
      pose proof (scan_batch_progress buf e r) as Hprog.
      pose proof (scan_batch_bytes buf (e :: r) 0) as Hbytes.
      pose proof (count_loop_unfold buf (e :: r) Hb) as Hcnt.
      remember (fst (scan_batch buf 0 (e :: r))) as b eqn:Eb.
      remember (snd (scan_batch buf 0 (e :: r))) as rest eqn:Erest.
      assert (Hbne : b <> []).
      { apply Hprog. intro Hv. apply (Hb e (or_introl eq_refl) Hv). }
      assert (Hlr : (length rest <= n)%nat).
      { assert (Hl : length (b ++ rest) = length (e :: r)) by (rewrite Happ; reflexivity).
        rewrite app_length in Hl. cbn [length] in Hl, Hlen.
        destruct b as [|b0 b']; [contradiction Hbne; reflexivity|]. cbn [length] in Hl. lia. }
      assert (Hbr : forall x, In x rest -> e_valid x = true -> 0 <= e_datalen x <= buf).
      { intros x Hx. apply Hb. rewrite <- Happ. apply in_or_app. right. exact Hx. }
      destruct (IH rest Hlr Hbr) as (bs' & Hbl & Hcat & Hne & Hcount & Hnil & Hsz).
      rewrite Hbl. exists (b :: bs'). split; [reflexivity|].
      split; [cbn [concat]; rewrite Hcat; exact Happ|].
      split.
      { intros x [Hx | Hx]; [subst x; exact Hbne | apply Hne; exact Hx]. }
      split.
      { intros _. cbn [length]. rewrite Hcnt. destruct rest as [|e' r'].
        - rewrite (Hnil eq_refl). reflexivity.
        - rewrite <- Hcount by discriminate. lia. }
      split; [discriminate|].
      intros x [Hx | Hx]; [subst x | apply Hsz; exact Hx].
      destruct Hbytes as [H0 | Hle]; [left; exact H0 | right; lia].
Qed.

(** THE main theorem, strongest form: no hypothesis on the sign of [buf].  The last conjunct of
    the statement as first proposed ([batch_bytes b <= buf]) is false when [buf < 0] and every
    entry is cancelled (see [rounds_agree_refuted]); the true bound is [Z.max 0 buf]. *)
Theorem rounds_agree_partial : forall buf es,
  (forall e, In e es -> e_valid e = true -> 0 <= e_datalen e <= buf) ->
  exists bs, batch_loop (S (length es)) buf es = Some bs
    /\ concat bs = es
    /\ (forall b, In b bs -> b <> [])
    /\ (es <> [] -> Z.of_nat (length bs) = count_loop buf es)
    /\ (es = [] -> bs = [] /\ count_loop buf es = 1)
    /\ (forall b, In b bs -> fold_right Z.add 0 (map e_datalen (valid_entries b)) <= Z.max 0 buf)
    /\ (forall b, In b bs -> valid_entries b <> [] -> fold_right Z.add 0 (map e_datalen (valid_entries b)) <= buf).
Proof.
  intros buf es Hb.
  destruct (rounds_core buf (length es) es (le_n _) Hb) as (bs & Hbl & Hcat & Hne & Hcount & Hnil & Hsz).
  exists bs. split.
  { apply (batch_loop_fuel_le (length es)); [lia | exact Hbl]. }
  split; [exact Hcat|]. split; [exact Hne|]. split; [exact Hcount|].
  split.
  { intro E. split; [apply Hnil; exact E | rewrite E; reflexivity]. }
  split.
  { intros b Hin. fold (batch_bytes b). destruct (Hsz b Hin) as [H0 | Hle]; lia. }
  intros b Hin Hv. fold (batch_bytes b). destruct (Hsz b Hin) as [H0 | Hle]; [|exact Hle].
  (* a valid entry of b is an entry of es, hence 0 <= buf *)
  destruct (valid_entries b) as [|x vs] eqn:Evs; [contradiction Hv; reflexivity|].
  assert (Hx : In x (valid_entries b)) by (rewrite Evs; left; reflexivity).
  unfold valid_entries in Hx. apply filter_In in Hx. destruct Hx as [Hxb Hxv].
  assert (Hxe : In x es).
  { rewrite <- Hcat. apply in_concat. exists b. split; assumption. }
  specialize (Hb x Hxe Hxv). lia.
Qed.

(** The statement as first proposed (no sign hypothesis on [buf]) ... *)
Definition rounds_agree_full : Prop := forall buf es,
  (forall e, In e es -> e_valid e = true -> 0 <= e_datalen e <= buf) ->
  exists bs, batch_loop (S (length es)) buf es = Some bs
    /\ concat bs = es
    /\ (forall b, In b bs -> b <> [])
    /\ (es <> [] -> Z.of_nat (length bs) = count_loop buf es)
    /\ (es = [] -> bs = [] /\ count_loop buf es = 1)
    /\ (forall b, In b bs -> fold_right Z.add 0 (map e_datalen (valid_entries b)) <= buf).

Definition ex_req (n : Z) : request := RVar 0 false 1 [0] (Some [n]) None [].
Definition ex_entry (valid : bool) (id len line : Z) : entry :=
  mkEntry valid id 64 BB_KIND_VARA 0 len (ex_req len) line.

(** ... is false: negative buffer size, one cancelled entry: the batch holds 0 bytes > buf. *)
Lemma rounds_agree_refuted : ~ rounds_agree_full.
Proof.
  intro H. specialize (H (-1) [ex_entry false (-1) 5 1]).
  destruct H as (bs & Hbl & _ & _ & _ & _ & Hsz).
  - intros e [He | []] Hv. subst e. discriminate Hv.
  - vm_compute in Hbl. inversion Hbl; subst bs.
    specialize (Hsz _ (or_introl eq_refl)). vm_compute in Hsz. apply Hsz. reflexivity.
Qed.

(** The main theorem with the statement as proposed, under the (always true in the driver:
    the buffer size is at least the data-log header) extra hypothesis [0 <= buf]. *)
Theorem rounds_agree : forall buf es, 0 <= buf ->
  (forall e, In e es -> e_valid e = true -> 0 <= e_datalen e <= buf) ->
  exists bs, batch_loop (S (length es)) buf es = Some bs
    /\ concat bs = es                                   (* every entry replayed exactly once, in order *)
    /\ (forall b, In b bs -> b <> [])                   (* every round makes progress: no spinning *)
    /\ (es <> [] -> Z.of_nat (length bs) = count_loop buf es)   (* count loop = batch loop *)
    /\ (es = [] -> bs = [] /\ count_loop buf es = 1)    (* empty log: one participation round *)
    /\ (forall b, In b bs -> fold_right Z.add 0 (map e_datalen (valid_entries b)) <= buf).
Proof.
  intros buf es H0 Hb.
  destruct (rounds_agree_partial buf es Hb) as (bs & Hbl & Hcat & Hne & Hcount & Hnil & Hsz & _).
  exists bs. repeat (split; [assumption|]).
  intros b Hin. specialize (Hsz b Hin). lia.
Qed.

(** a 3-entry log with one cancelled entry, buffer 10: two rounds *)
Definition ex_log3 : list entry := [ex_entry true 0 6 1; ex_entry false 1 9 2; ex_entry true (-1) 7 3].

Example rounds_agree_ex :
  (forall e, In e ex_log3 -> e_valid e = true -> 0 <= e_datalen e <= 10) /\
  batch_loop (S (length ex_log3)) 10 ex_log3
    = Some [[ex_entry true 0 6 1; ex_entry false 1 9 2]; [ex_entry true (-1) 7 3]] /\
  count_loop 10 ex_log3 = 2.
Proof.
  split; [|split].
  - intros e [H | [H | [H | []]]] Hv; subst e; cbn [e_datalen ex_entry]; first [lia | discriminate Hv].
  - vm_compute. reflexivity.
  - vm_compute. reflexivity.
Qed.

(** without the bound [e_datalen e <= buf] the batch loop spins while the count loop answers *)
Example rounds_refuted_without_bound :
  e_valid (ex_entry true (-1) 11 1) = true /\
  batch_loop 100 10 [ex_entry true (-1) 11 1] = None /\
  count_loop 10 [ex_entry true (-1) 11 1] = 2.
Proof. vm_compute. repeat split. Qed.

(* ------------------------------------------------------------------------------------------- *)
(** ** C. Buffer-size invariant: every entry fits into the flush buffer *)

Definition log_ok (l : logst) : Prop :=
  forall e, In e (l_entries l) -> 0 <= e_datalen e <= l_maxentry l.

Definition counts_nonneg (c : option (list Z)) : Prop :=
  match c with Some c => Forall (fun x => 0 <= x) c | None => True end.

Definition req_ok (r : request) : Prop :=
  match r with
  | RVar _ _ elsz _ cnt _ _ => 0 <= elsz /\ counts_nonneg cnt
  | RVarn _ _ elsz subs _ _ => 0 <= elsz /\ Forall (fun sc => counts_nonneg (snd sc)) subs
  end.

Lemma zprod_nonneg : forall c, Forall (fun x => 0 <= x) c -> 0 <= zprod c.
Proof.
  intros c H. induction H as [|x c Hx Hc IH].
  - unfold zprod. cbn [fold_right]. lia.
  - unfold zprod in *. cbn [fold_right]. apply Z.mul_nonneg_nonneg; assumption.
Qed.

Lemma put_size_var_nonneg : forall elsz c, 0 <= elsz -> counts_nonneg c -> 0 <= put_size_var elsz c.
Proof.
  intros elsz c He Hc. unfold put_size_var. destruct c as [c|].
  - apply Z.mul_nonneg_nonneg; [exact He | apply zprod_nonneg; exact Hc].
  - lia.
Qed.

Lemma sub_count_nonneg : forall hc sc, counts_nonneg (snd sc) -> counts_nonneg (sub_count hc sc).
Proof.
  intros hc sc H. unfold sub_count. destruct hc; [exact H | exact I].
Qed.

Lemma varn_step_fst : forall elsz isrec hc acc sc,
  fst (varn_step elsz isrec hc acc sc) = fst acc + put_size_var elsz (sub_count hc sc).
Proof.
  intros elsz isrec hc acc sc. unfold varn_step. cbv zeta.
  destruct (put_size_var elsz (sub_count hc sc) =? 0); [reflexivity|].
  destruct isrec; reflexivity.
Qed.

Lemma varn_scan_fst_ge : forall elsz isrec hc subs acc, 0 <= elsz ->
  Forall (fun sc => counts_nonneg (snd sc)) subs ->
  fst acc <= fst (fold_left (varn_step elsz isrec hc) subs acc).
Proof.
  intros elsz isrec hc subs. induction subs as [|sc subs IH]; intros acc He Hs.
  - cbn [fold_left]. lia.
  - inversion Hs as [|x l Hsc Hrest]; subst. cbn [fold_left].
    specialize (IH (varn_step elsz isrec hc acc sc) He Hrest).
    rewrite varn_step_fst in IH.
    pose proof (put_size_var_nonneg elsz (sub_count hc sc) He (sub_count_nonneg hc sc Hsc)). lia.
Qed.

Lemma buffer_size_ge_max : forall hint l, l_maxentry l <= buffer_size hint l.
Proof.
  intros hint l. unfold buffer_size. cbv zeta.
  set (b := if (0 <? hint) && (hint <? l_datalogsize l) then hint else l_datalogsize l).
  destruct (b <? l_maxentry l) eqn:E.
  - lia.
  - apply Z.ltb_ge in E. exact E.
Qed.

Lemma log_init_ok : log_ok log_init.
Proof. intros e H. destruct H. Qed.

Lemma log_put_ok : forall line r l, req_ok r -> log_ok l -> log_ok (log_put line r l).
Proof.
  intros line r l Hr Hl. destruct r as [vid isrec elsz st cnt str data | vid isrec elsz subs hc data].
  - destruct Hr as [He Hc]. unfold log_put.
    pose proof (put_size_var_nonneg elsz cnt He Hc) as Hp.
    destruct (put_size_var elsz cnt =? 0); [exact Hl|].
    cbv zeta. intros e Hin. cbn [l_entries l_maxentry] in *.
    apply in_app_or in Hin. destruct Hin as [Hin | [Hin | []]].
    + specialize (Hl e Hin). lia.
    + subst e. cbn [e_datalen]. lia.
  - destruct Hr as [He Hs]. unfold log_put. cbv zeta.
    pose proof (varn_scan_fst_ge elsz isrec hc subs (0, l_recdim l) He Hs) as Hp.
    cbn [fst] in Hp. fold (varn_scan elsz isrec hc subs (l_recdim l)) in Hp.
    intros e Hin. cbn [l_entries l_maxentry] in *.
    apply in_app_or in Hin. destruct Hin as [Hin | [Hin | []]].
    + specialize (Hl e Hin). lia.
    + subst e. cbn [e_datalen]. lia.
Qed.

Lemma log_reset_ok : forall l, log_ok (log_reset l).
Proof. intros l e H. destruct H. Qed.

Lemma mark_range_datalen : forall id a b es e, In e (mark_range id a b es) ->
  exists e0, In e0 es /\ e_datalen e = e_datalen e0.
Proof.
  intros id a b es e H. unfold mark_range in H.
  apply in_app_or in H. destruct H as [H | H].
  - exists e. split; [eapply In_firstn_in; exact H | reflexivity].
  - apply in_app_or in H. destruct H as [H | H].
    + apply in_map_iff in H. destruct H as [e0 [Heq Hin]]. exists e0. split.
      * eapply In_skipn_in. eapply In_firstn_in. exact Hin.
      * subst e. reflexivity.
    + exists e. split; [eapply In_skipn_in; exact H | reflexivity].
Qed.

Lemma invalidate_datalen : forall a b es e, In e (invalidate a b es) ->
  exists e0, In e0 es /\ e_datalen e = e_datalen e0.
Proof.
  intros a b es e H. unfold invalidate in H.
  apply in_app_or in H. destruct H as [H | H].
  - exists e. split; [eapply In_firstn_in; exact H | reflexivity].
  - apply in_app_or in H. destruct H as [H | H].
    + apply in_map_iff in H. destruct H as [e0 [Heq Hin]]. exists e0. split.
      * eapply In_skipn_in. eapply In_firstn_in. exact Hin.
      * subst e. reflexivity.
    + exists e. split; [eapply In_skipn_in; exact H | reflexivity].
Qed.

(** [log_ok] is preserved by the two in-place edits of the entry list (iput, cancel) *)
Lemma mark_range_ok : forall id a b l, log_ok l ->
  log_ok (mkLogst (mark_range id a b (l_entries l)) (l_datalogsize l) (l_maxentry l) (l_recdim l)).
Proof.
  intros id a b l Hl e Hin. cbn [l_entries l_maxentry] in *.
  destruct (mark_range_datalen _ _ _ _ _ Hin) as [e0 [Hin0 Heq]]. rewrite Heq. apply Hl. exact Hin0.
Qed.

Lemma invalidate_ok : forall a b l, log_ok l ->
  log_ok (mkLogst (invalidate a b (l_entries l)) (l_datalogsize l) (l_maxentry l) (l_recdim l)).
Proof.
  intros a b l Hl e Hin. cbn [l_entries l_maxentry] in *.
  destruct (invalidate_datalen _ _ _ _ Hin) as [e0 [Hin0 Heq]]. rewrite Heq. apply Hl. exact Hin0.
Qed.

Corollary flush_buffer_fits : forall hint l, log_ok l ->
  forall e, In e (l_entries l) -> e_valid e = true -> 0 <= e_datalen e <= buffer_size hint l.
Proof.
  intros hint l Hl e Hin _. specialize (Hl e Hin).
  pose proof (buffer_size_ge_max hint l). lia.
Qed.

Definition ex_req3 : request := RVar 1 true 4 [2; 0] (Some [3; 5]) None (repeat 7 15).
Definition ex_reqn : request := RVarn 2 true 8 [([0; 1], Some [1; 2]); ([4; 0], Some [2; 2])] true (repeat 1 6).

Example log_put_ok_ex :
  req_ok ex_req3 /\ req_ok ex_reqn /\
  map e_datalen (l_entries (log_put 2 ex_reqn (log_put 1 ex_req3 log_init))) = [60; 48] /\
  l_maxentry (log_put 2 ex_reqn (log_put 1 ex_req3 log_init)) = 60 /\
  buffer_size 16 (log_put 2 ex_reqn (log_put 1 ex_req3 log_init)) = 60.
Proof.
  split; [|split; [|split; [|split]]].
  - unfold ex_req3, req_ok, counts_nonneg. split; [lia|]. repeat constructor; lia.
  - unfold ex_reqn, req_ok, counts_nonneg. split; [lia|]. repeat constructor; cbn [snd]; lia.
  - vm_compute. reflexivity.
  - vm_compute. reflexivity.
  - vm_compute. reflexivity.
Qed.

(* ------------------------------------------------------------------------------------------- *)
(** ** D. Per-rank flush and the multi-rank agreement *)

Definition is_wait (e : event) : bool := match e with EvW _ _ => true | _ => false end.

Lemma filter_is_wait_map_EvI : forall (A : Type) (f : A -> Z) (l : list A),
  filter is_wait (map (fun e => EvI (f e)) l) = [].
Proof.
  intros A f l. induction l as [|a l IH]; [reflexivity|]. cbn [map filter is_wait]. exact IH.
Qed.

Lemma batch_events_waits : forall coll b, length (filter is_wait (batch_events coll b)) = 1%nat.
Proof.
  intros coll b. unfold batch_events. rewrite filter_app.
  rewrite (filter_is_wait_map_EvI entry e_line). reflexivity.
Qed.

Lemma run_batches_cons : forall coll inj b r g pl,
  run_batches coll inj (b :: r) g pl =
  (batch_events coll b ++ fst (run_batches coll inj r (g + Z.of_nat (length (valid_entries b)))
                                            (deliver_c b (batch_stats inj g b) pl)),
   snd (run_batches coll inj r (g + Z.of_nat (length (valid_entries b)))
                    (deliver_c b (batch_stats inj g b) pl))).
Proof. reflexivity. Qed.

(** one wait per batch *)
Lemma run_batches_waits : forall coll inj bs g pl,
  length (filter is_wait (fst (run_batches coll inj bs g pl))) = length bs.
Proof.
  intros coll inj bs. induction bs as [|b r IH]; intros g pl.
  - reflexivity.
  - rewrite run_batches_cons. cbn [fst]. rewrite filter_app, app_length.
    rewrite batch_events_waits. rewrite IH. reflexivity.
Qed.

(** every wait of the batch loop carries the mode of the flush *)
Lemma run_batches_wait_mode : forall coll inj bs g pl n c,
  In (EvW n c) (fst (run_batches coll inj bs g pl)) -> c = coll.
Proof.
  intros coll inj bs. induction bs as [|b r IH]; intros g pl n c H.
  - destruct H.
  - rewrite run_batches_cons in H. cbn [fst] in H. apply in_app_or in H. destruct H as [H | H].
    + unfold batch_events in H. apply in_app_or in H. destruct H as [H | H].
      * apply in_map_iff in H. destruct H as [x [Hx _]]. discriminate Hx.
      * destruct H as [H | []]. inversion H. reflexivity.
    + eapply IH. exact H.
Qed.

Lemma filter_is_wait_repeat : forall n c k, filter is_wait (repeat (EvW n c) k) = repeat (EvW n c) k.
Proof.
  intros n c k. induction k as [|k IH]; [reflexivity|]. cbn [repeat filter is_wait]. rewrite IH. reflexivity.
Qed.

Theorem flush_core_rank_ok : forall hint indep inj nall l pl g,
  log_ok l -> count_loop (buffer_size hint l) (l_entries l) <= nall ->
  exists fr, flush_core_rank hint indep inj nall l pl g = Some fr
    /\ concat (fr_batches fr) = l_entries l
    /\ 0 <= fr_trailing fr
    /\ Z.of_nat (length (filter is_wait (fr_events fr))) = nall
    (* additional facts used at session level *)
    /\ fr_trailing fr = nall - Z.of_nat (length (fr_batches fr))
    /\ (l_entries l <> [] ->
        Z.of_nat (length (fr_batches fr)) = count_loop (buffer_size hint l) (l_entries l))
    /\ (l_entries l = [] -> fr_batches fr = [] /\ fr_trailing fr = nall)
    /\ (forall b, In b (fr_batches fr) -> b <> [])
    /\ fr_events fr = fst (run_batches (negb indep) inj (fr_batches fr) g pl)
                      ++ repeat (EvW 0 true) (Z.to_nat (fr_trailing fr))
    /\ fr_putlist fr = fst (snd (run_batches (negb indep) inj (fr_batches fr) g pl))
    /\ fr_g fr = snd (snd (run_batches (negb indep) inj (fr_batches fr) g pl)).
Proof.
  intros hint indep inj nall l pl g Hl Hn.
  destruct (rounds_agree_partial (buffer_size hint l) (l_entries l) (flush_buffer_fits hint l Hl))
    as (bs & Hbl & Hcat & Hne & Hcount & Hnil & _).
  unfold flush_core_rank. cbv zeta. rewrite Hbl.
  assert (Htr : 0 <= nall - Z.of_nat (length bs)).
  { destruct (l_entries l) as [|e r] eqn:Ees.
    - destruct (Hnil eq_refl) as [Hbs H1]. subst bs. cbn [length]. lia.
    - rewrite Hcount by discriminate. lia. }
  destruct (nall - Z.of_nat (length bs) <? 0) eqn:Elt; [apply Z.ltb_lt in Elt; lia|].
  eexists. split; [reflexivity|]. cbn [fr_batches fr_trailing fr_events fr_putlist fr_g].
  split; [exact Hcat|]. split; [exact Htr|].
  split.
  { rewrite filter_app, app_length, run_batches_waits, filter_is_wait_repeat, repeat_length. lia. }
  split; [reflexivity|]. split; [exact Hcount|].
  split.
  { intro E. destruct (Hnil E) as [Hbs _]. subst bs. split; [reflexivity | cbn [length]; lia]. }
  split; [exact Hne|]. repeat split.
Qed.

Example flush_core_rank_ok_ex :
  let l := mkLogst ex_log3 30 9 0 in
  log_ok l /\ buffer_size 10 l = 10 /\ count_loop (buffer_size 10 l) (l_entries l) = 2 /\
  (exists fr, flush_core_rank 10 false (fun _ => 0) 3 l [] 0 = Some fr /\ fr_trailing fr = 1 /\
     fr_events fr = [EvI 1; EvW 1 true; EvI 3; EvW 1 true; EvW 0 true]).
Proof.
  cbv zeta. split; [|split; [|split]].
  - intros e [H | [H | [H | []]]]; subst e; cbn [e_datalen ex_entry l_maxentry]; lia.
  - vm_compute. reflexivity.
  - vm_compute. reflexivity.
  - eexists. split; [vm_compute; reflexivity|]. split; reflexivity.
Qed.

Lemma fold_left_zmax_ge : forall l a,
  a <= fold_left Z.max l a /\ forall x, In x l -> x <= fold_left Z.max l a.
Proof.
  induction l as [|y l IH]; intros a.
  - cbn [fold_left]. split; [lia | intros x []].
  - cbn [fold_left]. destruct (IH (Z.max a y)) as [H1 H2]. split; [lia|].
    intros x [Hx | Hx]; [subst x; lia | apply H2; exact Hx].
Qed.

Lemma zmax_list_ge : forall l x, In x l -> x <= zmax_list l.
Proof. intros l x H. unfold zmax_list. apply (proj2 (fold_left_zmax_ge l 0)). exact H. Qed.

Lemma zmax_list_nonneg : forall l, 0 <= zmax_list l.
Proof. intros l. unfold zmax_list. apply (proj1 (fold_left_zmax_ge l 0)). Qed.

(** MPI_Allreduce(MAX) of the round counts dominates every rank's own count
    (the [Forall] hypothesis is not needed for this inequality; it is kept because the
    consumer [flush_all_rank_ok] needs it) *)
Theorem collective_rounds_agree : forall cfg rs, Forall (fun r => log_ok (r_log r)) rs ->
  forall r, In r rs -> rank_rounds cfg r <= zmax_list (map (rank_rounds cfg) rs).
Proof.
  intros cfg rs _ r Hin. apply zmax_list_ge. apply in_map. exact Hin.
Qed.

(** hence in a collective flush every rank completes, with exactly [nall] waits *)
Corollary flush_all_rank_ok : forall cfg rs, Forall (fun r => log_ok (r_log r)) rs ->
  forall r inj, In r rs ->
  let nall := zmax_list (map (rank_rounds cfg) rs) in
  exists fr, flush_core_rank (c_hint cfg) false inj nall (r_log r) (r_pl r) (r_g r) = Some fr
    /\ concat (fr_batches fr) = l_entries (r_log r)
    /\ 0 <= fr_trailing fr
    /\ Z.of_nat (length (filter is_wait (fr_events fr))) = nall
    /\ (length (fr_batches fr) <= Z.to_nat nall)%nat.
Proof.
  intros cfg rs Hall r inj Hin nall.
  assert (Hl : log_ok (r_log r)) by (rewrite Forall_forall in Hall; apply Hall; exact Hin).
  pose proof (collective_rounds_agree cfg rs Hall r Hin) as Hle. fold nall in Hle. unfold rank_rounds in Hle.
  destruct (flush_core_rank_ok (c_hint cfg) false inj nall (r_log r) (r_pl r) (r_g r) Hl Hle)
    as (fr & Hfr & Hcat & Htr & Hw & Htreq & _).
  exists fr. repeat (split; [assumption|]). lia.
Qed.

(** the whole collective never spins *)
Lemma flush_ranks_ok : forall cfg nall rs k, Forall (fun r => log_ok (r_log r)) rs ->
  (forall r, In r rs -> rank_rounds cfg r <= nall) ->
  exists l, flush_ranks cfg nall k rs = Some l /\ length l = length rs.
Proof.
  intros cfg nall rs. induction rs as [|r rest IH]; intros k Hall Hle.
  - exists []. split; reflexivity.
  - inversion Hall as [|x xs Hr Hrest]; subst.
    destruct (flush_core_rank_ok (c_hint cfg) false (c_inj cfg k) nall (r_log r) (r_pl r) (r_g r) Hr
                (Hle r (or_introl eq_refl))) as (fr & Hfr & _).
    destruct (IH (S k) Hrest (fun x Hx => Hle x (or_intror Hx))) as (l & Hl & Hlen).
    cbn [flush_ranks]. rewrite Hfr, Hl. eexists. split; [reflexivity|]. cbn [length]. rewrite Hlen. reflexivity.
Qed.

Example collective_rounds_agree_ex :
  let cfg := mkCfg 10 true (fun _ _ => 0) in
  let r1 := set_log (mkLogst ex_log3 30 9 0) rank_init in
  let rs := [r1; rank_init] in
  Forall (fun r => log_ok (r_log r)) rs /\ map (rank_rounds cfg) rs = [2; 1] /\
  zmax_list (map (rank_rounds cfg) rs) = 2.
Proof.
  cbv zeta. split; [|split].
  - constructor; [|constructor; [|constructor]].
    + intros e [H | [H | [H | []]]]; subst e; cbn; lia.
    + exact log_init_ok.
  - vm_compute. reflexivity.
  - vm_compute. reflexivity.
Qed.

(** an independent flush never issues a collective wait and has no trailing rounds *)
Theorem indep_no_collective_wait : forall hint inj l pl g, log_ok l -> l_entries l <> [] ->
  exists fr, flush_core_rank hint true inj (count_loop (buffer_size hint l) (l_entries l)) l pl g = Some fr
    /\ fr_trailing fr = 0
    /\ forall n, In (EvW n true) (fr_events fr) -> False.
Proof.
  intros hint inj l pl g Hl Hne.
  destruct (flush_core_rank_ok hint true inj (count_loop (buffer_size hint l) (l_entries l)) l pl g Hl
              (Z.le_refl _)) as (fr & Hfr & _ & _ & _ & Htreq & Hcount & _ & _ & Hev & _).
  exists fr. split; [exact Hfr|].
  assert (Ht0 : fr_trailing fr = 0) by (rewrite Htreq, (Hcount Hne); lia).
  split; [exact Ht0|].
  intros n Hin. rewrite Hev, Ht0 in Hin. cbn [Z.to_nat repeat] in Hin. rewrite app_nil_r in Hin.
  apply run_batches_wait_mode in Hin. discriminate Hin.
Qed.

Example indep_no_collective_wait_ex :
  let l := mkLogst ex_log3 30 9 0 in
  log_ok l /\ l_entries l <> [] /\
  (exists fr, flush_core_rank 10 true (fun _ => 0) (count_loop (buffer_size 10 l) (l_entries l)) l [] 0 = Some fr /\
     fr_events fr = [EvI 1; EvW 1 false; EvI 3; EvW 1 false]).
Proof.
  cbv zeta. split; [|split].
  - intros e [H | [H | [H | []]]]; subst e; cbn [e_datalen ex_entry l_maxentry]; lia.
  - discriminate.
  - eexists. split; vm_compute; reflexivity.
Qed.

(* ------------------------------------------------------------------------------------------- *)
(** ** E. Replay refines direct application, for any batching and any order inside a batch *)

Lemma log_writes_app : forall a b, log_writes (a ++ b) = log_writes a ++ log_writes b.
Proof. intros a b. unfold log_writes. apply flat_map_app. Qed.

Lemma log_writes_concat : forall bs, log_writes (concat bs) = concat (map log_writes bs).
Proof.
  induction bs as [|b bs IH]; [reflexivity|].
  cbn [concat map]. rewrite log_writes_app, IH. reflexivity.
Qed.

Section Order.
  Variable ord : list wr -> list wr.
  Hypothesis ord_perm : forall l, Permutation (ord l) l.

  (** applying chunk after chunk, each chunk in an order chosen by [ord] *)
  Definition apply_chunks (chunks : list (list wr)) (f : fmap) : fmap :=
    fold_left (fun f c => apply_writes (ord c) f) chunks f.

  Lemma apply_chunks_ext : forall chunks f g, (forall k, f k = g k) ->
    forall k, apply_chunks chunks f k = apply_chunks chunks g k.
  Proof.
    induction chunks as [|c chunks IH]; intros f g H k.
    - apply H.
    - unfold apply_chunks. cbn [fold_left]. apply IH. intro k'. apply apply_writes_ext. exact H.
  Qed.

  Lemma apply_chunks_concat : forall chunks f, NoDup (map fst (concat chunks)) ->
    forall k, apply_chunks chunks f k = apply_writes (concat chunks) f k.
  Proof.
    induction chunks as [|c chunks IH]; intros f Hnd k.
    - reflexivity.
    - cbn [concat] in Hnd. rewrite map_app in Hnd.
      unfold apply_chunks. cbn [fold_left concat]. fold (apply_chunks chunks (apply_writes (ord c) f)).
      rewrite apply_writes_app.
      rewrite (apply_chunks_ext chunks (apply_writes (ord c) f) (apply_writes c f)).
      + apply IH. eapply NoDup_app_r. exact Hnd.
      + intro k'. symmetry. apply apply_writes_perm.
        * apply Permutation_sym. apply ord_perm.
        * eapply NoDup_app_l. exact Hnd.
  Qed.

  (** the general order-independence lemma *)
  Lemma apply_sequence_perm : forall chunks ws f, Permutation (concat chunks) ws ->
    NoDup (map fst ws) ->
    forall k, apply_chunks chunks f k = apply_writes ws f k.
  Proof.
    intros chunks ws f Hp Hnd k.
    assert (Hnd' : NoDup (map fst (concat chunks))).
    { apply (Permutation_NoDup (l := map fst ws)); [|exact Hnd].
      apply Permutation_map. apply Permutation_sym. exact Hp. }
    rewrite (apply_chunks_concat chunks f Hnd' k).
    apply apply_writes_perm; assumption.
  Qed.

  Lemma replay_chunks : forall bs f, replay ord bs f = apply_chunks (map log_writes bs) f.
  Proof.
    intros bs f. unfold replay, apply_chunks, commit_batch.
    rewrite fold_left_map_comp. reflexivity.
  Qed.

  Theorem flush_refines_direct_ord : forall bs f,
    NoDup (map fst (log_writes (concat bs))) ->
    forall k, replay ord bs f k = apply_writes (log_writes (concat bs)) f k.
  Proof.
    intros bs f Hnd k. rewrite replay_chunks. rewrite log_writes_concat in *.
    apply apply_chunks_concat. exact Hnd.
  Qed.

  (** *** Multi-rank rounds *)

  Lemma replay_rounds_chunks : forall bss n f,
    replay_rounds ord bss n f =
    apply_chunks (map (fun k => log_writes (round_entries bss k)) (seq 0 n)) f.
  Proof.
    intros bss n f. unfold replay_rounds, apply_chunks, commit_batch.
    rewrite fold_left_map_comp. reflexivity.
  Qed.
End Order.

Lemma flat_map_app_perm : forall (A B : Type) (f g : A -> list B) (l : list A),
  Permutation (flat_map (fun x => f x ++ g x) l) (flat_map f l ++ flat_map g l).
Proof.
  intros A B f g l. induction l as [|a l IH].
  - apply perm_nil.
  - cbn [flat_map]. rewrite <- !app_assoc. apply Permutation_app_head.
    eapply Permutation_trans; [apply Permutation_app_head; exact IH|].
    apply Permutation_app_swap_app.
Qed.

(** reading one rank's batches round by round gives back its log, if [n] bounds the number of batches *)
Lemma rounds_of_rank : forall (bs : list (list entry)) n, (length bs <= n)%nat ->
  flat_map (fun k => log_writes (nth k bs [])) (seq 0 n) = log_writes (concat bs).
Proof.
  induction bs as [|b bs IH]; intros n Hlen.
  - apply flat_map_nil_all. intros k _. destruct k; reflexivity.
  - destruct n as [|n]; [cbn [length] in Hlen; lia|].
    cbn [seq flat_map nth concat]. rewrite log_writes_app. f_equal.
    rewrite <- seq_shift. rewrite flat_map_map_comp. cbn [nth].
    apply IH. cbn [length] in Hlen. lia.
Qed.

Lemma round_entries_cons : forall bs bss k,
  round_entries (bs :: bss) k = nth k bs [] ++ round_entries bss k.
Proof. reflexivity. Qed.

Lemma rounds_perm : forall bss n, (forall bs, In bs bss -> (length bs <= n)%nat) ->
  Permutation (flat_map (fun k => log_writes (round_entries bss k)) (seq 0 n))
              (flat_map (fun bs => log_writes (concat bs)) bss).
Proof.
  induction bss as [|bs bss IH]; intros n Hlen.
  - cbn [flat_map]. rewrite flat_map_nil_all; [apply perm_nil | reflexivity].
  - cbn [flat_map].
    rewrite (flat_map_ext (fun k => log_writes (round_entries (bs :: bss) k))
                          (fun k => log_writes (nth k bs []) ++ log_writes (round_entries bss k))).
    + eapply Permutation_trans; [apply flat_map_app_perm|].
      rewrite (rounds_of_rank bs n (Hlen bs (or_introl eq_refl))).
      apply Permutation_app_head. apply IH. intros x Hx. apply Hlen. right. exact Hx.
    + intro k. rewrite round_entries_cons. apply log_writes_app.
Qed.

Theorem flush_refines_direct : forall ord, (forall l, Permutation (ord l) l) -> forall bs f,
  NoDup (map fst (log_writes (concat bs))) ->
  forall k, replay ord bs f k = apply_writes (log_writes (concat bs)) f k.
Proof. intros ord Hord bs f Hnd k. apply flush_refines_direct_ord; assumption. Qed.

Theorem replay_rounds_refines : forall ord, (forall l, Permutation (ord l) l) -> forall bss n f,
  (forall bs, In bs bss -> (length bs <= n)%nat) ->
  NoDup (map fst (flat_map (fun bs => log_writes (concat bs)) bss)) ->
  forall k, replay_rounds ord bss n f k = apply_writes (flat_map (fun bs => log_writes (concat bs)) bss) f k.
Proof.
  intros ord Hord bss n f Hlen Hnd k. rewrite replay_rounds_chunks.
  apply (apply_sequence_perm ord Hord); [|exact Hnd].
  rewrite <- flat_map_concat_map. apply rounds_perm. exact Hlen.
Qed.

(** the SPEC side: a sequence of direct puts *)
Lemma direct_puts_map : forall reqs f0,
  lf_map (fold_left (fun f r => direct_put r f) reqs f0) = apply_writes (flat_map req_writes reqs) (lf_map f0).
Proof.
  induction reqs as [|r reqs IH]; intros f0.
  - reflexivity.
  - cbn [fold_left flat_map]. rewrite IH. rewrite apply_writes_app. reflexivity.
Qed.

Lemma direct_puts_numrecs : forall reqs f0,
  lf_numrecs (fold_left (fun f r => direct_put r f) reqs f0)
  = fold_left (fun m r => Z.max m (req_recs r)) reqs (lf_numrecs f0).
Proof.
  induction reqs as [|r reqs IH]; intros f0.
  - reflexivity.
  - cbn [fold_left]. rewrite IH. reflexivity.
Qed.

(** examples: two entries writing distinct elements (plus a cancelled one), reversed inside a batch *)
Definition ex_w1 : request := RVar 1 false 4 [0] (Some [2]) None [10; 11].
Definition ex_w2 : request := RVar 1 false 4 [2] (Some [2]) None [12; 13].
Definition ex_e (valid : bool) (r : request) (line : Z) : entry := mkEntry valid (-1) 64 BB_KIND_VARA 0 8 r line.
Definition ex_bs : list (list entry) := [[ex_e true ex_w1 1; ex_e false ex_w1 2]; [ex_e true ex_w2 3]].

Example flush_refines_direct_ex :
  (forall l : list wr, Permutation (rev l) l) /\
  NoDup (map fst (log_writes (concat ex_bs))) /\
  map (fun i => replay (@rev wr) ex_bs fempty (1, [i])) [0; 1; 2; 3; 4]
    = [Some 10; Some 11; Some 12; Some 13; None].
Proof.
  split; [|split].
  - intro l. apply Permutation_sym. apply Permutation_rev.
  - vm_compute. repeat constructor; cbn; intuition discriminate.
  - vm_compute. reflexivity.
Qed.

Example replay_rounds_refines_ex :
  let bss := [ex_bs; [[ex_e true (RVar 2 false 4 [0] (Some [1]) None [99]) 4]]] in
  (forall bs, In bs bss -> (length bs <= 2)%nat) /\
  NoDup (map fst (flat_map (fun bs => log_writes (concat bs)) bss)) /\
  replay_rounds (@rev wr) bss 2 fempty (2, [0]) = Some 99 /\
  replay_rounds (@rev wr) bss 2 fempty (1, [3]) = Some 13.
Proof.
  cbv zeta. split; [|split; [|split]].
  - intros bs [H | [H | []]]; subst bs; cbn [length ex_bs]; lia.
  - vm_compute. repeat constructor; cbn; intuition discriminate.
  - vm_compute. reflexivity.
  - vm_compute. reflexivity.
Qed.

(* ------------------------------------------------------------------------------------------- *)
(** ** F. Status delivery (the status loop of ncbbio_log_flush_core) *)

(** *** put-list lemmas *)

Lemma pl_get_set_same : forall pl id p, pl_get pl id <> None -> pl_get (pl_set pl id p) id = Some p.
Proof.
  induction pl as [|ip pl IH]; intros id p H.
  - contradiction H. reflexivity.
  - cbn [pl_get pl_set] in *. destruct (fst ip =? id) eqn:E.
    + cbn [pl_get fst snd]. rewrite Z.eqb_refl. reflexivity.
    + cbn [pl_get]. rewrite E. apply IH. exact H.
Qed.

Lemma pl_get_set_other : forall pl id p id', id' <> id -> pl_get (pl_set pl id p) id' = pl_get pl id'.
Proof.
  induction pl as [|ip pl IH]; intros id p id' H.
  - reflexivity.
  - cbn [pl_get pl_set]. destruct (fst ip =? id) eqn:E.
    + cbn [pl_get fst snd]. apply Z.eqb_eq in E.
      replace (id =? id') with false by (symmetry; apply Z.eqb_neq; lia).
      replace (fst ip =? id') with false by (symmetry; apply Z.eqb_neq; lia). reflexivity.
    + cbn [pl_get]. destruct (fst ip =? id'); [reflexivity|]. apply IH. exact H.
Qed.

Lemma pl_set_keys : forall pl id p, map fst (pl_set pl id p) = map fst pl.
Proof.
  induction pl as [|ip pl IH]; intros id p.
  - reflexivity.
  - cbn [pl_set]. destruct (fst ip =? id) eqn:E.
    + cbn [map fst]. apply Z.eqb_eq in E. rewrite E. reflexivity.
    + cbn [map]. rewrite IH. reflexivity.
Qed.

Lemma pl_complete_same : forall pl id st p, pl_get pl id = Some p ->
  pl_get (pl_complete pl id st) id = Some (mkPreq true st (p_start p) (p_end p)).
Proof.
  intros pl id st p H. unfold pl_complete. rewrite H. apply pl_get_set_same. rewrite H. discriminate.
Qed.

Lemma pl_complete_other : forall pl id st id', id' <> id -> pl_get (pl_complete pl id st) id' = pl_get pl id'.
Proof.
  intros pl id st id' H. unfold pl_complete. destruct (pl_get pl id); [|reflexivity].
  apply pl_get_set_other. exact H.
Qed.

Lemma pl_complete_keys : forall pl id st, map fst (pl_complete pl id st) = map fst pl.
Proof.
  intros pl id st. unfold pl_complete. destruct (pl_get pl id); [apply pl_set_keys | reflexivity].
Qed.

Lemma pl_complete_present : forall pl id st id', pl_get pl id' <> None -> pl_get (pl_complete pl id st) id' <> None.
Proof.
  intros pl id st id' H. destruct (Z.eq_dec id' id) as [E | E].
  - subst id'. destruct (pl_get pl id) as [p|] eqn:Eg; [|contradiction H; reflexivity].
    rewrite (pl_complete_same pl id st p Eg). discriminate.
  - rewrite pl_complete_other by exact E. exact H.
Qed.

(** *** the loop *)

Lemma deliver_loop_cons : forall ri e r stats j pl,
  deliver_loop ri (e :: r) stats j pl =
  if e_valid e
  then deliver_loop ri r stats (S (if ri then 0%nat else j))
         (if 0 <=? e_reqid e then pl_complete pl (e_reqid e) (nth (if ri then 0%nat else j) stats 0) else pl)
  else deliver_loop ri r stats (if ri then 0%nat else j) pl.
Proof. reflexivity. Qed.

(** the nonblocking requests of a batch: valid entries with a request id *)
Definition batch_reqids (batch : list entry) : list Z :=
  map e_reqid (filter (fun e => 0 <=? e_reqid e) (valid_entries batch)).

(** what a correct status loop must do, parameterised by the loop *)
Definition delivers (loop : list entry -> list Z -> putlist -> putlist) : Prop :=
  forall batch stats pl,
    NoDup (batch_reqids batch) ->
    (forall e, In e (valid_entries batch) -> 0 <= e_reqid e -> pl_get pl (e_reqid e) <> None) ->
    (forall j e, nth_error (valid_entries batch) j = Some e -> 0 <= e_reqid e ->
       exists p', pl_get (loop batch stats pl) (e_reqid e) = Some p'
                  /\ p_ready p' = true /\ p_status p' = nth j stats 0)
    /\ (forall id, (forall e, In e (valid_entries batch) -> 0 <= e_reqid e -> e_reqid e <> id) ->
          pl_get (loop batch stats pl) id = pl_get pl id).

Lemma valid_entries_cons : forall e r,
  valid_entries (e :: r) = if e_valid e then e :: valid_entries r else valid_entries r.
Proof. reflexivity. Qed.

(** general form: the loop entered with counter [j0]; [pick] says which status index an entry
    at valid-position [j] receives ([j0 + j] for the fixed loop, [0] for the old one) *)
Lemma deliver_loop_gen : forall ri batch stats j0 pl,
  NoDup (batch_reqids batch) ->
  (forall e, In e (valid_entries batch) -> 0 <= e_reqid e -> pl_get pl (e_reqid e) <> None) ->
  (forall j e, nth_error (valid_entries batch) j = Some e -> 0 <= e_reqid e ->
     exists p', pl_get (deliver_loop ri batch stats j0 pl) (e_reqid e) = Some p'
                /\ p_ready p' = true
                /\ p_status p' = nth (if ri then 0%nat else (j0 + j)%nat) stats 0)
  /\ (forall id, (forall e, In e (valid_entries batch) -> 0 <= e_reqid e -> e_reqid e <> id) ->
        pl_get (deliver_loop ri batch stats j0 pl) id = pl_get pl id).
Proof.
  intros ri batch stats. induction batch as [|e r IH]; intros j0 pl Hnd Hpres.
  - split.
    + intros j x Hj. destruct j; discriminate Hj.
    + intros id _. reflexivity.
  - rewrite deliver_loop_cons. unfold batch_reqids in Hnd. rewrite valid_entries_cons in Hnd, Hpres |- *.
    destruct (e_valid e) eqn:Ev.
    + (* valid entry *)
      cbn [filter] in Hnd.
      destruct (0 <=? e_reqid e) eqn:Eid.
      * (* nonblocking: status delivered *)
        apply Z.leb_le in Eid. cbn [map] in Hnd.
        inversion Hnd as [|x l Hnin Hnd']; subst.
        fold (batch_reqids r) in Hnin, Hnd'.
        set (jj := if ri then 0%nat else j0) in *.
        set (pl' := pl_complete pl (e_reqid e) (nth jj stats 0)).
        assert (Hpres' : forall x, In x (valid_entries r) -> 0 <= e_reqid x -> pl_get pl' (e_reqid x) <> None).
        { intros x Hx Hx0. apply pl_complete_present. apply Hpres; [right; exact Hx | exact Hx0]. }
        destruct (IH (S jj) pl' Hnd' Hpres') as [IH1 IH2].
        assert (Hfresh : forall x, In x (valid_entries r) -> 0 <= e_reqid x -> e_reqid x <> e_reqid e).
        { intros x Hx Hx0 Heq. apply Hnin. unfold batch_reqids. rewrite <- Heq.
          apply in_map. apply filter_In. split; [exact Hx | apply Z.leb_le; exact Hx0]. }
        split.
        -- intros j x Hj Hx0. destruct j as [|j].
           ++ cbn [nth_error] in Hj. inversion Hj; subst x.
              rewrite (IH2 (e_reqid e) Hfresh).
              destruct (pl_get pl (e_reqid e)) as [p|] eqn:Eg.
              ** unfold pl'. rewrite (pl_complete_same pl (e_reqid e) _ p Eg).
                 eexists. split; [reflexivity|]. cbn [p_ready p_status]. split; [reflexivity|].
                 unfold jj. destruct ri; [reflexivity|]. rewrite Nat.add_0_r. reflexivity.
              ** exfalso. apply (Hpres e (or_introl eq_refl) Eid). exact Eg.
           ++ cbn [nth_error] in Hj. destruct (IH1 j x Hj Hx0) as (p' & Hg & Hr & Hs).
              exists p'. split; [exact Hg|]. split; [exact Hr|]. rewrite Hs.
              unfold jj. destruct ri; [reflexivity|].
              replace (S j0 + j)%nat with (j0 + S j)%nat by lia. reflexivity.
        -- intros id Hid. rewrite IH2.
           ++ unfold pl'. apply pl_complete_other. intro Heq. apply (Hid e (or_introl eq_refl) Eid). symmetry. exact Heq.
           ++ intros x Hx Hx0. apply Hid; [right; exact Hx | exact Hx0].
      * (* blocking put: nothing to deliver, but the counter advances *)
        apply Z.leb_gt in Eid. fold (batch_reqids r) in Hnd.
        set (jj := if ri then 0%nat else j0) in *.
        assert (Hpres' : forall x, In x (valid_entries r) -> 0 <= e_reqid x -> pl_get pl (e_reqid x) <> None).
        { intros x Hx Hx0. apply Hpres; [right; exact Hx | exact Hx0]. }
        destruct (IH (S jj) pl Hnd Hpres') as [IH1 IH2].
        split.
        -- intros j x Hj Hx0. destruct j as [|j].
           ++ cbn [nth_error] in Hj. inversion Hj; subst x. lia.
           ++ cbn [nth_error] in Hj. destruct (IH1 j x Hj Hx0) as (p' & Hg & Hr & Hs).
              exists p'. split; [exact Hg|]. split; [exact Hr|]. rewrite Hs.
              unfold jj. destruct ri; [reflexivity|].
              replace (S j0 + j)%nat with (j0 + S j)%nat by lia. reflexivity.
        -- intros id Hid. apply IH2. intros x Hx Hx0. apply Hid; [right; exact Hx | exact Hx0].
    + (* cancelled entry: skipped, counter unchanged *)
      fold (batch_reqids r) in Hnd.
      set (jj := if ri then 0%nat else j0) in *.
      destruct (IH jj pl Hnd Hpres) as [IH1 IH2].
      split.
      * intros j x Hj Hx0. destruct (IH1 j x Hj Hx0) as (p' & Hg & Hr & Hs).
        exists p'. split; [exact Hg|]. split; [exact Hr|]. rewrite Hs.
        unfold jj. destruct ri; reflexivity.
      * exact IH2.
Qed.

(** the loop with [j = 0] before the loop is correct *)
Theorem deliver_fixed_correct : delivers (fun batch stats pl => deliver_loop false batch stats 0 pl).
Proof.
  intros batch stats pl Hnd Hpres.
  destruct (deliver_loop_gen false batch stats 0%nat pl Hnd Hpres) as [H1 H2].
  split; [|exact H2].
  intros j e Hj He. destruct (H1 j e Hj He) as (p' & Hg & Hr & Hs).
  exists p'. split; [exact Hg|]. split; [exact Hr|]. rewrite Hs. reflexivity.
Qed.

(** the loop of the tree as built is that loop *)
Theorem status_delivery : delivers deliver_c.
Proof.
  unfold deliver_c. change bb_status_j_reset_inside with false. exact deliver_fixed_correct.
Qed.

(** explicit form of [status_delivery], for use without unfolding [delivers] *)
Corollary status_delivery_explicit : forall batch stats pl,
  NoDup (batch_reqids batch) ->
  (forall e, In e (valid_entries batch) -> 0 <= e_reqid e -> pl_get pl (e_reqid e) <> None) ->
  (forall j e, nth_error (valid_entries batch) j = Some e -> 0 <= e_reqid e ->
     exists p', pl_get (deliver_c batch stats pl) (e_reqid e) = Some p'
                /\ p_ready p' = true /\ p_status p' = nth j stats 0)
  /\ (forall id, (forall e, In e (valid_entries batch) -> 0 <= e_reqid e -> e_reqid e <> id) ->
        pl_get (deliver_c batch stats pl) id = pl_get pl id).
Proof. exact status_delivery. Qed.

(** the status loop never changes which ids are in the put list *)
Lemma deliver_loop_keys : forall ri batch stats j pl, map fst (deliver_loop ri batch stats j pl) = map fst pl.
Proof.
  intros ri batch stats. induction batch as [|e r IH]; intros j pl.
  - reflexivity.
  - rewrite deliver_loop_cons. destruct (e_valid e).
    + rewrite IH. destruct (0 <=? e_reqid e); [apply pl_complete_keys | reflexivity].
    + apply IH.
Qed.

(** the loop with [j = 0] inside the loop (tree before adb6eb2b, finding F10) *)
Definition status_delivery_old_full : Prop :=
  delivers (fun batch stats pl => deliver_loop true batch stats 0 pl).

Definition ex_pl2 : putlist := [(0, mkPreq false 0 0 1); (1, mkPreq false 0 1 2)].
Definition ex_batch2 : list entry := [ex_entry true 0 4 1; ex_entry true 1 4 2].

Lemma status_delivery_old_refuted : ~ status_delivery_old_full.
Proof.
  intro H. destruct (H ex_batch2 [0; -5] ex_pl2) as [H1 _].
  - vm_compute. constructor; [intros [E | []]; discriminate E|]. constructor; [intros []|]. constructor.
  - intros e [E | [E | []]] _; subst e; vm_compute; discriminate.
  - destruct (H1 1%nat (ex_entry true 1 4 2) eq_refl) as (p' & Hg & _ & Hs).
    + cbn [e_reqid ex_entry]. lia.
    + vm_compute in Hg. inversion Hg; subst p'. vm_compute in Hs. discriminate Hs.
Qed.

(** what the old loop does: every request of the batch gets the status of the FIRST replayed put *)
Theorem status_delivery_old_partial : forall batch stats pl,
  NoDup (batch_reqids batch) ->
  (forall e, In e (valid_entries batch) -> 0 <= e_reqid e -> pl_get pl (e_reqid e) <> None) ->
  (forall j e, nth_error (valid_entries batch) j = Some e -> 0 <= e_reqid e ->
     exists p', pl_get (deliver_loop true batch stats 0 pl) (e_reqid e) = Some p'
                /\ p_ready p' = true /\ p_status p' = nth 0 stats 0)
  /\ (forall id, (forall e, In e (valid_entries batch) -> 0 <= e_reqid e -> e_reqid e <> id) ->
        pl_get (deliver_loop true batch stats 0 pl) id = pl_get pl id).
Proof.
  intros batch stats pl Hnd Hpres.
  exact (deliver_loop_gen true batch stats 0%nat pl Hnd Hpres).
Qed.

(** a 3-entry batch with one cancelled entry and one blocking put *)
Example status_delivery_ex :
  let batch := [ex_entry true 1 4 1; ex_entry false 0 4 2; ex_entry true (-1) 4 3; ex_entry true 0 4 4] in
  NoDup (batch_reqids batch) /\
  (forall e, In e (valid_entries batch) -> 0 <= e_reqid e -> pl_get ex_pl2 (e_reqid e) <> None) /\
  map (fun id => option_map p_status (pl_get (deliver_c batch [-7; 0; -9] ex_pl2) id)) [0; 1] = [Some (-9); Some (-7)] /\
  map (fun id => option_map p_status (pl_get (deliver_loop true batch [-7; 0; -9] 0 ex_pl2) id)) [0; 1]
    = [Some (-7); Some (-7)].
Proof.
  cbv zeta. split; [|split; [|split]].
  - vm_compute. constructor; [intros [E | []]; discriminate E|]. constructor; [intros []|]. constructor.
  - intros e [E | [E | [E | []]]] H0; subst e; vm_compute; try discriminate. vm_compute in H0. contradiction H0. reflexivity.
  - vm_compute. reflexivity.
  - vm_compute. reflexivity.
Qed.

(* ------------------------------------------------------------------------------------------- *)
(** ** G. Record-count rule: the driver's recdimsize follows the default driver's rule *)

Lemma hd_ones : forall n, hd 1 (ones n) = 1.
Proof. intros [|n]; reflexivity. Qed.

Lemma zprod_ones : forall n, zprod (ones n) = 1.
Proof.
  induction n as [|n IH]; [reflexivity|].
  unfold ones, zprod in *. cbn [repeat fold_right]. rewrite IH. reflexivity.
Qed.

(** (no hypothesis on lengths is needed: [hd 1 (ones n) = 1] also for [n = 0]) *)
Lemma bb_recsize_eq_default : forall elsz st c t, put_size_var elsz (Some c) <> 0 ->
  bb_recsize_var st (Some c) t = recs_of st c (eff_count (length st) t).
Proof.
  intros elsz st c t Hp. unfold put_size_var in Hp. unfold recs_of.
  destruct (zprod c =? 0) eqn:Ez.
  - apply Z.eqb_eq in Ez. rewrite Ez in Hp. contradiction Hp. apply Z.mul_0_r.
  - unfold bb_recsize_var, eff_count. destruct t as [t|].
    + reflexivity.
    + rewrite hd_ones. lia.
Qed.

(** same, also covering [count = NULL] (var1-like: one element) *)
Lemma bb_recsize_eq_default_gen : forall st cnt t,
  zprod (eff_count (length st) cnt) <> 0 ->
  bb_recsize_var st cnt t = recs_of st (eff_count (length st) cnt) (eff_count (length st) t).
Proof.
  intros st cnt t Hp. unfold recs_of.
  destruct (zprod (eff_count (length st) cnt) =? 0) eqn:Ez; [apply Z.eqb_eq in Ez; contradiction|].
  unfold bb_recsize_var, eff_count. destruct t as [t|]; destruct cnt as [c|]; rewrite ?hd_ones; lia.
Qed.

Theorem log_put_recdim_var : forall line vid elsz st c t data l,
  0 < elsz -> 0 <= l_recdim l ->
  let r := RVar vid true elsz st (Some c) t data in
  l_recdim (log_put line r l) = Z.max (l_recdim l) (req_recs r).
Proof.
  intros line vid elsz st c t data l He Hrd r. unfold r, log_put, req_recs. cbn [req_isrec negb].
  destruct (put_size_var elsz (Some c) =? 0) eqn:Ep.
  - (* empty request: skipped by the driver, contributes 0 records *)
    apply Z.eqb_eq in Ep. unfold put_size_var in Ep.
    assert (Hz : zprod c = 0) by nia.
    unfold recs_of, eff_count at 1. rewrite Hz. cbn [Z.eqb]. lia.
  - apply Z.eqb_neq in Ep. cbv zeta. cbn [l_recdim].
    rewrite (bb_recsize_eq_default elsz st c t Ep). reflexivity.
Qed.

Example log_put_recdim_var_ex :
  l_recdim (log_put 1 ex_req3 log_init) = 5 /\ req_recs ex_req3 = 5 /\
  l_recdim (log_put 2 (RVar 1 true 4 [9; 0] (Some [0; 5]) None []) (log_put 1 ex_req3 log_init)) = 5.
Proof. vm_compute. repeat split. Qed.

Definition fmax_sub (hc : bool) (m : Z) (sc : list Z * option (list Z)) : Z := Z.max m (sub_recs hc sc).

Lemma fold_fmax_sub_max : forall hc subs a b,
  fold_left (fmax_sub hc) subs (Z.max a b) = Z.max a (fold_left (fmax_sub hc) subs b).
Proof.
  intros hc subs. induction subs as [|sc subs IH]; intros a b.
  - reflexivity.
  - cbn [fold_left]. unfold fmax_sub at 2 4. rewrite <- Z.max_assoc. apply IH.
Qed.

(** one step of the varn loop follows the default rule for that sub-request *)
Lemma varn_step_snd : forall elsz hc acc sc, 0 < elsz -> 0 <= snd acc ->
  snd (varn_step elsz true hc acc sc) = Z.max (snd acc) (sub_recs hc sc).
Proof.
  intros elsz hc acc sc He Hacc. unfold varn_step, sub_recs, recs_of. cbv zeta.
  destruct (sub_count hc sc) as [c|] eqn:Ec.
  - unfold put_size_var, eff_count.
    destruct (elsz * zprod c =? 0) eqn:Ep.
    + apply Z.eqb_eq in Ep. assert (Hz : zprod c = 0) by nia. rewrite Hz. cbn [Z.eqb snd]. lia.
    + apply Z.eqb_neq in Ep. assert (Hz : zprod c <> 0) by nia.
      apply Z.eqb_neq in Hz. rewrite Hz. cbn [snd]. rewrite hd_ones. f_equal. lia.
  - unfold put_size_var, eff_count. rewrite zprod_ones.
    replace (elsz * 1 =? 0) with false by (symmetry; apply Z.eqb_neq; lia).
    cbn [Z.eqb snd]. rewrite !hd_ones. f_equal. lia.
Qed.

Lemma varn_step_snd_nonneg : forall elsz hc acc sc, 0 <= snd acc -> 0 <= snd (varn_step elsz true hc acc sc).
Proof.
  intros elsz hc acc sc H. unfold varn_step. cbv zeta.
  destruct (put_size_var elsz (sub_count hc sc) =? 0); cbn [snd]; lia.
Qed.

Lemma varn_scan_snd : forall elsz hc subs acc, 0 < elsz -> 0 <= snd acc ->
  snd (fold_left (varn_step elsz true hc) subs acc) = fold_left (fmax_sub hc) subs (snd acc).
Proof.
  intros elsz hc subs. induction subs as [|sc subs IH]; intros acc He Hacc.
  - reflexivity.
  - cbn [fold_left]. rewrite IH; [|exact He | apply varn_step_snd_nonneg; exact Hacc].
    rewrite varn_step_snd by assumption. reflexivity.
Qed.

(** (holds for any [hascounts] and any sub-requests, with or without counts) *)
Theorem log_put_recdim_varn : forall line vid elsz subs hc data l,
  0 < elsz -> 0 <= l_recdim l ->
  let r := RVarn vid true elsz subs hc data in
  l_recdim (log_put line r l) = Z.max (l_recdim l) (req_recs r).
Proof.
  intros line vid elsz subs hc data l He Hrd r. unfold r, log_put, req_recs. cbn [req_isrec negb].
  cbv zeta. cbn [l_recdim]. unfold varn_scan.
  rewrite varn_scan_snd; [|exact He | exact Hrd]. cbn [snd].
  change (fun m sc => Z.max m (sub_recs hc sc)) with (fmax_sub hc).
  rewrite <- fold_fmax_sub_max. rewrite Z.max_l by exact Hrd. reflexivity.
Qed.

Example log_put_recdim_varn_ex :
  l_recdim (log_put 2 ex_reqn (log_put 1 ex_req3 log_init)) = 6 /\ req_recs ex_reqn = 6 /\
  l_recdim (log_put 1 ex_reqn log_init) = Z.max 0 (req_recs ex_reqn).
Proof. vm_compute. repeat split. Qed.

(* ------------------------------------------------------------------------------------------- *)
(** ** H. The log files are removed at close unless the user asked to keep them *)

Theorem log_removed_at_close : forall cfg ord w, w_logs (close_all cfg ord w) = negb (c_del cfg).
Proof.
  intros cfg ord w. unfold close_all. cbn [w_logs].
  change bb_unlink_on_close with true. destruct (c_del cfg); reflexivity.
Qed.

Example log_removed_at_close_ex :
  w_logs (close_all (mkCfg 0 true (fun _ _ => 0)) ord_id (world_init 2)) = false /\
  w_logs (close_all (mkCfg 0 false (fun _ _ => 0)) ord_id (world_init 2)) = true.
Proof. vm_compute. split; reflexivity. Qed.

(* ------------------------------------------------------------------------------------------- *)
(** ** End of Part I: assumptions of the main results *)

Print Assumptions rounds_agree.
Print Assumptions rounds_agree_partial.
Print Assumptions flush_refines_direct.
Print Assumptions replay_rounds_refines.
Print Assumptions status_delivery.
Print Assumptions collective_rounds_agree.
