(* Proofs_Abuf.v — proofs for property C13 about the executable models
     Abuf.v         (attached-buffer pool of buffered puts; what the library does to the caller's buffer)
     Nonblocking.v  (request queues: bput_alloc, post_varm, post_varn, commit_post, cancel, detach, close)
   A. pool accounting, refusal test, region geometry, detach
   B. the caller's buffer: in-place byte swap is undone at every exit, bput copies at post time,
      a get only modifies the selected bytes. *)
From Pnc Require Import Nonblocking Proofs_Disk.
Require Import Lia ZArith List Bool ZifyBool.
Import ListNotations.
Local Open Scope Z_scope.

(* ====================================================================== *)
(* Definitions used in the statements                                      *)
(* ====================================================================== *)
Definition ab_wf (a : abuf) : Prop :=
  ab_used a = zsum (map snd (ab_table a)) /\ Forall (fun e => 0 < snd e) (ab_table a) /\ ab_used a <= ab_alloc a.
Definition tail_used (a : abuf) : Prop := match rev (ab_table a) with [] => True | e :: _ => fst e = true end.
Definition all_used (a : abuf) : Prop := Forall (fun e => fst e = true) (ab_table a).
Definition abops_pos (ops : list abop) : Prop := Forall (fun o => match o with ABput n => 0 < n | _ => True end) ops.

Fixpoint lifo_hist (a : abuf) (ops : list abop) : Prop :=
  match ops with
  | [] => True
  | o :: r => (match o with
               | AComplete idxs => exists k, 0 <= k <= ab_tail a /\ (forall i, In i idxs <-> ab_tail a - k <= i < ab_tail a)
               | _ => True end) /\ lifo_hist (ab_step a o) r
  end.

(* ====================================================================== *)
(* Generic list helpers (Z-indexed)                                        *)
(* ====================================================================== *)
Lemma zsum_app l1 l2 : zsum (l1 ++ l2) = zsum l1 + zsum l2.
Proof. induction l1 as [|x l1 IH]; cbn [zsum app]; lia. Qed.

Lemma zsum_rev l : zsum (rev l) = zsum l.
Proof. induction l as [|x l IH]; cbn [zsum rev]; [reflexivity|]. rewrite zsum_app. cbn [zsum]. lia. Qed.

Lemma zsum_map_snd_nonneg (t : list (bool * Z)) :
  Forall (fun e => 0 < snd e) t -> 0 <= zsum (map snd t).
Proof.
  induction 1 as [|e t He Ht IH]; cbn [zsum map]; lia.
Qed.

Lemma zfirstn_nil_l {A} n : zfirstn n (@nil A) = [].
Proof. reflexivity. Qed.

Lemma zfirstn_nonpos {A} n (l : list A) : n <= 0 -> zfirstn n l = [].
Proof. intros Hn. destruct l as [|x l]; cbn [zfirstn]; [reflexivity|]. destruct (Z.leb_spec n 0); [reflexivity|lia]. Qed.

Lemma zskipn_nonpos {A} n (l : list A) : n <= 0 -> zskipn n l = l.
Proof. intros Hn. destruct l as [|x l]; cbn [zskipn]; [reflexivity|]. destruct (Z.leb_spec n 0); [reflexivity|lia]. Qed.

Lemma zfirstn_cons_pos {A} n (x : A) l : 0 < n -> zfirstn n (x :: l) = x :: zfirstn (n - 1) l.
Proof. intros Hn. cbn [zfirstn]. destruct (Z.leb_spec n 0); [lia|reflexivity]. Qed.

Lemma zskipn_cons_pos {A} n (x : A) l : 0 < n -> zskipn n (x :: l) = zskipn (n - 1) l.
Proof. intros Hn. cbn [zskipn]. destruct (Z.leb_spec n 0); [lia|reflexivity]. Qed.

Lemma zfirstn_zskipn {A} n (l : list A) : zfirstn n l ++ zskipn n l = l.
Proof.
  revert n. induction l as [|x l IH]; intros n; [reflexivity|].
  destruct (Z.leb_spec n 0) as [H|H].
  - rewrite zfirstn_nonpos, zskipn_nonpos by lia. reflexivity.
  - rewrite zfirstn_cons_pos, zskipn_cons_pos by lia. cbn [app]. now rewrite IH.
Qed.

Lemma Zlen_zfirstn {A} n (l : list A) : Zlen (zfirstn n l) = Z.min (Z.max 0 n) (Zlen l).
Proof.
  revert n. induction l as [|x l IH]; intros n.
  - cbn [zfirstn]. rewrite Zlen_nil. lia.
  - destruct (Z.leb_spec n 0) as [H|H].
    + rewrite zfirstn_nonpos by lia. rewrite Zlen_nil. pose proof (Zlen_nonneg (x :: l)). lia.
    + rewrite zfirstn_cons_pos by lia. rewrite !Zlen_cons, IH. pose proof (Zlen_nonneg l). lia.
Qed.

Lemma Zlen_zskipn {A} n (l : list A) : Zlen (zskipn n l) = Zlen l - Z.min (Z.max 0 n) (Zlen l).
Proof.
  revert n. induction l as [|x l IH]; intros n.
  - cbn [zskipn]. rewrite Zlen_nil. lia.
  - destruct (Z.leb_spec n 0) as [H|H].
    + rewrite zskipn_nonpos by lia. pose proof (Zlen_nonneg (x :: l)). lia.
    + rewrite zskipn_cons_pos by lia. rewrite !Zlen_cons, IH. pose proof (Zlen_nonneg l). lia.
Qed.

Lemma zfirstn_all {A} n (l : list A) : Zlen l <= n -> zfirstn n l = l.
Proof.
  revert n. induction l as [|x l IH]; intros n Hn; [reflexivity|].
  rewrite Zlen_cons in Hn. pose proof (Zlen_nonneg l).
  rewrite zfirstn_cons_pos by lia. now rewrite IH by lia.
Qed.

Lemma zfirstn_app_l {A} n (l r : list A) : n <= Zlen l -> zfirstn n (l ++ r) = zfirstn n l.
Proof.
  revert n. induction l as [|x l IH]; intros n Hn.
  - rewrite Zlen_nil in Hn. now rewrite !zfirstn_nonpos by lia.
  - rewrite Zlen_cons in Hn. cbn [app]. destruct (Z.leb_spec n 0) as [H|H].
    + now rewrite !zfirstn_nonpos by lia.
    + rewrite !zfirstn_cons_pos by lia. now rewrite IH by lia.
Qed.

Lemma znth_nil {A} i (d : A) : znth [] i d = d.
Proof. reflexivity. Qed.

Lemma znth_cons_0 {A} (x : A) l d : znth (x :: l) 0 d = x.
Proof. reflexivity. Qed.

Lemma znth_cons_nz {A} (x : A) l i d : i <> 0 -> znth (x :: l) i d = znth l (i - 1) d.
Proof. intros Hi. cbn [znth]. destruct (Z.eqb_spec i 0); [lia|reflexivity]. Qed.

Lemma znth_neg {A} (l : list A) i d : i < 0 -> znth l i d = d.
Proof.
  revert i. induction l as [|x l IH]; intros i Hi; [reflexivity|].
  rewrite znth_cons_nz by lia. apply IH. lia.
Qed.

Lemma znth_overflow {A} (l : list A) i d : Zlen l <= i -> znth l i d = d.
Proof.
  revert i. induction l as [|x l IH]; intros i Hi; [reflexivity|].
  rewrite Zlen_cons in Hi. pose proof (Zlen_nonneg l).
  rewrite znth_cons_nz by lia. apply IH. lia.
Qed.

Lemma znth_zfirstn {A} n (l : list A) i d : i < n -> znth (zfirstn n l) i d = znth l i d.
Proof.
  revert n i. induction l as [|x l IH]; intros n i Hi; [reflexivity|].
  destruct (Z.ltb_spec i 0) as [Hneg|Hnn].
  - now rewrite !znth_neg by lia.
  - rewrite zfirstn_cons_pos by lia.
    destruct (Z.eq_dec i 0) as [->|Hz]; [reflexivity|].
    rewrite !znth_cons_nz by lia. apply IH. lia.
Qed.

Lemma znth_zskipn {A} n (l : list A) i d : 0 <= n -> 0 <= i -> znth (zskipn n l) i d = znth l (i + n) d.
Proof.
  revert n i. induction l as [|x l IH]; intros n i Hn Hi; [reflexivity|].
  destruct (Z.eq_dec n 0) as [->|Hz].
  - rewrite zskipn_nonpos by lia. now rewrite Z.add_0_r.
  - rewrite zskipn_cons_pos by lia. rewrite (znth_cons_nz x l (i + n)) by lia.
    rewrite IH by lia. f_equal. lia.
Qed.

Lemma znth_app_l {A} (l r : list A) i d : i < Zlen l -> znth (l ++ r) i d = znth l i d.
Proof.
  revert i. induction l as [|x l IH]; intros i Hi.
  - rewrite Zlen_nil in Hi. cbn [app]. now rewrite znth_neg by lia.
  - rewrite Zlen_cons in Hi. cbn [app].
    destruct (Z.eq_dec i 0) as [->|Hz]; [reflexivity|].
    rewrite !znth_cons_nz by lia. apply IH. lia.
Qed.

Lemma Forall_znth {A} (P : A -> Prop) (l : list A) d :
  (forall i, 0 <= i < Zlen l -> P (znth l i d)) -> Forall P l.
Proof.
  induction l as [|x l IH]; intros H; constructor.
  - apply (H 0). rewrite Zlen_cons. pose proof (Zlen_nonneg l). lia.
  - apply IH. intros i Hi. specialize (H (i + 1)).
    rewrite Zlen_cons in H. rewrite znth_cons_nz in H by lia.
    replace (i + 1 - 1) with i in H by lia. apply H. lia.
Qed.

Lemma Zlen_zupd {A} (l : list A) i v : Zlen (zupd l i v) = Zlen l.
Proof.
  revert i. induction l as [|x l IH]; intros i; [reflexivity|].
  cbn [zupd]. destruct (Z.eqb_spec i 0); rewrite !Zlen_cons; [reflexivity|]. now rewrite IH.
Qed.

Lemma znth_zupd_same {A} (l : list A) i v d : 0 <= i < Zlen l -> znth (zupd l i v) i d = v.
Proof.
  revert i. induction l as [|x l IH]; intros i Hi.
  - rewrite Zlen_nil in Hi. lia.
  - rewrite Zlen_cons in Hi. cbn [zupd]. destruct (Z.eqb_spec i 0) as [->|Hz]; [reflexivity|].
    rewrite znth_cons_nz by lia. apply IH. lia.
Qed.

Lemma znth_zupd_other {A} (l : list A) i j v d : j <> i -> znth (zupd l i v) j d = znth l j d.
Proof.
  revert i j. induction l as [|x l IH]; intros i j Hij; [reflexivity|].
  cbn [zupd]. destruct (Z.eqb_spec i 0) as [->|Hz].
  - now rewrite !znth_cons_nz by lia.
  - destruct (Z.eq_dec j 0) as [->|Hj]; [reflexivity|].
    rewrite !znth_cons_nz by lia. apply IH. lia.
Qed.

Lemma filter_all_true {A} (f : A -> bool) l : Forall (fun e => f e = true) l -> filter f l = l.
Proof. induction 1 as [|e l He Hl IH]; cbn [filter]; [reflexivity|]. now rewrite He, IH. Qed.

(* ====================================================================== *)
(* B1. ncmpii_in_swapn is an involution                                    *)
(* ====================================================================== *)
Lemma swap_chunks_nil n e : swap_chunks n e [] = [].
Proof.
  induction n as [|n IH]; cbn [swap_chunks]; [reflexivity|].
  rewrite firstn_nil, skipn_nil. cbn [rev app]. exact IH.
Qed.

Lemma swap_chunks_length n e l : length (swap_chunks n e l) = length l.
Proof.
  revert l. induction n as [|n IH]; intros l; cbn [swap_chunks]; [reflexivity|].
  rewrite app_length, rev_length, IH, firstn_length, skipn_length. lia.
Qed.

Lemma swap_chunks_involutive n e l : swap_chunks n e (swap_chunks n e l) = l.
Proof.
  revert l. induction n as [|n IH]; intros l; cbn [swap_chunks]; [reflexivity|].
  destruct (Nat.le_gt_cases e (length l)) as [Hle|Hgt].
  - assert (Hlen : length (rev (firstn e l)) = e) by (rewrite rev_length, firstn_length; lia).
    rewrite firstn_app, skipn_app, Hlen, Nat.sub_diag.
    cbn [firstn skipn]. rewrite app_nil_r.
    rewrite (firstn_all2 (rev (firstn e l))) by lia.
    rewrite (skipn_all2 (rev (firstn e l))) by lia. cbn [app].
    rewrite rev_involutive, IH. apply firstn_skipn.
  - rewrite (firstn_all2 l) by lia. rewrite (skipn_all2 l) by lia.
    rewrite swap_chunks_nil, app_nil_r.
    rewrite (firstn_all2 (rev l)) by (rewrite rev_length; lia).
    rewrite (skipn_all2 (rev l)) by (rewrite rev_length; lia).
    rewrite swap_chunks_nil, app_nil_r. apply rev_involutive.
Qed.

Theorem swap_involutive : forall buf nelems esize,
  in_swapn (in_swapn buf nelems esize) nelems esize = buf.
Proof.
  intros buf nelems esize. unfold in_swapn.
  destruct ((esize <=? 1) || (nelems <=? 0)); [reflexivity|]. apply swap_chunks_involutive.
Qed.

Theorem in_swapn_length : forall buf nelems esize, length (in_swapn buf nelems esize) = length buf.
Proof.
  intros buf nelems esize. unfold in_swapn.
  destruct ((esize <=? 1) || (nelems <=? 0)); [reflexivity|]. apply swap_chunks_length.
Qed.

Example swap_involutive_ex :
  in_swapn [1;2;3;4;5;6;7;8;9] 2 4 = [4;3;2;1;8;7;6;5;9] /\
  in_swapn (in_swapn [1;2;3;4;5;6;7;8;9] 2 4) 2 4 = [1;2;3;4;5;6;7;8;9].
Proof. split; vm_compute; reflexivity. Qed.

(* ====================================================================== *)
(* A1. the refusal test                                                    *)
(* ====================================================================== *)
Theorem abuf_insufficient_iff : forall a n, abuf_insufficient a n = true <-> ab_alloc a - ab_used a < n.
Proof. intros a n. unfold abuf_insufficient. lia. Qed.

Example abuf_insufficient_ex :
  abuf_insufficient (mkabuf 32 16 [(true, 16)]) 17 = true /\ abuf_insufficient (mkabuf 32 16 [(true, 16)]) 16 = false.
Proof. split; vm_compute; reflexivity. Qed.

(* ====================================================================== *)
(* A3. well-formedness of the pool is an invariant of every history        *)
(* ====================================================================== *)
Lemma ab_wf_used_nonneg a : ab_wf a -> 0 <= ab_used a.
Proof. intros (Hu & Hp & _). rewrite Hu. now apply zsum_map_snd_nonneg. Qed.

Lemma map_snd_zupd_keep (t : list (bool * Z)) i b d :
  map snd (zupd t i (b, snd (znth t i d))) = map snd t.
Proof.
  revert i. induction t as [|e t IH]; intros i; [reflexivity|].
  cbn [zupd znth]. destruct (Z.eqb_spec i 0) as [Hz|Hz]; cbn [map snd]; [reflexivity|].
  now rewrite IH.
Qed.

Lemma release_alloc a i : ab_alloc (abuf_release a i) = ab_alloc a.
Proof. reflexivity. Qed.
Lemma release_used a i : ab_used (abuf_release a i) = ab_used a.
Proof. reflexivity. Qed.
Lemma release_sizes a i : map snd (ab_table (abuf_release a i)) = map snd (ab_table a).
Proof. unfold abuf_release. cbn [ab_table]. apply map_snd_zupd_keep. Qed.

Lemma fold_release_alloc idxs a : ab_alloc (fold_left abuf_release idxs a) = ab_alloc a.
Proof. revert a. induction idxs as [|i r IH]; intros a; cbn [fold_left]; [reflexivity|]. now rewrite IH. Qed.
Lemma fold_release_used idxs a : ab_used (fold_left abuf_release idxs a) = ab_used a.
Proof. revert a. induction idxs as [|i r IH]; intros a; cbn [fold_left]; [reflexivity|]. now rewrite IH. Qed.
Lemma fold_release_sizes idxs a : map snd (ab_table (fold_left abuf_release idxs a)) = map snd (ab_table a).
Proof.
  revert a. induction idxs as [|i r IH]; intros a; cbn [fold_left]; [reflexivity|].
  now rewrite IH, release_sizes.
Qed.

Lemma Forall_map_snd_pos (t t' : list (bool * Z)) :
  map snd t' = map snd t -> Forall (fun e => 0 < snd e) t -> Forall (fun e => 0 < snd e) t'.
Proof.
  intros Hm Ht.
  assert (H : Forall (fun z => 0 < z) (map snd t)) by (rewrite Forall_map; exact Ht).
  rewrite <- Hm in H. now rewrite Forall_map in H.
Qed.

Lemma fold_release_wf idxs a : ab_wf a -> ab_wf (fold_left abuf_release idxs a).
Proof.
  intros (Hu & Hp & Hle). unfold ab_wf.
  rewrite fold_release_used, fold_release_alloc, fold_release_sizes.
  repeat split; try assumption.
  eapply Forall_map_snd_pos; [apply fold_release_sizes|exact Hp].
Qed.

(* coalesce_rev strips the leading free entries *)
Lemma coalesce_rev_spec rt u :
  exists dropped,
    rt = dropped ++ fst (coalesce_rev rt u) /\
    snd (coalesce_rev rt u) = u - zsum (map snd dropped) /\
    Forall (fun e => fst e = false) dropped /\
    match fst (coalesce_rev rt u) with [] => True | e :: _ => fst e = true end.
Proof.
  revert u. induction rt as [|[b n] r IH]; intros u.
  - exists []. cbn. repeat split; try constructor. lia.
  - destruct b.
    + exists []. cbn. repeat split; try constructor. lia.
    + cbn [coalesce_rev]. destruct (IH (u - n)) as (dr & E1 & E2 & F & Hh).
      exists ((false, n) :: dr). cbn [app map snd zsum]. repeat split.
      * now rewrite <- E1.
      * rewrite E2. lia.
      * constructor; [reflexivity|exact F].
      * exact Hh.
Qed.

Lemma coalesce_alloc a : ab_alloc (abuf_coalesce a) = ab_alloc a.
Proof. unfold abuf_coalesce. destruct (coalesce_rev (rev (ab_table a)) (ab_used a)). reflexivity. Qed.

Lemma coalesce_wf a : ab_wf a -> ab_wf (abuf_coalesce a) /\ tail_used (abuf_coalesce a).
Proof.
  intros (Hu & Hp & Hle). unfold abuf_coalesce, tail_used.
  destruct (coalesce_rev_spec (rev (ab_table a)) (ab_used a)) as (dr & E1 & E2 & F & Hh).
  destruct (coalesce_rev (rev (ab_table a)) (ab_used a)) as [rt u'] eqn:E.
  cbn [fst snd] in E1, E2, Hh. cbn [ab_table ab_used ab_alloc].
  assert (Et : ab_table a = rev rt ++ rev dr).
  { rewrite <- rev_app_distr, <- E1. now rewrite rev_involutive. }
  rewrite Et in Hp. apply Forall_app in Hp. destruct Hp as [Hp1 Hp2].
  assert (Hs : zsum (map snd (ab_table a)) = zsum (map snd (rev rt)) + zsum (map snd dr)).
  { rewrite Et, map_app, zsum_app. f_equal. now rewrite map_rev, zsum_rev. }
  assert (Hd : 0 <= zsum (map snd dr)).
  { apply zsum_map_snd_nonneg. apply Forall_rev in Hp2. now rewrite rev_involutive in Hp2. }
  split.
  - unfold ab_wf. cbn [ab_table ab_used ab_alloc]. repeat split; [lia|exact Hp1|lia].
  - rewrite rev_involutive. exact Hh.
Qed.

Lemma ab_step_alloc a o : ab_alloc (ab_step a o) = ab_alloc a.
Proof.
  destruct o as [n|idxs|]; cbn [ab_step].
  - destruct (abuf_insufficient a n); reflexivity.
  - now rewrite coalesce_alloc, fold_release_alloc.
  - reflexivity.
Qed.

Lemma ab_run_alloc ops a : ab_alloc (ab_run a ops) = ab_alloc a.
Proof.
  unfold ab_run. revert a. induction ops as [|o r IH]; intros a; cbn [fold_left]; [reflexivity|].
  now rewrite IH, ab_step_alloc.
Qed.

Lemma malloc_wf a n : ab_wf a -> 0 < n -> abuf_insufficient a n = false ->
  ab_wf (fst (fst (abuf_malloc a n))).
Proof.
  intros (Hu & Hp & Hle) Hn Hi. unfold abuf_insufficient in Hi.
  unfold abuf_malloc, ab_wf. cbn [fst ab_table ab_used ab_alloc].
  rewrite map_app, zsum_app. cbn [map snd zsum]. repeat split.
  - lia.
  - apply Forall_app. split; [exact Hp|]. constructor; [exact Hn|constructor].
  - lia.
Qed.

Lemma ab_step_wf a o : ab_wf a -> tail_used a ->
  match o with ABput n => 0 < n | _ => True end ->
  ab_wf (ab_step a o) /\ tail_used (ab_step a o).
Proof.
  intros Hwf Ht Ho. destruct o as [n|idxs|]; cbn [ab_step].
  - destruct (abuf_insufficient a n) eqn:Hi; [now split|].
    split; [now apply malloc_wf|].
    unfold tail_used, abuf_malloc. cbn [fst ab_table]. now rewrite rev_app_distr.
  - apply coalesce_wf. now apply fold_release_wf.
  - pose proof (ab_wf_used_nonneg a Hwf) as Hnn. destruct Hwf as (Hu & Hp & Hle).
    split; [|exact I]. unfold abuf_reset, ab_wf. cbn [ab_table ab_used ab_alloc map zsum].
    repeat split; [constructor|lia].
Qed.

Theorem ab_run_wf : forall ops a, ab_wf a -> tail_used a -> abops_pos ops ->
  ab_wf (ab_run a ops) /\ tail_used (ab_run a ops).
Proof.
  unfold ab_run. induction ops as [|o r IH]; intros a Hwf Ht Hops; cbn [fold_left]; [now split|].
  inversion Hops as [|o' r' Ho Hr]; subst.
  destruct (ab_step_wf a o Hwf Ht Ho) as [Hwf' Ht']. now apply IH.
Qed.

Lemma ab_wf_init n : 0 < n -> ab_wf (mkabuf n 0 []) /\ tail_used (mkabuf n 0 []).
Proof.
  intros Hn. split; [|exact I]. unfold ab_wf. cbn [ab_table ab_used ab_alloc map zsum].
  repeat split; [constructor|lia].
Qed.

Example ab_run_wf_ex :
  ab_wf (mkabuf 32 16 [(true, 16)]) /\ tail_used (mkabuf 32 16 [(true, 16)]) /\
  abops_pos [ABput 8; AComplete [0]; ABput 100; AResetAll; ABput 4].
Proof.
  split; [|split].
  - unfold ab_wf. cbn. repeat split; [repeat constructor; lia|lia].
  - exact eq_refl.
  - repeat constructor; lia.
Qed.

(* ====================================================================== *)
(* A4. pending <= usage <= attached size                                    *)
(* ====================================================================== *)
Lemma pending_le_sizes (t : list (bool * Z)) :
  Forall (fun e => 0 < snd e) t -> zsum (map snd (filter fst t)) <= zsum (map snd t).
Proof.
  induction 1 as [|[b n] t He Ht IH]; cbn [filter map zsum fst snd]; [lia|].
  cbn [snd] in He. destruct b; cbn [map zsum snd]; lia.
Qed.

Lemma ab_wf_pending_le_usage a : ab_wf a -> abuf_pending a <= abuf_usage a <= ab_alloc a.
Proof.
  intros (Hu & Hp & Hle). unfold abuf_pending, abuf_usage. rewrite Hu at 1.
  split; [now apply pending_le_sizes|exact Hle].
Qed.

Theorem usage_ge_pending : forall ops n, 0 < n -> abops_pos ops ->
  abuf_pending (ab_run (mkabuf n 0 []) ops) <= abuf_usage (ab_run (mkabuf n 0 []) ops) <= n.
Proof.
  intros ops n Hn Hops.
  destruct (ab_wf_init n Hn) as [Hwf Ht].
  destruct (ab_run_wf ops _ Hwf Ht Hops) as [Hwf' _].
  pose proof (ab_wf_pending_le_usage _ Hwf') as H.
  rewrite ab_run_alloc in H. exact H.
Qed.

Example usage_ge_pending_ex :
  let a := ab_run (mkabuf 32 0 []) [ABput 16; ABput 8; AComplete [0]; ABput 16] in
  abops_pos [ABput 16; ABput 8; AComplete [0]; ABput 16] /\ abuf_pending a = 8 /\ abuf_usage a = 24.
Proof. split; [repeat constructor; lia|split; vm_compute; reflexivity]. Qed.

(* ====================================================================== *)
(* A5. usage = pending does NOT hold over all histories                    *)
(* ====================================================================== *)
Definition usage_eq_pending_full : Prop :=
  forall ops n, 0 < n -> abops_pos ops ->
    abuf_usage (ab_run (mkabuf n 0 []) ops) = abuf_pending (ab_run (mkabuf n 0 []) ops).

Lemma witness_pos : abops_pos [ABput 16; ABput 16; AComplete [0]].
Proof. repeat constructor; lia. Qed.

Example usage_eq_pending_witness :
  abuf_usage (ab_run (mkabuf 32 0 []) [ABput 16; ABput 16; AComplete [0]]) = 32 /\
  abuf_pending (ab_run (mkabuf 32 0 []) [ABput 16; ABput 16; AComplete [0]]) = 16.
Proof. split; vm_compute; reflexivity. Qed.

Theorem usage_eq_pending_refuted : ~ usage_eq_pending_full.
Proof.
  intros H. specialize (H [ABput 16; ABput 16; AComplete [0]] 32 ltac:(lia) witness_pos).
  vm_compute in H. discriminate H.
Qed.

(* ====================================================================== *)
(* A7. refusal vs real free space                                          *)
(* ====================================================================== *)
Definition refused_iff_no_space_full : Prop :=
  forall ops n m, 0 < n -> 0 < m -> abops_pos ops ->
    (abuf_insufficient (ab_run (mkabuf n 0 []) ops) m = true <->
     n - abuf_pending (ab_run (mkabuf n 0 []) ops) < m).

Example refused_iff_no_space_witness :
  let a := ab_run (mkabuf 32 0 []) [ABput 16; ABput 16; AComplete [0]] in
  abuf_insufficient a 16 = true /\ 32 - abuf_pending a = 16.
Proof. split; vm_compute; reflexivity. Qed.

Theorem refused_iff_no_space_refuted : ~ refused_iff_no_space_full.
Proof.
  intros H.
  specialize (H [ABput 16; ABput 16; AComplete [0]] 32 16 ltac:(lia) ltac:(lia) witness_pos).
  destruct H as [H _]. specialize (H eq_refl). vm_compute in H. discriminate H.
Qed.

Theorem refused_if_no_space : forall ops n m, 0 < n -> 0 < m -> abops_pos ops ->
  n - abuf_pending (ab_run (mkabuf n 0 []) ops) < m ->
  abuf_insufficient (ab_run (mkabuf n 0 []) ops) m = true.
Proof.
  intros ops n m Hn Hm Hops Hlt.
  pose proof (usage_ge_pending ops n Hn Hops) as H.
  apply abuf_insufficient_iff. rewrite ab_run_alloc. cbn [ab_alloc].
  unfold abuf_usage in H. lia.
Qed.

Example refused_if_no_space_ex :
  let a := ab_run (mkabuf 32 0 []) [ABput 16; ABput 8] in
  32 - abuf_pending a < 9 /\ abuf_insufficient a 9 = true.
Proof. split; vm_compute; reflexivity. Qed.

(* ====================================================================== *)
(* B2. the in-place swap of a put is undone at the exit                    *)
(* ====================================================================== *)
Theorem put_buffer_restored : forall api nconv nswap contig himap h nbytes buf nelems xsz,
  let flag := put_swaps_user_buf api nconv nswap contig himap h nbytes in
  user_buf_after_exit flag (user_buf_in_flight flag buf nelems xsz) nelems xsz = buf.
Proof.
  intros api nconv nswap contig himap h nbytes buf nelems xsz flag.
  unfold user_buf_after_exit, user_buf_in_flight. destruct flag; [apply swap_involutive|reflexivity].
Qed.

Example put_buffer_restored_ex :
  put_swaps_user_buf PIput false true true false SwapOn 8 = true /\
  user_buf_in_flight true [1;2;3;4;5;6;7;8] 2 4 = [4;3;2;1;8;7;6;5] /\
  user_buf_after_exit true (user_buf_in_flight true [1;2;3;4;5;6;7;8] 2 4) 2 4 = [1;2;3;4;5;6;7;8].
Proof. repeat split; vm_compute; reflexivity. Qed.

Theorem bput_never_swaps : forall nconv nswap contig himap h nbytes,
  put_swaps_user_buf PBput nconv nswap contig himap h nbytes = false.
Proof. reflexivity. Qed.

Theorem bput_varn_never_swaps : forall nconv nswap contig himap h nbytes,
  put_swaps_user_buf PBputVarn nconv nswap contig himap h nbytes = false.
Proof. reflexivity. Qed.

Theorem small_auto_never_swaps : forall api nconv nswap contig himap nbytes,
  nbytes <= NC_BYTE_SWAP_BUFFER_SIZE ->
  put_swaps_user_buf api nconv nswap contig himap SwapAuto nbytes = false.
Proof.
  intros api nconv nswap contig himap nbytes Hn.
  unfold put_swaps_user_buf, xbuf_is_buf, can_swap_in_place.
  destruct (Z.leb_spec nbytes NC_BYTE_SWAP_BUFFER_SIZE) as [_|Hc]; [|lia].
  destruct api, nconv, nswap, contig, himap; reflexivity.
Qed.

Example small_auto_never_swaps_ex :
  put_swaps_user_buf PIput false true true false SwapAuto 4096 = false /\
  put_swaps_user_buf PIput false true true false SwapAuto 4097 = true.
Proof. split; vm_compute; reflexivity. Qed.

Theorem swap_off_never_swaps : forall api nconv nswap contig himap nbytes,
  put_swaps_user_buf api nconv nswap contig himap SwapOff nbytes = false.
Proof.
  intros api nconv nswap contig himap nbytes.
  unfold put_swaps_user_buf, xbuf_is_buf, can_swap_in_place.
  destruct api, nconv, nswap, contig, himap; reflexivity.
Qed.

(* ====================================================================== *)
(* A9. detach                                                               *)
(* ====================================================================== *)
Theorem detach_requires_no_pending : forall st,
  snd (detach st) = NC_EPENDINGBPUT <->
  (st_abuf st <> None /\ exists l, In l (put_lead st) /\ 0 <= l_abuf_index l).
Proof.
  intros st. unfold detach. destruct (st_abuf st) as [a|] eqn:Ea.
  - destruct (existsb (fun l => 0 <=? l_abuf_index l) (put_lead st)) eqn:Ex; cbn [snd].
    + split; [intros _|reflexivity]. split; [discriminate|].
      apply existsb_exists in Ex. destruct Ex as (l & Hin & Hl). exists l. split; [exact Hin|lia].
    + split; [intros H; vm_compute in H; discriminate H|].
      intros (_ & l & Hin & Hl). exfalso.
      assert (Ht : existsb (fun l => 0 <=? l_abuf_index l) (put_lead st) = true).
      { apply existsb_exists. exists l. split; [exact Hin|lia]. }
      congruence.
  - cbn [snd]. split; [intros H; vm_compute in H; discriminate H|].
    intros (Hn & _). congruence.
Qed.

Theorem detach_ok : forall st, snd (detach st) = NC_NOERR ->
  st_abuf (fst (detach st)) = None /\ forall l, In l (put_lead st) -> l_abuf_index l < 0.
Proof.
  intros st. unfold detach. destruct (st_abuf st) as [a|] eqn:Ea.
  - destruct (existsb (fun l => 0 <=? l_abuf_index l) (put_lead st)) eqn:Ex; cbn [snd fst].
    + intros H; vm_compute in H; discriminate H.
    + intros _. split; [reflexivity|]. intros l Hin.
      destruct (Z.ltb_spec (l_abuf_index l) 0) as [Hlt|Hge]; [exact Hlt|]. exfalso.
      assert (Ht : existsb (fun l => 0 <=? l_abuf_index l) (put_lead st) = true).
      { apply existsb_exists. exists l. split; [exact Hin|lia]. }
      congruence.
  - cbn [snd]. intros H; vm_compute in H; discriminate H.
Qed.

Definition ex_lead (id aidx tag : Z) (tf sw : bool) : lead :=
  mklead id dummy_geom None 0 1 (-1) tf sw aidx 0 1 None tag [].

Example detach_ex :
  let st := mkst [ex_lead 0 0 7 false false] [] [] [] 0 0 (Some (mkabuf 32 16 [(true, 16)])) 0 empty_disk in
  snd (detach st) = NC_EPENDINGBPUT /\
  snd (detach (set_put st [ex_lead 0 (-1) 7 false false] [])) = NC_NOERR.
Proof. split; vm_compute; reflexivity. Qed.

(* ====================================================================== *)
(* A2. NC_EINSUFFBUF / NC_ENULLABUF of a bput                               *)
(* ====================================================================== *)
Lemma enqueue_has_new sorted key leads reqs mk_lead mk_reqs n pl pr :
  enqueue sorted key leads reqs mk_lead mk_reqs n = (pl, pr) ->
  exists off, In (mk_lead off) pl.
Proof.
  unfold enqueue.
  destruct (if sorted then split_last_le (rev leads) key [] else (leads, [])) as [kept shifted].
  destruct shifted as [|s0 sh]; intros H; inversion H; subst; clear H.
  - exists (Zlen reqs). apply in_or_app. right. now left.
  - exists (l_nonlead_off s0). apply in_or_app. right. cbn [app]. now left.
Qed.

(* the three outcomes of a bput posted through post_varm *)
Lemma post_varm_bput_cases st g start count stride xaddr data sw tag a :
  st_abuf st = Some a -> zprod count * g_xsz g <> 0 ->
  let nbytes := zprod count * g_xsz g in
  (abuf_insufficient a nbytes = true /\
   post_varm st KBput g start count stride xaddr data sw tag = (st, NC_REQ_NULL, NC_EINSUFFBUF)) \/
  (abuf_insufficient a nbytes = false /\
   exists pl pr id l,
     post_varm st KBput g start count stride xaddr data sw tag =
       (mkst pl (get_lead st) pr (get_reqs st) id (maxGetID st)
             (Some (fst (fst (abuf_malloc a nbytes)))) (st_numrecs st)
             (dk_write (st_mem st) (ABUF_BASE + ab_used a) data), id, NC_NOERR) /\
     In l pl /\ l_id l = id /\ l_xaddr l = ABUF_BASE + ab_used a /\ l_abuf_index l = ab_tail a /\
     l_swapbuf l = sw /\ l_tag l = tag).
Proof.
  intros Hab Hnz nbytes. unfold post_varm. rewrite Hab.
  fold nbytes. destruct (Z.eqb_spec nbytes 0) as [Hz|_]; [contradiction|].
  unfold bput_alloc. rewrite Hab.
  destruct (abuf_insufficient a nbytes) eqn:Hi.
  - left. split; [reflexivity|]. reflexivity.
  - right. split; [reflexivity|]. unfold abuf_malloc.
    cbn [negb Z.eqb NC_NOERR k_isput fst].
    match goal with |- context [enqueue ?s ?k ?ls ?rs ?ml ?mr ?n] =>
      destruct (enqueue s k ls rs ml mr n) as [pl pr] eqn:Enq;
      destruct (enqueue_has_new s k ls rs ml mr n pl pr Enq) as [off Hoff] end.
    eexists pl, pr, _, _. split; [reflexivity|].
    split; [exact Hoff|]. cbn [l_id l_xaddr l_abuf_index l_swapbuf l_tag]. repeat split.
Qed.

Theorem einsuffbuf_iff_varm : forall st g start count stride xaddr data sw tag a,
  st_abuf st = Some a -> 0 < zprod count * g_xsz g ->
  (snd (post_varm st KBput g start count stride xaddr data sw tag) = NC_EINSUFFBUF <->
   ab_alloc a - ab_used a < zprod count * g_xsz g).
Proof.
  intros st g start count stride xaddr data sw tag a Hab Hpos.
  rewrite <- abuf_insufficient_iff.
  destruct (post_varm_bput_cases st g start count stride xaddr data sw tag a Hab ltac:(lia))
    as [(Hi & E)|(Hi & pl & pr & id & l & E & _)]; rewrite E, Hi; cbn [snd].
  - split; reflexivity.
  - split; intros H; [vm_compute in H|]; discriminate H.
Qed.

Theorem bput_without_attach : forall st g start count stride xaddr data sw tag,
  st_abuf st = None ->
  snd (post_varm st KBput g start count stride xaddr data sw tag) = NC_ENULLABUF.
Proof. intros. unfold post_varm. rewrite H. reflexivity. Qed.

Definition varn_nbytes (g : geom) (parts : list (list Z * option (list Z))) : Z :=
  zsum (map (fun p => zprod (part_count (fst p) (snd p)))
            (filter (fun p => negb (zprod (part_count (fst p) (snd p)) =? 0)) parts)) * g_xsz g.

Lemma post_varn_bput_cases st g parts xaddr data sw tag a :
  st_abuf st = Some a -> varn_nbytes g parts <> 0 ->
  let nbytes := varn_nbytes g parts in
  (abuf_insufficient a nbytes = true /\
   post_varn st KBput g parts xaddr data sw tag = (st, NC_REQ_NULL, NC_EINSUFFBUF)) \/
  (abuf_insufficient a nbytes = false /\
   exists pl pr id l,
     post_varn st KBput g parts xaddr data sw tag =
       (mkst pl (get_lead st) pr (get_reqs st) id (maxGetID st)
             (Some (fst (fst (abuf_malloc a nbytes)))) (st_numrecs st)
             (dk_write (st_mem st) (ABUF_BASE + ab_used a) data), id, NC_NOERR) /\
     In l pl /\ l_id l = id /\ l_xaddr l = ABUF_BASE + ab_used a /\ l_abuf_index l = ab_tail a /\
     l_swapbuf l = sw /\ l_tag l = tag).
Proof.
  intros Hab Hnz nbytes. unfold post_varn. rewrite Hab.
  unfold varn_nbytes in nbytes. fold nbytes.
  destruct (Z.eqb_spec nbytes 0) as [Hz|_]; [contradiction|].
  unfold bput_alloc. rewrite Hab.
  destruct (abuf_insufficient a nbytes) eqn:Hi.
  - left. split; [reflexivity|]. reflexivity.
  - right. split; [reflexivity|]. unfold abuf_malloc.
    cbn [negb Z.eqb NC_NOERR k_isput fst].
    match goal with |- context [enqueue ?s ?k ?ls ?rs ?ml ?mr ?n] =>
      destruct (enqueue s k ls rs ml mr n) as [pl pr] eqn:Enq;
      destruct (enqueue_has_new s k ls rs ml mr n pl pr Enq) as [off Hoff] end.
    eexists pl, pr, _, _. split; [reflexivity|].
    split; [exact Hoff|]. cbn [l_id l_xaddr l_abuf_index l_swapbuf l_tag]. repeat split.
Qed.

Theorem einsuffbuf_iff_varn : forall st g parts xaddr data sw tag a,
  st_abuf st = Some a ->
  0 < zsum (map (fun p => zprod (part_count (fst p) (snd p)))
                (filter (fun p => negb (zprod (part_count (fst p) (snd p)) =? 0)) parts)) * g_xsz g ->
  (snd (post_varn st KBput g parts xaddr data sw tag) = NC_EINSUFFBUF <->
   ab_alloc a - ab_used a <
   zsum (map (fun p => zprod (part_count (fst p) (snd p)))
             (filter (fun p => negb (zprod (part_count (fst p) (snd p)) =? 0)) parts)) * g_xsz g).
Proof.
  intros st g parts xaddr data sw tag a Hab Hpos.
  change (zsum _ * g_xsz g) with (varn_nbytes g parts) in *.
  rewrite <- abuf_insufficient_iff.
  destruct (post_varn_bput_cases st g parts xaddr data sw tag a Hab ltac:(lia))
    as [(Hi & E)|(Hi & pl & pr & id & l & E & _)]; rewrite E, Hi; cbn [snd].
  - split; reflexivity.
  - split; intros H; [vm_compute in H|]; discriminate H.
Qed.

Theorem bput_without_attach_varn : forall st g parts xaddr data sw tag,
  st_abuf st = None ->
  snd (post_varn st KBput g parts xaddr data sw tag) = NC_ENULLABUF.
Proof. intros. unfold post_varn. rewrite H. reflexivity. Qed.

Definition ex_geom : geom := mkgeom 100 4 [8] 0 0.
Definition ex_st (a : abuf) : nbstate := mkst [] [] [] [] 0 0 (Some a) 0 empty_disk.

Example einsuffbuf_varm_ex :
  snd (post_varm (ex_st (mkabuf 32 24 [(true, 24)])) KBput ex_geom [0] [3] None 0 (repeat 1 12) false 5) = NC_EINSUFFBUF /\
  snd (post_varm (ex_st (mkabuf 32 16 [(true, 16)])) KBput ex_geom [0] [3] None 0 (repeat 1 12) false 5) = NC_NOERR /\
  snd (post_varm init_state KBput ex_geom [0] [3] None 0 (repeat 1 12) false 5) = NC_ENULLABUF.
Proof. repeat split; vm_compute; reflexivity. Qed.

Example einsuffbuf_varn_ex :
  snd (post_varn (ex_st (mkabuf 32 24 [(true, 24)])) KBput ex_geom [([0], Some [2]); ([4], None)] 0 (repeat 1 12) false 5) = NC_EINSUFFBUF /\
  snd (post_varn (ex_st (mkabuf 32 16 [(true, 16)])) KBput ex_geom [([0], Some [2]); ([4], None)] 0 (repeat 1 12) false 5) = NC_NOERR /\
  snd (post_varn init_state KBput ex_geom [([0], Some [2]); ([4], None)] 0 (repeat 1 12) false 5) = NC_ENULLABUF.
Proof. repeat split; vm_compute; reflexivity. Qed.

(* ====================================================================== *)
(* A6. usage = pending on LIFO histories                                    *)
(* ====================================================================== *)
Theorem usage_eq_pending_all_used : forall a, ab_wf a -> all_used a -> abuf_usage a = abuf_pending a.
Proof.
  intros a (Hu & _ & _) Hall. unfold abuf_usage, abuf_pending.
  rewrite (filter_all_true fst (ab_table a) Hall). exact Hu.
Qed.

(* the table after releasing a set of entries *)
Definition rel_tab (t : list (bool * Z)) (idxs : list Z) : list (bool * Z) :=
  fold_left (fun t i => zupd t i (false, snd (znth t i (false, 0)))) idxs t.

Lemma fold_release_table idxs a : ab_table (fold_left abuf_release idxs a) = rel_tab (ab_table a) idxs.
Proof.
  unfold rel_tab. revert a. induction idxs as [|i r IH]; intros a; cbn [fold_left]; [reflexivity|].
  rewrite IH. reflexivity.
Qed.

Lemma Zlen_rel_tab idxs t : Zlen (rel_tab t idxs) = Zlen t.
Proof.
  unfold rel_tab. revert t. induction idxs as [|i r IH]; intros t; cbn [fold_left]; [reflexivity|].
  now rewrite IH, Zlen_zupd.
Qed.

Lemma rel_tab_cons t x r :
  rel_tab t (x :: r) = rel_tab (zupd t x (false, snd (znth t x (false, 0)))) r.
Proof. reflexivity. Qed.

Lemma znth_rel_tab_notin idxs t i : ~ In i idxs -> znth (rel_tab t idxs) i (false, 0) = znth t i (false, 0).
Proof.
  revert t. induction idxs as [|x r IH]; intros t Hni; [reflexivity|].
  rewrite rel_tab_cons. rewrite IH by (intros H; apply Hni; now right).
  apply znth_zupd_other. intros E. apply Hni. left. now symmetry.
Qed.

Lemma snd_znth_zupd_keep (t : list (bool * Z)) x i b :
  snd (znth (zupd t x (b, snd (znth t x (false, 0)))) i (false, 0)) = snd (znth t i (false, 0)).
Proof.
  destruct (Z.eq_dec i x) as [->|Hne].
  - destruct (Z.ltb_spec x 0) as [Hneg|Hnn].
    + now rewrite !znth_neg by lia.
    + destruct (Z.ltb_spec x (Zlen t)) as [Hlt|Hge].
      * now rewrite znth_zupd_same by lia.
      * rewrite !znth_overflow; [reflexivity|lia|rewrite Zlen_zupd; lia].
  - now rewrite znth_zupd_other by exact Hne.
Qed.

Lemma znth_rel_tab_in idxs t i : In i idxs -> 0 <= i < Zlen t ->
  znth (rel_tab t idxs) i (false, 0) = (false, snd (znth t i (false, 0))).
Proof.
  revert t. induction idxs as [|x r IH]; intros t Hin Hi; [destruct Hin|].
  rewrite rel_tab_cons. destruct (in_dec Z.eq_dec i r) as [Hr|Hr].
  - rewrite IH by (try exact Hr; rewrite Zlen_zupd; exact Hi).
    now rewrite snd_znth_zupd_keep.
  - rewrite znth_rel_tab_notin by exact Hr.
    destruct Hin as [->|Hin]; [|contradiction].
    now rewrite znth_zupd_same by exact Hi.
Qed.

(* coalesce on a table whose free entries are exactly a suffix *)
Lemma coalesce_rev_all_false s rest u :
  Forall (fun e : bool * Z => fst e = false) s ->
  coalesce_rev (s ++ rest) u = coalesce_rev rest (u - zsum (map snd s)).
Proof.
  revert u. induction s as [|[b n] s IH]; intros u H; cbn [app map zsum snd].
  - f_equal. lia.
  - inversion H as [|e s' He Hs]; subst. cbn [fst] in He. subst b.
    cbn [coalesce_rev]. rewrite IH by exact Hs. f_equal. lia.
Qed.

Lemma coalesce_rev_head_true rt u :
  match rt with [] => True | e :: _ => fst e = true end -> coalesce_rev rt u = (rt, u).
Proof. destruct rt as [|[b n] r]; [reflexivity|]. cbn [fst]. intros ->. reflexivity. Qed.

Lemma coalesce_split_table a p s :
  ab_table a = p ++ s ->
  Forall (fun e => fst e = true) p -> Forall (fun e => fst e = false) s ->
  ab_table (abuf_coalesce a) = p.
Proof.
  intros Et Hp Hs. unfold abuf_coalesce. rewrite Et, rev_app_distr.
  rewrite coalesce_rev_all_false by (now apply Forall_rev).
  rewrite coalesce_rev_head_true.
  - cbn [ab_table]. apply rev_involutive.
  - apply Forall_rev in Hp. destruct (rev p) as [|e r]; [exact I|]. now inversion Hp.
Qed.

Lemma lifo_complete_all_used a idxs k :
  all_used a -> 0 <= k <= ab_tail a ->
  (forall i, In i idxs <-> ab_tail a - k <= i < ab_tail a) ->
  all_used (abuf_coalesce (fold_left abuf_release idxs a)).
Proof.
  intros Hall Hk Hidx. unfold all_used, ab_tail in *.
  set (t := ab_table a) in *. set (m := Zlen t - k).
  set (t' := rel_tab t idxs).
  assert (Et' : ab_table (fold_left abuf_release idxs a) = zfirstn m t' ++ zskipn m t').
  { rewrite fold_release_table. fold t t'. symmetry. apply zfirstn_zskipn. }
  assert (Hlen : Zlen t' = Zlen t) by apply Zlen_rel_tab.
  rewrite (coalesce_split_table _ _ _ Et').
  - apply (Forall_znth _ _ (false, 0)). intros i Hi.
    rewrite Zlen_zfirstn in Hi. rewrite znth_zfirstn by lia.
    unfold t'. rewrite znth_rel_tab_notin by (rewrite Hidx; lia).
    assert (Hin : In (znth t i (false, 0)) t) by (apply znth_In; lia).
    rewrite Forall_forall in Hall. now apply Hall.
  - apply (Forall_znth _ _ (false, 0)). intros i Hi.
    rewrite Zlen_zfirstn in Hi. rewrite znth_zfirstn by lia.
    unfold t'. rewrite znth_rel_tab_notin by (rewrite Hidx; lia).
    assert (Hin : In (znth t i (false, 0)) t) by (apply znth_In; lia).
    rewrite Forall_forall in Hall. now apply Hall.
  - apply (Forall_znth _ _ (false, 0)). intros i Hi.
    rewrite Zlen_zskipn in Hi. rewrite znth_zskipn by lia.
    unfold t'. rewrite znth_rel_tab_in by (try rewrite Hidx; lia). reflexivity.
Qed.

Lemma ab_step_lifo a o :
  ab_wf a -> all_used a ->
  match o with ABput n => 0 < n | _ => True end ->
  match o with
  | AComplete idxs => exists k, 0 <= k <= ab_tail a /\ (forall i, In i idxs <-> ab_tail a - k <= i < ab_tail a)
  | _ => True end ->
  ab_wf (ab_step a o) /\ all_used (ab_step a o).
Proof.
  intros Hwf Hall Ho Hl.
  assert (Hwf' : ab_wf (ab_step a o)).
  { destruct o as [n|idxs|]; cbn [ab_step].
    - destruct (abuf_insufficient a n) eqn:Hi; [exact Hwf|now apply malloc_wf].
    - apply coalesce_wf. now apply fold_release_wf.
    - pose proof (ab_wf_used_nonneg a Hwf) as Hnn. destruct Hwf as (Hu & Hp & Hle).
      unfold abuf_reset, ab_wf. cbn [ab_table ab_used ab_alloc map zsum].
      repeat split; [constructor|lia]. }
  split; [exact Hwf'|]. destruct o as [n|idxs|]; cbn [ab_step].
  - destruct (abuf_insufficient a n); [exact Hall|].
    unfold all_used, abuf_malloc. cbn [fst ab_table]. apply Forall_app. split; [exact Hall|].
    constructor; [reflexivity|constructor].
  - destruct Hl as (k & Hk & Hidx). now apply (lifo_complete_all_used a idxs k).
  - constructor.
Qed.

Theorem usage_eq_pending_lifo : forall ops a, ab_wf a -> all_used a -> abops_pos ops -> lifo_hist a ops ->
  abuf_usage (ab_run a ops) = abuf_pending (ab_run a ops) /\ all_used (ab_run a ops).
Proof.
  unfold ab_run. induction ops as [|o r IH]; intros a Hwf Hall Hops Hl; cbn [fold_left].
  - split; [now apply usage_eq_pending_all_used|exact Hall].
  - inversion Hops as [|o' r' Ho Hr]; subst. cbn [lifo_hist] in Hl. destruct Hl as [Hlo Hlr].
    destruct (ab_step_lifo a o Hwf Hall Ho Hlo) as [Hwf' Hall']. now apply IH.
Qed.

Example usage_eq_pending_lifo_ex :
  let ops := [ABput 16; ABput 8; ABput 4; AComplete [2; 1]; ABput 8; AComplete [1]; AComplete []] in
  ab_wf (mkabuf 32 0 []) /\ all_used (mkabuf 32 0 []) /\ abops_pos ops /\ lifo_hist (mkabuf 32 0 []) ops /\
  abuf_usage (ab_run (mkabuf 32 0 []) ops) = 16.
Proof.
  cbv zeta. split; [apply ab_wf_init; lia|]. split; [constructor|]. split; [repeat constructor; lia|].
  split; [|vm_compute; reflexivity].
  cbn [lifo_hist]. repeat split.
  - exists 2. match goal with |- context [ab_tail ?a] =>
      let v := eval vm_compute in (ab_tail a) in change (ab_tail a) with v end.
    split; [lia|]. intros i. cbn [In]. lia.
  - exists 1. match goal with |- context [ab_tail ?a] =>
      let v := eval vm_compute in (ab_tail a) in change (ab_tail a) with v end.
    split; [lia|]. intros i. cbn [In]. lia.
  - exists 0. match goal with |- context [ab_tail ?a] =>
      let v := eval vm_compute in (ab_tail a) in change (ab_tail a) with v end.
    split; [lia|]. intros i. cbn [In]. lia.
Qed.

(* ====================================================================== *)
(* A8. the slices of the pool are disjoint and inside the pool             *)
(* ====================================================================== *)
Lemma zsum_zfirstn_nonneg (t : list (bool * Z)) i :
  Forall (fun e => 0 < snd e) t -> 0 <= zsum (map snd (zfirstn i t)).
Proof.
  intros H. revert i. induction H as [|e t He Ht IH]; intros i; [cbn; lia|].
  destruct (Z.leb_spec i 0) as [Hi|Hi].
  - rewrite zfirstn_nonpos by lia. cbn. lia.
  - rewrite zfirstn_cons_pos by lia. cbn [map zsum]. specialize (IH (i - 1)). lia.
Qed.

Lemma offset_step (t : list (bool * Z)) i j :
  Forall (fun e => 0 < snd e) t -> 0 <= i < j -> j <= Zlen t ->
  zsum (map snd (zfirstn i t)) + snd (znth t i (false, 0)) <= zsum (map snd (zfirstn j t)).
Proof.
  intros H. revert i j. induction H as [|e t He Ht IH]; intros i j Hij Hj.
  - rewrite Zlen_nil in Hj. lia.
  - rewrite Zlen_cons in Hj. rewrite (zfirstn_cons_pos j) by lia. cbn [map zsum].
    destruct (Z.eq_dec i 0) as [->|Hz].
    + rewrite zfirstn_nonpos by lia. rewrite znth_cons_0. cbn [map zsum].
      pose proof (zsum_zfirstn_nonneg t (j - 1) Ht). lia.
    + rewrite zfirstn_cons_pos by lia. rewrite znth_cons_nz by lia. cbn [map zsum].
      specialize (IH (i - 1) (j - 1) ltac:(lia) ltac:(lia)). lia.
Qed.

Theorem abuf_regions_disjoint : forall a i j, ab_wf a -> 0 <= i < j -> j < ab_tail a ->
  abuf_offset a i + snd (znth (ab_table a) i (false,0)) <= abuf_offset a j.
Proof.
  intros a i j (Hu & Hp & Hle) Hij Hj. unfold abuf_offset, ab_tail in *.
  apply offset_step; [exact Hp|lia|lia].
Qed.

Theorem abuf_region_inside : forall a i, ab_wf a -> 0 <= i < ab_tail a ->
  0 <= abuf_offset a i /\ abuf_offset a i + snd (znth (ab_table a) i (false,0)) <= ab_alloc a.
Proof.
  intros a i (Hu & Hp & Hle) Hi. unfold abuf_offset, ab_tail in *. split.
  - now apply zsum_zfirstn_nonneg.
  - pose proof (offset_step (ab_table a) i (Zlen (ab_table a)) Hp ltac:(lia) ltac:(lia)) as H.
    rewrite (zfirstn_all (Zlen (ab_table a))) in H by lia. lia.
Qed.

Theorem abuf_malloc_offset : forall a n, ab_wf a ->
  let '(a', idx, off) := abuf_malloc a n in off = abuf_offset a' idx /\ idx = ab_tail a.
Proof.
  intros a n (Hu & Hp & Hle). unfold abuf_malloc, abuf_offset, ab_tail. cbn [ab_table].
  split; [|reflexivity].
  rewrite zfirstn_app_l by lia. rewrite zfirstn_all by lia. exact Hu.
Qed.

Example abuf_regions_ex :
  let a := mkabuf 64 28 [(true, 16); (false, 8); (true, 4)] in
  ab_wf a /\ abuf_offset a 0 = 0 /\ abuf_offset a 1 = 16 /\ abuf_offset a 2 = 24 /\ ab_tail a = 3.
Proof.
  cbv zeta. split; [|repeat split; vm_compute; reflexivity].
  unfold ab_wf. cbn. repeat split; [repeat constructor; cbn; lia|lia].
Qed.

(* ====================================================================== *)
(* B5. get side: only the selected bytes of the caller's buffer change     *)
(* ====================================================================== *)
Theorem overwrite_length : forall buf off bs, length (overwrite buf off bs) = length buf.
Proof.
  induction buf as [|b r IH]; intros off bs; cbn [overwrite]; [reflexivity|].
  destruct (off >? 0).
  - cbn [length]. now rewrite IH.
  - destruct bs as [|x bs']; [reflexivity|]. cbn [length]. now rewrite IH.
Qed.

Theorem scatter_elems_length : forall pos buf el data, length (scatter_elems buf el pos data) = length buf.
Proof.
  induction pos as [|p r IH]; intros buf el data; cbn [scatter_elems]; [reflexivity|].
  now rewrite IH, overwrite_length.
Qed.

Lemma Zlen_overwrite buf off bs : Zlen (overwrite buf off bs) = Zlen buf.
Proof. unfold Zlen. now rewrite overwrite_length. Qed.

Lemma znth_overwrite_out : forall buf off bs x d, 0 <= off -> ~ (off <= x < off + Zlen bs) ->
  znth (overwrite buf off bs) x d = znth buf x d.
Proof.
  induction buf as [|b r IH]; intros off bs x d Hoff Hx; cbn [overwrite]; [reflexivity|].
  destruct (off >? 0) eqn:Eo.
  - destruct (Z.eq_dec x 0) as [->|Hz]; [reflexivity|].
    rewrite !znth_cons_nz by lia. apply IH; lia.
  - destruct bs as [|y bs']; [reflexivity|].
    rewrite Zlen_cons in Hx. pose proof (Zlen_nonneg bs') as Hnn.
    assert (Hz : x <> 0) by lia.
    rewrite !znth_cons_nz by lia. apply IH; lia.
Qed.

Lemma znth_overwrite_in : forall buf off bs x d, 0 <= off -> off <= x < off + Zlen bs -> x < Zlen buf ->
  znth (overwrite buf off bs) x d = znth bs (x - off) d.
Proof.
  induction buf as [|b r IH]; intros off bs x d Hoff Hx Hb.
  - rewrite Zlen_nil in Hb. lia.
  - rewrite Zlen_cons in Hb. cbn [overwrite]. destruct (off >? 0) eqn:Eo.
    + rewrite znth_cons_nz by lia. rewrite IH by lia. f_equal. lia.
    + assert (off = 0) by lia. subst off.
      destruct bs as [|y bs']; [rewrite Zlen_nil in Hx; lia|]. rewrite Zlen_cons in Hx.
      destruct (Z.eq_dec x 0) as [->|Hz]; [reflexivity|].
      rewrite znth_cons_nz by lia. rewrite IH by lia.
      rewrite (znth_cons_nz y bs' (x - 0)) by lia. f_equal. lia.
Qed.

Lemma Zlen_zfirstn_le {A} n (l : list A) : 0 <= n -> Zlen (zfirstn n l) <= n.
Proof. intros Hn. rewrite Zlen_zfirstn. lia. Qed.

Lemma covered_cons_not el p r x : ~ covered el (p :: r) x -> ~ (p * el <= x < p * el + el) /\ ~ covered el r x.
Proof.
  intros H. split.
  - intros Hp. apply H. exists p. split; [now left|exact Hp].
  - intros (q & Hq & Hr). apply H. exists q. split; [now right|exact Hr].
Qed.

(* needs the positions to be non-negative: a negative offset is clipped to 0 by `overwrite`
   (the C code would write before the buffer) *)
Theorem scatter_elems_frame : forall pos buf el data x d, 0 < el -> 0 <= x ->
  Forall (fun p => 0 <= p) pos ->
  ~ covered el pos x -> znth (scatter_elems buf el pos data) x d = znth buf x d.
Proof.
  induction pos as [|p r IH]; intros buf el data x d Hel Hx Hpos Hnc; cbn [scatter_elems]; [reflexivity|].
  inversion Hpos as [|p' r' Hp Hr]; subst.
  destruct (covered_cons_not el p r x Hnc) as [Hnp Hnr].
  rewrite IH by assumption.
  apply znth_overwrite_out; [nia|].
  pose proof (Zlen_zfirstn_le el data ltac:(lia)) as Hle.
  pose proof (Zlen_nonneg (zfirstn el data)) as Hnn. lia.
Qed.

(* without the non-negativity hypothesis the frame property is false *)
Example scatter_elems_frame_needs_nonneg :
  ~ covered 1 [-1] 0 /\ znth (scatter_elems [9; 9] 1 [-1] [7]) 0 0 = 7 /\ znth [9; 9] 0 0 = 9.
Proof.
  split; [|split; vm_compute; reflexivity].
  intros (p & [Hp|[]] & Hr). subst p. lia.
Qed.

Theorem unpack_xbuf_length : forall contig impos btpos el nelems buf idata tmp,
  length (unpack_xbuf contig impos btpos el nelems buf idata tmp) = length buf.
Proof.
  intros contig impos btpos el nelems buf idata tmp. unfold unpack_xbuf.
  destruct impos as [ip|]; destruct contig;
    rewrite ?scatter_elems_length, ?overwrite_length; reflexivity.
Qed.

Lemma not_covered_range el nelems x : 0 < el -> 0 <= nelems -> 0 <= x ->
  ~ covered el (zrange 0 nelems) x -> nelems * el <= x.
Proof.
  intros Hel Hn Hx Hnc.
  destruct (Z.le_gt_cases (nelems * el) x) as [Hle|Hgt]; [exact Hle|]. exfalso. apply Hnc.
  pose proof (Z.div_mod x el ltac:(lia)) as Hdm.
  pose proof (Z.mod_pos_bound x el Hel) as Hm.
  pose proof (Z.div_pos x el Hx Hel) as Hq.
  exists (x / el). split.
  - apply In_zrange. split; [lia|]. nia.
  - nia.
Qed.

Theorem get_writes_only_selected : forall contig impos btpos el nelems buf idata tmp x d,
  0 < el -> 0 <= nelems -> 0 <= x ->
  Forall (fun p => 0 <= p) (selected_positions contig impos btpos nelems) ->
  ~ covered el (selected_positions contig impos btpos nelems) x ->
  znth (unpack_xbuf contig impos btpos el nelems buf idata tmp) x d = znth buf x d.
Proof.
  intros contig impos btpos el nelems buf idata tmp x d Hel Hn Hx Hpos Hnc.
  unfold unpack_xbuf, selected_positions in *.
  destruct impos as [ip|]; destruct contig.
  - now apply scatter_elems_frame.
  - now apply scatter_elems_frame.
  - pose proof (not_covered_range el nelems x Hel Hn Hx Hnc) as Hge.
    apply znth_overwrite_out; [lia|].
    pose proof (Zlen_zfirstn_le (nelems * el) idata ltac:(nia)) as Hle. lia.
  - now apply scatter_elems_frame.
Qed.

Theorem scatter_elems_content : forall pos buf el data d,
  NoDup pos -> Forall (fun p => 0 <= p /\ (p + 1) * el <= Zlen buf) pos ->
  Zlen data = Zlen pos * el -> 0 < el ->
  forall k, 0 <= k < Zlen pos -> forall i, 0 <= i < el ->
  znth (scatter_elems buf el pos data) (znth pos k 0 * el + i) d = znth data (k * el + i) d.
Proof.
  induction pos as [|p r IH]; intros buf el data d Hnd Hb Hlen Hel k Hk i Hi.
  - rewrite Zlen_nil in Hk. lia.
  - rewrite Zlen_cons in Hk, Hlen.
    inversion Hnd as [|p' r' Hnotin Hnd']; subst.
    inversion Hb as [|p' r' [Hp0 Hpb] Hb']; subst.
    cbn [scatter_elems]. pose proof (Zlen_nonneg r) as Hr.
    assert (Hf : Zlen (zfirstn el data) = el) by (rewrite Zlen_zfirstn; nia).
    destruct (Z.eq_dec k 0) as [->|Hk0].
    + rewrite znth_cons_0.
      assert (Hpe : 0 <= p * el) by nia.
      assert (Hin : p * el + i < Zlen buf) by nia.
      rewrite scatter_elems_frame.
      * rewrite znth_overwrite_in by (rewrite ?Hf; lia).
        rewrite znth_zfirstn by lia. f_equal. lia.
      * exact Hel.
      * lia.
      * eapply Forall_impl; [|exact Hb']. cbn beta. intros q [Hq _]. exact Hq.
      * intros (q & Hq & Hrange). assert (q <> p) by (intros ->; contradiction). nia.
    + rewrite (znth_cons_nz p r k) by lia.
      rewrite (IH (overwrite buf (p * el) (zfirstn el data)) el (zskipn el data) d).
      * rewrite znth_zskipn by nia. f_equal. lia.
      * exact Hnd'.
      * rewrite Zlen_overwrite. exact Hb'.
      * rewrite Zlen_zskipn. nia.
      * exact Hel.
      * lia.
      * exact Hi.
Qed.

Example scatter_elems_ex :
  let buf := [90;91;92;93;94;95;96;97;98;99] in
  NoDup [3;0] /\ Forall (fun p => 0 <= p /\ (p + 1) * 2 <= Zlen buf) [3;0] /\
  scatter_elems buf 2 [3;0] [1;2;3;4] = [3;4;92;93;94;95;1;2;98;99] /\
  ~ covered 2 [3;0] 5 /\
  unpack_xbuf false (Some [1;0]) [3;0] 2 2 buf [1;2;3;4] [0;0;0;0] = [1;2;92;93;94;95;3;4;98;99].
Proof.
  cbv zeta. split; [|split; [|split; [|split]]].
  - repeat constructor; cbn [In]; lia.
  - repeat constructor; vm_compute; discriminate.
  - vm_compute; reflexivity.
  - intros (p & [Hp|[Hp|[]]] & Hr); subst p; lia.
  - vm_compute; reflexivity.
Qed.

(* ====================================================================== *)
(* B3. every exit swaps back exactly the flagged buffers                   *)
(* ====================================================================== *)
Definition put_events (pl : list lead) : list event :=
  flat_map (fun l => (if l_swapbuf l then [EvSwapBack (l_tag l)] else []) ++ [EvPutDone (l_tag l)]) pl.

Lemma put_events_in l pl : In l pl ->
  In (EvPutDone (l_tag l)) (put_events pl) /\ (l_swapbuf l = true -> In (EvSwapBack (l_tag l)) (put_events pl)).
Proof.
  intros Hin. unfold put_events. split.
  - apply in_flat_map. exists l. split; [exact Hin|]. apply in_or_app. right. now left.
  - intros Hs. apply in_flat_map. exists l. split; [exact Hin|]. rewrite Hs. now left.
Qed.

Lemma put_events_swap t pl : In (EvSwapBack t) (put_events pl) ->
  exists l, In l pl /\ l_swapbuf l = true /\ l_tag l = t.
Proof.
  unfold put_events. intros H. apply in_flat_map in H. destruct H as (l & Hl & Hin).
  exists l. split; [exact Hl|].
  destruct (l_swapbuf l); cbn [app In] in Hin.
  - destruct Hin as [H|[H|[]]]; [|discriminate H]. inversion H. split; reflexivity.
  - destruct Hin as [H|[]]. discriminate H.
Qed.

Lemma compact_leads_fst leads : forall reqs i j,
  fst (compact_leads leads reqs i j) = filter (fun l => negb (l_to_free l)) leads.
Proof.
  induction leads as [|l r IH]; intros reqs i j; cbn [compact_leads filter]; [reflexivity|].
  destruct (l_to_free l); cbn [negb].
  - apply IH.
  - match goal with |- context [compact_leads r ?rq ?a ?b] =>
      specialize (IH rq a b); destruct (compact_leads r rq a b) as [ls rs] end.
    cbn [fst] in *. now rewrite IH.
Qed.

Lemma commit_post_shape st nwl nrl st' ev : commit_post st nwl nrl = (st', ev) ->
  exists ev2,
    ev = (if nwl >? 0 then put_events (filter l_to_free (put_lead st)) else []) ++ ev2 /\
    (forall t, ~ In (EvSwapBack t) ev2) /\
    put_lead st' = if nwl >? 0 then filter (fun l => negb (l_to_free l)) (put_lead st) else put_lead st.
Proof.
  unfold commit_post. fold (put_events (filter l_to_free (put_lead st))).
  pose proof (compact_leads_fst (put_lead st) (put_reqs st) 0 0) as Hc.
  destruct (compact_leads (put_lead st) (put_reqs st) 0 0) as [pl pr]. cbn [fst] in Hc.
  destruct (nwl >? 0); destruct (nrl >? 0).
  - match goal with |- context [compact_leads ?a ?b 0 0] => destruct (compact_leads a b 0 0) as [gl gr] end.
    intros H. injection H as Hst Hev. subst st' ev. eexists. split; [reflexivity|]. split; [|exact Hc].
    intros t Hin. apply in_map_iff in Hin. destruct Hin as (l & Hl & _). discriminate Hl.
  - intros H. injection H as Hst Hev. subst st' ev. exists []. split; [now rewrite app_nil_r|].
    split; [intros t []|exact Hc].
  - match goal with |- context [compact_leads ?a ?b 0 0] => destruct (compact_leads a b 0 0) as [gl gr] end.
    intros H. injection H as Hst Hev. subst st' ev. eexists. split; [reflexivity|]. split; [|reflexivity].
    intros t Hin. apply in_map_iff in Hin. destruct Hin as (l & Hl & _). discriminate Hl.
  - intros H. injection H as Hst Hev. subst st' ev. exists []. split; [reflexivity|].
    split; [intros t []|reflexivity].
Qed.

Theorem commit_post_swaps_back : forall st nwl nrl st' ev,
  commit_post st nwl nrl = (st', ev) -> 0 < nwl ->
  forall l, In l (put_lead st) -> l_to_free l = true ->
  In (EvPutDone (l_tag l)) ev /\ (l_swapbuf l = true -> In (EvSwapBack (l_tag l)) ev).
Proof.
  intros st nwl nrl st' ev H Hn l Hl Hf.
  destruct (commit_post_shape _ _ _ _ _ H) as (ev2 & -> & _ & _).
  replace (nwl >? 0) with true by lia.
  assert (Hin : In l (filter l_to_free (put_lead st))) by (apply filter_In; now split).
  destruct (put_events_in l _ Hin) as [H1 H2].
  split; [|intros Hs]; apply in_or_app; left; auto.
Qed.

Theorem commit_post_swaps_only_flagged : forall st nwl nrl st' ev t,
  commit_post st nwl nrl = (st', ev) -> In (EvSwapBack t) ev ->
  exists l, In l (put_lead st) /\ l_to_free l = true /\ l_swapbuf l = true /\ l_tag l = t.
Proof.
  intros st nwl nrl st' ev t H Hin.
  destruct (commit_post_shape _ _ _ _ _ H) as (ev2 & -> & Hno & _).
  apply in_app_or in Hin. destruct Hin as [Hin|Hin]; [|now apply Hno in Hin].
  destruct (nwl >? 0); [|destruct Hin].
  apply put_events_swap in Hin. destruct Hin as (l & Hl & Hs & Ht).
  apply filter_In in Hl. destruct Hl as [Hl Hf]. exists l. auto.
Qed.

(* the statement without `0 < nwl` is false (see commit_post_keeps_unflagged_counterexample) *)
Theorem commit_post_keeps_unflagged_partial : forall st nwl nrl st' ev,
  commit_post st nwl nrl = (st', ev) ->
  forall l, In l (put_lead st') -> In l (put_lead st) /\ (0 < nwl -> l_to_free l = false).
Proof.
  intros st nwl nrl st' ev H l Hl.
  destruct (commit_post_shape _ _ _ _ _ H) as (ev2 & _ & _ & Hpl). rewrite Hpl in Hl.
  destruct (nwl >? 0) eqn:En.
  - apply filter_In in Hl. destruct Hl as [Hl Hf]. split; [exact Hl|]. intros _.
    destruct (l_to_free l); [discriminate Hf|reflexivity].
  - split; [exact Hl|lia].
Qed.

Definition ex_cp_st : nbstate :=
  mkst [ex_lead 0 (-1) 7 true true; ex_lead 2 (-1) 8 false true; ex_lead 4 (-1) 9 true false] []
       [dummy_req; dummy_req; dummy_req] [] 4 0 None 0 empty_disk.

Example commit_post_ex :
  snd (commit_post ex_cp_st 2 0) = [EvSwapBack 7; EvPutDone 7; EvPutDone 9] /\
  put_lead (fst (commit_post ex_cp_st 2 0)) = [ex_lead 2 (-1) 8 false true].
Proof. split; vm_compute; reflexivity. Qed.

(* with nwl = 0 nothing is processed: a lead that carries NC_REQ_TO_FREE stays in the queue *)
Example commit_post_keeps_unflagged_counterexample :
  let l := ex_lead 0 (-1) 7 true true in
  In l (put_lead (fst (commit_post ex_cp_st 0 0))) /\ l_to_free l = true.
Proof. split; vm_compute; auto. Qed.

(* ---------- cancel of ALL put requests ---------- *)
Theorem cancel_all_swaps_back : forall st num_req ids stat0,
  num_req = NC_PUT_REQ_ALL \/ num_req = NC_REQ_ALL ->
  put_lead (wr_st (cancel st num_req ids stat0)) = [] /\
  forall l, In l (put_lead st) ->
    In (EvPutDone (l_tag l)) (wr_ev (cancel st num_req ids stat0)) /\
    (l_swapbuf l = true -> In (EvSwapBack (l_tag l)) (wr_ev (cancel st num_req ids stat0))).
Proof.
  intros st num_req ids stat0 Hn. unfold NC_PUT_REQ_ALL, NC_REQ_ALL in Hn.
  unfold cancel. fold (put_events (put_lead st)).
  replace (num_req =? 0) with false by lia.
  replace (num_req <? NC_PUT_REQ_ALL) with false by (unfold NC_PUT_REQ_ALL; lia).
  replace (num_req <? 0) with true by lia.
  replace ((num_req =? NC_PUT_REQ_ALL) || (num_req =? NC_REQ_ALL)) with true
    by (unfold NC_PUT_REQ_ALL, NC_REQ_ALL; lia).
  cbn [wr_st wr_ev]. split; [reflexivity|].
  intros l Hl. destruct (put_events_in l _ Hl) as [H1 H2].
  split; [|intros Hs]; apply in_or_app; right; auto.
Qed.

Theorem cancel_all_swaps_only_flagged : forall st num_req ids stat0 t,
  num_req < 0 -> In (EvSwapBack t) (wr_ev (cancel st num_req ids stat0)) ->
  (num_req = NC_PUT_REQ_ALL \/ num_req = NC_REQ_ALL) /\
  exists l, In l (put_lead st) /\ l_swapbuf l = true /\ l_tag l = t.
Proof.
  intros st num_req ids stat0 t Hn. unfold cancel. fold (put_events (put_lead st)).
  replace (num_req =? 0) with false by lia.
  destruct (num_req <? NC_PUT_REQ_ALL); [intros []|].
  replace (num_req <? 0) with true by lia.
  cbn [wr_ev]. intros Hin. apply in_app_or in Hin. destruct Hin as [Hin|Hin].
  - destruct ((num_req =? NC_GET_REQ_ALL) || (num_req =? NC_REQ_ALL)); [|destruct Hin].
    apply in_map_iff in Hin. destruct Hin as (l & Hl & _). discriminate Hl.
  - destruct ((num_req =? NC_PUT_REQ_ALL) || (num_req =? NC_REQ_ALL)) eqn:Ecp; [|destruct Hin].
    split; [lia|]. now apply put_events_swap.
Qed.

Theorem cancel_all_get_keeps_puts : forall st ids stat0 t,
  put_lead (wr_st (cancel st NC_GET_REQ_ALL ids stat0)) = put_lead st /\
  ~ In (EvSwapBack t) (wr_ev (cancel st NC_GET_REQ_ALL ids stat0)).
Proof.
  intros st ids stat0 t. split; [reflexivity|].
  intros Hin. apply (cancel_all_swaps_only_flagged st NC_GET_REQ_ALL ids stat0 t) in Hin.
  - destruct Hin as [[H|H] _]; vm_compute in H; discriminate H.
  - reflexivity.
Qed.

Example cancel_all_ex :
  wr_ev (cancel ex_cp_st NC_PUT_REQ_ALL [] []) =
    [EvSwapBack 7; EvPutDone 7; EvSwapBack 8; EvPutDone 8; EvPutDone 9] /\
  put_lead (wr_st (cancel ex_cp_st NC_REQ_ALL [] [])) = [].
Proof. split; vm_compute; reflexivity. Qed.

(* ---------- cancel by request ids ---------- *)
(* the first put lead with id x has tag t and swap flag s *)
Fixpoint first_put (pl : list lead) (x t : Z) (s : bool) : Prop :=
  match pl with
  | [] => False
  | l :: r => if l_id l =? x then l_tag l = t /\ l_swapbuf l = s else first_put r x t s
  end.

Lemma first_put_intro pre l post :
  Forall (fun l' => l_id l' <> l_id l) pre ->
  first_put (pre ++ l :: post) (l_id l) (l_tag l) (l_swapbuf l).
Proof.
  induction 1 as [|a pre Ha Hpre IH]; cbn [app first_put].
  - rewrite Z.eqb_refl. split; reflexivity.
  - destruct (Z.eqb_spec (l_id a) (l_id l)); [contradiction|exact IH].
Qed.

Lemma first_put_shift (f : lead -> Z) pl x t s :
  first_put (map (fun l' => l_set_off l' (f l')) pl) x t s <-> first_put pl x t s.
Proof.
  induction pl as [|a pl IH]; cbn [map first_put]; [tauto|].
  cbn [l_set_off l_id l_tag l_swapbuf]. destruct (l_id a =? x); [tauto|exact IH].
Qed.

Lemma remove_lead_first pl x t s : first_put pl x t s -> x <> NC_REQ_NULL ->
  exists pl' l, remove_lead pl x = Some (pl', l) /\ l_tag l = t /\ l_swapbuf l = s.
Proof.
  induction pl as [|a pl IH]; cbn [first_put remove_lead]; [intros []|].
  destruct (Z.eqb_spec (l_id a) x) as [Ea|Ea].
  - intros [Ht Hs] Hx. replace (negb (l_id a =? NC_REQ_NULL)) with true by lia. cbn [andb].
    eexists _, _. split; [reflexivity|split; assumption].
  - intros Hf Hx. rewrite andb_false_r. destruct (IH Hf Hx) as (pl' & l & E & Ht & Hs).
    rewrite E. eexists _, _. split; [reflexivity|split; assumption].
Qed.

Lemma remove_lead_other pl x t s y : forall pl' f,
  first_put pl x t s -> y <> x -> remove_lead pl y = Some (pl', f) -> first_put pl' x t s.
Proof.
  induction pl as [|a pl IH]; intros pl' f; cbn [first_put remove_lead]; [intros []|].
  destruct (negb (l_id a =? NC_REQ_NULL) && (l_id a =? y)) eqn:Em.
  - intros Hf Hne H. inversion H; subst; clear H.
    destruct (Z.eqb_spec (l_id f) x) as [Ea|Ea]; [lia|].
    apply first_put_shift. exact Hf.
  - destruct (remove_lead pl y) as [[r' f']|] eqn:Er; intros Hf Hne H; [|discriminate H].
    inversion H; subst; clear H. cbn [first_put].
    destruct (l_id a =? x); [exact Hf|]. eapply IH; eauto.
Qed.

Lemma remove_lead_sim pl x : forall pl' f, remove_lead pl x = Some (pl', f) ->
  In f pl /\ l_id f = x /\ x <> NC_REQ_NULL /\
  forall l', In l' pl' -> exists l, In l pl /\ l_id l = l_id l' /\ l_tag l = l_tag l' /\ l_swapbuf l = l_swapbuf l'.
Proof.
  induction pl as [|a pl IH]; intros pl' f; cbn [remove_lead]; [discriminate|].
  destruct (negb (l_id a =? NC_REQ_NULL) && (l_id a =? x)) eqn:Em.
  - intros H. inversion H; subst; clear H.
    split; [now left|]. split; [lia|]. split; [lia|].
    intros l' Hl'. apply in_map_iff in Hl'. destruct Hl' as (l0 & <- & Hl0).
    exists l0. split; [now right|]. cbn [l_set_off l_id l_tag l_swapbuf]. repeat split.
  - destruct (remove_lead pl x) as [[r' f']|] eqn:Er; intros H; [|discriminate H].
    inversion H; subst; clear H.
    destruct (IH _ _ eq_refl) as (Hin & Hid & Hx & Hsim).
    split; [now right|]. split; [exact Hid|]. split; [exact Hx|].
    intros l' [<-|Hl'].
    + exists a. split; [now left|]. repeat split.
    + destruct (Hsim l' Hl') as (l & Hl & H1 & H2 & H3). exists l. split; [now right|]. auto.
Qed.

Definition cres := (nbstate * list Z * list Z * Z * list event)%type.
Definition c_st (r : cres) : nbstate := fst (fst (fst (fst r))).
Definition c_ev (r : cres) : list event := snd r.

Ltac cancel_step :=
  match goal with |- context [cancel_ids ?a ?b ?c ?d ?e ?f] =>
    let E := fresh "E" in
    destruct (cancel_ids a b c d e f) as [[[[?q1 ?q2] ?q3] ?q4] ?q5] eqn:E;
    eexists _, _, _, _;
    split; [symmetry; exact (f_equal c_st E)|];
    split; [symmetry; exact (f_equal c_ev E)|]
  end.

(* one step of the loop of ncmpio_cancel, as far as the put queue and the events go *)
Lemma cancel_ids_cons st x r i stat rc ev :
  exists st1 stat1 rc1 ev1,
    c_st (cancel_ids st (x :: r) i stat rc ev) = c_st (cancel_ids st1 r (i + 1) stat1 rc1 ev1) /\
    c_ev (cancel_ids st (x :: r) i stat rc ev) = c_ev (cancel_ids st1 r (i + 1) stat1 rc1 ev1) /\
    ((put_lead st1 = put_lead st /\ (ev1 = ev \/ exists tg, ev1 = ev ++ [EvGetCancelled tg]) /\
      (x = NC_REQ_NULL \/ Z.land x 1 = 1 \/ remove_lead (put_lead st) x = None)) \/
     (x <> NC_REQ_NULL /\ Z.land x 1 <> 1 /\
      exists pl l, remove_lead (put_lead st) x = Some (pl, l) /\ put_lead st1 = pl /\
        ev1 = ev ++ (if l_swapbuf l then [EvSwapBack (l_tag l)] else []) ++ [EvPutDone (l_tag l)])).
Proof.
  cbn [cancel_ids].
  destruct (Z.eqb_spec x NC_REQ_NULL) as [Hx|Hx].
  { cancel_step. left. split; [reflexivity|]. split; [now left|now left]. }
  destruct (Z.eqb_spec (Z.land x 1) 1) as [Hodd|Hodd].
  { destruct (remove_lead (get_lead st) x) as [[gl l]|].
    - cancel_step. left. split; [reflexivity|]. split; [right; eexists; reflexivity|right; now left].
    - cancel_step. left. split; [reflexivity|]. split; [now left|right; now left]. }
  destruct (remove_lead (put_lead st) x) as [[pl l]|] eqn:Er.
  - cancel_step. right. split; [exact Hx|]. split; [exact Hodd|]. exists pl, l.
    split; [reflexivity|]. split; reflexivity.
  - cancel_step. left. split; [reflexivity|]. split; [now left|right; now right].
Qed.

Lemma cancel_ids_nil st i stat rc ev : c_ev (cancel_ids st [] i stat rc ev) = ev /\ c_st (cancel_ids st [] i stat rc ev) = st.
Proof. split; reflexivity. Qed.

Lemma cancel_ids_ev_incl ids : forall st i stat rc ev e,
  In e ev -> In e (c_ev (cancel_ids st ids i stat rc ev)).
Proof.
  induction ids as [|x r IH]; intros st i stat rc ev e He; [exact He|].
  destruct (cancel_ids_cons st x r i stat rc ev) as (st1 & stat1 & rc1 & ev1 & _ & Eev & Hc).
  rewrite Eev. apply IH.
  destruct Hc as [(_ & Hev & _)|(_ & _ & pl & l & _ & _ & Hev)].
  - destruct Hev as [->|(tg & ->)]; [exact He|]. apply in_or_app. now left.
  - subst ev1. apply in_or_app. now left.
Qed.

Lemma cancel_ids_swaps_back_gen ids : forall st i stat rc ev x t s,
  first_put (put_lead st) x t s -> In x ids -> x <> NC_REQ_NULL -> Z.land x 1 <> 1 ->
  In (EvPutDone t) (c_ev (cancel_ids st ids i stat rc ev)) /\
  (s = true -> In (EvSwapBack t) (c_ev (cancel_ids st ids i stat rc ev))).
Proof.
  induction ids as [|a r IH]; intros st i stat rc ev x t s Hf Hin Hx Hodd; [destruct Hin|].
  destruct (cancel_ids_cons st a r i stat rc ev) as (st1 & stat1 & rc1 & ev1 & _ & Eev & Hc).
  rewrite Eev.
  destruct Hc as [(Hpl & _ & Hwhy)|(Ha & Hao & pl & l & Er & Hpl & Hev)].
  - assert (Hne : a <> x).
    { intros ->. destruct Hwhy as [H|[H|H]]; [contradiction|contradiction|].
      destruct (remove_lead_first _ _ _ _ Hf Hx) as (pl' & l' & E & _). congruence. }
    destruct Hin as [Hin|Hin]; [contradiction|].
    apply (IH st1 (i + 1) stat1 rc1 ev1 x t s); try assumption. now rewrite Hpl.
  - destruct (Z.eq_dec a x) as [->|Hne].
    + destruct (remove_lead_first _ _ _ _ Hf Hx) as (pl' & l' & E & Ht & Hs).
      rewrite E in Er. inversion Er; subst pl' l'. clear Er.
      split; [|intros Hst]; apply cancel_ids_ev_incl; rewrite Hev.
      * apply in_or_app. right. apply in_or_app. right. rewrite Ht. now left.
      * apply in_or_app. right. apply in_or_app. left. rewrite Hs, Hst, Ht. now left.
    + destruct Hin as [Hin|Hin]; [contradiction|].
      apply (IH st1 (i + 1) stat1 rc1 ev1 x t s); try assumption. rewrite Hpl.
      eapply remove_lead_other; [exact Hf| |exact Er]. exact Hne.
Qed.

Lemma cancel_ids_swaps_only_gen ids : forall st i stat rc ev t,
  In (EvSwapBack t) (c_ev (cancel_ids st ids i stat rc ev)) ->
  In (EvSwapBack t) ev \/
  exists l, In l (put_lead st) /\ l_swapbuf l = true /\ l_tag l = t /\ In (l_id l) ids /\ l_id l <> NC_REQ_NULL.
Proof.
  induction ids as [|a r IH]; intros st i stat rc ev t Hin; [now left|].
  destruct (cancel_ids_cons st a r i stat rc ev) as (st1 & stat1 & rc1 & ev1 & _ & Eev & Hc).
  rewrite Eev in Hin. apply IH in Hin.
  destruct Hc as [(Hpl & Hev & _)|(Ha & Hao & pl & l & Er & Hpl & Hev)].
  - destruct Hin as [Hin|(l' & Hl' & Hs & Ht & Hid & Hnn)].
    + destruct Hev as [->|(tg & ->)]; [now left|].
      apply in_app_or in Hin. destruct Hin as [Hin|[Hin|[]]]; [now left|discriminate Hin].
    + right. exists l'. rewrite Hpl in Hl'. split; [exact Hl'|]. split; [exact Hs|]. split; [exact Ht|].
      split; [now right|exact Hnn].
  - destruct (remove_lead_sim _ _ _ _ Er) as (Hlin & Hlid & _ & Hsim).
    destruct Hin as [Hin|(l' & Hl' & Hs & Ht & Hid & Hnn)].
    + rewrite Hev in Hin. apply in_app_or in Hin. destruct Hin as [Hin|Hin]; [now left|].
      right. exists l. apply in_app_or in Hin. destruct Hin as [Hin|[Hin|[]]]; [|discriminate Hin].
      destruct (l_swapbuf l) eqn:Hs; [|destruct Hin]. destruct Hin as [Hin|[]]. inversion Hin.
      split; [exact Hlin|]. split; [reflexivity|]. split; [reflexivity|].
      split; [left; now symmetry|congruence].
    + right. rewrite Hpl in Hl'. destruct (Hsim l' Hl') as (l0 & Hl0 & H1 & H2 & H3).
      exists l0. split; [exact Hl0|]. split; [congruence|]. split; [congruence|].
      split; [right; congruence|congruence].
Qed.

Lemma cancel_pos_ev st num_req ids stat0 : 0 < num_req ->
  wr_ev (cancel st num_req ids stat0) = c_ev (cancel_ids st ids 0 stat0 NC_NOERR []).
Proof.
  intros Hn. unfold cancel.
  replace (num_req =? 0) with false by lia.
  replace (num_req <? NC_PUT_REQ_ALL) with false by (unfold NC_PUT_REQ_ALL; lia).
  replace (num_req <? 0) with false by lia.
  destruct (cancel_ids st ids 0 stat0 NC_NOERR []) as [[[[q1 q2] q3] q4] q5]. reflexivity.
Qed.

(* a put lead that is the first of the queue with its id, whose id is named in req_ids, is
   cancelled: it leaves the queue (EvPutDone) and the caller's buffer is swapped back if flagged *)
Theorem cancel_ids_swaps_back : forall st num_req ids stat0 pre l post,
  0 < num_req -> put_lead st = pre ++ l :: post -> Forall (fun l' => l_id l' <> l_id l) pre ->
  In (l_id l) ids -> l_id l <> NC_REQ_NULL -> Z.land (l_id l) 1 <> 1 ->
  In (EvPutDone (l_tag l)) (wr_ev (cancel st num_req ids stat0)) /\
  (l_swapbuf l = true -> In (EvSwapBack (l_tag l)) (wr_ev (cancel st num_req ids stat0))).
Proof.
  intros st num_req ids stat0 pre l post Hn Hpl Hpre Hin Hx Hodd.
  rewrite cancel_pos_ev by exact Hn.
  apply (cancel_ids_swaps_back_gen ids st 0 stat0 NC_NOERR [] (l_id l) (l_tag l) (l_swapbuf l)); try assumption.
  rewrite Hpl. now apply first_put_intro.
Qed.

Theorem cancel_ids_swaps_only_flagged : forall st num_req ids stat0 t,
  0 < num_req -> In (EvSwapBack t) (wr_ev (cancel st num_req ids stat0)) ->
  exists l, In l (put_lead st) /\ l_swapbuf l = true /\ l_tag l = t /\ In (l_id l) ids /\ l_id l <> NC_REQ_NULL.
Proof.
  intros st num_req ids stat0 t Hn Hin. rewrite cancel_pos_ev in Hin by exact Hn.
  apply cancel_ids_swaps_only_gen in Hin. destruct Hin as [[]|H]. exact H.
Qed.

Example cancel_ids_ex :
  wr_ev (cancel ex_cp_st 2 [4; 0] [0; 0]) = [EvPutDone 9; EvSwapBack 7; EvPutDone 7] /\
  map l_tag (put_lead (wr_st (cancel ex_cp_st 2 [4; 0] [0; 0]))) = [8] /\
  put_lead ex_cp_st = [] ++ ex_lead 0 (-1) 7 true true :: [ex_lead 2 (-1) 8 false true; ex_lead 4 (-1) 9 true false].
Proof. repeat split; vm_compute; reflexivity. Qed.

(* ---------- cancel by ids: what stays, what leaves ---------- *)
Lemma l_set_off_self l : l_set_off l (l_nonlead_off l) = l.
Proof. destruct l; reflexivity. Qed.

Lemma remove_lead_keeps pl y : forall pl' f, remove_lead pl y = Some (pl', f) ->
  forall l, In l pl -> l_id l <> y -> exists off, In (l_set_off l off) pl'.
Proof.
  induction pl as [|a pl IH]; intros pl' f; cbn [remove_lead]; [discriminate|].
  destruct (negb (l_id a =? NC_REQ_NULL) && (l_id a =? y)) eqn:Em.
  - intros H l Hl Hne. inversion H; subst; clear H.
    destruct Hl as [->|Hl]; [lia|].
    eexists. apply in_map_iff. exists l. split; [reflexivity|exact Hl].
  - destruct (remove_lead pl y) as [[r' f']|] eqn:Er; intros H l Hl Hne; [|discriminate H].
    inversion H; subst; clear H. destruct Hl as [->|Hl].
    + exists (l_nonlead_off l). left. symmetry. apply l_set_off_self.
    + destruct (IH _ _ eq_refl l Hl Hne) as (off & Hoff). exists off. now right.
Qed.

Lemma cancel_ids_keeps_gen ids : forall st i stat rc ev l,
  In l (put_lead st) -> ~ In (l_id l) ids ->
  exists off, In (l_set_off l off) (put_lead (c_st (cancel_ids st ids i stat rc ev))).
Proof.
  induction ids as [|a r IH]; intros st i stat rc ev l Hl Hni.
  - exists (l_nonlead_off l). rewrite l_set_off_self. exact Hl.
  - destruct (cancel_ids_cons st a r i stat rc ev) as (st1 & stat1 & rc1 & ev1 & Est & _ & Hc).
    rewrite Est.
    assert (Hne : l_id l <> a) by (intros E; apply Hni; left; now symmetry).
    assert (Hnr : ~ In (l_id l) r) by (intros E; apply Hni; now right).
    destruct Hc as [(Hpl & _ & _)|(_ & _ & pl & f & Er & Hpl & _)].
    + apply IH; [now rewrite Hpl|exact Hnr].
    + destruct (remove_lead_keeps _ _ _ _ Er l Hl Hne) as (off & Hoff).
      rewrite <- Hpl in Hoff.
      destruct (IH st1 (i + 1) stat1 rc1 ev1 (l_set_off l off) Hoff Hnr) as (off' & Hoff').
      exists off'. exact Hoff'.
Qed.

Lemma cancel_pos_put_lead st num_req ids stat0 : 0 < num_req ->
  put_lead (wr_st (cancel st num_req ids stat0)) = put_lead (c_st (cancel_ids st ids 0 stat0 NC_NOERR [])).
Proof.
  intros Hn. unfold cancel.
  replace (num_req =? 0) with false by lia.
  replace (num_req <? NC_PUT_REQ_ALL) with false by (unfold NC_PUT_REQ_ALL; lia).
  replace (num_req <? 0) with false by lia.
  destruct (cancel_ids st ids 0 stat0 NC_NOERR []) as [[[[q1 q2] q3] q4] q5]. reflexivity.
Qed.

(* a put lead whose id is not named stays pending, untouched except for its position in the
   non-lead queue (in particular it keeps its swap flag, buffer address and pool index) *)
Theorem cancel_ids_keeps_unnamed : forall st num_req ids stat0 l,
  0 < num_req -> In l (put_lead st) -> ~ In (l_id l) ids ->
  exists off, In (l_set_off l off) (put_lead (wr_st (cancel st num_req ids stat0))).
Proof.
  intros st num_req ids stat0 l Hn Hl Hni. rewrite cancel_pos_put_lead by exact Hn.
  now apply cancel_ids_keeps_gen.
Qed.

(* number of put leads carrying id x *)
Definition nid (pl : list lead) (x : Z) : Z := Zlen (filter (fun l => l_id l =? x) pl).

Lemma nid_nonneg pl x : 0 <= nid pl x.
Proof. apply Zlen_nonneg. Qed.

Lemma nid_cons a pl x : nid (a :: pl) x = (if l_id a =? x then 1 else 0) + nid pl x.
Proof. unfold nid. cbn [filter]. destruct (l_id a =? x); [rewrite Zlen_cons|]; lia. Qed.

Lemma nid_shift (f : lead -> Z) pl x : nid (map (fun l' => l_set_off l' (f l')) pl) x = nid pl x.
Proof.
  induction pl as [|a pl IH]; [reflexivity|]. cbn [map]. rewrite !nid_cons, IH. reflexivity.
Qed.

Lemma nid_zero_absent pl x : nid pl x = 0 -> forall l, In l pl -> l_id l <> x.
Proof.
  induction pl as [|a pl IH]; intros Hz l Hl; [destruct Hl|].
  rewrite nid_cons in Hz. pose proof (nid_nonneg pl x) as Hnn.
  destruct (Z.eqb_spec (l_id a) x) as [Ea|Ea]; [lia|].
  destruct Hl as [->|Hl]; [exact Ea|]. apply IH; [lia|exact Hl].
Qed.

Lemma remove_lead_nid pl y x : forall pl' f, remove_lead pl y = Some (pl', f) ->
  nid pl' x = nid pl x - (if y =? x then 1 else 0).
Proof.
  induction pl as [|a pl IH]; intros pl' f; cbn [remove_lead]; [discriminate|].
  destruct (negb (l_id a =? NC_REQ_NULL) && (l_id a =? y)) eqn:Em.
  - intros H. inversion H; subst; clear H. rewrite nid_shift, nid_cons.
    assert (Ef : l_id f = y) by lia. rewrite Ef. lia.
  - destruct (remove_lead pl y) as [[r' f']|] eqn:Er; intros H; [|discriminate H].
    inversion H; subst; clear H. rewrite !nid_cons. rewrite (IH _ _ eq_refl). lia.
Qed.

Lemma remove_lead_none_nid pl x : x <> NC_REQ_NULL -> remove_lead pl x = None -> nid pl x = 0.
Proof.
  intros Hx. induction pl as [|a pl IH]; cbn [remove_lead]; [reflexivity|].
  destruct (negb (l_id a =? NC_REQ_NULL) && (l_id a =? x)) eqn:Em; [discriminate|].
  destruct (remove_lead pl x) as [[r' f']|]; [discriminate|]. intros _.
  rewrite nid_cons, IH by reflexivity. destruct (Z.eqb_spec (l_id a) x) as [Ea|Ea]; lia.
Qed.

Lemma cancel_ids_nid_le ids : forall st i stat rc ev x,
  nid (put_lead (c_st (cancel_ids st ids i stat rc ev))) x <= nid (put_lead st) x.
Proof.
  induction ids as [|a r IH]; intros st i stat rc ev x; [cbn; lia|].
  destruct (cancel_ids_cons st a r i stat rc ev) as (st1 & stat1 & rc1 & ev1 & Est & _ & Hc).
  rewrite Est. specialize (IH st1 (i + 1) stat1 rc1 ev1 x).
  destruct Hc as [(Hpl & _ & _)|(_ & _ & pl & f & Er & Hpl & _)].
  - now rewrite <- Hpl.
  - rewrite Hpl in IH. rewrite (remove_lead_nid _ _ x _ _ Er) in IH.
    destruct (a =? x); lia.
Qed.

Lemma cancel_ids_removes_gen ids : forall st i stat rc ev x,
  nid (put_lead st) x <= 1 -> In x ids -> x <> NC_REQ_NULL -> Z.land x 1 <> 1 ->
  nid (put_lead (c_st (cancel_ids st ids i stat rc ev))) x = 0.
Proof.
  induction ids as [|a r IH]; intros st i stat rc ev x Hle Hin Hx Hodd; [destruct Hin|].
  destruct (cancel_ids_cons st a r i stat rc ev) as (st1 & stat1 & rc1 & ev1 & Est & _ & Hc).
  rewrite Est.
  pose proof (cancel_ids_nid_le r st1 (i + 1) stat1 rc1 ev1 x) as Hmono.
  pose proof (nid_nonneg (put_lead (c_st (cancel_ids st1 r (i + 1) stat1 rc1 ev1))) x) as Hnn.
  destruct (Z.eq_dec a x) as [->|Hne].
  - destruct Hc as [(Hpl & _ & Hwhy)|(_ & _ & pl & f & Er & Hpl & _)].
    + destruct Hwhy as [H|[H|H]]; [contradiction|contradiction|].
      rewrite Hpl in Hmono. rewrite (remove_lead_none_nid _ _ Hx H) in Hmono. lia.
    + rewrite Hpl in Hmono. rewrite (remove_lead_nid _ _ x _ _ Er), Z.eqb_refl in Hmono. lia.
  - destruct Hin as [Hin|Hin]; [contradiction|].
    apply IH; try assumption.
    destruct Hc as [(Hpl & _ & _)|(_ & _ & pl & f & Er & Hpl & _)].
    + now rewrite Hpl.
    + rewrite Hpl, (remove_lead_nid _ _ x _ _ Er).
      destruct (Z.eqb_spec a x); lia.
Qed.

(* a named put request (valid even id carried by exactly one lead) is no longer in the queue *)
Theorem cancel_ids_removes_named : forall st num_req ids stat0 pre l post,
  0 < num_req -> put_lead st = pre ++ l :: post ->
  Forall (fun l' => l_id l' <> l_id l) pre -> Forall (fun l' => l_id l' <> l_id l) post ->
  In (l_id l) ids -> l_id l <> NC_REQ_NULL -> Z.land (l_id l) 1 <> 1 ->
  forall l', In l' (put_lead (wr_st (cancel st num_req ids stat0))) -> l_id l' <> l_id l.
Proof.
  intros st num_req ids stat0 pre l post Hn Hpl Hpre Hpost Hin Hx Hodd.
  rewrite cancel_pos_put_lead by exact Hn.
  apply nid_zero_absent. apply cancel_ids_removes_gen; try assumption.
  rewrite Hpl. unfold nid. rewrite filter_app. cbn [filter]. rewrite Z.eqb_refl.
  assert (Hz : forall q, Forall (fun l' => l_id l' <> l_id l) q -> filter (fun l0 => l_id l0 =? l_id l) q = []).
  { induction 1 as [|b q Hb Hq IHq]; cbn [filter]; [reflexivity|].
    destruct (Z.eqb_spec (l_id b) (l_id l)); [contradiction|exact IHq]. }
  rewrite (Hz pre Hpre), (Hz post Hpost). cbn. lia.
Qed.

(* ---------- close with pending requests ---------- *)
Theorem close_pending_swaps_back : forall st l, In l (put_lead st) -> l_swapbuf l = true ->
  In (EvSwapBack (l_tag l)) (wr_ev (close_pending st)).
Proof.
  intros st l Hl Hs. unfold close_pending. cbn [wr_ev]. apply in_or_app. right.
  set (r1 := if 0 <? Zlen (get_lead st) then cancel st NC_GET_REQ_ALL [] [] else mkwr st NC_NOERR [] [] []).
  assert (Hpl : put_lead (wr_st r1) = put_lead st).
  { unfold r1. destruct (0 <? Zlen (get_lead st)); reflexivity. }
  rewrite Hpl.
  assert (Hpos : 0 <? Zlen (put_lead st) = true).
  { destruct (put_lead st) as [|a pl]; [destruct Hl|]. rewrite Zlen_cons. pose proof (Zlen_nonneg pl). lia. }
  rewrite Hpos.
  destruct (cancel_all_swaps_back (wr_st r1) NC_PUT_REQ_ALL [] [] (or_introl eq_refl)) as [_ H].
  rewrite Hpl in H. destruct (H l Hl) as [_ H2]. now apply H2.
Qed.

Example close_pending_ex :
  wr_ev (close_pending ex_cp_st) = [EvSwapBack 7; EvPutDone 7; EvSwapBack 8; EvPutDone 8; EvPutDone 9] /\
  wr_rc (close_pending ex_cp_st) = NC_EPENDING.
Proof. split; vm_compute; reflexivity. Qed.

(* ====================================================================== *)
(* B4. a bput copies the data into the pool at posting time                *)
(* ====================================================================== *)
Lemma map_zseq_znth (bs : list byte) : forall o (f : Z -> byte),
  (forall i, 0 <= i < Zlen bs -> f (o + i) = znth bs i 0) -> map f (zseq o (length bs)) = bs.
Proof.
  induction bs as [|b bs IH]; intros o f H; cbn [length zseq map]; [reflexivity|].
  pose proof (Zlen_nonneg bs) as Hnn. f_equal.
  - specialize (H 0). rewrite Z.add_0_r in H. rewrite H; [reflexivity|rewrite Zlen_cons; lia].
  - apply IH. intros i Hi. replace (o + 1 + i) with (o + (i + 1)) by lia.
    rewrite H by (rewrite Zlen_cons; lia). rewrite znth_cons_nz by lia. f_equal. lia.
Qed.

Lemma dk_read_write_same d o bs : dk_read (dk_write d o bs) o (Zlen bs) = bs.
Proof.
  unfold dk_read, zrange. unfold Zlen at 1. rewrite Nat2Z.id. apply map_zseq_znth.
  intros i Hi. rewrite dk_get_write.
  replace ((o <=? o + i) && (o + i <? o + Zlen bs)) with true by lia. f_equal. lia.
Qed.

Lemma post_varm_zero st g start count stride xaddr data sw tag a :
  st_abuf st = Some a -> zprod count * g_xsz g = 0 ->
  post_varm st KBput g start count stride xaddr data sw tag = (st, NC_REQ_NULL, NC_NOERR).
Proof. intros Hab Hz. unfold post_varm. rewrite Hab. cbv zeta. rewrite Hz. reflexivity. Qed.

Theorem bput_captures_at_post : forall st g start count stride xaddr data sw tag st' id a,
  st_abuf st = Some a -> ab_wf a ->
  post_varm st KBput g start count stride xaddr data sw tag = (st', id, NC_NOERR) ->
  id <> NC_REQ_NULL -> Zlen data = zprod count * g_xsz g ->
  exists l, In l (put_lead st') /\ l_id l = id /\ l_xaddr l = ABUF_BASE + ab_used a /\
            0 <= l_abuf_index l /\
            dk_read (st_mem st') (l_xaddr l) (Zlen data) = data /\
            ABUF_BASE <= l_xaddr l /\ l_xaddr l + Zlen data <= ABUF_BASE + ab_alloc a.
Proof.
  intros st g start count stride xaddr data sw tag st' id a Hab Hwf Hpost Hid Hlen.
  assert (Hnz : zprod count * g_xsz g <> 0).
  { intros Hz. rewrite (post_varm_zero _ _ _ _ _ _ _ _ _ _ Hab Hz) in Hpost.
    apply (f_equal (fun r => snd (fst r))) in Hpost. cbv beta in Hpost. cbn [fst snd] in Hpost. congruence. }
  pose proof (ab_wf_used_nonneg a Hwf) as Hnn.
  destruct (post_varm_bput_cases st g start count stride xaddr data sw tag a Hab Hnz)
    as [(Hi & E)|(Hi & pl & pr & id0 & l & E & Hl & Hlid & Hlx & Hli & _)]; rewrite E in Hpost.
  - apply (f_equal snd) in Hpost. cbn [snd] in Hpost. vm_compute in Hpost. discriminate Hpost.
  - pose proof (f_equal (fun r => fst (fst r)) Hpost) as Hst.
    pose proof (f_equal (fun r => snd (fst r)) Hpost) as Hid0.
    cbv beta in Hst, Hid0. cbn [fst snd] in Hst, Hid0. clear Hpost. subst st'. rewrite Hid0 in Hlid.
    exists l. cbn [put_lead st_mem].
    unfold abuf_insufficient in Hi.
    split; [exact Hl|]. split; [exact Hlid|]. split; [exact Hlx|].
    split; [rewrite Hli; apply Zlen_nonneg|].
    split; [rewrite Hlx; apply dk_read_write_same|].
    rewrite Hlx. split; lia.
Qed.

Example bput_captures_ex :
  let st := ex_st (mkabuf 32 16 [(true, 16)]) in
  let r := post_varm st KBput ex_geom [0] [3] None 0 [1;2;3;4;5;6;7;8;9;10;11;12] false 5 in
  ab_wf (mkabuf 32 16 [(true, 16)]) /\ snd r = NC_NOERR /\ snd (fst r) = 0 /\
  dk_read (st_mem (fst (fst r))) (ABUF_BASE + 16) 12 = [1;2;3;4;5;6;7;8;9;10;11;12] /\
  map l_abuf_index (put_lead (fst (fst r))) = [1].
Proof.
  cbv zeta. split; [|repeat split; vm_compute; reflexivity].
  unfold ab_wf. cbn. repeat split; [repeat constructor; cbn; lia|lia].
Qed.

Lemma post_varn_zero st g parts xaddr data sw tag a :
  st_abuf st = Some a -> varn_nbytes g parts = 0 ->
  post_varn st KBput g parts xaddr data sw tag = (st, NC_REQ_NULL, NC_NOERR).
Proof.
  intros Hab Hz. unfold post_varn. rewrite Hab. cbv zeta. unfold varn_nbytes in Hz. rewrite Hz. reflexivity.
Qed.

Theorem bput_varn_captures_at_post : forall st g parts xaddr data sw tag st' id a,
  st_abuf st = Some a -> ab_wf a ->
  post_varn st KBput g parts xaddr data sw tag = (st', id, NC_NOERR) ->
  id <> NC_REQ_NULL -> Zlen data = varn_nbytes g parts ->
  exists l, In l (put_lead st') /\ l_id l = id /\ l_xaddr l = ABUF_BASE + ab_used a /\
            0 <= l_abuf_index l /\
            dk_read (st_mem st') (l_xaddr l) (Zlen data) = data /\
            ABUF_BASE <= l_xaddr l /\ l_xaddr l + Zlen data <= ABUF_BASE + ab_alloc a.
Proof.
  intros st g parts xaddr data sw tag st' id a Hab Hwf Hpost Hid Hlen.
  assert (Hnz : varn_nbytes g parts <> 0).
  { intros Hz. rewrite (post_varn_zero _ _ _ _ _ _ _ _ Hab Hz) in Hpost.
    apply (f_equal (fun r => snd (fst r))) in Hpost. cbv beta in Hpost. cbn [fst snd] in Hpost. congruence. }
  pose proof (ab_wf_used_nonneg a Hwf) as Hnn.
  destruct (post_varn_bput_cases st g parts xaddr data sw tag a Hab Hnz)
    as [(Hi & E)|(Hi & pl & pr & id0 & l & E & Hl & Hlid & Hlx & Hli & _)]; rewrite E in Hpost.
  - apply (f_equal snd) in Hpost. cbn [snd] in Hpost. vm_compute in Hpost. discriminate Hpost.
  - pose proof (f_equal (fun r => fst (fst r)) Hpost) as Hst.
    pose proof (f_equal (fun r => snd (fst r)) Hpost) as Hid0.
    cbv beta in Hst, Hid0. cbn [fst snd] in Hst, Hid0. clear Hpost. subst st'. rewrite Hid0 in Hlid.
    exists l. cbn [put_lead st_mem].
    unfold abuf_insufficient in Hi.
    split; [exact Hl|]. split; [exact Hlid|]. split; [exact Hlx|].
    split; [rewrite Hli; apply Zlen_nonneg|].
    split; [rewrite Hlx; apply dk_read_write_same|].
    rewrite Hlx. split; lia.
Qed.

(* ====================================================================== *)
(* element count (bnelems) vs buftype count (bufcount) in the blocking put   *)
(* ====================================================================== *)
Theorem put_buffer_restored_bnelems : forall api nconv nswap contig himap h nbytes bt buf xsz,
  put_blocking_buffer (put_swaps_user_buf api nconv nswap contig himap h nbytes) bt buf xsz = buf.
Proof.
  intros. unfold put_blocking_buffer. apply put_buffer_restored.
Qed.

Definition swap_back_over_mpi_count_full : Prop :=
  forall flag bt buf xsz, put_blocking_buffer_mpi_count flag bt buf xsz = buf.
(* witness: 2 units of MPI_Type_contiguous(2, MPI_SHORT): swapping back over bufcount = 2 of the 4 elements leaves the
   second half of the buffer byte-swapped *)
Theorem swap_back_over_mpi_count_refuted : ~ swap_back_over_mpi_count_full.
Proof.
  intro H. specialize (H true (mkbt 2 2 true) [1; 2; 3; 4; 5; 6; 7; 8] 2).
  vm_compute in H. discriminate H.
Qed.
Example put_buffer_restored_bnelems_ex :
  put_blocking_buffer true (mkbt 2 2 true) [1; 2; 3; 4; 5; 6; 7; 8] 2 = [1; 2; 3; 4; 5; 6; 7; 8]
  /\ user_buf_in_flight true [1; 2; 3; 4; 5; 6; 7; 8] (bt_bnelems (mkbt 2 2 true)) 2 = [2; 1; 4; 3; 6; 5; 8; 7].
Proof. vm_compute. split; reflexivity. Qed.
Print Assumptions put_buffer_restored_bnelems.
