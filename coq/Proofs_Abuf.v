(* Proofs_Abuf.v — proofs for property C13 about the executable models
     Abuf.v         (attached-buffer pool of buffered puts; what the library does to the caller's buffer)
     Nonblocking.v  (request queues: bput_alloc, post_varm, post_varn, commit_post, cancel, detach, close)
   A. pool accounting, refusal test, region geometry, detach
   B. the caller's buffer: in-place byte swap is undone at every exit, bput copies at post time,
      a get only modifies the selected bytes. *)
From Pnc Require Import Nonblocking Proofs_Disk.
Require Import Lia ZArith List Bool ZifyBool.
Import ListNotations.
Local Open Scope Z_scope.

(* ====================================================================== *)
(* Definitions used in the statements                                      *)
(* ====================================================================== *)
Definition ab_wf (a : abuf) : Prop :=
  ab_used a = zsum (map snd (ab_table a)) /\ Forall (fun e => 0 < snd e) (ab_table a) /\ ab_used a <= ab_alloc a.
Definition tail_used (a : abuf) : Prop := match rev (ab_table a) with [] => True | e :: _ => fst e = true end.
Definition all_used (a : abuf) : Prop := Forall (fun e => fst e = true) (ab_table a).
Definition abops_pos (ops : list abop) : Prop := Forall (fun o => match o with ABput n => 0 < n | _ => True end) ops.

Fixpoint lifo_hist (a : abuf) (ops : list abop) : Prop :=
  match ops with
  | [] => True
  | o :: r => (match o with
               | AComplete idxs => exists k, 0 <= k <= ab_tail a /\ (forall i, In i idxs <-> ab_tail a - k <= i < ab_tail a)
               | _ => True end) /\ lifo_hist (ab_step a o) r
  end.

(* ====================================================================== *)
(* Generic list helpers (Z-indexed)                                        *)
(* ====================================================================== *)
Lemma zsum_app l1 l2 : zsum (l1 ++ l2) = zsum l1 + zsum l2.
Proof. induction l1 as [|x l1 IH]; cbn [zsum app]; lia. Qed.

Lemma zsum_rev l : zsum (rev l) = zsum l.
Proof. induction l as [|x l IH]; cbn [zsum rev]; [reflexivity|]. rewrite zsum_app. cbn [zsum]. lia. Qed.

Lemma zsum_map_snd_nonneg (t : list (bool * Z)) :
  Forall (fun e => 0 < snd e) t -> 0 <= zsum (map snd t).
Proof.
  induction 1 as [|e t He Ht IH]; cbn [zsum map]; lia.
Qed.

Lemma zfirstn_nil_l {A} n : zfirstn n (@nil A) = [].
Proof. reflexivity. Qed.

Lemma zfirstn_nonpos {A} n (l : list A) : n <= 0 -> zfirstn n l = [].
Proof. intros Hn. destruct l as [|x l]; cbn [zfirstn]; [reflexivity|]. destruct (Z.leb_spec n 0); [reflexivity|lia]. Qed.

Lemma zskipn_nonpos {A} n (l : list A) : n <= 0 -> zskipn n l = l.
Proof. intros Hn. destruct l as [|x l]; cbn [zskipn]; [reflexivity|]. destruct (Z.leb_spec n 0); [reflexivity|lia]. Qed.

Lemma zfirstn_cons_pos {A} n (x : A) l : 0 < n -> zfirstn n (x :: l) = x :: zfirstn (n - 1) l.
Proof. intros Hn. cbn [zfirstn]. destruct (Z.leb_spec n 0); [lia|reflexivity]. Qed.

Lemma zskipn_cons_pos {A} n (x : A) l : 0 < n -> zskipn n (x :: l) = zskipn (n - 1) l.
Proof. intros Hn. cbn [zskipn]. destruct (Z.leb_spec n 0); [lia|reflexivity]. Qed.

Lemma zfirstn_zskipn {A} n (l : list A) : zfirstn n l ++ zskipn n l = l.
Proof.
  revert n. induction l as [|x l IH]; intros n; [reflexivity|].
  destruct (Z.leb_spec n 0) as [H|H].
  - rewrite zfirstn_nonpos, zskipn_nonpos by lia. reflexivity.
  - rewrite zfirstn_cons_pos, zskipn_cons_pos by lia. cbn [app]. now rewrite IH.
Qed.

Lemma Zlen_zfirstn {A} n (l : list A) : Zlen (zfirstn n l) = Z.min (Z.max 0 n) (Zlen l).
Proof.
  revert n. induction l as [|x l IH]; intros n.
  - cbn [zfirstn]. rewrite Zlen_nil. lia.
  - destruct (Z.leb_spec n 0) as [H|H].
    + rewrite zfirstn_nonpos by lia. rewrite Zlen_nil. pose proof (Zlen_nonneg (x :: l)). lia.
    + rewrite zfirstn_cons_pos by lia. rewrite !Zlen_cons, IH. pose proof (Zlen_nonneg l). lia.
Qed.

Lemma Zlen_zskipn {A} n (l : list A) : Zlen (zskipn n l) = Zlen l - Z.min (Z.max 0 n) (Zlen l).
Proof.
  revert n. induction l as [|x l IH]; intros n.
  - cbn [zskipn]. rewrite Zlen_nil. lia.
  - destruct (Z.leb_spec n 0) as [H|H].
    + rewrite zskipn_nonpos by lia. pose proof (Zlen_nonneg (x :: l)). lia.
    + rewrite zskipn_cons_pos by lia. rewrite !Zlen_cons, IH. pose proof (Zlen_nonneg l). lia.
Qed.

Lemma zfirstn_all {A} n (l : list A) : Zlen l <= n -> zfirstn n l = l.
Proof.
  revert n. induction l as [|x l IH]; intros n Hn; [reflexivity|].
  rewrite Zlen_cons in Hn. pose proof (Zlen_nonneg l).
  rewrite zfirstn_cons_pos by lia. now rewrite IH by lia.
Qed.

Lemma zfirstn_app_l {A} n (l r : list A) : n <= Zlen l -> zfirstn n (l ++ r) = zfirstn n l.
Proof.
  revert n. induction l as [|x l IH]; intros n Hn.
  - rewrite Zlen_nil in Hn. now rewrite !zfirstn_nonpos by lia.
  - rewrite Zlen_cons in Hn. cbn [app]. destruct (Z.leb_spec n 0) as [H|H].
    + now rewrite !zfirstn_nonpos by lia.
    + rewrite !zfirstn_cons_pos by lia. now rewrite IH by lia.
Qed.

Lemma znth_nil {A} i (d : A) : znth [] i d = d.
Proof. reflexivity. Qed.

Lemma znth_cons_0 {A} (x : A) l d : znth (x :: l) 0 d = x.
Proof. reflexivity. Qed.

Lemma znth_cons_nz {A} (x : A) l i d : i <> 0 -> znth (x :: l) i d = znth l (i - 1) d.
Proof. intros Hi. cbn [znth]. destruct (Z.eqb_spec i 0); [lia|reflexivity]. Qed.

Lemma znth_neg {A} (l : list A) i d : i < 0 -> znth l i d = d.
Proof.
  revert i. induction l as [|x l IH]; intros i Hi; [reflexivity|].
  rewrite znth_cons_nz by lia. apply IH. lia.
Qed.

Lemma znth_overflow {A} (l : list A) i d : Zlen l <= i -> znth l i d = d.
Proof.
  revert i. induction l as [|x l IH]; intros i Hi; [reflexivity|].
  rewrite Zlen_cons in Hi. pose proof (Zlen_nonneg l).
  rewrite znth_cons_nz by lia. apply IH. lia.
Qed.

Lemma znth_zfirstn {A} n (l : list A) i d : i < n -> znth (zfirstn n l) i d = znth l i d.
Proof.
  revert n i. induction l as [|x l IH]; intros n i Hi; [reflexivity|].
  destruct (Z.ltb_spec i 0) as [Hneg|Hnn].
  - now rewrite !znth_neg by lia.
  - rewrite zfirstn_cons_pos by lia.
    destruct (Z.eq_dec i 0) as [->|Hz]; [reflexivity|].
    rewrite !znth_cons_nz by lia. apply IH. lia.
Qed.

Lemma znth_zskipn {A} n (l : list A) i d : 0 <= n -> 0 <= i -> znth (zskipn n l) i d = znth l (i + n) d.
Proof.
  revert n i. induction l as [|x l IH]; intros n i Hn Hi; [reflexivity|].
  destruct (Z.eq_dec n 0) as [->|Hz].
  - rewrite zskipn_nonpos by lia. now rewrite Z.add_0_r.
  - rewrite zskipn_cons_pos by lia. rewrite (znth_cons_nz x l (i + n)) by lia.
    rewrite IH by lia. f_equal. lia.
Qed.

Lemma znth_app_l {A} (l r : list A) i d : i < Zlen l -> znth (l ++ r) i d = znth l i d.
Proof.
  revert i. induction l as [|x l IH]; intros i Hi.
  - rewrite Zlen_nil in Hi. cbn [app]. now rewrite znth_neg by lia.
  - rewrite Zlen_cons in Hi. cbn [app].
    destruct (Z.eq_dec i 0) as [->|Hz]; [reflexivity|].
    rewrite !znth_cons_nz by lia. apply IH. lia.
Qed.

Lemma Forall_znth {A} (P : A -> Prop) (l : list A) d :
  (forall i, 0 <= i < Zlen l -> P (znth l i d)) -> Forall P l.
Proof.
  induction l as [|x l IH]; intros H; constructor.
  - apply (H 0). rewrite Zlen_cons. pose proof (Zlen_nonneg l). lia.
  - apply IH. intros i Hi. specialize (H (i + 1)).
    rewrite Zlen_cons in H. rewrite znth_cons_nz in H by lia.
    replace (i + 1 - 1) with i in H by lia. apply H. lia.
Qed.

Lemma Zlen_zupd {A} (l : list A) i v : Zlen (zupd l i v) = Zlen l.
Proof.
  revert i. induction l as [|x l IH]; intros i; [reflexivity|].
  cbn [zupd]. destruct (Z.eqb_spec i 0); rewrite !Zlen_cons; [reflexivity|]. now rewrite IH.
Qed.

Lemma znth_zupd_same {A} (l : list A) i v d : 0 <= i < Zlen l -> znth (zupd l i v) i d = v.
Proof.
  revert i. induction l as [|x l IH]; intros i Hi.
  - rewrite Zlen_nil in Hi. lia.
  - rewrite Zlen_cons in Hi. cbn [zupd]. destruct (Z.eqb_spec i 0) as [->|Hz]; [reflexivity|].
    rewrite znth_cons_nz by lia. apply IH. lia.
Qed.

Lemma znth_zupd_other {A} (l : list A) i j v d : j <> i -> znth (zupd l i v) j d = znth l j d.
Proof.
  revert i j. induction l as [|x l IH]; intros i j Hij; [reflexivity|].
  cbn [zupd]. destruct (Z.eqb_spec i 0) as [->|Hz].
  - now rewrite !znth_cons_nz by lia.
  - destruct (Z.eq_dec j 0) as [->|Hj]; [reflexivity|].
    rewrite !znth_cons_nz by lia. apply IH. lia.
Qed.

Lemma filter_all_true {A} (f : A -> bool) l : Forall (fun e => f e = true) l -> filter f l = l.
Proof. induction 1 as [|e l He Hl IH]; cbn [filter]; [reflexivity|]. now rewrite He, IH. Qed.

(* ====================================================================== *)
(* B1. ncmpii_in_swapn is an involution                                    *)
(* ====================================================================== *)
Lemma swap_chunks_nil n e : swap_chunks n e [] = [].
Proof.
  induction n as [|n IH]; cbn [swap_chunks]; [reflexivity|].
  rewrite firstn_nil, skipn_nil. cbn [rev app]. exact IH.
Qed.

Lemma swap_chunks_length n e l : length (swap_chunks n e l) = length l.
Proof.
  revert l. induction n as [|n IH]; intros l; cbn [swap_chunks]; [reflexivity|].
  rewrite app_length, rev_length, IH, firstn_length, skipn_length. lia.
Qed.

Lemma swap_chunks_involutive n e l : swap_chunks n e (swap_chunks n e l) = l.
Proof.
  revert l. induction n as [|n IH]; intros l; cbn [swap_chunks]; [reflexivity|].
  destruct (Nat.le_gt_cases e (length l)) as [Hle|Hgt].
  - assert (Hlen : length (rev (firstn e l)) = e) by (rewrite rev_length, firstn_length; lia).
    rewrite firstn_app, skipn_app, Hlen, Nat.sub_diag.
    cbn [firstn skipn]. rewrite app_nil_r.
    rewrite (firstn_all2 (rev (firstn e l))) by lia.
    rewrite (skipn_all2 (rev (firstn e l))) by lia. cbn [app].
    rewrite rev_involutive, IH. apply firstn_skipn.
  - rewrite (firstn_all2 l) by lia. rewrite (skipn_all2 l) by lia.
    rewrite swap_chunks_nil, app_nil_r.
    rewrite (firstn_all2 (rev l)) by (rewrite rev_length; lia).
    rewrite (skipn_all2 (rev l)) by (rewrite rev_length; lia).
    rewrite swap_chunks_nil, app_nil_r. apply rev_involutive.
Qed.

Theorem swap_involutive : forall buf nelems esize,
  in_swapn (in_swapn buf nelems esize) nelems esize = buf.
Proof.
  intros buf nelems esize. unfold in_swapn.
  destruct ((esize <=? 1) || (nelems <=? 0)); [reflexivity|]. apply swap_chunks_involutive.
Qed.

Theorem in_swapn_length : forall buf nelems esize, length (in_swapn buf nelems esize) = length buf.
Proof.
  intros buf nelems esize. unfold in_swapn.
  destruct ((esize <=? 1) || (nelems <=? 0)); [reflexivity|]. apply swap_chunks_length.
Qed.

Example swap_involutive_ex :
  in_swapn [1;2;3;4;5;6;7;8;9] 2 4 = [4;3;2;1;8;7;6;5;9] /\
  in_swapn (in_swapn [1;2;3;4;5;6;7;8;9] 2 4) 2 4 = [1;2;3;4;5;6;7;8;9].
Proof. split; vm_compute; reflexivity. Qed.

(* ====================================================================== *)
(* A1. the refusal test                                                    *)
(* ====================================================================== *)
Theorem abuf_insufficient_iff : forall a n, abuf_insufficient a n = true <-> ab_alloc a - ab_used a < n.
Proof. intros a n. unfold abuf_insufficient. lia. Qed.

Example abuf_insufficient_ex :
  abuf_insufficient (mkabuf 32 16 [(true, 16)]) 17 = true /\ abuf_insufficient (mkabuf 32 16 [(true, 16)]) 16 = false.
Proof. split; vm_compute; reflexivity. Qed.

(* ====================================================================== *)
(* A3. well-formedness of the pool is an invariant of every history        *)
(* ====================================================================== *)
Lemma ab_wf_used_nonneg a : ab_wf a -> 0 <= ab_used a.
Proof. intros (Hu & Hp & _). rewrite Hu. now apply zsum_map_snd_nonneg. Qed.

Lemma map_snd_zupd_keep (t : list (bool * Z)) i b d :
  map snd (zupd t i (b, snd (znth t i d))) = map snd t.
Proof.
  revert i. induction t as [|e t IH]; intros i; [reflexivity|].
  cbn [zupd znth]. destruct (Z.eqb_spec i 0) as [Hz|Hz]; cbn [map snd]; [reflexivity|].
  now rewrite IH.
Qed.

Lemma release_alloc a i : ab_alloc (abuf_release a i) = ab_alloc a.
Proof. reflexivity. Qed.
Lemma release_used a i : ab_used (abuf_release a i) = ab_used a.
Proof. reflexivity. Qed.
Lemma release_sizes a i : map snd (ab_table (abuf_release a i)) = map snd (ab_table a).
Proof. unfold abuf_release. cbn [ab_table]. apply map_snd_zupd_keep. Qed.

Lemma fold_release_alloc idxs a : ab_alloc (fold_left abuf_release idxs a) = ab_alloc a.
Proof. revert a. induction idxs as [|i r IH]; intros a; cbn [fold_left]; [reflexivity|]. now rewrite IH. Qed.
Lemma fold_release_used idxs a : ab_used (fold_left abuf_release idxs a) = ab_used a.
Proof. revert a. induction idxs as [|i r IH]; intros a; cbn [fold_left]; [reflexivity|]. now rewrite IH. Qed.
Lemma fold_release_sizes idxs a : map snd (ab_table (fold_left abuf_release idxs a)) = map snd (ab_table a).
Proof.
  revert a. induction idxs as [|i r IH]; intros a; cbn [fold_left]; [reflexivity|].
  now rewrite IH, release_sizes.
Qed.

Lemma Forall_map_snd_pos (t t' : list (bool * Z)) :
  map snd t' = map snd t -> Forall (fun e => 0 < snd e) t -> Forall (fun e => 0 < snd e) t'.
Proof.
  intros Hm Ht.
  assert (H : Forall (fun z => 0 < z) (map snd t)) by (rewrite Forall_map; exact Ht).
  rewrite <- Hm in H. now rewrite Forall_map in H.
Qed.

Lemma fold_release_wf idxs a : ab_wf a -> ab_wf (fold_left abuf_release idxs a).
Proof.
  intros (Hu & Hp & Hle). unfold ab_wf.
  rewrite fold_release_used, fold_release_alloc, fold_release_sizes.
  repeat split; try assumption.
  eapply Forall_map_snd_pos; [apply fold_release_sizes|exact Hp].
Qed.

(* coalesce_rev strips the leading free entries *)
Lemma coalesce_rev_spec rt u :
  exists dropped,
    rt = dropped ++ fst (coalesce_rev rt u) /\
    snd (coalesce_rev rt u) = u - zsum (map snd dropped) /\
    Forall (fun e => fst e = false) dropped /\
    match fst (coalesce_rev rt u) with [] => True | e :: _ => fst e = true end.
Proof.
  revert u. induction rt as [|[b n] r IH]; intros u.
  - exists []. cbn. repeat split; try constructor. lia.
  - destruct b.
    + exists []. cbn. repeat split; try constructor. lia.
    + cbn [coalesce_rev]. destruct (IH (u - n)) as (dr & E1 & E2 & F & Hh).
      exists ((false, n) :: dr). cbn [app map snd zsum]. repeat split.
      * now rewrite <- E1.
      * rewrite E2. lia.
      * constructor; [reflexivity|exact F].
      * exact Hh.
Qed.

Lemma coalesce_alloc a : ab_alloc (abuf_coalesce a) = ab_alloc a.
Proof. unfold abuf_coalesce. destruct (coalesce_rev (rev (ab_table a)) (ab_used a)). reflexivity. Qed.

Lemma coalesce_wf a : ab_wf a -> ab_wf (abuf_coalesce a) /\ tail_used (abuf_coalesce a).
Proof.
  intros (Hu & Hp & Hle). unfold abuf_coalesce, tail_used.
  destruct (coalesce_rev_spec (rev (ab_table a)) (ab_used a)) as (dr & E1 & E2 & F & Hh).
  destruct (coalesce_rev (rev (ab_table a)) (ab_used a)) as [rt u'] eqn:E.
  cbn [fst snd] in E1, E2, Hh. cbn [ab_table ab_used ab_alloc].
  assert (Et : ab_table a = rev rt ++ rev dr).
  { rewrite <- rev_app_distr, <- E1. now rewrite rev_involutive. }
  rewrite Et in Hp. apply Forall_app in Hp. destruct Hp as [Hp1 Hp2].
  assert (Hs : zsum (map snd (ab_table a)) = zsum (map snd (rev rt)) + zsum (map snd dr)).
  { rewrite Et, map_app, zsum_app. f_equal. now rewrite map_rev, zsum_rev. }
  assert (Hd : 0 <= zsum (map snd dr)).
  { apply zsum_map_snd_nonneg. apply Forall_rev in Hp2. now rewrite rev_involutive in Hp2. }
  split.
  - unfold ab_wf. cbn [ab_table ab_used ab_alloc]. repeat split; [lia|exact Hp1|lia].
  - rewrite rev_involutive. exact Hh.
Qed.

Lemma ab_step_alloc a o : ab_alloc (ab_step a o) = ab_alloc a.
Proof.
  destruct o as [n|idxs|]; cbn [ab_step].
  - destruct (abuf_insufficient a n); reflexivity.
  - now rewrite coalesce_alloc, fold_release_alloc.
  - reflexivity.
Qed.

Lemma ab_run_alloc ops a : ab_alloc (ab_run a ops) = ab_alloc a.
Proof.
  unfold ab_run. revert a. induction ops as [|o r IH]; intros a; cbn [fold_left]; [reflexivity|].
  now rewrite IH, ab_step_alloc.
Qed.

Lemma malloc_wf a n : ab_wf a -> 0 < n -> abuf_insufficient a n = false ->
  ab_wf (fst (fst (abuf_malloc a n))).
Proof.
  intros (Hu & Hp & Hle) Hn Hi. unfold abuf_insufficient in Hi.
  unfold abuf_malloc, ab_wf. cbn [fst ab_table ab_used ab_alloc].
  rewrite map_app, zsum_app. cbn [map snd zsum]. repeat split.
  - lia.
  - apply Forall_app. split; [exact Hp|]. constructor; [exact Hn|constructor].
  - lia.
Qed.

Lemma ab_step_wf a o : ab_wf a -> tail_used a ->
  match o with ABput n => 0 < n | _ => True end ->
  ab_wf (ab_step a o) /\ tail_used (ab_step a o).
Proof.
  intros Hwf Ht Ho. destruct o as [n|idxs|]; cbn [ab_step].
  - destruct (abuf_insufficient a n) eqn:Hi; [now split|].
    split; [now apply malloc_wf|].
    unfold tail_used, abuf_malloc. cbn [fst ab_table]. now rewrite rev_app_distr.
  - apply coalesce_wf. now apply fold_release_wf.
  - pose proof (ab_wf_used_nonneg a Hwf) as Hnn. destruct Hwf as (Hu & Hp & Hle).
    split; [|exact I]. unfold abuf_reset, ab_wf. cbn [ab_table ab_used ab_alloc map zsum].
    repeat split; [constructor|lia].
Qed.

Theorem ab_run_wf : forall ops a, ab_wf a -> tail_used a -> abops_pos ops ->
  ab_wf (ab_run a ops) /\ tail_used (ab_run a ops).
Proof.
  unfold ab_run. induction ops as [|o r IH]; intros a Hwf Ht Hops; cbn [fold_left]; [now split|].
  inversion Hops as [|o' r' Ho Hr]; subst.
  destruct (ab_step_wf a o Hwf Ht Ho) as [Hwf' Ht']. now apply IH.
Qed.

Lemma ab_wf_init n : 0 < n -> ab_wf (mkabuf n 0 []) /\ tail_used (mkabuf n 0 []).
Proof.
  intros Hn. split; [|exact I]. unfold ab_wf. cbn [ab_table ab_used ab_alloc map zsum].
  repeat split; [constructor|lia].
Qed.

Example ab_run_wf_ex :
  ab_wf (mkabuf 32 16 [(true, 16)]) /\ tail_used (mkabuf 32 16 [(true, 16)]) /\
  abops_pos [ABput 8; AComplete [0]; ABput 100; AResetAll; ABput 4].
Proof.
  split; [|split].
  - unfold ab_wf. cbn. repeat split; [repeat constructor; lia|lia].
  - exact eq_refl.
  - repeat constructor; lia.
Qed.

(* ====================================================================== *)
(* A4. pending <= usage <= attached size                                    *)
(* ====================================================================== *)
Lemma pending_le_sizes (t : list (bool * Z)) :
  Forall (fun e => 0 < snd e) t -> zsum (map snd (filter fst t)) <= zsum (map snd t).
Proof.
  induction 1 as [|[b n] t He Ht IH]; cbn [filter map zsum fst snd]; [lia|].
  cbn [snd] in He. destruct b; cbn [map zsum snd]; lia.
Qed.

Lemma ab_wf_pending_le_usage a : ab_wf a -> abuf_pending a <= abuf_usage a <= ab_alloc a.
Proof.
  intros (Hu & Hp & Hle). unfold abuf_pending, abuf_usage. rewrite Hu at 1.
  split; [now apply pending_le_sizes|exact Hle].
Qed.

Theorem usage_ge_pending : forall ops n, 0 < n -> abops_pos ops ->
  abuf_pending (ab_run (mkabuf n 0 []) ops) <= abuf_usage (ab_run (mkabuf n 0 []) ops) <= n.
Proof.
  intros ops n Hn Hops.
  destruct (ab_wf_init n Hn) as [Hwf Ht].
  destruct (ab_run_wf ops _ Hwf Ht Hops) as [Hwf' _].
  pose proof (ab_wf_pending_le_usage _ Hwf') as H.
  rewrite ab_run_alloc in H. exact H.
Qed.

Example usage_ge_pending_ex :
  let a := ab_run (mkabuf 32 0 []) [ABput 16; ABput 8; AComplete [0]; ABput 16] in
  abops_pos [ABput 16; ABput 8; AComplete [0]; ABput 16] /\ abuf_pending a = 8 /\ abuf_usage a = 24.
Proof. split; [repeat constructor; lia|split; vm_compute; reflexivity]. Qed.

(* ====================================================================== *)
(* A5. usage = pending does NOT hold over all histories                    *)
(* ====================================================================== *)
Definition usage_eq_pending_full : Prop :=
  forall ops n, 0 < n -> abops_pos ops ->
    abuf_usage (ab_run (mkabuf n 0 []) ops) = abuf_pending (ab_run (mkabuf n 0 []) ops).

Lemma witness_pos : abops_pos [ABput 16; ABput 16; AComplete [0]].
Proof. repeat constructor; lia. Qed.

Example usage_eq_pending_witness :
  abuf_usage (ab_run (mkabuf 32 0 []) [ABput 16; ABput 16; AComplete [0]]) = 32 /\
  abuf_pending (ab_run (mkabuf 32 0 []) [ABput 16; ABput 16; AComplete [0]]) = 16.
Proof. split; vm_compute; reflexivity. Qed.

Theorem usage_eq_pending_refuted : ~ usage_eq_pending_full.
Proof.
  intros H. specialize (H [ABput 16; ABput 16; AComplete [0]] 32 ltac:(lia) witness_pos).
  vm_compute in H. discriminate H.
Qed.

(* ====================================================================== *)
(* A7. refusal vs real free space                                          *)
(* ====================================================================== *)
Definition refused_iff_no_space_full : Prop :=
  forall ops n m, 0 < n -> 0 < m -> abops_pos ops ->
    (abuf_insufficient (ab_run (mkabuf n 0 []) ops) m = true <->
     n - abuf_pending (ab_run (mkabuf n 0 []) ops) < m).

Example refused_iff_no_space_witness :
  let a := ab_run (mkabuf 32 0 []) [ABput 16; ABput 16; AComplete [0]] in
  abuf_insufficient a 16 = true /\ 32 - abuf_pending a = 16.
Proof. split; vm_compute; reflexivity. Qed.

Theorem refused_iff_no_space_refuted : ~ refused_iff_no_space_full.
Proof.
  intros H.
  specialize (H [ABput 16; ABput 16; AComplete [0]] 32 16 ltac:(lia) ltac:(lia) witness_pos).
  destruct H as [H _]. specialize (H eq_refl). vm_compute in H. discriminate H.
Qed.

Theorem refused_if_no_space : forall ops n m, 0 < n -> 0 < m -> abops_pos ops ->
  n - abuf_pending (ab_run (mkabuf n 0 []) ops) < m ->
  abuf_insufficient (ab_run (mkabuf n 0 []) ops) m = true.
Proof.
  intros ops n m Hn Hm Hops Hlt.
  pose proof (usage_ge_pending ops n Hn Hops) as H.
  apply abuf_insufficient_iff. rewrite ab_run_alloc. cbn [ab_alloc].
  unfold abuf_usage in H. lia.
Qed.

Example refused_if_no_space_ex :
  let a := ab_run (mkabuf 32 0 []) [ABput 16; ABput 8] in
  32 - abuf_pending a < 9 /\ abuf_insufficient a 9 = true.
Proof. split; vm_compute; reflexivity. Qed.

(* ====================================================================== *)
(* B2. the in-place swap of a put is undone at the exit                    *)
(* ====================================================================== *)
Theorem put_buffer_restored : forall api nconv nswap contig himap h nbytes buf nelems xsz,
  let flag := put_swaps_user_buf api nconv nswap contig himap h nbytes in
  user_buf_after_exit flag (user_buf_in_flight flag buf nelems xsz) nelems xsz = buf.
Proof.
  intros api nconv nswap contig himap h nbytes buf nelems xsz flag.
  unfold user_buf_after_exit, user_buf_in_flight. destruct flag; [apply swap_involutive|reflexivity].
Qed.

Example put_buffer_restored_ex :
  put_swaps_user_buf PIput false true true false SwapOn 8 = true /\
  user_buf_in_flight true [1;2;3;4;5;6;7;8] 2 4 = [4;3;2;1;8;7;6;5] /\
  user_buf_after_exit true (user_buf_in_flight true [1;2;3;4;5;6;7;8] 2 4) 2 4 = [1;2;3;4;5;6;7;8].
Proof. repeat split; vm_compute; reflexivity. Qed.

Theorem bput_never_swaps : forall nconv nswap contig himap h nbytes,
  put_swaps_user_buf PBput nconv nswap contig himap h nbytes = false.
Proof. reflexivity. Qed.

Theorem bput_varn_never_swaps : forall nconv nswap contig himap h nbytes,
  put_swaps_user_buf PBputVarn nconv nswap contig himap h nbytes = false.
Proof. reflexivity. Qed.

Theorem small_auto_never_swaps : forall api nconv nswap contig himap nbytes,
  nbytes <= NC_BYTE_SWAP_BUFFER_SIZE ->
  put_swaps_user_buf api nconv nswap contig himap SwapAuto nbytes = false.
Proof.
  intros api nconv nswap contig himap nbytes Hn.
  unfold put_swaps_user_buf, xbuf_is_buf, can_swap_in_place.
  destruct (Z.leb_spec nbytes NC_BYTE_SWAP_BUFFER_SIZE) as [_|Hc]; [|lia].
  destruct api, nconv, nswap, contig, himap; reflexivity.
Qed.

Example small_auto_never_swaps_ex :
  put_swaps_user_buf PIput false true true false SwapAuto 4096 = false /\
  put_swaps_user_buf PIput false true true false SwapAuto 4097 = true.
Proof. split; vm_compute; reflexivity. Qed.

Theorem swap_off_never_swaps : forall api nconv nswap contig himap nbytes,
  put_swaps_user_buf api nconv nswap contig himap SwapOff nbytes = false.
Proof.
  intros api nconv nswap contig himap nbytes.
  unfold put_swaps_user_buf, xbuf_is_buf, can_swap_in_place.
  destruct api, nconv, nswap, contig, himap; reflexivity.
Qed.

(* ====================================================================== *)
(* A9. detach                                                               *)
(* ====================================================================== *)
Theorem detach_requires_no_pending : forall st,
  snd (detach st) = NC_EPENDINGBPUT <->
  (st_abuf st <> None /\ exists l, In l (put_lead st) /\ 0 <= l_abuf_index l).
Proof.
  intros st. unfold detach. destruct (st_abuf st) as [a|] eqn:Ea.
  - destruct (existsb (fun l => 0 <=? l_abuf_index l) (put_lead st)) eqn:Ex; cbn [snd].
    + split; [intros _|reflexivity]. split; [discriminate|].
      apply existsb_exists in Ex. destruct Ex as (l & Hin & Hl). exists l. split; [exact Hin|lia].
    + split; [intros H; vm_compute in H; discriminate H|].
      intros (_ & l & Hin & Hl). exfalso.
      assert (Ht : existsb (fun l => 0 <=? l_abuf_index l) (put_lead st) = true).
      { apply existsb_exists. exists l. split; [exact Hin|lia]. }
      congruence.
  - cbn [snd]. split; [intros H; vm_compute in H; discriminate H|].
    intros (Hn & _). congruence.
Qed.

Theorem detach_ok : forall st, snd (detach st) = NC_NOERR ->
  st_abuf (fst (detach st)) = None /\ forall l, In l (put_lead st) -> l_abuf_index l < 0.
Proof.
  intros st. unfold detach. destruct (st_abuf st) as [a|] eqn:Ea.
  - destruct (existsb (fun l => 0 <=? l_abuf_index l) (put_lead st)) eqn:Ex; cbn [snd fst].
    + intros H; vm_compute in H; discriminate H.
    + intros _. split; [reflexivity|]. intros l Hin.
      destruct (Z.ltb_spec (l_abuf_index l) 0) as [Hlt|Hge]; [exact Hlt|]. exfalso.
      assert (Ht : existsb (fun l => 0 <=? l_abuf_index l) (put_lead st) = true).
      { apply existsb_exists. exists l. split; [exact Hin|lia]. }
      congruence.
  - cbn [snd]. intros H; vm_compute in H; discriminate H.
Qed.

Definition ex_lead (id aidx tag : Z) (tf sw : bool) : lead :=
  mklead id dummy_geom None 0 1 (-1) tf sw aidx 0 1 None tag [].

Example detach_ex :
  let st := mkst [ex_lead 0 0 7 false false] [] [] [] 0 0 (Some (mkabuf 32 16 [(true, 16)])) 0 empty_disk in
  snd (detach st) = NC_EPENDINGBPUT /\
  snd (detach (set_put st [ex_lead 0 (-1) 7 false false] [])) = NC_NOERR.
Proof. split; vm_compute; reflexivity. Qed.

(* ====================================================================== *)
(* A2. NC_EINSUFFBUF / NC_ENULLABUF of a bput                               *)
(* ====================================================================== *)
Lemma enqueue_has_new sorted key leads reqs mk_lead mk_reqs n pl pr :
  enqueue sorted key leads reqs mk_lead mk_reqs n = (pl, pr) ->
  exists off, In (mk_lead off) pl.
Proof.
  unfold enqueue.
  destruct (if sorted then split_last_le (rev leads) key [] else (leads, [])) as [kept shifted].
  destruct shifted as [|s0 sh]; intros H; inversion H; subst; clear H.
  - exists (Zlen reqs). apply in_or_app. right. now left.
  - exists (l_nonlead_off s0). apply in_or_app. right. cbn [app]. now left.
Qed.

(* the three outcomes of a bput posted through post_varm *)
Lemma post_varm_bput_cases st g start count stride xaddr data sw tag a :
  st_abuf st = Some a -> zprod count * g_xsz g <> 0 ->
  let nbytes := zprod count * g_xsz g in
  (abuf_insufficient a nbytes = true /\
   post_varm st KBput g start count stride xaddr data sw tag = (st, NC_REQ_NULL, NC_EINSUFFBUF)) \/
  (abuf_insufficient a nbytes = false /\
   exists pl pr id l,
     post_varm st KBput g start count stride xaddr data sw tag =
       (mkst pl (get_lead st) pr (get_reqs st) id (maxGetID st)
             (Some (fst (fst (abuf_malloc a nbytes)))) (st_numrecs st)
             (dk_write (st_mem st) (ABUF_BASE + ab_used a) data), id, NC_NOERR) /\
     In l pl /\ l_id l = id /\ l_xaddr l = ABUF_BASE + ab_used a /\ l_abuf_index l = ab_tail a /\
     l_swapbuf l = sw /\ l_tag l = tag).
Proof.
  intros Hab Hnz nbytes. unfold post_varm. rewrite Hab.
  fold nbytes. destruct (Z.eqb_spec nbytes 0) as [Hz|_]; [contradiction|].
  unfold bput_alloc. rewrite Hab.
  destruct (abuf_insufficient a nbytes) eqn:Hi.
  - left. split; [reflexivity|]. reflexivity.
  - right. split; [reflexivity|]. unfold abuf_malloc.
    cbn [negb Z.eqb NC_NOERR k_isput fst].
    match goal with |- context [enqueue ?s ?k ?ls ?rs ?ml ?mr ?n] =>
      destruct (enqueue s k ls rs ml mr n) as [pl pr] eqn:Enq;
      destruct (enqueue_has_new s k ls rs ml mr n pl pr Enq) as [off Hoff] end.
    eexists pl, pr, _, _. split; [reflexivity|].
    split; [exact Hoff|]. cbn [l_id l_xaddr l_abuf_index l_swapbuf l_tag]. repeat split.
Qed.

Theorem einsuffbuf_iff_varm : forall st g start count stride xaddr data sw tag a,
  st_abuf st = Some a -> 0 < zprod count * g_xsz g ->
  (snd (post_varm st KBput g start count stride xaddr data sw tag) = NC_EINSUFFBUF <->
   ab_alloc a - ab_used a < zprod count * g_xsz g).
Proof.
  intros st g start count stride xaddr data sw tag a Hab Hpos.
  rewrite <- abuf_insufficient_iff.
  destruct (post_varm_bput_cases st g start count stride xaddr data sw tag a Hab ltac:(lia))
    as [(Hi & E)|(Hi & pl & pr & id & l & E & _)]; rewrite E, Hi; cbn [snd].
  - split; reflexivity.
  - split; intros H; [vm_compute in H|]; discriminate H.
Qed.

Theorem bput_without_attach : forall st g start count stride xaddr data sw tag,
  st_abuf st = None ->
  snd (post_varm st KBput g start count stride xaddr data sw tag) = NC_ENULLABUF.
Proof. intros. unfold post_varm. rewrite H. reflexivity. Qed.

Definition varn_nbytes (g : geom) (parts : list (list Z * option (list Z))) : Z :=
  zsum (map (fun p => zprod (part_count (fst p) (snd p)))
            (filter (fun p => negb (zprod (part_count (fst p) (snd p)) =? 0)) parts)) * g_xsz g.

Lemma post_varn_bput_cases st g parts xaddr data sw tag a :
  st_abuf st = Some a -> varn_nbytes g parts <> 0 ->
  let nbytes := varn_nbytes g parts in
  (abuf_insufficient a nbytes = true /\
   post_varn st KBput g parts xaddr data sw tag = (st, NC_REQ_NULL, NC_EINSUFFBUF)) \/
  (abuf_insufficient a nbytes = false /\
   exists pl pr id l,
     post_varn st KBput g parts xaddr data sw tag =
       (mkst pl (get_lead st) pr (get_reqs st) id (maxGetID st)
             (Some (fst (fst (abuf_malloc a nbytes)))) (st_numrecs st)
             (dk_write (st_mem st) (ABUF_BASE + ab_used a) data), id, NC_NOERR) /\
     In l pl /\ l_id l = id /\ l_xaddr l = ABUF_BASE + ab_used a /\ l_abuf_index l = ab_tail a /\
     l_swapbuf l = sw /\ l_tag l = tag).
Proof.
  intros Hab Hnz nbytes. unfold post_varn. rewrite Hab.
  unfold varn_nbytes in nbytes. fold nbytes.
  destruct (Z.eqb_spec nbytes 0) as [Hz|_]; [contradiction|].
  unfold bput_alloc. rewrite Hab.
  destruct (abuf_insufficient a nbytes) eqn:Hi.
  - left. split; [reflexivity|]. reflexivity.
  - right. split; [reflexivity|]. unfold abuf_malloc.
    cbn [negb Z.eqb NC_NOERR k_isput fst].
    match goal with |- context [enqueue ?s ?k ?ls ?rs ?ml ?mr ?n] =>
      destruct (enqueue s k ls rs ml mr n) as [pl pr] eqn:Enq;
      destruct (enqueue_has_new s k ls rs ml mr n pl pr Enq) as [off Hoff] end.
    eexists pl, pr, _, _. split; [reflexivity|].
    split; [exact Hoff|]. cbn [l_id l_xaddr l_abuf_index l_swapbuf l_tag]. repeat split.
Qed.

Theorem einsuffbuf_iff_varn : forall st g parts xaddr data sw tag a,
  st_abuf st = Some a ->
  0 < zsum (map (fun p => zprod (part_count (fst p) (snd p)))
                (filter (fun p => negb (zprod (part_count (fst p) (snd p)) =? 0)) parts)) * g_xsz g ->
  (snd (post_varn st KBput g parts xaddr data sw tag) = NC_EINSUFFBUF <->
   ab_alloc a - ab_used a <
   zsum (map (fun p => zprod (part_count (fst p) (snd p)))
             (filter (fun p => negb (zprod (part_count (fst p) (snd p)) =? 0)) parts)) * g_xsz g).
Proof.
  intros st g parts xaddr data sw tag a Hab Hpos.
  change (zsum _ * g_xsz g) with (varn_nbytes g parts) in *.
  rewrite <- abuf_insufficient_iff.
  destruct (post_varn_bput_cases st g parts xaddr data sw tag a Hab ltac:(lia))
    as [(Hi & E)|(Hi & pl & pr & id & l & E & _)]; rewrite E, Hi; cbn [snd].
  - split; reflexivity.
  - split; intros H; [vm_compute in H|]; discriminate H.
Qed.

Theorem bput_without_attach_varn : forall st g parts xaddr data sw tag,
  st_abuf st = None ->
  snd (post_varn st KBput g parts xaddr data sw tag) = NC_ENULLABUF.
Proof. intros. unfold post_varn. rewrite H. reflexivity. Qed.

Definition ex_geom : geom := mkgeom 100 4 [8] 0 0.
Definition ex_st (a : abuf) : nbstate := mkst [] [] [] [] 0 0 (Some a) 0 empty_disk.

Example einsuffbuf_varm_ex :
  snd (post_varm (ex_st (mkabuf 32 24 [(true, 24)])) KBput ex_geom [0] [3] None 0 (repeat 1 12) false 5) = NC_EINSUFFBUF /\
  snd (post_varm (ex_st (mkabuf 32 16 [(true, 16)])) KBput ex_geom [0] [3] None 0 (repeat 1 12) false 5) = NC_NOERR /\
  snd (post_varm init_state KBput ex_geom [0] [3] None 0 (repeat 1 12) false 5) = NC_ENULLABUF.
Proof. repeat split; vm_compute; reflexivity. Qed.

Example einsuffbuf_varn_ex :
  snd (post_varn (ex_st (mkabuf 32 24 [(true, 24)])) KBput ex_geom [([0], Some [2]); ([4], None)] 0 (repeat 1 12) false 5) = NC_EINSUFFBUF /\
  snd (post_varn (ex_st (mkabuf 32 16 [(true, 16)])) KBput ex_geom [([0], Some [2]); ([4], None)] 0 (repeat 1 12) false 5) = NC_NOERR /\
  snd (post_varn init_state KBput ex_geom [([0], Some [2]); ([4], None)] 0 (repeat 1 12) false 5) = NC_ENULLABUF.
Proof. repeat split; vm_compute; reflexivity. Qed.

(* ====================================================================== *)
(* A6. usage = pending on LIFO histories                                    *)
(* ====================================================================== *)
Theorem usage_eq_pending_all_used : forall a, ab_wf a -> all_used a -> abuf_usage a = abuf_pending a.
Proof.
  intros a (Hu & _ & _) Hall. unfold abuf_usage, abuf_pending.
  rewrite (filter_all_true fst (ab_table a) Hall). exact Hu.
Qed.

(* the table after releasing a set of entries *)
Definition rel_tab (t : list (bool * Z)) (idxs : list Z) : list (bool * Z) :=
  fold_left (fun t i => zupd t i (false, snd (znth t i (false, 0)))) idxs t.

Lemma fold_release_table idxs a : ab_table (fold_left abuf_release idxs a) = rel_tab (ab_table a) idxs.
Proof.
  unfold rel_tab. revert a. induction idxs as [|i r IH]; intros a; cbn [fold_left]; [reflexivity|].
  rewrite IH. reflexivity.
Qed.

Lemma Zlen_rel_tab idxs t : Zlen (rel_tab t idxs) = Zlen t.
Proof.
  unfold rel_tab. revert t. induction idxs as [|i r IH]; intros t; cbn [fold_left]; [reflexivity|].
  now rewrite IH, Zlen_zupd.
Qed.

Lemma rel_tab_cons t x r :
  rel_tab t (x :: r) = rel_tab (zupd t x (false, snd (znth t x (false, 0)))) r.
Proof. reflexivity. Qed.

Lemma znth_rel_tab_notin idxs t i : ~ In i idxs -> znth (rel_tab t idxs) i (false, 0) = znth t i (false, 0).
Proof.
  revert t. induction idxs as [|x r IH]; intros t Hni; [reflexivity|].
  rewrite rel_tab_cons. rewrite IH by (intros H; apply Hni; now right).
  apply znth_zupd_other. intros E. apply Hni. left. now symmetry.
Qed.

Lemma snd_znth_zupd_keep (t : list (bool * Z)) x i b :
  snd (znth (zupd t x (b, snd (znth t x (false, 0)))) i (false, 0)) = snd (znth t i (false, 0)).
Proof.
  destruct (Z.eq_dec i x) as [->|Hne].
  - destruct (Z.ltb_spec x 0) as [Hneg|Hnn].
    + now rewrite !znth_neg by lia.
    + destruct (Z.ltb_spec x (Zlen t)) as [Hlt|Hge].
      * now rewrite znth_zupd_same by lia.
      * rewrite !znth_overflow; [reflexivity|lia|rewrite Zlen_zupd; lia].
  - now rewrite znth_zupd_other by exact Hne.
Qed.

Lemma znth_rel_tab_in idxs t i : In i idxs -> 0 <= i < Zlen t ->
  znth (rel_tab t idxs) i (false, 0) = (false, snd (znth t i (false, 0))).
Proof.
  revert t. induction idxs as [|x r IH]; intros t Hin Hi; [destruct Hin|].
  rewrite rel_tab_cons. destruct (in_dec Z.eq_dec i r) as [Hr|Hr].
  - rewrite IH by (try exact Hr; rewrite Zlen_zupd; exact Hi).
    now rewrite snd_znth_zupd_keep.
  - rewrite znth_rel_tab_notin by exact Hr.
    destruct Hin as [->|Hin]; [|contradiction].
    now rewrite znth_zupd_same by exact Hi.
Qed.

(* coalesce on a table whose free entries are exactly a suffix *)
Lemma coalesce_rev_all_false s rest u :
  Forall (fun e : bool * Z => fst e = false) s ->
  coalesce_rev (s ++ rest) u = coalesce_rev rest (u - zsum (map snd s)).
Proof.
  revert u. induction s as [|[b n] s IH]; intros u H; cbn [app map zsum snd].
  - f_equal. lia.
  - inversion H as [|e s' He Hs]; subst. cbn [fst] in He. subst b.
    cbn [coalesce_rev]. rewrite IH by exact Hs. f_equal. lia.
Qed.

Lemma coalesce_rev_head_true rt u :
  match rt with [] => True | e :: _ => fst e = true end -> coalesce_rev rt u = (rt, u).
Proof. destruct rt as [|[b n] r]; [reflexivity|]. cbn [fst]. intros ->. reflexivity. Qed.

Lemma coalesce_split_table a p s :
  ab_table a = p ++ s ->
  Forall (fun e => fst e = true) p -> Forall (fun e => fst e = false) s ->
  ab_table (abuf_coalesce a) = p.
Proof.
  intros Et Hp Hs. unfold abuf_coalesce. rewrite Et, rev_app_distr.
  rewrite coalesce_rev_all_false by (now apply Forall_rev).
  rewrite coalesce_rev_head_true.
  - cbn [ab_table]. apply rev_involutive.
  - apply Forall_rev in Hp. destruct (rev p) as [|e r]; [exact I|]. now inversion Hp.
Qed.

Lemma lifo_complete_all_used a idxs k :
  all_used a -> 0 <= k <= ab_tail a ->
  (forall i, In i idxs <-> ab_tail a - k <= i < ab_tail a) ->
  all_used (abuf_coalesce (fold_left abuf_release idxs a)).
Proof.
  intros Hall Hk Hidx. unfold all_used, ab_tail in *.
  set (t := ab_table a) in *. set (m := Zlen t - k).
  set (t' := rel_tab t idxs).
  assert (Et' : ab_table (fold_left abuf_release idxs a) = zfirstn m t' ++ zskipn m t').
  { rewrite fold_release_table. fold t t'. symmetry. apply zfirstn_zskipn. }
  assert (Hlen : Zlen t' = Zlen t) by apply Zlen_rel_tab.
  rewrite (coalesce_split_table _ _ _ Et').
  - apply (Forall_znth _ _ (false, 0)). intros i Hi.
    rewrite Zlen_zfirstn in Hi. rewrite znth_zfirstn by lia.
    unfold t'. rewrite znth_rel_tab_notin by (rewrite Hidx; lia).
    assert (Hin : In (znth t i (false, 0)) t) by (apply znth_In; lia).
    rewrite Forall_forall in Hall. now apply Hall.
  - apply (Forall_znth _ _ (false, 0)). intros i Hi.
    rewrite Zlen_zfirstn in Hi. rewrite znth_zfirstn by lia.
    unfold t'. rewrite znth_rel_tab_notin by (rewrite Hidx; lia).
    assert (Hin : In (znth t i (false, 0)) t) by (apply znth_In; lia).
    rewrite Forall_forall in Hall. now apply Hall.
  - apply (Forall_znth _ _ (false, 0)). intros i Hi.
    rewrite Zlen_zskipn in Hi. rewrite znth_zskipn by lia.
    unfold t'. rewrite znth_rel_tab_in by (try rewrite Hidx; lia). reflexivity.
Qed.

Lemma ab_step_lifo a o :
  ab_wf a -> all_used a ->
  match o with ABput n => 0 < n | _ => True end ->
  match o with
  | AComplete idxs => exists k, 0 <= k <= ab_tail a /\ (forall i, In i idxs <-> ab_tail a - k <= i < ab_tail a)
  | _ => True end ->
  ab_wf (ab_step a o) /\ all_used (ab_step a o).
Proof.
  intros Hwf Hall Ho Hl.
  assert (Hwf' : ab_wf (ab_step a o)).
  { destruct o as [n|idxs|]; cbn [ab_step].
    - destruct (abuf_insufficient a n) eqn:Hi; [exact Hwf|now apply malloc_wf].
    - apply coalesce_wf. now apply fold_release_wf.
    - pose proof (ab_wf_used_nonneg a Hwf) as Hnn. destruct Hwf as (Hu & Hp & Hle).
      unfold abuf_reset, ab_wf. cbn [ab_table ab_used ab_alloc map zsum].
      repeat split; [constructor|lia]. }
  split; [exact Hwf'|]. destruct o as [n|idxs|]; cbn [ab_step].
  - destruct (abuf_insufficient a n); [exact Hall|].
    unfold all_used, abuf_malloc. cbn [fst ab_table]. apply Forall_app. split; [exact Hall|].
    constructor; [reflexivity|constructor].
  - destruct Hl as (k & Hk & Hidx). now apply (lifo_complete_all_used a idxs k).
  - constructor.
Qed.

Theorem usage_eq_pending_lifo : forall ops a, ab_wf a -> all_used a -> abops_pos ops -> lifo_hist a ops ->
  abuf_usage (ab_run a ops) = abuf_pending (ab_run a ops) /\ all_used (ab_run a ops).
Proof.
  unfold ab_run. induction ops as [|o r IH]; intros a Hwf Hall Hops Hl; cbn [fold_left].
  - split; [now apply usage_eq_pending_all_used|exact Hall].
  - inversion Hops as [|o' r' Ho Hr]; subst. cbn [lifo_hist] in Hl. destruct Hl as [Hlo Hlr].
    destruct (ab_step_lifo a o Hwf Hall Ho Hlo) as [Hwf' Hall']. now apply IH.
Qed.

Example usage_eq_pending_lifo_ex :
  let ops := [ABput 16; ABput 8; ABput 4; AComplete [2; 1]; ABput 8; AComplete [1]; AComplete []] in
  ab_wf (mkabuf 32 0 []) /\ all_used (mkabuf 32 0 []) /\ abops_pos ops /\ lifo_hist (mkabuf 32 0 []) ops /\
  abuf_usage (ab_run (mkabuf 32 0 []) ops) = 16.
Proof.
  cbv zeta. split; [apply ab_wf_init; lia|]. split; [constructor|]. split; [repeat constructor; lia|].
  split; [|vm_compute; reflexivity].
  cbn [lifo_hist]. repeat split.
  - exists 2. match goal with |- context [ab_tail ?a] =>
      let v := eval vm_compute in (ab_tail a) in change (ab_tail a) with v end.
    split; [lia|]. intros i. cbn [In]. lia.
  - exists 1. match goal with |- context [ab_tail ?a] =>
      let v := eval vm_compute in (ab_tail a) in change (ab_tail a) with v end.
    split; [lia|]. intros i. cbn [In]. lia.
  - exists 0. match goal with |- context [ab_tail ?a] =>
      let v := eval vm_compute in (ab_tail a) in change (ab_tail a) with v end.
    split; [lia|]. intros i. cbn [In]. lia.
Qed.

(* ====================================================================== *)
(* A8. the slices of the pool are disjoint and inside the pool             *)
(* ====================================================================== *)
Lemma zsum_zfirstn_nonneg (t : list (bool * Z)) i :
  Forall (fun e => 0 < snd e) t -> 0 <= zsum (map snd (zfirstn i t)).
Proof.
  intros H. revert i. induction H as [|e t He Ht IH]; intros i; [cbn; lia|].
  destruct (Z.leb_spec i 0) as [Hi|Hi].
  - rewrite zfirstn_nonpos by lia. cbn. lia.
  - rewrite zfirstn_cons_pos by lia. cbn [map zsum]. specialize (IH (i - 1)). lia.
Qed.

Lemma offset_step (t : list (bool * Z)) i j :
  Forall (fun e => 0 < snd e) t -> 0 <= i < j -> j <= Zlen t ->
  zsum (map snd (zfirstn i t)) + snd (znth t i (false, 0)) <= zsum (map snd (zfirstn j t)).
Proof.
  intros H. revert i j. induction H as [|e t He Ht IH]; intros i j Hij Hj.
  - rewrite Zlen_nil in Hj. lia.
  - rewrite Zlen_cons in Hj. rewrite (zfirstn_cons_pos j) by lia. cbn [map zsum].
    destruct (Z.eq_dec i 0) as [->|Hz].
    + rewrite zfirstn_nonpos by lia. rewrite znth_cons_0. cbn [map zsum].
      pose proof (zsum_zfirstn_nonneg t (j - 1) Ht). lia.
    + rewrite zfirstn_cons_pos by lia. rewrite znth_cons_nz by lia. cbn [map zsum].
      specialize (IH (i - 1) (j - 1) ltac:(lia) ltac:(lia)). lia.
Qed.

Theorem abuf_regions_disjoint : forall a i j, ab_wf a -> 0 <= i < j -> j < ab_tail a ->
  abuf_offset a i + snd (znth (ab_table a) i (false,0)) <= abuf_offset a j.
Proof.
  intros a i j (Hu & Hp & Hle) Hij Hj. unfold abuf_offset, ab_tail in *.
  apply offset_step; [exact Hp|lia|lia].
Qed.

Theorem abuf_region_inside : forall a i, ab_wf a -> 0 <= i < ab_tail a ->
  0 <= abuf_offset a i /\ abuf_offset a i + snd (znth (ab_table a) i (false,0)) <= ab_alloc a.
Proof.
  intros a i (Hu & Hp & Hle) Hi. unfold abuf_offset, ab_tail in *. split.
  - now apply zsum_zfirstn_nonneg.
  - pose proof (offset_step (ab_table a) i (Zlen (ab_table a)) Hp ltac:(lia) ltac:(lia)) as H.
    rewrite (zfirstn_all (Zlen (ab_table a))) in H by lia. lia.
Qed.

Theorem abuf_malloc_offset : forall a n, ab_wf a ->
  let '(a', idx, off) := abuf_malloc a n in off = abuf_offset a' idx /\ idx = ab_tail a.
Proof.
  intros a n (Hu & Hp & Hle). unfold abuf_malloc, abuf_offset, ab_tail. cbn [ab_table].
  split; [|reflexivity].
  rewrite zfirstn_app_l by lia. rewrite zfirstn_all by lia. exact Hu.
Qed.

Example abuf_regions_ex :
  let a := mkabuf 64 28 [(true, 16); (false, 8); (true, 4)] in
  ab_wf a /\ abuf_offset a 0 = 0 /\ abuf_offset a 1 = 16 /\ abuf_offset a 2 = 24 /\ ab_tail a = 3.
Proof.
  cbv zeta. split; [|repeat split; vm_compute; reflexivity].
  unfold ab_wf. cbn. repeat split; [repeat constructor; cbn; lia|lia].
Qed.
