(* Proofs_Reach2.v — the invariant of Proofs_Reach.v is preserved by enddef (new file and after a
   redefinition), the numrecs agreements, redef, begin/end_indep, sync, close, abort, create, open.
   No model definition is modified. *)
From Pnc Require Import Base Gen_consts Header HeaderSpec Access Data Disk Move Fill Exec.
From Pnc Require Import Proofs_Base Proofs_Header Proofs_Layout Proofs_Fill Proofs_Move Proofs_Redef.
From Pnc Require Import Proofs_Lists Proofs_Access Proofs_CheckScs Proofs_Disk Proofs_RoundTrip.
From Pnc Require Import Proofs_Exec2 Proofs_Reach.
Require Import Lia ZArith List Bool ZifyBool.
Import ListNotations.
Ltac Zify.zify_post_hook ::= Z.div_mod_to_equations.
Local Open Scope Z_scope.

Local Arguments Z.mul : simpl never.
Local Arguments Z.add : simpl never.
Local Arguments Z.sub : simpl never.
Local Arguments Z.div : simpl never.
Local Arguments Z.modulo : simpl never.
Local Arguments Z.max : simpl never.
Local Arguments Z.min : simpl never.
Local Arguments Z.pow : simpl never.
Local Arguments Z.of_nat : simpl never.
Local Arguments Z.to_nat : simpl never.

(* ====================================================================== *)
(** * 1. The shape of the worlds do_enddef and sync_numrecs_all return      *)
(* ====================================================================== *)

Lemma do_enddef_shape : forall w id f ea w' rc, do_enddef w id f ea = Some (w', rc) ->
  (w' = w /\ (rc = NC_NOERR -> False) \/ w' = w /\ f_indef f = false) \/
  (rc = NC_NOERR /\ f_indef f = true /\
   exists d3 f'', w' = put_file (set_disk w (f_slot f) d3) id (Some f'') /\ f_slot f'' = f_slot f).
Proof.
  intros w id f ea w' rc H. unfold do_enddef in H. cbv zeta in H.
  destruct (f_indef f) eqn:Hindef; cbn [negb] in H.
  2:{ injection H as <- <-. left. right. split; reflexivity. }
  destruct ((e_h_minfree ea <? 0) || (e_v_align ea <? 0) || (e_v_minfree ea <? 0) || (e_r_align ea <? 0)).
  { injection H as <- <-. left. left. split; [reflexivity|]. intros C. discriminate C. }
  destruct (check_vlens (f_hdr f) =? NC_NOERR) eqn:Evl; cbn [negb] in H.
  2:{ injection H as <- <-. left. left. split; [reflexivity|]. intros C. rewrite C in Evl. discriminate Evl. }
  destruct (resolve_align (f_align f) ea
              (Zlen (h_vars (f_hdr f)) - match f_old f with Some (oh, _) => num_rec_vars oh | None => 0 end)
              (match f_old f with None => true | Some _ => false end)) as [[ha va] ra].
  match type of H with match ?b with Some _ => _ | None => _ end = _ => destruct b as [lay|] end.
  2:{ injection H as <- <-. left. left. split; [reflexivity|]. intros C. discriminate C. }
  match type of H with (if ?c then None else _) = _ => destruct c end; [discriminate H|].
  injection H as <- <-. right. split; [reflexivity|]. split; [reflexivity|].
  eexists. eexists. split; [reflexivity|]. reflexivity.
Qed.

Lemma do_enddef_frame : forall w id f ea w' rc, do_enddef w id f ea = Some (w', rc) ->
  frame w w' id (f_slot f).
Proof.
  intros w id f ea w' rc H. destruct (do_enddef_shape w id f ea w' rc H) as [[[-> _]|[-> _]]|(_ & _ & d3 & f'' & -> & _)].
  - apply frame_refl.
  - apply frame_refl.
  - apply frame_put_set.
Qed.

Lemma sync_numrecs_all_shape : forall w id f,
  sync_numrecs_all w id f = put_file w id (Some f) \/
  exists d' f', sync_numrecs_all w id f = put_file (set_disk w (f_slot f) d') id (Some f') /\
                f_slot f' = f_slot f.
Proof.
  intros w id f. unfold sync_numrecs_all. destruct (num_rec_vars (f_hdr f) =? 0); [left; reflexivity|].
  right. cbv zeta. eexists. eexists. split; [reflexivity|reflexivity].
Qed.

Lemma sync_numrecs_all_frame : forall w id f, frame w (sync_numrecs_all w id f) id (f_slot f).
Proof.
  intros w id f. destruct (sync_numrecs_all_shape w id f) as [->|(d' & f' & -> & _)].
  - apply frame_put_file.
  - apply frame_put_set.
Qed.

Lemma sync_numrecs_all_slot : forall w id f f1, 0 <= id < Zlen (w_files w) ->
  znth (w_files (sync_numrecs_all w id f)) id None = Some f1 -> f_slot f1 = f_slot f.
Proof.
  intros w id f f1 Hid H. destruct (sync_numrecs_all_shape w id f) as [E|(d' & f' & E & Hs)]; rewrite E in H.
  - rewrite znth_put_file_same in H by exact Hid. injection H as <-. reflexivity.
  - rewrite znth_put_set_same in H by exact Hid. injection H as <-. exact Hs.
Qed.

Lemma Zlen_files_frame_put : forall w id x, Zlen (w_files (put_file w id x)) = Zlen (w_files w).
Proof. intros. apply Zlen_w_files_put_file. Qed.

(* ====================================================================== *)
(** * 2. Writing numrecs keeps the header on disk                           *)
(* ====================================================================== *)

Lemma set_numrecs_same : forall h, set_numrecs h (h_numrecs h) = h.
Proof. intros h. destruct h; reflexivity. Qed.

Lemma nn_ok_mono : forall fmt a b, 0 <= a <= b -> nn_ok fmt b = true -> nn_ok fmt a = true.
Proof. intros fmt a b H Hb. unfold nn_ok in *. destruct (fmt <? 5); lia. Qed.

Lemma wf_hdr_numrecs_mono : forall h n, 0 <= h_numrecs h <= n ->
  wf_hdr (set_numrecs h n) = true -> wf_hdr h = true.
Proof.
  intros h n Hn H. unfold wf_hdr in *. cbv zeta in *. cbn [set_numrecs h_format h_numrecs h_dims h_gatts h_vars] in H.
  rewrite !andb_true_iff in *. destruct H as [[[[[[[H1 H2] H3] H4] H5] H6] H7] H8].
  repeat split; try assumption. exact (nn_ok_mono _ _ _ Hn H2).
Qed.

Lemma Zlen_put_nn_fmt : forall fmt a b, Zlen (put_nn fmt a) = Zlen (put_nn fmt b).
Proof. intros fmt a b. unfold put_nn. destruct (fmt <? 5); reflexivity. Qed.

Lemma Zlen_put_nn_pos' : forall fmt a, 4 <= Zlen (put_nn fmt a) <= 8.
Proof. intros fmt a. unfold put_nn. destruct (fmt <? 5); vm_compute; split; discriminate. Qed.

(* the encoded header, split at the numrecs field *)
Definition enc_tail (h : hdr) : list byte :=
  put_list (h_format h) NC_DIMENSION_TAG (put_dim (h_format h)) (h_dims h) ++
  put_list (h_format h) NC_ATTRIBUTE_TAG (put_att (h_format h)) (h_gatts h) ++
  put_list (h_format h) NC_VARIABLE_TAG (put_var (h_format h) (h_dims h)) (h_vars h).

Lemma encode_header_split : forall h,
  encode_header h = magic (h_format h) ++ put_nn (h_format h) (h_numrecs h) ++ enc_tail h.
Proof. reflexivity. Qed.

Lemma enc_tail_set_numrecs : forall h n, enc_tail (set_numrecs h n) = enc_tail h.
Proof. reflexivity. Qed.

Lemma Zlen_magic : forall fmt, Zlen (magic fmt) = 4.
Proof. reflexivity. Qed.

Lemma disk_has_hdr_write_numrecs : forall d h n,
  wf_hdr h = true -> wf_hdr (set_numrecs h n) = true -> disk_has_hdr d h ->
  disk_has_hdr (write_numrecs_bytes d (h_format h) n) (set_numrecs h n).
Proof.
  intros d h n Hwf Hwf' (D1 & D2 & D3).
  set (fmt := h_format h). set (k := Zlen (put_nn fmt n)).
  pose proof (Zlen_put_nn_pos' fmt n) as Hk. fold k in Hk.
  pose proof (hdr_len_encode h Hwf) as HL. pose proof (hdr_len_encode _ Hwf') as HL'.
  rewrite hdr_len_set_numrecs in HL'.
  assert (Hlen : 4 + k <= hdr_len h).
  { rewrite HL, encode_header_split, !Proofs_Base.Zlen_app, Zlen_magic.
    rewrite (Zlen_put_nn_fmt (h_format h) (h_numrecs h) n). fold fmt k.
    pose proof (Proofs_Base.Zlen_nonneg _ (enc_tail h)). lia. }
  unfold disk_has_hdr, write_numrecs_bytes. rewrite hdr_len_set_numrecs.
  split. { rewrite dk_exists_write. fold k. replace (0 <? k) with true by lia. reflexivity. }
  split. { rewrite dk_size_write. fold k. replace (0 <? k) with true by lia. lia. }
  apply (znth_ext _ _ 0).
  { rewrite Zlen_dk_read. unfold byte in *. lia. }
  intros i Hi. rewrite Zlen_dk_read in Hi.
  assert (Hi' : 0 <= i < hdr_len h) by lia. clear Hi.
  rewrite znth_dk_read by exact Hi'. rewrite Z.add_0_l. rewrite dk_get_write. fold k.
  assert (Eold : dk_get d i = znth (encode_header h) i 0).
  { rewrite <- D3. rewrite znth_dk_read by exact Hi'. rewrite Z.add_0_l. reflexivity. }
  rewrite (encode_header_split (set_numrecs h n)), enc_tail_set_numrecs.
  cbn [set_numrecs h_format h_numrecs]. fold fmt.
  rewrite encode_header_split in Eold. fold fmt in Eold.
  destruct (Z_lt_ge_dec i 4) as [H4|H4].
  - replace ((4 <=? i) && (i <? 4 + k)) with false by lia.
    rewrite Eold. rewrite !znth_app_l by (rewrite Zlen_magic; lia). reflexivity.
  - destruct (Z_lt_ge_dec i (4 + k)) as [Hk4|Hk4].
    + replace ((4 <=? i) && (i <? 4 + k)) with true by lia.
      rewrite znth_app_r by (rewrite Zlen_magic; lia). rewrite Zlen_magic.
      rewrite znth_app_l by (unfold k in *; unfold byte in *; lia). reflexivity.
    + replace ((4 <=? i) && (i <? 4 + k)) with false by lia.
      rewrite Eold.
      rewrite !(znth_app_r (magic fmt)) by (rewrite Zlen_magic; lia). rewrite Zlen_magic.
      rewrite (znth_app_r (put_nn fmt n)) by (unfold k in *; unfold byte in *; lia).
      rewrite (znth_app_r (put_nn fmt (h_numrecs h)))
        by (rewrite (Zlen_put_nn_fmt fmt (h_numrecs h) n); unfold k in *; unfold byte in *; lia).
      rewrite (Zlen_put_nn_fmt fmt (h_numrecs h) n). reflexivity.
Qed.

(** data_ok is kept when numrecs grows to n and (unless n is the old value) is rewritten on disk *)
Lemma data_ok_numrecs : forall d h lay n (wr : bool),
  data_ok d h lay -> 0 <= h_numrecs h <= n -> (wr = false -> n = h_numrecs h) ->
  data_ok (if wr then write_numrecs_bytes d (h_format h) n else d) (set_numrecs h n) lay.
Proof.
  intros d h lay n wr (L1 & L2 & L3 & L4 & L5) Hn Hwr. unfold data_ok.
  rewrite t3of_set_numrecs, hdr_len_set_numrecs. cbn [set_numrecs h_vars].
  split; [exact L1|]. split; [exact L2|]. split; [exact L3|]. split; [exact L4|].
  intros Hwf'. pose proof (wf_hdr_numrecs_mono h n Hn Hwf') as Hwf. specialize (L5 Hwf).
  destruct wr.
  - apply disk_has_hdr_write_numrecs; assumption.
  - rewrite (Hwr eq_refl), set_numrecs_same. exact L5.
Qed.

(* ====================================================================== *)
(** * 3. The numrecs agreements                                             *)
(* ====================================================================== *)

Lemma fold_max_ge_init : forall l a, a <= fold_left Z.max l a.
Proof.
  induction l as [|x l IH]; intros a; cbn [fold_left]; [lia|].
  specialize (IH (Z.max a x)). lia.
Qed.

Lemma fold_max_ge_in : forall l a x, In x l -> x <= fold_left Z.max l a.
Proof.
  induction l as [|y l IH]; intros a x Hin; [destruct Hin|]. cbn [fold_left].
  destruct Hin as [->|Hin]; [|apply IH; exact Hin].
  pose proof (fold_max_ge_init l (Z.max a x)). lia.
Qed.

Lemma fold_max_le : forall l a b, (forall x, In x l -> x <= b) -> a <= b -> fold_left Z.max l a <= b.
Proof.
  induction l as [|y l IH]; intros a b H Ha; cbn [fold_left]; [exact Ha|].
  apply IH; [intros x Hx; apply H; right; exact Hx|].
  pose proof (H y (or_introl eq_refl)). lia.
Qed.

Lemma inv_put_set : forall w id f f' d',
  world_inv w -> znth (w_files w) id None = Some f -> f_tainted f = false ->
  f_slot f' = f_slot f ->
  (file_inv w f -> f_tainted f' = false -> file_ok (w_nprocs w) (Zlen (w_disks w)) d' f') ->
  world_inv (put_file (set_disk w (f_slot f) d') id (Some f')).
Proof.
  intros w id f f' d' Hw Hz Ht Hs Hn.
  pose proof (rz_znth_some_range _ _ _ _ Hz) as Hid.
  pose proof Hw as (_ & _ & _ & _ & Hfiles). pose proof (Hfiles id f Hz Ht) as Hf.
  pose proof Hf as (Hslot & _).
  apply (inv_update w _ id f Hw Hz (frame_put_set w id (f_slot f) d' _)).
  rewrite znth_put_set_same by exact Hid. split; [exact Hs|]. intros Ht'.
  unfold file_inv, disk_of. rewrite Hs. rewrite get_disk_put_set_same by exact Hslot.
  rewrite w_disks_put_file, Zlen_w_disks_set_disk. exact (Hn Hf Ht').
Qed.

(* ---------- sync_numrecs_all ---------- *)
Definition sync_mx (f : filest) : Z := fold_left Z.max (map rk_numrecs (f_ranks f)) 0.
Definition sync_file (f : filest) : filest :=
  sync_ranks_numrecs (upd_hdr f (set_numrecs (f_hdr f) (sync_mx f))) (sync_mx f).

Lemma sync_numrecs_all_eq : forall w id f, (num_rec_vars (f_hdr f) =? 0) = false ->
  sync_numrecs_all w id f =
  put_file (set_disk w (f_slot f) (write_numrecs_bytes (disk_of w f) (h_format (f_hdr f)) (sync_mx f)))
           id (Some (sync_file f)).
Proof. intros w id f H. unfold sync_numrecs_all. rewrite H. reflexivity. Qed.

Lemma ranks_nonempty_max : forall np f, 1 <= np -> ranks_ok np f ->
  0 <= sync_mx f /\ h_numrecs (f_hdr f) <= sync_mx f.
Proof.
  intros np f Hnp (R1 & R2 & _). unfold sync_mx. split; [apply fold_max_ge_init|].
  destruct (f_ranks f) as [|r rs] eqn:Er.
  - rewrite Proofs_Base.Zlen_nil in R1. lia.
  - inversion R2 as [|? ? Hr _]; subst.
    pose proof (fold_max_ge_in (map rk_numrecs (r :: rs)) 0 (rk_numrecs r) (or_introl eq_refl)). lia.
Qed.

Lemma sync_file_ok : forall np nd d f, 1 <= np -> file_ok np nd d f -> f_indef f = false ->
  file_ok np nd (write_numrecs_bytes d (h_format (f_hdr f)) (sync_mx f)) (sync_file f).
Proof.
  intros np nd d f Hnp (Hs & (G1 & G2 & G3) & Ha & Hr & Hm) Hindef.
  destruct (ranks_nonempty_max np f Hnp Hr) as [M0 M1].
  destruct Hr as (R1 & R2 & R3). rewrite Hindef in Hm. destruct Hm as (O1 & O2 & O3).
  unfold file_ok, sync_file, sync_ranks_numrecs, upd_ranks, upd_hdr.
  cbn [f_slot f_hdr f_align f_indef f_old f_isnew f_lay]. rewrite Hindef.
  split; [exact Hs|].
  split. { unfold hdr_good, hdr_wf. cbn [set_numrecs h_dims h_vars h_numrecs]. repeat split; assumption. }
  split; [exact Ha|].
  split.
  { unfold ranks_ok. cbn [f_ranks f_hdr f_indep f_rdonly set_numrecs h_numrecs].
    rewrite Proofs_Base.Zlen_map. split; [exact R1|].
    split; [apply rz_Forall_map; intros r _; cbn [rk_set_numrecs rk_numrecs]; lia|].
    intros _. apply rz_Forall_map. intros r _. reflexivity. }
  split; [exact O1|]. split; [exact O2|].
  apply (data_ok_numrecs d (f_hdr f) (f_lay f) (sync_mx f) true O3); [lia|intros C; discriminate C].
Qed.

Lemma sync_all_inv : forall w id f,
  world_inv w -> znth (w_files w) id None = Some f -> f_tainted f = false -> f_indef f = false ->
  world_inv (sync_numrecs_all w id f) /\
  exists f1, znth (w_files (sync_numrecs_all w id f)) id None = Some f1 /\
    f_slot f1 = f_slot f /\ f_tainted f1 = false /\ f_indef f1 = false /\
    f_indep f1 = f_indep f /\ f_rdonly f1 = f_rdonly f /\
    Forall (fun r => rk_numrecs r = h_numrecs (f_hdr f1)) (f_ranks f1).
Proof.
  intros w id f Hw Hz Ht Hindef.
  pose proof (rz_znth_some_range _ _ _ _ Hz) as Hid.
  pose proof Hw as (Hnp & _ & _ & _ & Hfiles). pose proof (Hfiles id f Hz Ht) as Hf.
  destruct (num_rec_vars (f_hdr f) =? 0) eqn:En.
  - unfold sync_numrecs_all. rewrite En. split.
    + apply (inv_put_file w id f f Hw Hz Ht eq_refl). intros H _. exact H.
    + exists f. rewrite znth_put_file_same by exact Hid.
      split; [reflexivity|]. do 5 (split; [first [reflexivity|assumption]|]).
      destruct Hf as (_ & _ & _ & (_ & _ & R3) & _). apply R3. right. left. lia.
  - rewrite (sync_numrecs_all_eq w id f En). split.
    + apply (inv_put_set w id f (sync_file f) _ Hw Hz Ht eq_refl).
      intros H _. apply sync_file_ok; assumption.
    + exists (sync_file f). rewrite znth_put_set_same by exact Hid.
      split; [reflexivity|]. do 5 (split; [first [reflexivity|assumption]|]).
      unfold sync_file, sync_ranks_numrecs, upd_ranks. cbn [f_ranks f_hdr upd_hdr set_numrecs h_numrecs].
      apply rz_Forall_map. intros r _. reflexivity.
Qed.

(* ---------- coll_numrecs_sync ---------- *)
Definition cs_mx (f : filest) (news : list (option Z)) : Z :=
  fold_left Z.max
    (map (fun p : Z * option Z => match snd p with Some n => n | None => fst p end)
         (zip (map rk_numrecs (f_ranks f)) news)) 0.

Definition cs_disk (d : disk) (f : filest) (news : list (option Z)) : disk :=
  if (hd 0 (map rk_numrecs (f_ranks f)) <? cs_mx f news) && (num_rec_vars (f_hdr f) >? 0)
  then write_numrecs_bytes d (h_format (f_hdr f)) (cs_mx f news) else d.

Definition cs_file (f : filest) (news : list (option Z)) : filest :=
  upd_ranks (upd_hdr f (set_numrecs (f_hdr f) (Z.max (h_numrecs (f_hdr f)) (cs_mx f news))))
    (map (fun r => if rk_numrecs r <? cs_mx f news then rk_set_numrecs r (cs_mx f news) (rk_dirty r) else r)
         (f_ranks f)).

Lemma coll_numrecs_sync_eq : forall w id f news,
  coll_numrecs_sync w id f news =
  put_file (set_disk w (f_slot f) (cs_disk (disk_of w f) f news)) id (Some (cs_file f news)).
Proof. reflexivity. Qed.

Lemma cs_file_ok : forall np nd d f news, 1 <= np -> file_ok np nd d f ->
  f_indef f = false -> f_indep f = false -> 0 < num_rec_vars (f_hdr f) ->
  file_ok np nd (cs_disk d f news) (cs_file f news).
Proof.
  intros np nd d f news Hnp (Hs & (G1 & G2 & G3) & Ha & (R1 & R2 & R3) & Hm) Hindef Hindep Hnrv.
  rewrite Hindef in Hm. destruct Hm as (O1 & O2 & O3).
  pose proof (R3 (or_introl Hindep)) as Req.
  set (N := h_numrecs (f_hdr f)) in *. set (mx := cs_mx f news).
  assert (Hmx : 0 <= mx) by (unfold mx, cs_mx; apply fold_max_ge_init).
  assert (Hroot : hd 0 (map rk_numrecs (f_ranks f)) = N).
  { destruct (f_ranks f) as [|r rs]; [rewrite Proofs_Base.Zlen_nil in R1; lia|].
    inversion Req as [|? ? Hr _]; subst. exact Hr. }
  unfold file_ok, cs_file, upd_ranks, upd_hdr.
  cbn [f_slot f_hdr f_align f_indef f_old f_isnew f_lay]. rewrite Hindef. fold N mx.
  split; [exact Hs|].
  split. { unfold hdr_good, hdr_wf. cbn [set_numrecs h_dims h_vars h_numrecs]. repeat split; try assumption. lia. }
  split; [exact Ha|].
  split.
  { unfold ranks_ok. cbn [f_ranks f_hdr f_indep f_rdonly set_numrecs h_numrecs].
    rewrite Proofs_Base.Zlen_map. split; [exact R1|].
    rewrite Forall_forall in Req.
    split; [|intros _]; apply rz_Forall_map; intros r Hr; specialize (Req r Hr); fold N in Req;
      destruct (Z.ltb_spec (rk_numrecs r) mx); cbn [rk_set_numrecs rk_numrecs]; lia. }
  split; [exact O1|]. split; [exact O2|].
  unfold cs_disk. fold mx. rewrite Hroot. replace (num_rec_vars (f_hdr f) >? 0) with true by lia.
  rewrite andb_true_r. destruct (Z.ltb_spec N mx) as [Hlt|Hge].
  - replace (Z.max N mx) with mx by lia.
    apply (data_ok_numrecs d (f_hdr f) (f_lay f) mx true O3); [fold N; lia|intros C; discriminate C].
  - apply (data_ok_numrecs d (f_hdr f) (f_lay f) (Z.max N mx) false O3); [fold N; lia|intros _; fold N; lia].
Qed.

Lemma coll_numrecs_sync_inv : forall w id f news,
  world_inv w -> znth (w_files w) id None = Some f -> f_tainted f = false ->
  f_indef f = false -> f_indep f = false -> 0 < num_rec_vars (f_hdr f) ->
  world_inv (coll_numrecs_sync w id f news).
Proof.
  intros w id f news Hw Hz Ht Hindef Hindep Hnrv. rewrite coll_numrecs_sync_eq.
  pose proof Hw as (Hnp & _).
  apply (inv_put_set w id f (cs_file f news) _ Hw Hz Ht eq_refl).
  intros H _. apply cs_file_ok; assumption.
Qed.

(* ====================================================================== *)
(** * 4. enddef                                                             *)
(* ====================================================================== *)

Lemma map_vkey_set_begins : forall h bl, length bl = length (h_vars h) ->
  map vkey (h_vars (set_begins h bl)) = map vkey (h_vars h).
Proof.
  intros h bl. unfold set_begins. cbn [h_vars]. rewrite map_map.
  revert bl. induction (h_vars h) as [|v vars IH]; intros [|b bl] Hl;
    cbn [length] in Hl; try discriminate Hl; [reflexivity|].
  injection Hl as Hl. cbn [zip map fst snd]. rewrite (IH bl Hl). reflexivity.
Qed.

(** the file state stored by a successful enddef satisfies the invariant, given the layout facts
    and the header-on-disk fact of the two enddef theorems of Proofs_Exec2 *)
Lemma enddef_file_ok : forall np nd d d' f lay,
  file_ok np nd d f -> f_indef f = true ->
  length (l_begins lay) = length (h_vars (f_hdr f)) ->
  lay_inv (t3of (f_hdr f)) lay -> l_xsz lay = hdr_len (f_hdr f) ->
  (wf_hdr (enddef_hdr f lay) = true -> disk_has_hdr d' (enddef_hdr f lay)) ->
  file_ok np nd d' (enddef_file f lay).
Proof.
  intros np nd d d' f lay (Hs & (G1 & G2 & G3) & Ha & (R1 & R2 & R3) & Hm) Hindef Hlen Hinv Hx Hdisk.
  assert (Hn : 0 <= enddef_numrecs f) by (unfold enddef_numrecs; destruct (f_isnew f); lia).
  assert (Et3 : t3of (enddef_hdr f lay) = t3of (f_hdr f)).
  { unfold enddef_hdr. rewrite t3of_set_numrecs. apply t3of_set_begins. exact Hlen. }
  unfold file_ok.
  destruct (f_fields_enddef_file f lay) as (F1 & F2 & F3 & F4 & F5 & F6 & F7 & F8 & F9 & F10 & F11 & F12).
  rewrite F1, F2, F3, F5, F6, F7, F10.
  split; [exact Hs|].
  split.
  { unfold hdr_good, hdr_wf, enddef_hdr. cbn [set_numrecs h_dims h_numrecs h_vars].
    split; [exact G1|]. split; [|exact Hn].
    apply (vars_good_key _ (h_vars (f_hdr f))); [apply map_vkey_set_begins; exact Hlen|exact G2]. }
  split; [exact Ha|].
  split.
  { unfold ranks_ok. rewrite F12, F1, F4, F8. rewrite Proofs_Base.Zlen_map. split; [exact R1|].
    change (h_numrecs (enddef_hdr f lay)) with (enddef_numrecs f).
    split; [|intros _]; apply rz_Forall_map; intros r _; cbn [rk_set_numrecs rk_numrecs]; lia. }
  split; [reflexivity|]. split; [reflexivity|].
  unfold data_ok. rewrite Et3.
  split; [apply lay_inv_core; exact Hinv|]. split; [intros _; exact Hinv|].
  split. { unfold enddef_hdr. cbn [set_numrecs h_vars]. apply map_v_begin_set_begins. exact Hlen. }
  split. { unfold enddef_hdr. rewrite hdr_len_set_numrecs, hdr_len_set_begins by exact Hlen. exact Hx. }
  exact Hdisk.
Qed.

(* the old layout enters enddef only through begin_var, begin_rec, recsize and begins *)
Definition set_old (f : filest) (o : option (hdr * layout)) : filest :=
  mkfile (f_hdr f) (f_lay f) (f_indef f) (f_indep f) (f_rdonly f) (f_isnew f) o (f_fill f)
         (f_align f) (f_ranks f) (f_slot f) (f_tainted f).

Lemma begins_lay_core : forall h hm vm ha ra ol recs pbr,
  begins h hm vm ha ra (Some (lay_core ol, recs)) pbr = begins h hm vm ha ra (Some (ol, recs)) pbr.
Proof. intros. unfold begins. reflexivity. Qed.

Lemma move_record_vars_lay_core : forall d np u n lay ol,
  move_record_vars d np u n lay (lay_core ol) = move_record_vars d np u n lay ol.
Proof. intros. unfold move_record_vars. reflexivity. Qed.

Lemma move_fixed_vars_lay_core : forall d np u oh lay ol lens,
  move_fixed_vars d np u oh lay (lay_core ol) lens = move_fixed_vars d np u oh lay ol lens.
Proof. intros. unfold move_fixed_vars. reflexivity. Qed.

Lemma do_enddef_set_old : forall w id f ea oh ol, f_old f = Some (oh, ol) ->
  do_enddef w id (set_old f (Some (oh, lay_core ol))) ea = do_enddef w id f ea.
Proof.
  intros w id f ea oh ol Hold. unfold do_enddef. cbv zeta.
  cbn [set_old f_hdr f_lay f_indef f_indep f_rdonly f_isnew f_old f_fill f_align f_ranks f_slot f_tainted].
  rewrite Hold. cbv beta iota.
  destruct (negb (f_indef f)); [reflexivity|].
  destruct ((e_h_minfree ea <? 0) || (e_v_align ea <? 0) || (e_v_minfree ea <? 0) || (e_r_align ea <? 0));
    [reflexivity|].
  destruct (negb (check_vlens (f_hdr f) =? NC_NOERR)); [reflexivity|].
  destruct (resolve_align (f_align f) ea (Zlen (h_vars (f_hdr f)) - num_rec_vars oh) false) as [[ha va] ra].
  rewrite begins_lay_core.
  destruct (begins (f_hdr f) (e_h_minfree ea) (e_v_minfree ea) ha ra
              (Some (ol, map (is_recvar (h_dims oh)) (h_vars oh))) (l_begin_rec (f_lay f))) as [lay|];
    [|reflexivity].
  rewrite !move_record_vars_lay_core, move_fixed_vars_lay_core.
  reflexivity.
Qed.

Lemma enddef_file_set_old : forall f o lay, enddef_file (set_old f o) lay = enddef_file f lay.
Proof. reflexivity. Qed.

Lemma enddef_hdr_set_old : forall f o lay, enddef_hdr (set_old f o) lay = enddef_hdr f lay.
Proof. reflexivity. Qed.

(** enddef preserves the invariant; when it succeeds the file is in data mode, collective *)
Lemma do_enddef_inv : forall w id f ea w' rc,
  world_inv w -> znth (w_files w) id None = Some f -> f_tainted f = false ->
  do_enddef w id f ea = Some (w', rc) ->
  world_inv w' /\
  exists f1, znth (w_files w') id None = Some f1 /\ f_slot f1 = f_slot f /\ f_tainted f1 = false /\
    (rc = NC_NOERR -> f_indef f = true -> f_indef f1 = false /\ f_indep f1 = false /\ f_rdonly f1 = f_rdonly f) /\
    (f_indef f = false -> f1 = f).
Proof.
  intros w id f ea w' rc Hw Hz Ht H.
  pose proof (rz_znth_some_range _ _ _ _ Hz) as Hid.
  pose proof Hw as (Hnp & Hmu & _ & _ & Hfiles). pose proof (Hfiles id f Hz Ht) as Hf.
  destruct (do_enddef_shape w id f ea w' rc H) as [[[-> Hrc]|[-> Hnd]]|(-> & Hindef & _)].
  { split; [exact Hw|]. exists f. split; [exact Hz|]. split; [reflexivity|]. split; [exact Ht|].
    split; [intros C; destruct (Hrc C)|intros _; reflexivity]. }
  { split; [exact Hw|]. exists f. split; [exact Hz|]. split; [reflexivity|]. split; [exact Ht|].
    split; [intros _ C; congruence|intros _; reflexivity]. }
  pose proof Hf as (Hslot & (G1 & G2 & G3) & (A1 & A2 & A3) & Hr & Hm). rewrite Hindef in Hm.
  destruct Hm as (Hindep & Hro & Hold).
  destruct (f_old f) as [[oh ol]|] eqn:Eold.
  - (* after a redefinition *)
    destruct Hold as (O1 & O2 & O3 & (L1 & L2 & L3 & L4 & L5) & O5 & O6).
    set (fc := set_old f (Some (oh, lay_core ol))).
    assert (Hc : do_enddef w id fc ea = Some (w', NC_NOERR)) by (unfold fc; rewrite (do_enddef_set_old w id f ea oh ol Eold); exact H).
    assert (Hnr : 0 <= enddef_numrecs fc) by (unfold enddef_numrecs; destruct (f_isnew fc); cbn [fc set_old f_hdr]; lia).
    assert (Hic : f_indef fc = true) by exact Hindef.
    destruct (redef_enddef_run_preserves w id fc ea oh (lay_core ol) w' Hic eq_refl
                ltac:(cbn [fc set_old f_lay]; rewrite O2; reflexivity) G1 A1 A2 A3 L1 O5 Hnp Hmu Hnr Hslot Hid Hc)
      as (lay & Hz' & Hinv & Hdisk).
    destruct (redef_enddef_inv w id fc ea oh (lay_core ol) w' Hic eq_refl Hc)
      as (ha & va & ra & lay2 & _ & _ & _ & Hbeg & _ & Ew).
    assert (Elay : lay2 = lay).
    { rewrite Ew in Hz'. rewrite znth_put_set_same in Hz' by exact Hid.
      exact (f_equal (fun o : option filest => match o with Some g => f_lay g | None => lay end) Hz'). }
    subst lay2. destruct (begins_length _ _ _ _ _ _ _ _ Hbeg) as [Hlen Hx].
    unfold fc in Hz', Hdisk. rewrite enddef_file_set_old in Hz', Hdisk. rewrite enddef_hdr_set_old in Hdisk.
    assert (Hok' : file_ok (w_nprocs w) (Zlen (w_disks w)) (get_disk w' (f_slot f)) (enddef_file f lay)).
    { apply (enddef_file_ok _ _ (disk_of w f) _ f lay Hf Hindef Hlen Hinv Hx).
      intros Hwfh. exact (proj1 (Hdisk Hwfh)). }
    split.
    + rewrite Ew in Hok' |- *. change (f_slot fc) with (f_slot f) in *.
      change (enddef_file fc lay) with (enddef_file f lay) in *.
      rewrite get_disk_put_set_same in Hok' by exact Hslot.
      apply (inv_put_set w id f (enddef_file f lay) _ Hw Hz Ht eq_refl). intros _ _. exact Hok'.
    + exists (enddef_file f lay). split; [exact Hz'|]. split; [reflexivity|]. split; [exact Ht|].
      split; [intros _ _; repeat split; reflexivity|intros C; congruence].
  - (* a new file *)
    destruct Hold as (O1 & O2).
    assert (Hbr : l_begin_rec (f_lay f) = 0) by (rewrite O2; reflexivity).
    destruct (enddef_writes_header w id f ea w' Eold Hindef O1 Hbr G1 A1 A2 A3 Hslot Hid Hnp H)
      as (ha & va & ra & lay & Hal & Hbeg & Hres). cbv zeta in Hres.
    destruct Hres as ((Hz' & _) & (Hinv & Hx) & Hdisk).
    destruct (do_enddef_new_inv w id f ea w' Hindef Eold H)
      as (ha2 & va2 & ra2 & lay2 & _ & _ & _ & _ & _ & Ew).
    assert (Elay : lay2 = lay).
    { rewrite Ew in Hz'. rewrite znth_put_set_same in Hz' by exact Hid.
      exact (f_equal (fun o : option filest => match o with Some g => f_lay g | None => lay end) Hz'). }
    subst lay2. destruct (begins_length _ _ _ _ _ _ _ _ Hbeg) as [Hlen Hx'].
    assert (Eh1 : enddef_hdr f lay = set_numrecs (set_begins (f_hdr f) (l_begins lay)) 0).
    { unfold enddef_hdr, enddef_numrecs. rewrite O1. reflexivity. }
    assert (Hok' : file_ok (w_nprocs w) (Zlen (w_disks w)) (get_disk w' (f_slot f)) (enddef_file f lay)).
    { apply (enddef_file_ok _ _ (disk_of w f) _ f lay Hf Hindef Hlen Hinv Hx').
      rewrite Eh1. intros Hwfh. destruct (Hdisk Hwfh) as (D3 & D1 & D2 & _).
      split; [exact D1|]. split; [exact D2|exact D3]. }
    split.
    + rewrite Ew in Hok' |- *. rewrite get_disk_put_set_same in Hok' by exact Hslot.
      apply (inv_put_set w id f (enddef_file f lay) _ Hw Hz Ht eq_refl). intros _ _. exact Hok'.
    + exists (enddef_file f lay). split; [exact Hz'|]. split; [reflexivity|]. split; [exact Ht|].
      split; [intros _ _; repeat split; reflexivity|intros C; congruence].
Qed.

(* ====================================================================== *)
(** * 5. exec_all: enddef, redef, begin/end_indep, sync                     *)
(* ====================================================================== *)

Ltac exec_all_file Hw :=
  unfold exec_all; cbv beta iota zeta delta [slot_of];
  apply with_file_inv; [exact Hw|]; intros id f Hl Ht.

Lemma exec_enddef_gen : forall w s id f ea,
  world_inv w -> lookup_file w s = Some (id, f) -> f_tainted f = false ->
  world_inv (fst (match do_enddef w id f ea with
                  | Some (w', rc) => (w', same_all w rc [])
                  | None => (taint_slot w s, unmodelled w (all_ranks w)) end)).
Proof.
  intros w s id f ea Hw Hl Ht. destruct (lookup_file_some w s id f Hl) as [Hz Hid].
  destruct (do_enddef w id f ea) as [[w' rc]|] eqn:E; cbn [fst]; [|apply taint_slot_inv; exact Hw].
  exact (proj1 (do_enddef_inv w id f ea w' rc Hw Hz Ht E)).
Qed.

Lemma exec_enddef_inv : forall w s, world_inv w -> world_inv (fst (exec_all w (OEnddef s))).
Proof. intros w s Hw. exec_all_file Hw. apply exec_enddef_gen; assumption. Qed.

Lemma exec_enddefx_inv : forall w s a b c d, world_inv w ->
  world_inv (fst (exec_all w (OEnddefX s a b c d))).
Proof. intros w s a b c d Hw. exec_all_file Hw. apply exec_enddef_gen; assumption. Qed.

(* ---------- mode changes on a file in data mode ---------- *)
Lemma file_ok_begin_indep : forall np nd d f, file_ok np nd d f -> f_indef f = false ->
  file_ok np nd d (set_modes f false true).
Proof.
  intros np nd d f (Hs & Hg & Ha & (R1 & R2 & R3) & Hm) Hindef. rewrite Hindef in Hm.
  unfold file_ok, set_modes. cbn [f_slot f_hdr f_align f_indef f_old f_isnew f_lay].
  split; [exact Hs|]. split; [exact Hg|]. split; [exact Ha|].
  split; [|exact Hm].
  unfold ranks_ok. cbn [f_ranks f_hdr f_indep f_rdonly]. split; [exact R1|]. split; [exact R2|].
  intros [C|C]; [discriminate C|]. apply R3. right. exact C.
Qed.

Lemma file_ok_end_indep : forall np nd d f, file_ok np nd d f -> f_indef f = false ->
  Forall (fun r => rk_numrecs r = h_numrecs (f_hdr f)) (f_ranks f) ->
  file_ok np nd d (set_modes f false false).
Proof.
  intros np nd d f (Hs & Hg & Ha & (R1 & R2 & R3) & Hm) Hindef Heq. rewrite Hindef in Hm.
  unfold file_ok, set_modes. cbn [f_slot f_hdr f_align f_indef f_old f_isnew f_lay].
  split; [exact Hs|]. split; [exact Hg|]. split; [exact Ha|].
  split; [|exact Hm].
  unfold ranks_ok. cbn [f_ranks f_hdr f_indep f_rdonly]. split; [exact R1|]. split; [exact R2|].
  intros _. exact Heq.
Qed.

Definition redef_file (f1 : filest) : filest :=
  mkfile (f_hdr f1) (f_lay f1) true false false false (Some (f_hdr f1, f_lay f1))
         (f_fill f1) (f_align f1) (f_ranks f1) (f_slot f1) (f_tainted f1).

Lemma file_ok_redef : forall np nd d f, file_ok np nd d f -> f_indef f = false ->
  Forall (fun r => rk_numrecs r = h_numrecs (f_hdr f)) (f_ranks f) ->
  file_ok np nd d (redef_file f).
Proof.
  intros np nd d f (Hs & Hg & Ha & (R1 & R2 & R3) & Hm) Hindef Heq. rewrite Hindef in Hm.
  destruct Hm as (O1 & O2 & O3).
  unfold file_ok, redef_file. cbn [f_slot f_hdr f_align f_indef f_old f_isnew f_lay f_indep f_rdonly].
  split; [exact Hs|]. split; [exact Hg|]. split; [exact Ha|].
  split.
  { unfold ranks_ok. cbn [f_ranks f_hdr f_indep f_rdonly]. split; [exact R1|]. split; [exact R2|].
    intros _. exact Heq. }
  split; [reflexivity|]. split; [reflexivity|]. split; [reflexivity|]. split; [reflexivity|].
  split; [exact Hg|]. split; [exact O3|]. split; [apply hdr_extends_refl|reflexivity].
Qed.

Lemma ranks_eq_of_collective : forall np nd d f, file_ok np nd d f -> f_indep f = false ->
  Forall (fun r => rk_numrecs r = h_numrecs (f_hdr f)) (f_ranks f).
Proof. intros np nd d f (_ & _ & _ & (_ & _ & R3) & _) H. apply R3. left. exact H. Qed.

Lemma ranks_eq_of_rdonly : forall np nd d f, file_ok np nd d f -> f_rdonly f = true ->
  Forall (fun r => rk_numrecs r = h_numrecs (f_hdr f)) (f_ranks f).
Proof. intros np nd d f (_ & _ & _ & (_ & _ & R3) & _) H. apply R3. right. right. exact H. Qed.

Lemma file_inv_of_znth : forall w id f, world_inv w -> znth (w_files w) id None = Some f ->
  f_tainted f = false -> file_inv w f.
Proof. intros w id f (_ & _ & _ & _ & Hfiles) Hz Ht. exact (Hfiles id f Hz Ht). Qed.

Lemma exec_redef_inv : forall w s, world_inv w -> world_inv (fst (exec_all w (ORedef s))).
Proof.
  intros w s Hw. exec_all_file Hw. destruct (lookup_file_some w s id f Hl) as [Hz Hid].
  destruct (f_rdonly f) eqn:Hro; [exact Hw|].
  destruct (f_indef f) eqn:Hindef; [exact Hw|].
  destruct (f_indep f) eqn:Hindep.
  - destruct (sync_all_inv w id f Hw Hz Ht Hindef) as (Hw1 & f1 & Hz1 & S1 & S2 & S3 & S4 & S5 & S6).
    rewrite Hz1. cbn [fst]. fold (redef_file f1).
    apply (inv_put_file _ id f1 (redef_file f1) Hw1 Hz1 S2 eq_refl).
    intros Hf1 _. apply file_ok_redef; assumption.
  - rewrite Hz. cbn [fst]. fold (redef_file f).
    apply (inv_put_file _ id f (redef_file f) Hw Hz Ht eq_refl).
    intros Hf _. apply file_ok_redef; [exact Hf|exact Hindef|].
    exact (ranks_eq_of_collective _ _ _ f Hf Hindep).
Qed.

Lemma exec_begin_indep_inv : forall w s, world_inv w -> world_inv (fst (exec_all w (OBeginIndep s))).
Proof.
  intros w s Hw. exec_all_file Hw. destruct (lookup_file_some w s id f Hl) as [Hz Hid].
  destruct (f_indef f) eqn:Hindef; [exact Hw|]. cbn [fst].
  apply (inv_put_file _ id f (set_modes f false true) Hw Hz Ht eq_refl).
  intros Hf _. apply file_ok_begin_indep; assumption.
Qed.

Lemma exec_end_indep_inv : forall w s, world_inv w -> world_inv (fst (exec_all w (OEndIndep s))).
Proof.
  intros w s Hw. exec_all_file Hw. destruct (lookup_file_some w s id f Hl) as [Hz Hid].
  destruct (f_indef f) eqn:Hindef; [exact Hw|].
  destruct (f_indep f) eqn:Hindep; cbn [negb]; [|exact Hw].
  destruct (f_rdonly f) eqn:Hro.
  - rewrite Hz. cbn [fst]. apply (inv_put_file _ id f (set_modes f false false) Hw Hz Ht eq_refl).
    intros Hf _. apply file_ok_end_indep; [exact Hf|exact Hindef|].
    exact (ranks_eq_of_rdonly _ _ _ f Hf Hro).
  - destruct (sync_all_inv w id f Hw Hz Ht Hindef) as (Hw1 & f1 & Hz1 & S1 & S2 & S3 & S4 & S5 & S6).
    rewrite Hz1. cbn [fst].
    apply (inv_put_file _ id f1 (set_modes f1 false false) Hw1 Hz1 S2 eq_refl).
    intros Hf1 _. apply file_ok_end_indep; assumption.
Qed.

Lemma exec_sync_inv : forall w s, world_inv w -> world_inv (fst (exec_all w (OSync s))).
Proof.
  intros w s Hw. exec_all_file Hw. destruct (lookup_file_some w s id f Hl) as [Hz Hid].
  destruct (f_indef f) eqn:Hindef; [exact Hw|].
  destruct (f_rdonly f); [exact Hw|]. cbn [fst].
  destruct (f_indep f); [|exact Hw].
  exact (proj1 (sync_all_inv w id f Hw Hz Ht Hindef)).
Qed.

Lemma exec_sync_numrecs_inv : forall w s, world_inv w -> world_inv (fst (exec_all w (OSyncNumrecs s))).
Proof.
  intros w s Hw. exec_all_file Hw. destruct (lookup_file_some w s id f Hl) as [Hz Hid].
  destruct (f_indef f) eqn:Hindef; [exact Hw|].
  destruct (num_rec_vars (f_hdr f) =? 0); [exact Hw|].
  destruct (f_rdonly f); [exact Hw|]. cbn [fst].
  destruct (f_indep f); [|exact Hw].
  exact (proj1 (sync_all_inv w id f Hw Hz Ht Hindef)).
Qed.

(* ====================================================================== *)
(** * 6. close, abort                                                       *)
(* ====================================================================== *)

Lemma do_close_frame : forall w id f w' obs,
  znth (w_files w) id None = Some f -> do_close w id f = Some (w', obs) ->
  frame w w' id (f_slot f) /\ znth (w_files w') id None = None.
Proof.
  intros w id f w' obs Hz H. pose proof (rz_znth_some_range _ _ _ _ Hz) as Hid.
  unfold do_close in H.
  assert (Hr1 : exists w1 e1 f1,
            (if f_indef f then do_enddef w id f (mkeargs 0 0 0 0) else Some (w, NC_NOERR)) = Some (w1, e1) /\
            frame w w1 id (f_slot f) /\ znth (w_files w1) id None = Some f1 /\ f_slot f1 = f_slot f).
  { destruct (f_indef f).
    - destruct (do_enddef w id f (mkeargs 0 0 0 0)) as [[w1 e1]|] eqn:E; [|discriminate H].
      destruct (do_enddef_shape w id f _ w1 e1 E) as [[[-> _]|[-> _]]|(_ & _ & d3 & f'' & -> & Hs)].
      + exists w, e1, f. repeat split; try assumption; try apply frame_refl; reflexivity.
      + exists w, e1, f. repeat split; try assumption; try apply frame_refl; reflexivity.
      + exists (put_file (set_disk w (f_slot f) d3) id (Some f'')), e1, f''.
        split; [reflexivity|]. split; [apply frame_put_set|].
        split; [apply znth_put_set_same; exact Hid|exact Hs].
    - exists w, NC_NOERR, f. repeat split; try assumption; try apply frame_refl; reflexivity. }
  destruct Hr1 as (w1 & e1 & f1 & E1 & Fr1 & Hz1 & Hs1). rewrite E1 in H. rewrite Hz1 in H.
  destruct (negb (e1 =? NC_NOERR)); [discriminate H|].
  pose proof Fr1 as (_ & _ & _ & _ & _ & _ & Hlen1).
  assert (Hr2 : exists f2, znth (w_files (if negb (f_rdonly f1) && f_indep f1 then sync_numrecs_all w1 id f1 else w1))
                                id None = Some f2 /\ f_slot f2 = f_slot f /\
                 frame w1 (if negb (f_rdonly f1) && f_indep f1 then sync_numrecs_all w1 id f1 else w1) id (f_slot f)).
  { destruct (negb (f_rdonly f1) && f_indep f1).
    - destruct (znth (w_files (sync_numrecs_all w1 id f1)) id None) as [f2|] eqn:E2.
      + exists f2. split; [reflexivity|].
        split; [rewrite <- Hs1; apply (sync_numrecs_all_slot w1 id f1 f2); [lia|exact E2]|].
        rewrite <- Hs1. apply sync_numrecs_all_frame.
      + exfalso. destruct (sync_numrecs_all_shape w1 id f1) as [E|(d' & f' & E & _)]; rewrite E in E2.
        * rewrite znth_put_file_same in E2 by lia. discriminate E2.
        * rewrite znth_put_set_same in E2 by lia. discriminate E2.
    - exists f1. split; [exact Hz1|]. split; [exact Hs1|apply frame_refl]. }
  destruct Hr2 as (f2 & Hz2 & Hs2 & Fr2).
  set (w2 := if negb (f_rdonly f1) && f_indep f1 then sync_numrecs_all w1 id f1 else w1) in *.
  rewrite Hz2 in H. injection H as <- _.
  pose proof Fr2 as (_ & _ & _ & _ & _ & _ & Hlen2).
  split.
  - eapply frame_trans; [exact Fr1|]. eapply frame_trans; [exact Fr2|].
    rewrite Hs2. apply frame_put_set.
  - apply znth_put_set_same. lia.
Qed.

Lemma inv_remove : forall w w' id f, world_inv w -> znth (w_files w) id None = Some f ->
  frame w w' id (f_slot f) -> znth (w_files w') id None = None -> world_inv w'.
Proof.
  intros w w' id f Hw Hz Fr Hn. apply (inv_update w w' id f Hw Hz Fr). rewrite Hn. exact I.
Qed.

Lemma exec_close_gen : forall w s id f, world_inv w -> lookup_file w s = Some (id, f) ->
  world_inv (fst (match do_close w id f with
                  | Some r => r | None => (taint_slot w s, unmodelled w (all_ranks w)) end)).
Proof.
  intros w s id f Hw Hl. destruct (lookup_file_some w s id f Hl) as [Hz Hid].
  destruct (do_close w id f) as [[w' obs]|] eqn:E; cbn [fst]; [|apply taint_slot_inv; exact Hw].
  destruct (do_close_frame w id f w' obs Hz E) as [Fr Hn].
  exact (inv_remove w w' id f Hw Hz Fr Hn).
Qed.

Lemma exec_close_inv : forall w s, world_inv w -> world_inv (fst (exec_all w (OClose s))).
Proof. intros w s Hw. exec_all_file Hw. apply exec_close_gen; assumption. Qed.

Lemma exec_abort_inv : forall w s, world_inv w -> world_inv (fst (exec_all w (OAbort s))).
Proof.
  intros w s Hw. exec_all_file Hw. destruct (lookup_file_some w s id f Hl) as [Hz Hid].
  destruct (f_isnew f).
  - cbn [fst]. apply (inv_remove w _ id f Hw Hz (frame_put_set w id (f_slot f) _ _)).
    apply znth_put_set_same. exact Hid.
  - destruct (f_indef f).
    + cbn [fst]. apply (inv_remove w _ id f Hw Hz (frame_put_file w id (f_slot f) _)).
      apply znth_put_file_same. exact Hid.
    + apply exec_close_gen; assumption.
Qed.

(* ====================================================================== *)
(** * 7. create, open                                                       *)
(* ====================================================================== *)

Lemma hdr_good_empty : forall fmt, hdr_good (mkhdr fmt 0 [] [] []).
Proof. intros fmt. unfold hdr_good, hdr_wf. cbn [h_dims h_vars h_numrecs]. repeat split; try constructor. lia. Qed.

Lemma ranks_ok_init : forall w n (h : hdr) indep rdonly,
  1 <= w_nprocs w -> h_numrecs h = n ->
  Zlen (map (fun _ : Z => rank_init n) (all_ranks w)) = w_nprocs w /\
  Forall (fun r => h_numrecs h <= rk_numrecs r) (map (fun _ : Z => rank_init n) (all_ranks w)) /\
  (indep = false \/ num_rec_vars h = 0 \/ rdonly = true ->
   Forall (fun r => rk_numrecs r = h_numrecs h) (map (fun _ : Z => rank_init n) (all_ranks w))).
Proof.
  intros w n h indep rdonly Hnp Hn. rewrite Proofs_Base.Zlen_map, rz_Zlen_all_ranks by exact Hnp.
  split; [reflexivity|].
  split; [|intros _]; apply rz_Forall_map; intros r _; cbn [rank_init rk_numrecs]; lia.
Qed.

Lemma exec_create_inv : forall w s fmt clobber, world_inv w ->
  op_ok w (OCreate s fmt clobber) = true ->
  world_inv (fst (exec_all w (OCreate s fmt clobber))).
Proof.
  intros w s fmt clobber Hw Hok. unfold exec_all. cbv beta iota zeta.
  unfold do_create. cbv zeta.
  destruct (dk_exists (get_disk w s) && (clobber =? 0)) eqn:E; cbn [fst].
  { apply world_inv_set_hints; [apply world_inv_set_ids; exact Hw|apply align_ok_no_align]. }
  cbn [op_ok] in Hok. rewrite E, orb_false_r in Hok. apply andb_true_iff in Hok. destruct Hok as [Hrange Hfree].
  unfold slot_in_range in Hrange.
  pose proof Hw as (Hnp & _ & Hal & _).
  set (f := mkfile (mkhdr fmt 0 [] [] []) empty_layout true false false true None false
                   (w_hints w) (map (fun _ : Z => rank_init 0) (all_ranks w)) s false).
  match goal with |- world_inv ?W => set (w' := W) end.
  assert (Ed : get_disk w' s = mkdisk true 0 (fun _ => UNDEF)).
  { unfold w'. change (get_disk (set_disk w s (mkdisk true 0 (fun _ => UNDEF))) s = mkdisk true 0 (fun _ => UNDEF)).
    apply get_disk_set_disk_same. lia. }
  apply (inv_store w w' f Hw Hfree).
  - reflexivity.
  - reflexivity.
  - apply align_ok_no_align.
  - unfold w'. change (Zlen (w_disks (set_disk w s (mkdisk true 0 (fun _ => UNDEF)))) = Zlen (w_disks w)).
    apply Zlen_w_disks_set_disk.
  - reflexivity.
  - intros s' Hs'. unfold w'.
    change (get_disk (set_disk w s (mkdisk true 0 (fun _ => UNDEF))) s' = get_disk w s').
    apply get_disk_set_disk_other. cbn [f f_slot] in Hs'. lia.
  - intros _. unfold file_inv, file_ok, f.
    cbn [f_slot f_hdr f_align f_indef f_indep f_rdonly f_old f_isnew f_lay].
    split. { unfold w'. change (0 <= s < Zlen (w_disks (set_disk w s (mkdisk true 0 (fun _ => UNDEF))))).
             rewrite Zlen_w_disks_set_disk. lia. }
    split; [apply hdr_good_empty|]. split; [exact Hal|].
    split. { unfold ranks_ok. cbn [f_ranks f_hdr f_indep f_rdonly].
             exact (ranks_ok_init w 0 (mkhdr fmt 0 [] [] []) false false Hnp eq_refl). }
    repeat split; reflexivity.
Qed.

Lemma list_eqb_Z_eq : forall a b : list Z, bytes_eqb a b = true -> a = b.
Proof.
  unfold bytes_eqb. induction a as [|x a IH]; intros [|y b] H; cbn [list_eqb] in H;
    try discriminate H; [reflexivity|].
  apply andb_true_iff in H. destruct H as [H1 H2]. f_equal; [lia|apply IH; exact H2].
Qed.

Lemma layout_of_hdr_fields : forall h x,
  l_begins (layout_of_hdr h x) = map v_begin (h_vars h) /\ l_xsz (layout_of_hdr h x) = x.
Proof.
  intros h x. unfold layout_of_hdr. cbv zeta.
  destruct (filter (is_recvar (h_dims h)) (h_vars h)) as [|fr recs];
    destruct (h_vars h) as [|v vs]; cbn [map l_begins l_xsz]; split; reflexivity.
Qed.

Lemma open_file_ok : forall w s mode dc,
  world_inv w -> slot_in_range w s = true -> dk_exists (get_disk w s) = true ->
  decode (dk_read (get_disk w s) 0 (Z.min (dk_size (get_disk w s)) 65536)) = Some dc ->
  open_ok (get_disk w s) = true ->
  file_ok (w_nprocs w) (Zlen (w_disks w)) (get_disk w s) (open_file w s mode dc).
Proof.
  intros w s mode dc Hw Hrange Hex Hdec Hok. pose proof Hw as (Hnp & _ & Hal & _).
  unfold open_ok in Hok. rewrite Hex, Hdec in Hok. cbn [negb orb] in Hok. cbv zeta in Hok.
  rewrite !andb_true_iff in Hok. destruct Hok as [[[[[[K1 K2] K3] K4] K5] K6] K7].
  unfold slot_in_range in Hrange.
  destruct (layout_of_hdr_fields (dc_hdr dc) (dc_len dc)) as [Lb Lx].
  unfold file_ok, open_file. cbn [f_slot f_hdr f_align f_indef f_indep f_rdonly f_old f_isnew f_lay].
  split; [lia|]. split; [apply hdr_good_b_sound; exact K2|]. split; [exact Hal|].
  split. { unfold ranks_ok. cbn [f_ranks f_hdr f_indep f_rdonly].
           exact (ranks_ok_init w _ (dc_hdr dc) false (mode =? 0) Hnp eq_refl). }
  split; [reflexivity|]. split; [reflexivity|].
  unfold data_ok.
  split; [apply lay_inv_b_sound; exact K6|].
  split. { intros Hne. apply lay_inv_b_sound. destruct (h_vars (dc_hdr dc)); [contradiction|exact K7]. }
  split; [symmetry; exact Lb|]. split; [rewrite Lx; lia|].
  intros _. split; [exact Hex|]. split; [lia|]. apply list_eqb_Z_eq. exact K5.
Qed.

Lemma exec_open_inv : forall w s mode, world_inv w -> op_ok w (OOpen s mode) = true ->
  world_inv (fst (exec_all w (OOpen s mode))).
Proof.
  intros w s mode Hw Hok. unfold exec_all. cbv beta iota zeta.
  destruct (dk_exists (get_disk w s)) eqn:Hex.
  2:{ unfold do_open. cbv zeta. rewrite Hex. cbn [negb fst].
      apply world_inv_set_hints; [apply world_inv_set_ids; exact Hw|apply align_ok_no_align]. }
  destruct (decode (dk_read (get_disk w s) 0 (Z.min (dk_size (get_disk w s)) 65536))) as [dc|] eqn:Hdec.
  2:{ unfold do_open. cbv zeta. rewrite Hex, Hdec. cbn [negb fst]. exact Hw. }
  rewrite (do_open_eq w s mode dc Hex Hdec). cbn [fst].
  cbn [op_ok] in Hok. rewrite Hex in Hok. cbn [negb orb] in Hok. rewrite !andb_true_iff in Hok.
  destruct Hok as [[Hrange Hfree] Hopen].
  pose proof (open_file_ok w s mode dc Hw Hrange Hex Hdec Hopen) as Hf.
  apply (inv_store w (open_world w s mode dc) (open_file w s mode dc) Hw Hfree); try reflexivity.
  - apply align_ok_no_align.
  - intros _. exact Hf.
Qed.
