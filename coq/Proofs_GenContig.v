(* Proofs_GenContig.v — the tie between ncmpio_filetype.c:is_request_contiguous as built and Access.is_contig:

     Gen_contig.is_request_contiguous_c isRecVar numRecVars ndims shape start count
       = FVal (b2z (Access.is_contig (z2b isRecVar) numRecVars shape count))

   for all shapes and counts of equal length (ndims = that length, fitting an int); start is not read by
   the C function.  Gen_contig.v is regenerated on every run by tools/tr_contig.py (tools/tr_cfun.py, target
   contig); combinators: CSub.v.  FVal: no array index outside [0, ndims), no overflow of the int loop
   counters, the three loops (one nested, two counting down, one left by `break`) end within their fuel. *)
From Pnc Require Import Base Gen_consts Access CSub Gen_contig Proofs_CSub.
Require Import String.
Require Import Lia ZArith ZifyBool List Bool.
Import ListNotations.
Local Open Scope Z_scope.

(* ---------- lists by index ---------- *)
Lemma gc_znth_nth : forall A (l : list A) k d, znth l (Z.of_nat k) d = nth k l d.
Proof.
  induction l as [|a l IH]; intros k d.
  - destruct k; reflexivity.
  - destruct k as [|k]; [reflexivity|].
    cbn [znth nth]. destruct (Z.of_nat (S k) =? 0) eqn:E; [lia|].
    replace (Z.of_nat (S k) - 1) with (Z.of_nat k) by lia. apply IH.
Qed.

Lemma gc_p_ok : forall (l : list Z) k, (k < length l)%nat -> p_ok (Some (l, 0)) (Z.of_nat k) = true.
Proof. intros. apply p_ok_some. unfold Zlen. lia. Qed.

Lemma gc_p_get : forall (l : list Z) k, p_get 0 (Some (l, 0)) (Z.of_nat k) = nth k l 0.
Proof. intros. rewrite p_get_some, Z.add_0_l. apply gc_znth_nth. Qed.

Lemma gc_skipn_nth_cons : forall A (l : list A) k d, (k < length l)%nat ->
  skipn k l = nth k l d :: skipn (S k) l.
Proof.
  induction l as [|a l IH]; intros k d H; [cbn in H; lia|].
  destruct k as [|k]; [reflexivity|]. cbn [skipn nth]. cbn [length] in H.
  rewrite (IH k d) by lia. reflexivity.
Qed.

Lemma gc_skipn_all : forall A (l : list A) k, (length l <= k)%nat -> skipn k l = [].
Proof.
  induction l as [|a l IH]; intros k H; [destruct k; reflexivity|].
  destruct k as [|k]; [cbn in H; lia|]. cbn [skipn]. apply IH. cbn [length] in H. lia.
Qed.

Lemma gc_nth_skipn : forall A (l : list A) m t d, nth t (skipn m l) d = nth (m + t) l d.
Proof.
  induction l as [|a l IH]; intros m t d.
  - rewrite skipn_nil. destruct t, m; reflexivity.
  - destruct m as [|m]; [reflexivity|]. cbn [skipn Nat.add nth]. apply IH.
Qed.

Lemma gc_tl_skipn : forall A (l : list A) m, tl (skipn m l) = skipn (S m) l.
Proof.
  induction l as [|a l IH]; intros m; [destruct m; reflexivity|].
  destruct m as [|m]; [reflexivity|]. cbn [skipn]. rewrite IH. destruct l; reflexivity.
Qed.

Lemma gc_firstn_S : forall A (l : list A) p d, (p < length l)%nat ->
  firstn (S p) l = firstn p l ++ [nth p l d].
Proof.
  induction l as [|a l IH]; intros p d H; [cbn in H; lia|].
  destruct p as [|p]; [reflexivity|]. cbn [length] in H.
  change (firstn (S (S p)) (a :: l)) with (a :: firstn (S p) l).
  change (firstn (S p) (a :: l)) with (a :: firstn p l).
  change (nth (S p) (a :: l) d) with (nth p l d).
  rewrite (IH p d) by lia. reflexivity.
Qed.

Lemma gc_zip_snoc : forall A B (a : list A) (b : list B) x y, length a = length b ->
  zip (a ++ [x]) (b ++ [y]) = zip a b ++ [(x, y)].
Proof.
  induction a as [|a0 a IH]; intros b x y H; destruct b as [|b0 b]; try discriminate; [reflexivity|].
  cbn [app zip]. cbn [length] in H. rewrite IH by lia. reflexivity.
Qed.

Lemma gc_all_le1_snoc : forall l x, all_le1 (l ++ [x]) = all_le1 l && (x <=? 1).
Proof.
  induction l as [|a l IH]; intros x; cbn [app all_le1].
  - rewrite andb_true_r. reflexivity.
  - rewrite IH, andb_assoc. reflexivity.
Qed.

Ltac ctg_st :=
  unfold set_is_request_contiguous__i, set_is_request_contiguous__j, set_is_request_contiguous__most_sig_dim;
  cbn [is_request_contiguous__i is_request_contiguous__j is_request_contiguous__most_sig_dim].

Section Contig.
Variables (isr nrv : Z) (shape count : list Z) (pstart : c_ptr Z).
Hypothesis Hlen : length count = length shape.
Hypothesis Hn : Zlen shape <= 2147483647.
Let nd := Zlen shape.

Definition cst (i j m : Z) : st_is_request_contiguous :=
  {| is_request_contiguous__i := i; is_request_contiguous__j := j; is_request_contiguous__most_sig_dim := m |}.

(* loop 1: a zero count anywhere makes the request (trivially) contiguous *)
Lemma gc_loop1 : forall r k fuel jv mv,
  (k + r = length count)%nat -> (r < fuel)%nat ->
  c_loop fuel (is_request_contiguous_loop1_cdef isr nrv nd (Some (shape, 0)) pstart (Some (count, 0)))
              (is_request_contiguous_loop1_cond isr nrv nd (Some (shape, 0)) pstart (Some (count, 0)))
              (is_request_contiguous_loop1_body isr nrv nd (Some (shape, 0)) pstart (Some (count, 0)))
              (is_request_contiguous_loop1_inc isr nrv nd (Some (shape, 0)) pstart (Some (count, 0)))
              (cst (Z.of_nat k) jv mv)
  = if existsb (fun c => c =? 0) (skipn k count) then CRet 1 else CNorm (cst nd jv mv).
Proof.
  induction r as [|r IH]; intros k fuel jv mv Hk Hf.
  - destruct fuel as [|f]; [lia|].
    rewrite c_loop_exit;
      [ | reflexivity | unfold is_request_contiguous_loop1_cond, cst; ctg_st; unfold nd, Zlen; lia ].
    rewrite gc_skipn_all by lia. cbn [existsb]. unfold cst, nd, Zlen. f_equal. f_equal. lia.
  - destruct fuel as [|f]; [lia|].
    rewrite (gc_skipn_nth_cons _ count k 0) by lia. cbn [existsb].
    rewrite c_loop_iter;
      [ | reflexivity | unfold is_request_contiguous_loop1_cond, cst; ctg_st; unfold nd, Zlen; lia ].
    unfold is_request_contiguous_loop1_body at 1. unfold cst. ctg_st.
    rewrite gc_p_ok by lia. rewrite gc_p_get. cbn [c_chk].
    destruct (nth k count 0 =? 0) eqn:E; cbn [orb]; [reflexivity|].
    unfold is_request_contiguous_loop1_inc at 1. ctg_st.
    assert (Hi : in_i32 (Z.of_nat k + 1) = true) by (apply in_i32_iff; unfold Zlen in Hn; lia).
    rewrite Hi. cbn [c_chk c_bind]. ctg_st.
    replace (Z.of_nat k + 1) with (Z.of_nat (S k)) by lia.
    apply (IH (S k) f jv mv); lia.
Qed.

(* loop 3 (inner): count[j] <= 1 for j = m + q - 1 down to m *)
Lemma gc_loop3 : forall q fuel iv (m : nat),
  (m + q <= length count)%nat -> (q < fuel)%nat ->
  c_loop fuel (is_request_contiguous_loop3_cdef isr nrv nd (Some (shape, 0)) pstart (Some (count, 0)))
              (is_request_contiguous_loop3_cond isr nrv nd (Some (shape, 0)) pstart (Some (count, 0)))
              (is_request_contiguous_loop3_body isr nrv nd (Some (shape, 0)) pstart (Some (count, 0)))
              (is_request_contiguous_loop3_inc isr nrv nd (Some (shape, 0)) pstart (Some (count, 0)))
              (cst iv (Z.of_nat m + Z.of_nat q - 1) (Z.of_nat m))
  = if all_le1 (firstn q (skipn m count)) then CNorm (cst iv (Z.of_nat m - 1) (Z.of_nat m)) else CRet 0.
Proof.
  induction q as [|q IH]; intros fuel iv m Hq Hf.
  - destruct fuel as [|f]; [lia|].
    rewrite c_loop_exit;
      [ | reflexivity | unfold is_request_contiguous_loop3_cond, cst; ctg_st; lia ].
    cbn [firstn all_le1]. unfold cst. f_equal. f_equal. lia.
  - destruct fuel as [|f]; [lia|].
    assert (Hql : (q < length (skipn m count))%nat) by (rewrite skipn_length; lia).
    rewrite (gc_firstn_S _ (skipn m count) q 0 Hql), gc_all_le1_snoc, gc_nth_skipn.
    rewrite c_loop_iter;
      [ | reflexivity | unfold is_request_contiguous_loop3_cond, cst; ctg_st; lia ].
    unfold is_request_contiguous_loop3_body at 1. unfold cst. ctg_st.
    replace (Z.of_nat m + Z.of_nat (S q) - 1) with (Z.of_nat (m + q)) by lia.
    rewrite gc_p_ok by lia. rewrite gc_p_get. cbn [c_chk].
    match goal with |- context [if ?b then CRet 0 else CNorm _] => destruct b eqn:E end.
    + replace (nth (m + q) count 0 <=? 1) with false by lia. rewrite andb_false_r. reflexivity.
    + replace (nth (m + q) count 0 <=? 1) with true by lia. rewrite andb_true_r.
      unfold is_request_contiguous_loop3_inc at 1. ctg_st.
      assert (Hi : in_i32 (Z.of_nat (m + q) - 1) = true) by (apply in_i32_iff; unfold Zlen in Hn; lia).
      rewrite Hi. cbn [c_chk c_bind]. ctg_st.
      replace (Z.of_nat (m + q) - 1) with (Z.of_nat m + Z.of_nat q - 1) by lia.
      apply (IH f iv m); lia.
Qed.

(* the model's scan, by the number p of dimensions above most_sig that are still to be looked at *)
Definition scan_p (m p : nat) : bool :=
  contig_scan (rev (zip (firstn p (tl (skipn m count))) (firstn p (tl (skipn m shape)))))
              (firstn p (skipn m count)).

Lemma scan_p_S : forall m p, (S (m + p) < length count)%nat ->
  scan_p m (S p) =
  if nth (S (m + p)) count 0 <? nth (S (m + p)) shape 0
  then all_le1 (firstn (S p) (skipn m count)) else scan_p m p.
Proof.
  intros m p Hp. unfold scan_p. rewrite !gc_tl_skipn.
  assert (Hc : (p < length (skipn (S m) count))%nat) by (rewrite skipn_length; lia).
  assert (Hs : (p < length (skipn (S m) shape))%nat) by (rewrite skipn_length; lia).
  rewrite (gc_firstn_S _ (skipn (S m) count) p 0 Hc), (gc_firstn_S _ (skipn (S m) shape) p 0 Hs).
  rewrite gc_zip_snoc by (rewrite !firstn_length; lia).
  rewrite rev_unit. cbn [contig_scan].
  rewrite !gc_nth_skipn.
  replace (S m + p)%nat with (S (m + p)) by lia.
  destruct (nth (S (m + p)) count 0 <? nth (S (m + p)) shape 0); [reflexivity|].
  f_equal.
  assert (Hq : (p < length (skipn m count))%nat) by (rewrite skipn_length; lia).
  rewrite (gc_firstn_S _ (skipn m count) p 0 Hq). apply removelast_last.
Qed.

(* loop 2 (outer), followed by `return 1` *)
Lemma gc_loop2 : forall p fuel jv (m : nat),
  (m + p < length count)%nat -> (p < fuel)%nat ->
  c_bind (c_loop fuel (is_request_contiguous_loop2_cdef isr nrv nd (Some (shape, 0)) pstart (Some (count, 0)))
              (is_request_contiguous_loop2_cond isr nrv nd (Some (shape, 0)) pstart (Some (count, 0)))
              (is_request_contiguous_loop2_body isr nrv nd (Some (shape, 0)) pstart (Some (count, 0)))
              (is_request_contiguous_loop2_inc isr nrv nd (Some (shape, 0)) pstart (Some (count, 0)))
              (cst (Z.of_nat m + Z.of_nat p) jv (Z.of_nat m)))
         (fun _ => CRet 1)
  = CRet (b2z (scan_p m p)).
Proof.
  induction p as [|p IH]; intros fuel jv m Hp Hf.
  - destruct fuel as [|f]; [lia|].
    rewrite c_loop_exit;
      [ | reflexivity | unfold is_request_contiguous_loop2_cond, cst; ctg_st; lia ].
    reflexivity.
  - destruct fuel as [|f]; [lia|].
    rewrite scan_p_S by lia.
    rewrite c_loop_iter;
      [ | reflexivity | unfold is_request_contiguous_loop2_cond, cst; ctg_st; lia ].
    unfold is_request_contiguous_loop2_body at 1. unfold cst. ctg_st.
    replace (Z.of_nat m + Z.of_nat (S p)) with (Z.of_nat (S (m + p))) by lia.
    rewrite !gc_p_ok by lia. rewrite !gc_p_get. cbn [andb c_chk].
    destruct (nth (S (m + p)) count 0 <? nth (S (m + p)) shape 0) eqn:E.
    + assert (Hi : in_i32 (Z.of_nat (S (m + p)) - 1) = true) by (apply in_i32_iff; unfold Zlen in Hn; lia).
      rewrite Hi. cbn [c_chk c_bind]. ctg_st.
      replace (Z.of_nat (S (m + p)) - 1) with (Z.of_nat m + Z.of_nat (S p) - 1) by lia.
      pose proof (gc_loop3 (S p)
                   (is_request_contiguous_loop3_fuel isr nrv nd (Some (shape, 0)) pstart (Some (count, 0))
                      (cst (Z.of_nat (S (m + p))) (Z.of_nat m + Z.of_nat (S p) - 1) (Z.of_nat m)))
                   (Z.of_nat (S (m + p))) m) as H3.
      unfold cst in H3. rewrite H3; clear H3.
      * destruct (all_le1 (firstn (S p) (skipn m count))); reflexivity.
      * lia.
      * unfold is_request_contiguous_loop3_fuel, c_fuel_ge. ctg_st. lia.
    + unfold is_request_contiguous_loop2_inc at 1. ctg_st.
      assert (Hi : in_i32 (Z.of_nat (S (m + p)) - 1) = true) by (apply in_i32_iff; unfold Zlen in Hn; lia).
      rewrite Hi. cbn [c_chk c_bind]. ctg_st.
      replace (Z.of_nat (S (m + p)) - 1) with (Z.of_nat m + Z.of_nat p) by lia.
      apply (IH f jv m); lia.
Qed.
End Contig.

Theorem gen_is_contig_eq : forall isr nrv shape count pstart,
  length count = length shape -> Zlen shape <= 2147483647 ->
  is_request_contiguous_c isr nrv (Zlen shape) (Some (shape, 0)) pstart (Some (count, 0))
  = FVal (b2z (is_contig (z2b isr) nrv shape count)).
Proof.
  intros isr nrv shape count pstart Hlen Hn.
  unfold is_request_contiguous_c, is_request_contiguous_body, st_is_request_contiguous_init.
  destruct shape as [|sh0 shr]; [reflexivity|].
  destruct count as [|c0 cr]; [discriminate|].
  set (shape := sh0 :: shr) in *. set (count := c0 :: cr) in *.
  assert (Hnz : (Zlen shape =? 0) = false) by (unfold shape; rewrite cs_Zlen_cons; pose proof (cs_Zlen_nonneg _ shr); lia).
  rewrite Hnz. cbn [c_bind]. ctg_st.
  (* loop 1 *)
  rewrite (gc_loop1 isr nrv shape count pstart Hlen Hn (length count) 0 _ 0 0);
    [ | lia | unfold is_request_contiguous_loop1_fuel, c_fuel_lt; ctg_st; unfold Zlen; lia ].
  cbn [skipn]. unfold is_contig. fold shape.
  change (match shape with [] => true | _ :: _ => ?x end) with x.
  destruct (existsb (fun c : Z => c =? 0) count) eqn:Ez; cbn [c_bind]; [reflexivity|]. unfold cst. ctg_st.
  set (rc := z2b isr && (nrv >? 1)).
  set (m := if rc then 1%nat else 0%nat).
  match goal with |- c_fun (c_bind ?X _) = _ =>
    assert (H1 : X = if rc && (hd 0 count >? 1) then CRet 0 else CNorm (cst (Zlen shape) 0 (Z.of_nat m))) end.
  { unfold rc, m, cst, count. cbn [hd]. rewrite p_ok_cons0, p_get_some. cbn [Z.add znth Z.eqb c_chk].
    destruct (z2b isr); cbn [andb]; [|reflexivity].
    destruct (nrv >? 1); cbn [andb]; [|reflexivity].
    destruct (c0 >? 1); reflexivity. }
  rewrite H1. clear H1.
  destruct (rc && (hd 0 count >? 1)) eqn:Erc; cbn [c_bind]; [reflexivity|]. unfold cst. ctg_st.
  assert (Hn1 : 1 <= Zlen shape) by (unfold shape; rewrite cs_Zlen_cons; pose proof (cs_Zlen_nonneg _ shr); lia).
  assert (Hi : in_i32 (Zlen shape - 1) = true) by (apply in_i32_iff; lia).
  rewrite Hi. cbn [c_chk c_bind]. ctg_st.
  assert (Hlc : length count = Z.to_nat (Zlen shape)) by (rewrite Hlen; unfold Zlen; lia).
  destruct (Nat.le_gt_cases m (length count - 1)) as [Hm|Hm].
  - (* at least the dimension most_sig exists *)
    set (p := (length count - 1 - m)%nat).
    replace (Zlen shape - 1) with (Z.of_nat m + Z.of_nat p) by (unfold p, Zlen; rewrite <- Hlen; lia).
    pose proof (gc_loop2 isr nrv shape count pstart Hlen Hn p
                 (is_request_contiguous_loop2_fuel isr nrv (Zlen shape) (Some (shape, 0)) pstart (Some (count, 0))
                    (cst (Z.of_nat m + Z.of_nat p) 0 (Z.of_nat m))) 0 m) as H2.
    unfold cst in H2. rewrite H2; clear H2.
    + cbn [c_fun]. f_equal. f_equal. unfold scan_p.
      rewrite !gc_tl_skipn.
      rewrite (firstn_all2 (n := p) (skipn (S m) count)) by (rewrite skipn_length; unfold p; lia).
      rewrite (firstn_all2 (n := p) (skipn (S m) shape)) by (rewrite skipn_length, <- Hlen; unfold p; lia).
      rewrite (removelast_firstn_len (skipn m count)). rewrite skipn_length.
      replace (Nat.pred (length count - m)) with p by (unfold p; lia). reflexivity.
    + unfold p. lia.
    + unfold is_request_contiguous_loop2_fuel, c_fuel_gt. ctg_st. lia.
  - (* a record variable of a single dimension, several record variables: nothing above most_sig *)
    assert (Hm1 : m = 1%nat /\ length count = 1%nat).
    { unfold m in *. destruct rc; [|lia]. unfold count in *. cbn [length] in *. lia. }
    destruct Hm1 as [Hm1 Hl1]. 
    match goal with |- context [c_loop ?fu _ _ _ _ _] => destruct fu as [|f] eqn:Ef end.
    { unfold is_request_contiguous_loop2_fuel, c_fuel_gt in Ef. discriminate. }
    rewrite c_loop_exit;
      [ | reflexivity | unfold is_request_contiguous_loop2_cond; ctg_st; rewrite Hm1; unfold Zlen; rewrite <- Hlen, Hl1; reflexivity ].
    cbn [c_bind c_fun]. f_equal. rewrite Hm1.
    rewrite (gc_skipn_all _ count 1) by lia. rewrite (gc_skipn_all _ shape 1) by (rewrite <- Hlen; lia).
    reflexivity.
Qed.

Theorem gen_contig_subset_complete : tr_cfun_unsupported = [].
Proof. reflexivity. Qed.

Example gen_is_contig_ex :
  let shape := [0; 4; 6] in
  (length [1; 2; 6] = length shape /\ Zlen shape <= 2147483647) /\
  is_request_contiguous_c 1 1 3 (Some (shape, 0)) None (Some ([1; 2; 6], 0)) = FVal 1 /\
  is_request_contiguous_c 1 1 3 (Some (shape, 0)) None (Some ([2; 2; 6], 0)) = FVal 0 /\
  is_request_contiguous_c 1 2 3 (Some (shape, 0)) None (Some ([2; 4; 6], 0)) = FVal 0 /\
  is_request_contiguous_c 1 1 3 (Some (shape, 0)) None (Some ([2; 4; 6], 0)) = FVal 1 /\
  is_request_contiguous_c 0 0 3 (Some ([3; 4; 6], 0)) None (Some ([1; 1; 3], 0)) = FVal 1 /\
  is_request_contiguous_c 0 0 3 (Some ([3; 4; 6], 0)) None (Some ([1; 2; 3], 0)) = FVal 0.
Proof. cbv zeta. split; [split; [reflexivity | cbn; lia] | repeat split]. Qed.

Print Assumptions gen_is_contig_eq.
Print Assumptions gen_contig_subset_complete.
