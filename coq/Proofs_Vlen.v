(* Proofs_Vlen.v — "format size limits are enforced":
   ncmpio_NC_check_vlen (overflow-free product test) and ncmpio_NC_check_vlens (the
   CDF-1/2 "only the last variable may be large" rule), proved for all inputs. *)
From Pnc Require Import Base Gen_consts Header.
Require Import Lia ZArith ZifyBool List Bool.
Import ListNotations.
Local Open Scope Z_scope.

(* ------------------------------------------------------------------------- *)
(** * Small facts about zprod / Zlen                                           *)
(* ------------------------------------------------------------------------- *)

Lemma zprod_pos : forall l, Forall (fun s => 1 <= s) l -> 1 <= zprod l.
Proof.
  induction l as [|s r IH]; intros Hall; cbn [zprod].
  - lia.
  - inversion Hall as [|? ? Hs Hr]; subst. specialize (IH Hr). nia.
Qed.

Lemma Zlen_nil : forall A, Zlen (@nil A) = 0.
Proof. reflexivity. Qed.

Lemma Zlen_cons : forall A (a : A) l, Zlen (a :: l) = 1 + Zlen l.
Proof. intros. unfold Zlen. cbn [length]. lia. Qed.

Lemma Zlen_nonneg : forall A (l : list A), 0 <= Zlen l.
Proof. intros. unfold Zlen. lia. Qed.

Lemma Zlen_app : forall A (l1 l2 : list A), Zlen (l1 ++ l2) = Zlen l1 + Zlen l2.
Proof. intros. unfold Zlen. rewrite app_length. lia. Qed.

Lemma Zlen_zero_nil : forall A (l : list A), Zlen l = 0 <-> l = [].
Proof.
  intros A l. destruct l as [|a l].
  - split; reflexivity.
  - rewrite Zlen_cons. pose proof (Zlen_nonneg A l). split; [lia | discriminate].
Qed.

(* ------------------------------------------------------------------------- *)
(** * 1. The division loop decides  prod * zprod shape <= vlen_max              *)
(* ------------------------------------------------------------------------- *)

(* one step: for prod >= 1, the quotient test is exactly the product test *)
Lemma quot_test_exact : forall s prod vmax, 1 <= prod ->
  (s >? vmax / prod) = false <-> prod * s <= vmax.
Proof.
  intros s prod vmax Hp.
  assert (Hle : prod * (vmax / prod) <= vmax) by (apply Z.mul_div_le; lia).
  assert (Hgt : vmax < prod * Z.succ (vmax / prod)) by (apply Z.mul_succ_div_gt; lia).
  split; intros H.
  - assert (Hs : s <= vmax / prod) by lia.
    assert (prod * s <= prod * (vmax / prod)) by (apply Z.mul_le_mono_nonneg_l; lia).
    lia.
  - destruct (s >? vmax / prod) eqn:E; [|reflexivity]. exfalso.
    assert (Hs : Z.succ (vmax / prod) <= s) by lia.
    assert (prod * Z.succ (vmax / prod) <= prod * s) by (apply Z.mul_le_mono_nonneg_l; lia).
    lia.
Qed.

(* The hypothesis [shape <> [] \/ prod <= vmax] is needed: on the empty shape the loop
   answers true without looking at prod (see [check_vlen_loop_empty_shape_cex]). *)
Theorem check_vlen_loop_exact : forall shape prod vmax,
  1 <= prod -> 0 <= vmax -> Forall (fun s => 1 <= s) shape ->
  (shape <> [] \/ prod <= vmax) ->
  (check_vlen_loop shape prod vmax = true <-> prod * zprod shape <= vmax).
Proof.
  induction shape as [|s r IH]; intros prod vmax Hp Hv Hall Hne.
  - cbn [check_vlen_loop zprod]. destruct Hne as [Hne|Hle]; [congruence|].
    split; intros _; [lia | reflexivity].
  - inversion Hall as [|? ? Hs Hr]; subst.
    cbn [check_vlen_loop zprod].
    pose proof (zprod_pos r Hr) as Hzr.
    destruct (s >? vmax / prod) eqn:E.
    + (* rejected: prod * s > vmax already *)
      split; [discriminate|]. intros Hle. exfalso.
      assert (Hf : (s >? vmax / prod) = false).
      { apply quot_test_exact; [lia|]. nia. }
      congruence.
    + apply quot_test_exact in E; [|lia].
      rewrite Z.mul_assoc.
      apply IH; try assumption; nia.
Qed.

(* accepted  ==>  bound holds, no side condition on the shape being non-empty as long as
   the starting prod is itself within the bound *)
Corollary check_vlen_loop_sound : forall shape prod vmax,
  1 <= prod <= vmax -> Forall (fun s => 1 <= s) shape ->
  check_vlen_loop shape prod vmax = true -> prod * zprod shape <= vmax.
Proof.
  intros shape prod vmax Hp Hall H.
  apply check_vlen_loop_exact; try assumption; lia.
Qed.

(* The guard "all dims >= 1" IS needed.  With a 0 that is not the last dimension the loop
   multiplies prod down to 0, the next quotient is vmax / 0 (= 0 in Coq; a SIGFPE in C) and the
   loop rejects although the true product 0 is within the bound. *)
Example check_vlen_loop_zero_dim_cex :
  check_vlen_loop [0; 1] 1 10 = false /\ 1 * zprod [0; 1] <= 10.
Proof. split; vm_compute; [reflexivity | discriminate]. Qed.

(* ... but only completeness is lost: with dims >= 0 an accepted shape is still within the
   bound (the model's x / 0 = 0 makes the loop reject everything after prod hits 0 except
   further zeros; the C code would divide by zero there). *)
Theorem check_vlen_loop_sound_nonneg : forall shape prod vmax,
  0 <= prod <= vmax -> Forall (fun s => 0 <= s) shape ->
  check_vlen_loop shape prod vmax = true -> 0 <= prod * zprod shape <= vmax.
Proof.
  induction shape as [|s r IH]; intros prod vmax Hp Hall H; cbn [check_vlen_loop zprod] in *.
  - lia.
  - inversion Hall as [|? ? Hs Hr]; subst.
    destruct (s >? vmax / prod) eqn:E; [discriminate|].
    rewrite Z.mul_assoc. apply IH; try assumption.
    destruct (Z.eq_dec prod 0) as [H0|H0].
    + subst prod. lia.
    + apply quot_test_exact in E; [|lia]. nia.
Qed.

(* a 0 in LAST position is harmless *)
Example check_vlen_loop_zero_last_ok :
  check_vlen_loop [3; 0] 1 10 = true /\ 1 * zprod [3; 0] <= 10.
Proof. split; vm_compute; [reflexivity | discriminate]. Qed.

(* on the empty shape the loop does not test prod at all *)
Example check_vlen_loop_empty_shape_cex :
  check_vlen_loop [] 5 3 = true /\ ~ (5 * zprod [] <= 3).
Proof. split; [reflexivity | vm_compute; intros H; apply H; reflexivity]. Qed.

Example check_vlen_loop_exact_ex :
  check_vlen_loop [1000; 1000; 500] 4 (2^31 - 4) = true /\
  4 * zprod [1000; 1000; 500] <= 2^31 - 4 /\
  check_vlen_loop [1000; 1000; 600] 4 (2^31 - 4) = false /\
  ~ (4 * zprod [1000; 1000; 600] <= 2^31 - 4).
Proof.
  repeat split; try (vm_compute; reflexivity); try (vm_compute; discriminate).
  vm_compute. intros H; apply H; reflexivity.
Qed.

(* ------------------------------------------------------------------------- *)
(** * 3. No intermediate product exceeds vlen_max (no int64 overflow)           *)
(* ------------------------------------------------------------------------- *)

(* the products [prod *= shape[ii]] the C loop actually computes before it returns *)
Fixpoint check_vlen_loop_trace (shape : list Z) (prod vlen_max : Z) : list Z :=
  match shape with
  | [] => []
  | s :: r => if s >? vlen_max / prod then []
              else prod * s :: check_vlen_loop_trace r (prod * s) vlen_max
  end.

(* all running products of the shape *)
Fixpoint running_prods (shape : list Z) (prod : Z) : list Z :=
  match shape with
  | [] => []
  | s :: r => prod * s :: running_prods r (prod * s)
  end.

(* Invariant: whatever the loop answers, every product it computes is in [1, vmax];
   the divisor it uses is therefore never 0 either. *)
Theorem no_overflow_trace : forall shape prod vmax,
  1 <= prod -> Forall (fun s => 1 <= s) shape ->
  Forall (fun p => 1 <= p <= vmax) (check_vlen_loop_trace shape prod vmax).
Proof.
  induction shape as [|s r IH]; intros prod vmax Hp Hall; cbn [check_vlen_loop_trace].
  - constructor.
  - inversion Hall as [|? ? Hs Hr]; subst.
    destruct (s >? vmax / prod) eqn:E; [constructor|].
    apply quot_test_exact in E; [|lia].
    constructor; [nia|]. apply IH; [nia | assumption].
Qed.

(* when the loop accepts it has run to the end: the trace is the full list of products *)
Lemma accept_trace_full : forall shape prod vmax,
  check_vlen_loop shape prod vmax = true ->
  check_vlen_loop_trace shape prod vmax = running_prods shape prod.
Proof.
  induction shape as [|s r IH]; intros prod vmax H;
    cbn [check_vlen_loop check_vlen_loop_trace running_prods] in *.
  - reflexivity.
  - destruct (s >? vmax / prod) eqn:E; [discriminate|].
    f_equal. apply IH; assumption.
Qed.

Theorem no_overflow : forall shape prod vmax,
  1 <= prod -> Forall (fun s => 1 <= s) shape ->
  check_vlen_loop shape prod vmax = true ->
  Forall (fun p => 1 <= p <= vmax) (running_prods shape prod).
Proof.
  intros shape prod vmax Hp Hall H.
  rewrite <- (accept_trace_full _ _ _ H). apply no_overflow_trace; assumption.
Qed.

(* with vlen_max below 2^63 all computed products fit a signed 64-bit integer *)
Corollary no_overflow_int64 : forall shape prod vmax,
  1 <= prod -> vmax < 2^63 -> Forall (fun s => 1 <= s) shape ->
  Forall (fun p => 0 < p < 2^63) (check_vlen_loop_trace shape prod vmax).
Proof.
  intros shape prod vmax Hp Hv Hall.
  eapply Forall_impl; [|apply no_overflow_trace; eassumption].
  cbv beta. intros p Hpp. lia.
Qed.

Example no_overflow_ex :
  check_vlen_loop [3; 5; 7] 4 1000 = true /\ running_prods [3; 5; 7] 4 = [12; 60; 420] /\
  check_vlen_loop_trace [3; 50; 7] 4 1000 = [12; 600].
Proof. repeat split. Qed.

(* ------------------------------------------------------------------------- *)
(** * 2. check_vlen is exact                                                    *)
(* ------------------------------------------------------------------------- *)

(* the dimensions that take part in the product: all of them, minus a leading 0
   (the record dimension) *)
Definition non_record_dims (shape : list Z) : list Z :=
  match shape with
  | s0 :: r => if s0 =? 0 then r else shape
  | [] => []
  end.

(* a legal variable shape: only the leading dimension may be 0 (NC_UNLIMITED) *)
Definition legal_shape (shape : list Z) : Prop :=
  match shape with
  | [] => True
  | s0 :: r => 0 <= s0 /\ Forall (fun s => 1 <= s) r
  end.

Lemma var_nelems_per_rec_zprod : forall shape,
  var_nelems_per_rec shape = zprod (non_record_dims shape).
Proof.
  intros [|s0 r]; cbn [var_nelems_per_rec non_record_dims]; [reflexivity|].
  destruct (s0 =? 0); reflexivity.
Qed.

Lemma check_vlen_as_loop : forall xsz shape vmax,
  check_vlen xsz shape vmax = check_vlen_loop (non_record_dims shape) xsz vmax.
Proof.
  intros xsz [|s0 r] vmax; cbn [check_vlen non_record_dims]; [reflexivity|].
  destruct (s0 =? 0); reflexivity.
Qed.

Lemma legal_non_record_dims : forall shape, legal_shape shape ->
  Forall (fun s => 1 <= s) (non_record_dims shape).
Proof.
  intros [|s0 r] H; cbn [non_record_dims legal_shape] in *; [constructor|].
  destruct H as [H0 Hr]. destruct (s0 =? 0) eqn:E; [assumption|].
  constructor; [lia | assumption].
Qed.

(* [xsz <= vmax] is only needed for scalars / record variables with no inner dimension,
   where the C function answers "fits" without any test (xsz <= 8 < 2^31-4 in reality). *)
Theorem check_vlen_exact : forall xsz shape vmax,
  1 <= xsz <= vmax -> legal_shape shape ->
  (check_vlen xsz shape vmax = true <-> xsz * zprod (non_record_dims shape) <= vmax).
Proof.
  intros xsz shape vmax Hx Hl.
  rewrite check_vlen_as_loop.
  apply check_vlen_loop_exact; try lia.
  apply legal_non_record_dims; assumption.
Qed.

Corollary check_vlen_exact_nelems : forall xsz shape vmax,
  1 <= xsz <= vmax -> legal_shape shape ->
  (check_vlen xsz shape vmax = true <-> xsz * var_nelems_per_rec shape <= vmax).
Proof.
  intros. rewrite var_nelems_per_rec_zprod. apply check_vlen_exact; assumption.
Qed.

(* the same, for a variable of a header *)
Corollary check_vlen_exact_var : forall dims v vmax,
  1 <= xlen_type (v_type v) <= vmax -> legal_shape (var_shape dims v) ->
  (check_vlen (xlen_type (v_type v)) (var_shape dims v) vmax = true <->
   var_nelems_per_rec (var_shape dims v) * xlen_type (v_type v) <= vmax).
Proof.
  intros. rewrite Z.mul_comm. apply check_vlen_exact_nelems; assumption.
Qed.

(* no division by zero / overflow inside check_vlen either *)
Corollary check_vlen_no_overflow : forall xsz shape vmax,
  1 <= xsz -> legal_shape shape ->
  Forall (fun p => 1 <= p <= vmax)
         (check_vlen_loop_trace (non_record_dims shape) xsz vmax).
Proof.
  intros. apply no_overflow_trace; [assumption | apply legal_non_record_dims; assumption].
Qed.

Example check_vlen_exact_ex :
  legal_shape [0; 1024; 1024; 512] /\
  check_vlen 4 [0; 1024; 1024; 512] (2^31 - 4) = false /\
  check_vlen 4 [0; 1024; 1024; 511] (2^31 - 4) = true /\
  4 * zprod (non_record_dims [0; 1024; 1024; 511]) = 2143289344.
Proof.
  split; [|repeat split].
  cbn [legal_shape]. split; [lia|]. repeat constructor; lia.
Qed.

(* without [xsz <= vmax] the scalar case is not exact *)
Example check_vlen_scalar_cex : check_vlen 8 [] 3 = true /\ ~ (8 * zprod (non_record_dims []) <= 3).
Proof. split; [reflexivity | vm_compute; intros H; apply H; reflexivity]. Qed.

(* ------------------------------------------------------------------------- *)
(** * 5. The thresholds                                                         *)
(* ------------------------------------------------------------------------- *)

Theorem vlen_max_values :
  vlen_max_of 1 = 2147483644 /\            (* 2^31 - 4 *)
  vlen_max_of 2 = 4294967292 /\            (* 2^32 - 4 *)
  vlen_max_of 5 = 9223372036854775804.     (* 2^63 - 4 *)
Proof. repeat split. Qed.

Theorem vlen_max_values_pow :
  vlen_max_of 1 = 2^31 - 4 /\ vlen_max_of 2 = 2^32 - 4 /\ vlen_max_of 5 = 2^63 - 4.
Proof. repeat split. Qed.

(* every format: the threshold is one of the three, and below 2^63 *)
Lemma vlen_max_of_cases : forall fmt,
  vlen_max_of fmt = 2^31 - 4 \/ vlen_max_of fmt = 2^32 - 4 \/ vlen_max_of fmt = 2^63 - 4.
Proof.
  intros fmt. unfold vlen_max_of.
  destruct (fmt >=? 5); [right; right; reflexivity|].
  destruct (fmt =? 2); [right; left; reflexivity | left; reflexivity].
Qed.

Lemma vlen_max_of_range : forall fmt, 8 <= vlen_max_of fmt < 2^63.
Proof.
  intros fmt. destruct (vlen_max_of_cases fmt) as [H|[H|H]]; rewrite H; split;
    vm_compute; congruence.
Qed.

(* ------------------------------------------------------------------------- *)
(** * 4. check_vlens  <->  the declarative rule                                 *)
(* ------------------------------------------------------------------------- *)

Notation triple := (bool * Z * list Z)%type.    (* (is record var, xsz, shape) *)

Definition is_large (vmax : Z) (t : triple) : bool :=
  negb (check_vlen (snd (fst t)) (snd t) vmax).

Definition fixed_of (vs : list triple) : list triple := filter (fun t => negb (fst (fst t))) vs.
Definition rec_of (vs : list triple) : list triple := filter (fun t => fst (fst t)) vs.

Definition count_large (vmax : Z) (l : list triple) : Z := Zlen (filter (is_large vmax) l).

(* is the last element of l large (false on the empty list) *)
Definition last_is_large (vmax : Z) (l : list triple) : bool :=
  match rev l with [] => false | x :: _ => is_large vmax x end.

Definition all_small (vmax : Z) (l : list triple) : Prop :=
  Forall (fun t => is_large vmax t = false) l.

(* THE RULE, as a Prop over  vs = map (var_triple dims) vars  (definition order):
   - fmt >= 5 : no variable is large;
   - fmt <  5 : among the fixed variables at most one is large, and if one is, it is the
                last fixed variable and there is no record variable at all;
                among the record variables at most one is large and it is the last one. *)
Definition vlens_rule (fmt vmax : Z) (vs : list triple) : Prop :=
  let F := fixed_of vs in
  let R := rec_of vs in
  if fmt >=? 5 then all_small vmax vs
  else count_large vmax F <= 1
       /\ (count_large vmax F = 1 -> last_is_large vmax F = true /\ R = [])
       /\ count_large vmax R <= 1
       /\ (count_large vmax R = 1 -> last_is_large vmax R = true).

(* the same rule as a bool *)
Definition vlens_rule_b (fmt vmax : Z) (vs : list triple) : bool :=
  let F := fixed_of vs in
  let R := rec_of vs in
  if fmt >=? 5 then negb (existsb (is_large vmax) vs)
  else (count_large vmax F <=? 1)
       && (negb (count_large vmax F =? 1) || (last_is_large vmax F && (Zlen R =? 0)))
       && (count_large vmax R <=? 1)
       && (negb (count_large vmax R =? 1) || last_is_large vmax R).

Definition hdr_triples (h : hdr) : list triple := map (var_triple (h_dims h)) (h_vars h).

Definition check_vlens_rule (h : hdr) : Prop :=
  vlens_rule (h_format h) (vlen_max_of (h_format h)) (hdr_triples h).

(* ---- list facts ---- *)

Lemma count_large_nil : forall vmax, count_large vmax [] = 0.
Proof. reflexivity. Qed.

Lemma count_large_cons : forall vmax a l,
  count_large vmax (a :: l) = (if is_large vmax a then 1 else 0) + count_large vmax l.
Proof.
  intros. unfold count_large. cbn [filter].
  destruct (is_large vmax a); [rewrite Zlen_cons|]; lia.
Qed.

Lemma count_large_app : forall vmax l1 l2,
  count_large vmax (l1 ++ l2) = count_large vmax l1 + count_large vmax l2.
Proof. intros. unfold count_large. rewrite filter_app, Zlen_app. reflexivity. Qed.

Lemma count_large_nonneg : forall vmax l, 0 <= count_large vmax l.
Proof. intros. apply Zlen_nonneg. Qed.

Lemma count_large_zero_iff : forall vmax l, count_large vmax l = 0 <-> all_small vmax l.
Proof.
  intros vmax l. unfold all_small. induction l as [|a l IH].
  - split; intros; [constructor | reflexivity].
  - rewrite count_large_cons. pose proof (count_large_nonneg vmax l) as Hn.
    split.
    + intros H. destruct (is_large vmax a) eqn:E; [lia|].
      constructor; [assumption | apply IH; lia].
    + intros H. inversion H as [|? ? Ha Hl]; subst. rewrite Ha.
      apply IH in Hl. lia.
Qed.

Lemma existsb_false_iff : forall vmax l,
  existsb (is_large vmax) l = false <-> all_small vmax l.
Proof.
  intros vmax l. unfold all_small. induction l as [|a l IH]; cbn [existsb].
  - split; intros; [constructor | reflexivity].
  - split.
    + intros H. apply orb_false_iff in H. destruct H as [Ha Hl].
      constructor; [assumption | apply IH; assumption].
    + intros H. inversion H as [|? ? Ha Hl]; subst. rewrite Ha. cbn [orb].
      apply IH; assumption.
Qed.

Lemma existsb_split : forall vmax vs,
  existsb (is_large vmax) vs =
  existsb (is_large vmax) (fixed_of vs) || existsb (is_large vmax) (rec_of vs).
Proof.
  intros vmax vs. unfold fixed_of, rec_of. induction vs as [|a l IH]; [reflexivity|].
  cbn [existsb filter]. rewrite IH.
  destruct (fst (fst a)); cbn [negb existsb]; destruct (is_large vmax a); cbn [orb];
    try reflexivity.
  rewrite orb_true_r. reflexivity.
Qed.

Lemma all_small_split : forall vmax vs,
  all_small vmax vs <-> all_small vmax (fixed_of vs) /\ all_small vmax (rec_of vs).
Proof.
  intros vmax vs. rewrite <- !existsb_false_iff, existsb_split. apply orb_false_iff.
Qed.

Lemma last_is_large_snoc : forall vmax l x, last_is_large vmax (l ++ [x]) = is_large vmax x.
Proof. intros. unfold last_is_large. rewrite rev_unit. reflexivity. Qed.

(* accumulator form of "last examined was large" *)
Definition lastL (vmax : Z) (init : bool) (l : list triple) : bool :=
  fold_left (fun _ t => is_large vmax t) l init.

Lemma lastL_false : forall vmax l, lastL vmax false l = last_is_large vmax l.
Proof.
  intros vmax l. destruct l as [|x l'] using rev_ind.
  - reflexivity.
  - unfold lastL. rewrite fold_left_app. cbn [fold_left].
    rewrite last_is_large_snoc. reflexivity.
Qed.

(* ---- what one pass computes ---- *)

Definition sel (want_rec : bool) (vs : list triple) : list triple :=
  filter (fun t => Bool.eqb (fst (fst t)) want_rec) vs.

Lemma sel_false : forall vs, sel false vs = fixed_of vs.
Proof.
  intros. unfold sel, fixed_of. apply filter_ext. intros a. destruct (fst (fst a)); reflexivity.
Qed.

Lemma sel_true : forall vs, sel true vs = rec_of vs.
Proof.
  intros. unfold sel, rec_of. apply filter_ext. intros a. destruct (fst (fst a)); reflexivity.
Qed.

Lemma some3_eq : forall (a a' : Z) (b : bool) (c c' : Z),
  a = a' -> c = c' -> Some (a, b, c) = Some (a', b, c').
Proof. intros; subst; reflexivity. Qed.

Lemma vlens_pass_spec : forall fmt vmax vs w cnt last nsel,
  vlens_pass fmt vmax vs w cnt last nsel =
  if (fmt >=? 5) && existsb (is_large vmax) (sel w vs) then None
  else Some (cnt + count_large vmax (sel w vs), lastL vmax last (sel w vs),
             nsel + Zlen (sel w vs)).
Proof.
  intros fmt vmax vs w. induction vs as [|a l IH]; intros cnt last nsel.
  - cbn [vlens_pass sel filter existsb]. rewrite andb_false_r.
    rewrite count_large_nil, Zlen_nil, !Z.add_0_r. reflexivity.
  - destruct a as [[b x] sh]. unfold sel in *. cbn [vlens_pass filter fst snd].
    destruct (Bool.eqb b w) eqn:Ebw.
    + cbn [existsb]. rewrite count_large_cons, Zlen_cons.
      unfold lastL. cbn [fold_left].
      assert (Hil : is_large vmax (b, x, sh) = negb (check_vlen x sh vmax)) by reflexivity.
      rewrite !Hil.
      destruct (check_vlen x sh vmax) eqn:Ecv; cbn [negb orb].
      * rewrite IH. unfold lastL.
        destruct ((fmt >=? 5) && existsb (is_large vmax) _); [reflexivity|].
        apply some3_eq; lia.
      * destruct (fmt >=? 5) eqn:Ef; cbn [andb]; [reflexivity|].
        rewrite IH. cbn [andb]. unfold lastL.
        apply some3_eq; lia.
    + apply IH.
Qed.

(* ---- check_vlens as a function of the triples ---- *)

Definition check_vlens_body (fmt vmax : Z) (vs : list triple) : Z :=
  match vlens_pass fmt vmax vs false 0 false 0 with
  | None => NC_EVARSIZE
  | Some (lf, lastf, _) =>
      if lf >? 1 then NC_EVARSIZE
      else if (lf =? 1) && negb lastf then NC_EVARSIZE
      else
        let nrec := Zlen (filter (fun t : triple => fst (fst t)) vs) in
        if nrec =? 0 then NC_NOERR
        else if lf =? 1 then NC_EVARSIZE
        else match vlens_pass fmt vmax vs true 0 false 0 with
             | None => NC_EVARSIZE
             | Some (lr, lastr, _) =>
                 if lr >? 1 then NC_EVARSIZE
                 else if (lr =? 1) && negb lastr then NC_EVARSIZE
                 else NC_NOERR
             end
  end.

Lemma check_vlens_unfold : forall h,
  check_vlens h = check_vlens_body (h_format h) (vlen_max_of (h_format h)) (hdr_triples h).
Proof.
  intros h. unfold check_vlens, hdr_triples.
  destruct (map (var_triple (h_dims h)) (h_vars h)) as [|t l]; reflexivity.
Qed.

Lemma check_vlens_body_spec : forall fmt vmax vs,
  check_vlens_body fmt vmax vs = if vlens_rule_b fmt vmax vs then NC_NOERR else NC_EVARSIZE.
Proof.
  intros fmt vmax vs. unfold check_vlens_body, vlens_rule_b.
  rewrite !vlens_pass_spec, sel_false, sel_true, !lastL_false, !Z.add_0_l.
  fold (rec_of vs).
  pose proof (count_large_nonneg vmax (fixed_of vs)) as HnF.
  pose proof (count_large_nonneg vmax (rec_of vs)) as HnR.
  destruct (fmt >=? 5) eqn:Ef; cbn [andb].
  - (* CDF-5: any large variable is fatal *)
    rewrite (existsb_split vmax vs).
    destruct (existsb (is_large vmax) (fixed_of vs)) eqn:EF; cbn [orb negb]; [reflexivity|].
    assert (HcF : count_large vmax (fixed_of vs) = 0)
      by (apply count_large_zero_iff, existsb_false_iff; assumption).
    rewrite HcF. change (0 >? 1) with false. change (0 =? 1) with false. cbn [andb].
    destruct (Zlen (rec_of vs) =? 0) eqn:EnR.
    + assert (HR : rec_of vs = []) by (apply Zlen_zero_nil; lia).
      rewrite HR. reflexivity.
    + destruct (existsb (is_large vmax) (rec_of vs)) eqn:ER; cbn [negb]; [reflexivity|].
      assert (HcR : count_large vmax (rec_of vs) = 0)
        by (apply count_large_zero_iff, existsb_false_iff; assumption).
      rewrite HcR. reflexivity.
  - (* CDF-1/2 *)
    set (cF := count_large vmax (fixed_of vs)) in *.
    set (cR := count_large vmax (rec_of vs)) in *.
    set (lF := last_is_large vmax (fixed_of vs)).
    set (lR := last_is_large vmax (rec_of vs)).
    set (nR := Zlen (rec_of vs)).
    destruct (cF >? 1) eqn:E1.
    { assert (H : (cF <=? 1) = false) by lia. rewrite H. reflexivity. }
    assert (H1 : (cF <=? 1) = true) by lia. rewrite H1. cbn [andb].
    destruct (cF =? 1) eqn:E2; cbn [andb negb orb].
    { destruct lF; cbn [negb andb]; [|reflexivity].
      destruct (nR =? 0) eqn:E3; cbn [andb]; [|reflexivity].
      (* one large fixed variable, last, no record variables *)
      assert (HR : rec_of vs = []) by (apply Zlen_zero_nil; subst nR; lia).
      subst cR lR. rewrite HR. reflexivity. }
    destruct (nR =? 0) eqn:E3.
    { assert (HR : rec_of vs = []) by (apply Zlen_zero_nil; subst nR; lia).
      subst cR lR. rewrite HR. reflexivity. }
    destruct (cR >? 1) eqn:E4.
    { assert (H : (cR <=? 1) = false) by lia. rewrite H. reflexivity. }
    assert (H4 : (cR <=? 1) = true) by lia. rewrite H4. cbn [andb].
    destruct (cR =? 1) eqn:E5; cbn [andb negb orb]; [|reflexivity].
    destruct lR; reflexivity.
Qed.

Lemma vlens_rule_b_iff : forall fmt vmax vs,
  vlens_rule_b fmt vmax vs = true <-> vlens_rule fmt vmax vs.
Proof.
  intros fmt vmax vs. unfold vlens_rule_b, vlens_rule.
  destruct (fmt >=? 5).
  - rewrite negb_true_iff. apply existsb_false_iff.
  - pose proof (Zlen_zero_nil _ (rec_of vs)) as HR.
    set (cF := count_large vmax (fixed_of vs)) in *.
    set (cR := count_large vmax (rec_of vs)) in *.
    destruct (last_is_large vmax (fixed_of vs));
    destruct (last_is_large vmax (rec_of vs));
    destruct (Zlen (rec_of vs) =? 0) eqn:E3.
    all: split; [intros H; repeat split; try lia; intros; try reflexivity; try (apply HR; lia); try lia
                | intros (Ha & Hb & Hc & Hd)].
    all: try (destruct (Z.eq_dec cF 1) as [e|e];
              [destruct (Hb e) as [Hb1 Hb2]; apply HR in Hb2; try discriminate; try lia | ]);
         try (destruct (Z.eq_dec cR 1) as [e'|e'];
              [specialize (Hd e'); try discriminate; try lia | ]);
         try lia.
Qed.

Lemma NC_NOERR_ne_EVARSIZE : NC_NOERR <> NC_EVARSIZE.
Proof. vm_compute. discriminate. Qed.

Theorem check_vlens_iff_rule : forall h,
  check_vlens h = NC_NOERR <-> check_vlens_rule h.
Proof.
  intros h. rewrite check_vlens_unfold, check_vlens_body_spec.
  unfold check_vlens_rule. rewrite <- vlens_rule_b_iff.
  destruct (vlens_rule_b _ _ _).
  - split; reflexivity.
  - split; [|discriminate]. intros H. symmetry in H. apply NC_NOERR_ne_EVARSIZE in H. contradiction.
Qed.

Theorem check_vlens_two_values : forall h,
  check_vlens h = NC_NOERR \/ check_vlens h = NC_EVARSIZE.
Proof.
  intros h. rewrite check_vlens_unfold, check_vlens_body_spec.
  destruct (vlens_rule_b _ _ _); [left | right]; reflexivity.
Qed.

Corollary check_vlens_reject_iff : forall h,
  check_vlens h = NC_EVARSIZE <-> ~ check_vlens_rule h.
Proof.
  intros h. rewrite <- check_vlens_iff_rule.
  pose proof NC_NOERR_ne_EVARSIZE as Hne.
  destruct (check_vlens_two_values h) as [H|H]; rewrite H; split; intros H'.
  - exfalso. apply Hne. assumption.
  - exfalso. apply H'. reflexivity.
  - intros H''. apply Hne. symmetry. assumption.
  - reflexivity.
Qed.

(* ---- an equivalent, count-free reading of the rule ---- *)

(* "at most one is large and it must be the last"  ==  "all but the last are small" *)
Lemma only_last_large_iff : forall vmax l,
  (count_large vmax l <= 1 /\ (count_large vmax l = 1 -> last_is_large vmax l = true))
  <-> all_small vmax (removelast l).
Proof.
  intros vmax l. destruct l as [|x l'] using rev_ind.
  - cbn [removelast]. rewrite count_large_nil. split; [intros; constructor | intros; lia].
  - clear IHl'. rewrite removelast_last, count_large_app, last_is_large_snoc, count_large_cons,
      count_large_nil, <- count_large_zero_iff.
    pose proof (count_large_nonneg vmax l').
    destruct (is_large vmax x); split; intros H0.
    + destruct H0 as [H1 _]. lia.
    + split; [lia | intros _; reflexivity].
    + destruct H0 as [H1 H2].
      destruct (Z.eq_dec (count_large vmax l') 0) as [e|e]; [assumption|].
      assert (Hc : count_large vmax l' + (0 + 0) = 1) by lia. specialize (H2 Hc). discriminate.
    + split; [lia | intros Hc; exfalso; lia].
Qed.

Definition vlens_rule' (fmt vmax : Z) (vs : list triple) : Prop :=
  let F := fixed_of vs in
  let R := rec_of vs in
  if fmt >=? 5 then all_small vmax vs
  else all_small vmax (removelast F)          (* only the last fixed variable may be large *)
       /\ all_small vmax (removelast R)       (* only the last record variable may be large *)
       /\ (R <> [] -> all_small vmax F).      (* with record variables present, no fixed one may *)

Lemma vlens_rule_iff_rule' : forall fmt vmax vs,
  vlens_rule fmt vmax vs <-> vlens_rule' fmt vmax vs.
Proof.
  intros fmt vmax vs. unfold vlens_rule, vlens_rule'.
  destruct (fmt >=? 5); [reflexivity|].
  rewrite <- !only_last_large_iff, <- count_large_zero_iff.
  pose proof (count_large_nonneg vmax (fixed_of vs)).
  split.
  - intros (Ha & Hb & Hc & Hd). repeat split; try assumption.
    + intros e. apply Hb; assumption.
    + intros Hne. destruct (Z.eq_dec (count_large vmax (fixed_of vs)) 1) as [e|e]; [|lia].
      destruct (Hb e) as [_ HR]. contradiction.
  - intros ((Ha & Hb) & (Hc & Hd) & He). repeat split; try assumption.
    + apply Hb; assumption.
    + destruct (rec_of vs) as [|r R] eqn:ER; [reflexivity|].
      assert (Hne : r :: R <> []) by discriminate. specialize (He Hne). lia.
Qed.

Corollary check_vlens_iff_rule' : forall h,
  check_vlens h = NC_NOERR <->
  vlens_rule' (h_format h) (vlen_max_of (h_format h)) (hdr_triples h).
Proof. intros h. rewrite check_vlens_iff_rule. apply vlens_rule_iff_rule'. Qed.

(* ---- "large" means what it should, for legal variables ---- *)

Lemma is_large_exact : forall vmax b xsz shape,
  1 <= xsz <= vmax -> legal_shape shape ->
  (is_large vmax (b, xsz, shape) = true <-> vmax < xsz * var_nelems_per_rec shape).
Proof.
  intros vmax b xsz shape Hx Hl. unfold is_large. cbn [fst snd].
  pose proof (check_vlen_exact_nelems xsz shape vmax Hx Hl) as He.
  destruct (check_vlen xsz shape vmax); cbn [negb]; split; intros H; try discriminate; try reflexivity.
  - assert (xsz * var_nelems_per_rec shape <= vmax) by (apply He; reflexivity). lia.
  - destruct (Z_le_gt_dec (xsz * var_nelems_per_rec shape) vmax) as [Hle|Hgt]; [|lia].
    apply He in Hle. discriminate.
Qed.

(* ---- examples ---- *)

Definition ex_dims : list dim :=
  [mkdim [116] 0; mkdim [120] 1024; mkdim [121] 1024; mkdim [122] 1024].
Definition ex_var (nm : Z) (ids : list Z) (t : Z) : var := mkvar [nm] ids [] t 0 false.

(* CDF-1: two fixed variables, the last one of 2^30 floats = 4 GiB is large: accepted *)
Definition ex_h1 : hdr :=
  mkhdr 1 0 ex_dims [] [ex_var 97 [1; 2] 5; ex_var 98 [1; 2; 3] 5].
(* the large one is not last: rejected *)
Definition ex_h2 : hdr :=
  mkhdr 1 0 ex_dims [] [ex_var 98 [1; 2; 3] 5; ex_var 97 [1; 2] 5].
(* a large last fixed variable together with a record variable: rejected *)
Definition ex_h3 : hdr :=
  mkhdr 1 0 ex_dims [] [ex_var 98 [1; 2; 3] 5; ex_var 99 [0; 1] 5].
(* small fixed, small record, large LAST record: accepted *)
Definition ex_h4 : hdr :=
  mkhdr 2 0 ex_dims [] [ex_var 97 [1; 2] 5; ex_var 99 [0; 1] 5; ex_var 100 [0; 1; 2; 3] 6].
(* same in CDF-5: nothing is large there *)
Definition ex_h5 : hdr :=
  mkhdr 5 0 ex_dims [] [ex_var 98 [1; 2; 3] 5; ex_var 99 [0; 1] 5; ex_var 100 [0; 1; 2; 3] 6].

Example check_vlens_ex :
  check_vlens ex_h1 = NC_NOERR /\ check_vlens ex_h2 = NC_EVARSIZE /\
  check_vlens ex_h3 = NC_EVARSIZE /\ check_vlens ex_h4 = NC_NOERR /\
  check_vlens ex_h5 = NC_NOERR /\
  check_vlens (mkhdr 1 0 [] [] []) = NC_NOERR.
Proof. repeat split. Qed.

Example check_vlens_rule_ex : check_vlens_rule ex_h1 /\ check_vlens_rule ex_h4 /\ ~ check_vlens_rule ex_h3.
Proof.
  split; [|split].
  - apply check_vlens_iff_rule. reflexivity.
  - apply check_vlens_iff_rule. reflexivity.
  - intros H. apply check_vlens_iff_rule in H. vm_compute in H. discriminate.
Qed.

Example count_large_ex :
  count_large (vlen_max_of 1) (fixed_of (hdr_triples ex_h3)) = 1 /\
  last_is_large (vlen_max_of 1) (fixed_of (hdr_triples ex_h3)) = true /\
  rec_of (hdr_triples ex_h3) <> [].
Proof. repeat split. vm_compute. discriminate. Qed.

Print Assumptions check_vlen_loop_exact.
Print Assumptions check_vlen_loop_sound_nonneg.
Print Assumptions check_vlen_exact.
Print Assumptions check_vlen_exact_nelems.
Print Assumptions no_overflow.
Print Assumptions no_overflow_trace.
Print Assumptions check_vlens_iff_rule.
Print Assumptions check_vlens_iff_rule'.
Print Assumptions check_vlens_two_values.
Print Assumptions check_vlens_reject_iff.
Print Assumptions vlen_max_values.
