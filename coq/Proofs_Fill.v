(* Proofs_Fill.v — "fill-value semantics": the per-rank partition of a variable at enddef
   (fill_share), the write plan (fill_plan) and its effect on the disk (do_fill).
   All statements hold for every number of processes / variable length / header. *)
From Pnc Require Import Base Gen_consts Header Data Disk Fill.
Require Import Lia ZArith ZifyBool List Bool.
Import ListNotations.
Local Open Scope Z_scope.

(* ------------------------------------------------------------------------- *)
(** * 0. List utilities (Z-indexed)                                             *)
(* ------------------------------------------------------------------------- *)

Lemma fl_Zlen_nil : forall A, Zlen (@nil A) = 0.
Proof. reflexivity. Qed.

Lemma fl_Zlen_cons : forall A (a : A) l, Zlen (a :: l) = 1 + Zlen l.
Proof. intros. unfold Zlen. cbn [length]. lia. Qed.

Lemma fl_Zlen_nonneg : forall A (l : list A), 0 <= Zlen l.
Proof. intros. unfold Zlen. lia. Qed.

Lemma fl_Zlen_app : forall A (l1 l2 : list A), Zlen (l1 ++ l2) = Zlen l1 + Zlen l2.
Proof. intros. unfold Zlen. rewrite app_length. lia. Qed.

Lemma In_zseq : forall n lo x, In x (zseq lo n) <-> lo <= x < lo + Z.of_nat n.
Proof.
  induction n as [|n IH]; intros lo x; cbn [zseq In].
  - lia.
  - rewrite IH. lia.
Qed.

Lemma In_zrange : forall lo len x, In x (zrange lo len) <-> lo <= x < lo + len.
Proof.
  intros lo len x. unfold zrange. rewrite In_zseq.
  destruct (Z_le_gt_dec 0 len) as [H|H].
  - rewrite Z2Nat.id by assumption. reflexivity.
  - replace (Z.to_nat len) with O by lia. lia.
Qed.

Lemma zseq_length : forall n lo, length (zseq lo n) = n.
Proof. induction n as [|n IH]; intros lo; cbn [zseq length]; [reflexivity | rewrite IH; reflexivity]. Qed.

Lemma Zlen_zrange : forall lo len, Zlen (zrange lo len) = Z.max 0 len.
Proof. intros. unfold Zlen, zrange. rewrite zseq_length. lia. Qed.

Lemma znth_app : forall A (a b : list A) i d, 0 <= i ->
  znth (a ++ b) i d = if i <? Zlen a then znth a i d else znth b (i - Zlen a) d.
Proof.
  induction a as [|x a IH]; intros b i d Hi.
  - rewrite fl_Zlen_nil. cbn [app]. destruct (i <? 0) eqn:E; [lia|]. f_equal. lia.
  - rewrite fl_Zlen_cons. cbn [app znth]. pose proof (fl_Zlen_nonneg A a) as Hn.
    destruct (i =? 0) eqn:E0.
    + destruct (i <? 1 + Zlen a) eqn:E1; [reflexivity | lia].
    + rewrite IH by lia.
      destruct (i - 1 <? Zlen a) eqn:E1; destruct (i <? 1 + Zlen a) eqn:E2; try lia.
      * reflexivity.
      * f_equal. lia.
Qed.

Lemma map_zseq_eq : forall A (f : Z -> A) (l : list A) lo d,
  (forall j, 0 <= j < Zlen l -> f (lo + j) = znth l j d) ->
  map f (zseq lo (length l)) = l.
Proof.
  intros A f l. induction l as [|x l IH]; intros lo d H; cbn [length zseq map].
  - reflexivity.
  - rewrite fl_Zlen_cons in H. pose proof (fl_Zlen_nonneg A l) as Hn. f_equal.
    + specialize (H 0). rewrite Z.add_0_r in H. cbn [znth] in H.
      change (0 =? 0) with true in H. cbv iota in H. apply H. lia.
    + apply (IH (lo + 1) d). intros j Hj.
      replace (lo + 1 + j) with (lo + (j + 1)) by lia.
      rewrite H by lia.
      cbn [znth]. destruct (j + 1 =? 0) eqn:E; [lia|]. f_equal. lia.
Qed.

Lemma map_zrange_eq : forall A (f : Z -> A) (l : list A) lo d,
  (forall j, 0 <= j < Zlen l -> f (lo + j) = znth l j d) ->
  map f (zrange lo (Zlen l)) = l.
Proof.
  intros A f l lo d H. unfold zrange. unfold Zlen at 1. rewrite Nat2Z.id.
  apply (map_zseq_eq A f l lo d H).
Qed.

Lemma fold_left_flat_map : forall A B C (g : A -> C -> A) (f : B -> list C) (l : list B) (init : A),
  fold_left (fun acc b => fold_left g (f b) acc) l init = fold_left g (flat_map f l) init.
Proof.
  intros A B C g f l. induction l as [|b l IH]; intros init; cbn [fold_left flat_map].
  - reflexivity.
  - rewrite fold_left_app. apply IH.
Qed.

(* ------------------------------------------------------------------------- *)
(** * 1. fill_share is a partition of [0, var_len) into nprocs consecutive runs  *)
(* ------------------------------------------------------------------------- *)

Definition share_start (np L r : Z) : Z := fst (fill_share np r L).
Definition share_count (np L r : Z) : Z := snd (fill_share np r L).

(* element e belongs to rank r's share *)
Definition in_share (np L r e : Z) : Prop :=
  share_start np L r <= e < share_start np L r + share_count np L r.

Lemma fill_share_closed : forall np r L,
  fill_share np r L =
  (L / np * r + Z.min r (L mod np), L / np + (if r <? L mod np then 1 else 0)).
Proof.
  intros np r L. unfold fill_share. cbv zeta.
  destruct (r <? L mod np) eqn:E; f_equal; lia.
Qed.

Lemma share_divmod : forall np L, 1 <= np -> 0 <= L ->
  exists c m, L / np = c /\ L mod np = m /\ 0 <= c /\ 0 <= m < np /\ L = np * c + m.
Proof.
  intros np L Hnp HL. exists (L / np), (L mod np).
  repeat split; try reflexivity.
  - apply Z.div_pos; lia.
  - apply Z.mod_pos_bound; lia.
  - apply Z.mod_pos_bound; lia.
  - apply Z.div_mod; lia.
Qed.

Lemma share_start_eq : forall np L r,
  share_start np L r = L / np * r + Z.min r (L mod np).
Proof. intros. unfold share_start. rewrite fill_share_closed. reflexivity. Qed.

Lemma share_count_eq : forall np L r,
  share_count np L r = L / np + (if r <? L mod np then 1 else 0).
Proof. intros. unfold share_count. rewrite fill_share_closed. reflexivity. Qed.

Lemma share_count_nonneg : forall np L r, 1 <= np -> 0 <= L -> 0 <= share_count np L r.
Proof.
  intros np L r Hnp HL. rewrite share_count_eq.
  destruct (share_divmod np L Hnp HL) as (c & m & Hc & Hm & Hc0 & Hm0 & HLe).
  rewrite Hc, Hm. destruct (r <? m); lia.
Qed.

Lemma share_start_0 : forall np L, 1 <= np -> 0 <= L -> share_start np L 0 = 0.
Proof.
  intros np L Hnp HL. rewrite share_start_eq.
  destruct (share_divmod np L Hnp HL) as (c & m & Hc & Hm & Hc0 & Hm0 & HLe).
  rewrite Hc, Hm. lia.
Qed.

Lemma share_start_succ : forall np L r,
  share_start np L (r + 1) = share_start np L r + share_count np L r.
Proof.
  intros np L r. rewrite !share_start_eq, share_count_eq.
  destruct (r <? L mod np) eqn:E; lia.
Qed.

Lemma share_start_np : forall np L, 1 <= np -> 0 <= L -> share_start np L np = L.
Proof.
  intros np L Hnp HL. rewrite share_start_eq.
  destruct (share_divmod np L Hnp HL) as (c & m & Hc & Hm & Hc0 & Hm0 & HLe).
  rewrite Hc, Hm. lia.
Qed.

Lemma share_start_mono : forall np L r1 r2, 1 <= np -> 0 <= L -> r1 <= r2 ->
  share_start np L r1 <= share_start np L r2.
Proof.
  intros np L r1 r2 Hnp HL Hr. rewrite !share_start_eq.
  destruct (share_divmod np L Hnp HL) as (c & m & Hc & Hm & Hc0 & Hm0 & HLe).
  rewrite Hc, Hm.
  assert (c * r1 <= c * r2) by (apply Z.mul_le_mono_nonneg_l; lia). lia.
Qed.

Theorem fill_share_partition : forall nprocs var_len, 1 <= nprocs -> 0 <= var_len ->
  (forall r, 0 <= snd (fill_share nprocs r var_len)) /\
  fst (fill_share nprocs 0 var_len) = 0 /\
  (forall r, 0 <= r < nprocs - 1 ->
     fst (fill_share nprocs (r + 1) var_len) =
     fst (fill_share nprocs r var_len) + snd (fill_share nprocs r var_len)) /\
  fst (fill_share nprocs (nprocs - 1) var_len) + snd (fill_share nprocs (nprocs - 1) var_len)
    = var_len.
Proof.
  intros np L Hnp HL. repeat split.
  - intros r. apply (share_count_nonneg np L r Hnp HL).
  - apply (share_start_0 np L Hnp HL).
  - intros r _. apply (share_start_succ np L r).
  - fold (share_start np L (np - 1)). fold (share_count np L (np - 1)).
    rewrite <- share_start_succ. replace (np - 1 + 1) with np by lia.
    apply share_start_np; assumption.
Qed.

(* every share lies inside [0, var_len) *)
Lemma share_inside : forall np L r, 1 <= np -> 0 <= L -> 0 <= r < np ->
  0 <= share_start np L r /\ share_start np L r + share_count np L r <= L.
Proof.
  intros np L r Hnp HL Hr. split.
  - rewrite <- (share_start_0 np L Hnp HL). apply share_start_mono; lia.
  - rewrite <- share_start_succ. rewrite <- (share_start_np np L Hnp HL) at 2.
    apply share_start_mono; lia.
Qed.

Lemma share_exists_nat : forall np L e (n : nat), 1 <= np -> 0 <= L ->
  0 <= e < share_start np L (Z.of_nat n) ->
  exists r, 0 <= r < Z.of_nat n /\ in_share np L r e.
Proof.
  intros np L e n Hnp HL. induction n as [|n IH]; intros He.
  - cbn [Z.of_nat] in He. rewrite share_start_0 in He by assumption. lia.
  - rewrite Nat2Z.inj_succ in *. unfold Z.succ in *.
    rewrite share_start_succ in He.
    destruct (Z_lt_ge_dec e (share_start np L (Z.of_nat n))) as [Hlt|Hge].
    + destruct (IH (conj (proj1 He) Hlt)) as (r & Hr & Hin). exists r. split; [lia | assumption].
    + exists (Z.of_nat n). split; [lia|]. unfold in_share. lia.
Qed.

Lemma share_unique : forall np L e r1 r2, 1 <= np -> 0 <= L ->
  in_share np L r1 e -> in_share np L r2 e -> r1 = r2.
Proof.
  intros np L e r1 r2 Hnp HL H1 H2. unfold in_share in *.
  destruct (Z.lt_trichotomy r1 r2) as [Hlt|[Heq|Hgt]]; [exfalso | assumption | exfalso].
  - pose proof (share_start_mono np L (r1 + 1) r2 Hnp HL ltac:(lia)) as Hm.
    rewrite share_start_succ in Hm. lia.
  - pose proof (share_start_mono np L (r2 + 1) r1 Hnp HL ltac:(lia)) as Hm.
    rewrite share_start_succ in Hm. lia.
Qed.

Theorem fill_share_exact_cover : forall nprocs var_len, 1 <= nprocs -> 0 <= var_len ->
  (* every share is inside [0, var_len) *)
  (forall r, 0 <= r < nprocs ->
     0 <= fst (fill_share nprocs r var_len) /\
     fst (fill_share nprocs r var_len) + snd (fill_share nprocs r var_len) <= var_len) /\
  (* every element is in exactly one share *)
  (forall e, 0 <= e < var_len ->
     exists r, (0 <= r < nprocs /\
                fst (fill_share nprocs r var_len) <= e <
                fst (fill_share nprocs r var_len) + snd (fill_share nprocs r var_len)) /\
               forall r', 0 <= r' < nprocs ->
                 fst (fill_share nprocs r' var_len) <= e <
                 fst (fill_share nprocs r' var_len) + snd (fill_share nprocs r' var_len) ->
                 r' = r).
Proof.
  intros np L Hnp HL. split.
  - intros r Hr. apply (share_inside np L r Hnp HL Hr).
  - intros e He.
    destruct (share_exists_nat np L e (Z.to_nat np) Hnp HL) as (r & Hr & Hin).
    { rewrite Z2Nat.id by lia. rewrite share_start_np by assumption. lia. }
    rewrite Z2Nat.id in Hr by lia.
    exists r. split; [split; [assumption | exact Hin]|].
    intros r' _ Hin'. apply (share_unique np L e r' r Hnp HL Hin' Hin).
Qed.

(* a negative length gives no positive count (so nothing is written) *)
Lemma share_count_neg_len : forall np L r, 1 <= np -> L < 0 -> share_count np L r <= 0.
Proof.
  intros np L r Hnp HL. rewrite share_count_eq.
  assert (L / np < 0) by (apply Z.div_lt_upper_bound; lia).
  destruct (r <? L mod np); lia.
Qed.

Example fill_share_3_7 :
  map (fun r => fill_share 3 r 7) [0; 1; 2] = [(0, 3); (3, 2); (5, 2)].
Proof. vm_compute. reflexivity. Qed.

Example fill_share_4_2 :   (* more ranks than elements: trailing ranks get empty shares *)
  map (fun r => fill_share 4 r 2) [0; 1; 2; 3] = [(0, 1); (1, 1); (2, 0); (2, 0)].
Proof. vm_compute. reflexivity. Qed.

(* ------------------------------------------------------------------------- *)
(** * 2. The write plan                                                         *)
(* ------------------------------------------------------------------------- *)

Definition nelems (h : hdr) (v : var) : Z := var_nelems_per_rec (var_shape (h_dims h) v).
Definition vxsz (v : var) : Z := xlen_type (v_type v).

(* exact description of the members of a rank's plan *)
Theorem fill_plan_in_iff : forall h lay sv nrecs np r off c v,
  In (off, c, v) (fill_plan h lay sv nrecs np r) <->
  In v (zskipn sv (h_vars h)) /\ v_nofill v = false /\
  c = share_count np (nelems h v) r /\
  ( (is_recvar (h_dims h) v = false /\
     off = v_begin v + share_start np (nelems h v) r * vxsz v)
    \/
    (is_recvar (h_dims h) v = true /\
     exists recno, 0 <= recno < nrecs /\
       off = v_begin v + l_recsize lay * recno + share_start np (nelems h v) r * vxsz v) ).
Proof.
  intros h lay sv nrecs np r off c v.
  unfold fill_plan, share_start, share_count, nelems, vxsz. cbv zeta.
  rewrite in_app_iff, !in_flat_map. split.
  - intros [ (v' & Hv' & Hin) | (recno & Hrn & Hin) ].
    2: apply in_flat_map in Hin; destruct Hin as (v' & Hv' & Hin).
    + apply filter_In in Hv'. destruct Hv' as [Hnew Hfm].
      destruct (is_recvar (h_dims h) v') eqn:Erec; [destruct Hin|].
      destruct (fill_share np r (var_nelems_per_rec (var_shape (h_dims h) v'))) as [st cnt] eqn:Efs.
      destruct Hin as [Heq|[]]. inversion Heq; subst.
      rewrite Efs. cbn [fst snd].
      repeat split; try assumption.
      * destruct (v_nofill v); [discriminate | reflexivity].
      * left. split; [assumption | reflexivity].
    + apply filter_In in Hv'. destruct Hv' as [Hnew Hfm].
      destruct (is_recvar (h_dims h) v') eqn:Erec; cbn [negb] in Hin; [|destruct Hin].
      destruct (fill_share np r (var_nelems_per_rec (var_shape (h_dims h) v'))) as [st cnt] eqn:Efs.
      destruct Hin as [Heq|[]]. inversion Heq; subst.
      rewrite Efs. cbn [fst snd].
      repeat split; try assumption.
      * destruct (v_nofill v); [discriminate | reflexivity].
      * right. split; [assumption|]. exists recno. split; [|reflexivity].
        apply In_zrange in Hrn. lia.
  - intros (Hnew & Hfm & Hc & Hcase).
    assert (Hfil : In v (filter (fun v0 => negb (v_nofill v0)) (zskipn sv (h_vars h)))).
    { apply filter_In. split; [assumption|]. rewrite Hfm. reflexivity. }
    destruct Hcase as [ (Erec & Hoff) | (Erec & recno & Hrn & Hoff) ].
    + left. exists v. split; [assumption|]. rewrite Erec.
      destruct (fill_share np r (var_nelems_per_rec (var_shape (h_dims h) v))) as [st cnt] eqn:Efs.
      cbn [fst snd] in *. subst. left. reflexivity.
    + right. exists recno. split; [apply In_zrange; lia|].
      apply in_flat_map. exists v. split; [assumption|]. rewrite Erec. cbn [negb].
      destruct (fill_share np r (var_nelems_per_rec (var_shape (h_dims h) v))) as [st cnt] eqn:Efs.
      cbn [fst snd] in *. subst. left. reflexivity.
Qed.

(* only NEW variables in fill mode are ever filled *)
Theorem fill_plan_only_new_fillmode : forall h lay sv nrecs np r off c v,
  In (off, c, v) (fill_plan h lay sv nrecs np r) ->
  In v (zskipn sv (h_vars h)) /\ v_nofill v = false.
Proof.
  intros h lay sv nrecs np r off c v H. apply fill_plan_in_iff in H.
  destruct H as (H1 & H2 & _). split; assumption.
Qed.

(* fixed-size variable: each element is in the segment of exactly one rank *)
Theorem fill_plan_fixed_cover : forall h lay sv nrecs np v e,
  1 <= np ->
  In v (zskipn sv (h_vars h)) -> v_nofill v = false -> is_recvar (h_dims h) v = false ->
  0 < vxsz v ->
  0 <= e < nelems h v ->
  exists r st c,
    (0 <= r < np /\
     In (v_begin v + st * vxsz v, c, v) (fill_plan h lay sv nrecs np r) /\
     st <= e < st + c) /\
    (forall r' st' c', 0 <= r' < np ->
       In (v_begin v + st' * vxsz v, c', v) (fill_plan h lay sv nrecs np r') ->
       st' <= e < st' + c' ->
       r' = r /\ st' = st /\ c' = c).
Proof.
  intros h lay sv nrecs np v e Hnp Hnew Hfm Hfix Hx He.
  set (L := nelems h v) in *.
  assert (HL : 0 <= L) by lia.
  destruct (fill_share_exact_cover np L Hnp HL) as [_ Hcov].
  destruct (Hcov e He) as (r & (Hr & Hin) & Huniq).
  exists r, (share_start np L r), (share_count np L r). split.
  - split; [assumption|]. split; [|exact Hin].
    apply fill_plan_in_iff. repeat split; try assumption.
    left. split; [assumption | reflexivity].
  - intros r' st' c' Hr' Hin' He'.
    apply fill_plan_in_iff in Hin'. fold L in Hin'.
    destruct Hin' as (_ & _ & Hc' & [ (_ & Hoff) | (Erec & _) ]); [|congruence].
    assert (Hst' : st' = share_start np L r').
    { apply (Z.mul_reg_r _ _ (vxsz v)); lia. }
    subst st' c'.
    assert (r' = r) by (apply Huniq; assumption).
    subst r'. repeat split; reflexivity.
Qed.

(* arithmetic: inside one variable's record slots, (record number, start) is determined by
   the byte offset as long as the slot (recsize) is at least the variable's record extent *)
Lemma rec_offset_inj : forall R x n recno recno' st st' cnt e,
  0 < x -> n * x <= R -> 0 <= e < n ->
  st' <= e < st' + cnt -> 0 <= st -> st + cnt <= n ->
  R * recno + st' * x = R * recno' + st * x ->
  recno = recno' /\ st' = st.
Proof.
  intros R x n recno recno' st st' cnt e Hx HR He Hst' Hst0 Hstn Heq.
  assert (Hk1 : st' - st < n) by lia.
  assert (Hk2 : st - st' < n) by lia.
  assert (Hd : R * (recno' - recno) = (st' - st) * x) by lia.
  assert (Hb1 : (st' - st) * x < n * x) by (apply Z.mul_lt_mono_pos_r; lia).
  assert (Hb2 : (st - st') * x < n * x) by (apply Z.mul_lt_mono_pos_r; lia).
  assert (HRpos : 0 < R) by nia.
  assert (Hrec : recno = recno').
  { destruct (Z.lt_trichotomy recno recno') as [Hlt|[Heq'|Hgt]]; [exfalso | assumption | exfalso].
    - assert (R * 1 <= R * (recno' - recno)) by (apply Z.mul_le_mono_nonneg_l; lia). lia.
    - assert (R * 1 <= R * (recno - recno')) by (apply Z.mul_le_mono_nonneg_l; lia). lia. }
  split; [assumption|]. subst recno'.
  apply (Z.mul_reg_r _ _ x); lia.
Qed.

(* record variable: in every existing record each element is in the segment of exactly one rank *)
Theorem fill_plan_rec_cover : forall h lay sv nrecs np v recno e,
  1 <= np ->
  In v (zskipn sv (h_vars h)) -> v_nofill v = false -> is_recvar (h_dims h) v = true ->
  0 < vxsz v -> nelems h v * vxsz v <= l_recsize lay ->
  0 <= recno < nrecs ->
  0 <= e < nelems h v ->
  exists r st c,
    (0 <= r < np /\
     In (v_begin v + l_recsize lay * recno + st * vxsz v, c, v) (fill_plan h lay sv nrecs np r) /\
     st <= e < st + c) /\
    (forall r' st' c', 0 <= r' < np ->
       In (v_begin v + l_recsize lay * recno + st' * vxsz v, c', v)
          (fill_plan h lay sv nrecs np r') ->
       st' <= e < st' + c' ->
       r' = r /\ st' = st /\ c' = c).
Proof.
  intros h lay sv nrecs np v recno e Hnp Hnew Hfm Hrec Hx HR Hrn He.
  set (L := nelems h v) in *.
  assert (HL : 0 <= L) by lia.
  destruct (fill_share_exact_cover np L Hnp HL) as [_ Hcov].
  destruct (Hcov e He) as (r & (Hr & Hin) & Huniq).
  exists r, (share_start np L r), (share_count np L r). split.
  - split; [assumption|]. split; [|exact Hin].
    apply fill_plan_in_iff. repeat split; try assumption.
    right. split; [assumption|]. exists recno. split; [assumption | reflexivity].
  - intros r' st' c' Hr' Hin' He'.
    apply fill_plan_in_iff in Hin'. fold L in Hin'.
    destruct Hin' as (_ & _ & Hc' & [ (Efix & _) | (_ & recno' & Hrn' & Hoff) ]); [congruence|].
    destruct (share_inside np L r' Hnp HL Hr') as [Hs0 Hs1].
    subst c'.
    destruct (rec_offset_inj (l_recsize lay) (vxsz v) L recno recno'
                (share_start np L r') st' (share_count np L r') e) as [_ Hst']; try assumption; try lia.
    subst st'.
    assert (r' = r) by (apply Huniq; assumption).
    subst r'. repeat split; reflexivity.
Qed.

(* ------------------------------------------------------------------------- *)
(** * 3. Effect on the disk                                                     *)
(* ------------------------------------------------------------------------- *)

Definition write_seg (d : disk) (seg : Z * Z * var) : disk :=
  let '(off, c, v) := seg in dk_write d off (repeat_bytes (var_fill_bytes v) c).

(* all segments, rank by rank, in the order do_fill writes them *)
Definition all_segs (h : hdr) (lay : layout) (sv nrecs np : Z) : list (Z * Z * var) :=
  flat_map (fill_plan h lay sv nrecs np) (zrange 0 np).

Lemma do_fill_flat : forall d h lay sv nrecs np,
  do_fill d h lay sv nrecs np = fold_left write_seg (all_segs h lay sv nrecs np) d.
Proof.
  intros. unfold do_fill, all_segs.
  apply (fold_left_flat_map disk Z (Z * Z * var) write_seg (fill_plan h lay sv nrecs np)).
Qed.

Lemma in_all_segs : forall h lay sv nrecs np seg,
  In seg (all_segs h lay sv nrecs np) <->
  exists r, 0 <= r < np /\ In seg (fill_plan h lay sv nrecs np r).
Proof.
  intros. unfold all_segs. rewrite in_flat_map. split; intros (r & Hr & Hin); exists r.
  - apply In_zrange in Hr. split; [lia | assumption].
  - split; [apply In_zrange; lia | assumption].
Qed.

Lemma dk_write_get : forall d off bs x,
  dk_get (dk_write d off bs) x =
  if (off <=? x) && (x <? off + Zlen bs) then znth bs (x - off) 0 else dk_get d x.
Proof.
  intros d off bs x. unfold dk_write. destruct bs as [|b bs'].
  - rewrite fl_Zlen_nil. destruct ((off <=? x) && (x <? off + 0)) eqn:E; [lia | reflexivity].
  - reflexivity.
Qed.

Lemma length_flat_const : forall A B (bs : list B) (l : list A),
  length (flat_map (fun _ => bs) l) = (length l * length bs)%nat.
Proof.
  intros A B bs l. induction l as [|a l IH]; cbn [flat_map length]; [reflexivity|].
  rewrite app_length, IH. lia.
Qed.

Lemma Zlen_repeat_bytes : forall bs c, Zlen (repeat_bytes bs c) = Z.max 0 c * Zlen bs.
Proof.
  intros bs c. unfold repeat_bytes, Zlen, zrange. rewrite length_flat_const, zseq_length. lia.
Qed.

Lemma znth_flat_const : forall A B (bs : list B) (l : list A) k j d,
  0 <= k < Zlen l -> 0 <= j < Zlen bs ->
  znth (flat_map (fun _ => bs) l) (k * Zlen bs + j) d = znth bs j d.
Proof.
  intros A B bs l. induction l as [|a l IH]; intros k j d Hk Hj.
  - rewrite fl_Zlen_nil in Hk. lia.
  - rewrite fl_Zlen_cons in Hk. cbn [flat_map]. rewrite znth_app by nia.
    destruct (Z.eq_dec k 0) as [Hk0|Hk0].
    + subst k. destruct (0 * Zlen bs + j <? Zlen bs) eqn:E; [|lia]. f_equal; lia.
    + destruct (k * Zlen bs + j <? Zlen bs) eqn:E; [nia|].
      replace (k * Zlen bs + j - Zlen bs) with ((k - 1) * Zlen bs + j) by lia.
      apply IH; lia.
Qed.

Lemma znth_repeat_bytes : forall bs c k j,
  0 <= k < c -> 0 <= j < Zlen bs ->
  znth (repeat_bytes bs c) (k * Zlen bs + j) 0 = znth bs j 0.
Proof.
  intros bs c k j Hk Hj. unfold repeat_bytes. apply znth_flat_const; [|assumption].
  rewrite Zlen_zrange. lia.
Qed.

(* the byte range a segment covers *)
Definition seg_covers (seg : Z * Z * var) (x : Z) : Prop :=
  let '(off, c, v) := seg in off <= x < off + c * Zlen (var_fill_bytes v).

Lemma write_seg_get : forall d off c v x,
  dk_get (write_seg d (off, c, v)) x =
  if (off <=? x) && (x <? off + Z.max 0 c * Zlen (var_fill_bytes v))
  then znth (repeat_bytes (var_fill_bytes v) c) (x - off) 0 else dk_get d x.
Proof. intros. unfold write_seg. rewrite dk_write_get, Zlen_repeat_bytes. reflexivity. Qed.

Lemma write_seg_frame : forall d seg x, ~ seg_covers seg x ->
  dk_get (write_seg d seg) x = dk_get d x.
Proof.
  intros d [[off c] v] x Hn. unfold seg_covers in Hn. rewrite write_seg_get.
  pose proof (fl_Zlen_nonneg _ (var_fill_bytes v)) as Hl.
  destruct ((off <=? x) && (x <? off + Z.max 0 c * Zlen (var_fill_bytes v))) eqn:E; [|reflexivity].
  exfalso. apply Hn. nia.
Qed.

Lemma fold_write_frame : forall segs d x,
  (forall seg, In seg segs -> ~ seg_covers seg x) ->
  dk_get (fold_left write_seg segs d) x = dk_get d x.
Proof.
  induction segs as [|s segs IH]; intros d x H; cbn [fold_left].
  - reflexivity.
  - rewrite IH.
    + apply write_seg_frame. apply H. left. reflexivity.
    + intros seg Hin. apply H. right. assumption.
Qed.

(* FRAME: a byte outside every planned segment of every rank is unchanged by filling *)
Theorem do_fill_frame : forall d h lay sv nrecs np x,
  (forall r off c v, 0 <= r < np -> In (off, c, v) (fill_plan h lay sv nrecs np r) ->
     ~ (off <= x < off + c * Zlen (var_fill_bytes v))) ->
  dk_get (do_fill d h lay sv nrecs np) x = dk_get d x.
Proof.
  intros d h lay sv nrecs np x H. rewrite do_fill_flat. apply fold_write_frame.
  intros [[off c] v] Hin. apply in_all_segs in Hin. destruct Hin as (r & Hr & Hin).
  unfold seg_covers. apply (H r off c v Hr Hin).
Qed.

(* the extent (bytes) of a variable that filling may touch *)
Definition in_fill_extent (h : hdr) (lay : layout) (nrecs : Z) (v : var) (x : Z) : Prop :=
  if is_recvar (h_dims h) v
  then exists recno, 0 <= recno < nrecs /\
         v_begin v + l_recsize lay * recno <= x <
         v_begin v + l_recsize lay * recno + nelems h v * Zlen (var_fill_bytes v)
  else v_begin v <= x < v_begin v + nelems h v * Zlen (var_fill_bytes v).

(* every segment lies inside the extent of its (new, fill-mode) variable *)
Lemma seg_inside_extent : forall h lay sv nrecs np r off c v x,
  1 <= np -> 0 <= r < np ->
  vxsz v = Zlen (var_fill_bytes v) ->
  In (off, c, v) (fill_plan h lay sv nrecs np r) ->
  off <= x < off + c * Zlen (var_fill_bytes v) ->
  in_fill_extent h lay nrecs v x.
Proof.
  intros h lay sv nrecs np r off c v x Hnp Hr Hxs Hin Hx.
  apply fill_plan_in_iff in Hin. destruct Hin as (_ & _ & Hc & Hcase).
  set (L := nelems h v) in *. rewrite Hxs in Hcase.
  set (fl := Zlen (var_fill_bytes v)) in *.
  pose proof (fl_Zlen_nonneg _ (var_fill_bytes v)) as Hfl. fold fl in Hfl.
  destruct (Z_lt_ge_dec L 0) as [Hneg|HL'].
  { pose proof (share_count_neg_len np L r Hnp Hneg). exfalso. subst c. nia. }
  assert (HL : 0 <= L) by lia.
  destruct (share_inside np L r Hnp HL Hr) as [Hs0 Hs1].
  pose proof (share_count_nonneg np L r Hnp HL) as Hc0.
  assert (Hb : share_start np L r * fl + c * fl <= L * fl) by (subst c; nia).
  assert (Ha : 0 <= share_start np L r * fl) by nia.
  unfold in_fill_extent. fold L fl.
  destruct Hcase as [ (Erec & Hoff) | (Erec & recno & Hrn & Hoff) ]; rewrite Erec.
  - lia.
  - exists recno. split; [assumption | lia].
Qed.

(* FRAME, variable form: a byte outside the extents of all NEW FILL-MODE variables is never
   overwritten — old variables and no-fill variables are untouched as soon as the layout keeps
   them disjoint from the new fill-mode ones. *)
Theorem do_fill_frame_extent : forall d h lay sv nrecs np x,
  1 <= np ->
  (forall v, In v (zskipn sv (h_vars h)) -> v_nofill v = false ->
     vxsz v = Zlen (var_fill_bytes v) /\ ~ in_fill_extent h lay nrecs v x) ->
  dk_get (do_fill d h lay sv nrecs np) x = dk_get d x.
Proof.
  intros d h lay sv nrecs np x Hnp H. apply do_fill_frame.
  intros r off c v Hr Hin Hx.
  destruct (fill_plan_only_new_fillmode _ _ _ _ _ _ _ _ _ Hin) as [Hnew Hfm].
  destruct (H v Hnew Hfm) as [Hxs Hout].
  apply Hout. eapply seg_inside_extent; eassumption.
Qed.

(* value written by a fold of segment writes *)
Lemma fold_write_value : forall segs d x w,
  (forall off c v, In (off, c, v) segs -> seg_covers (off, c, v) x ->
     znth (repeat_bytes (var_fill_bytes v) c) (x - off) 0 = w) ->
  (dk_get d x = w \/ exists seg, In seg segs /\ seg_covers seg x) ->
  dk_get (fold_left write_seg segs d) x = w.
Proof.
  induction segs as [|s segs IH]; intros d x w Hval Hex; cbn [fold_left].
  - destruct Hex as [H|(seg & [] & _)]. assumption.
  - apply IH.
    + intros off c v Hin. apply Hval. right. assumption.
    + destruct s as [[off c] v].
      pose proof (fl_Zlen_nonneg _ (var_fill_bytes v)) as Hl.
      rewrite write_seg_get.
      destruct ((off <=? x) && (x <? off + Z.max 0 c * Zlen (var_fill_bytes v))) eqn:E.
      * left. apply Hval; [left; reflexivity|]. unfold seg_covers. nia.
      * destruct Hex as [H|(seg & [Heq|Hin] & Hcov)].
        -- left. assumption.
        -- subst seg. exfalso. unfold seg_covers in Hcov. nia.
        -- right. exists seg. split; assumption.
Qed.

(* element <-> byte arithmetic *)
Lemma elem_of_byte : forall st cnt e j x,
  0 < x -> 0 <= j < x -> 0 <= cnt ->
  (st * x <= e * x + j < st * x + cnt * x <-> st <= e < st + cnt).
Proof.
  intros st cnt e j x Hx Hj Hc. split; intros H.
  - split.
    + assert (st * x < (e + 1) * x) by lia.
      assert (st < e + 1) by (apply (Z.mul_lt_mono_pos_r x); lia). lia.
    + assert (e * x < (st + cnt) * x) by lia.
      apply (Z.mul_lt_mono_pos_r x); lia.
  - split.
    + assert (st * x <= e * x) by (apply Z.mul_le_mono_nonneg_r; lia). lia.
    + assert ((e + 1) * x <= (st + cnt) * x) by (apply Z.mul_le_mono_nonneg_r; lia). lia.
Qed.

(* after filling, every element of a new fill-mode fixed variable reads its fill value,
   provided no segment of ANOTHER variable overlaps this variable's extent *)
Theorem do_fill_writes_fill : forall d h lay sv nrecs np v e,
  1 <= np ->
  In v (zskipn sv (h_vars h)) -> v_nofill v = false -> is_recvar (h_dims h) v = false ->
  0 < vxsz v -> Zlen (var_fill_bytes v) = vxsz v ->
  0 <= e < nelems h v ->
  (forall r off c v', 0 <= r < np -> In (off, c, v') (fill_plan h lay sv nrecs np r) ->
     v' = v \/
     off + c * Zlen (var_fill_bytes v') <= v_begin v \/
     v_begin v + nelems h v * vxsz v <= off) ->
  dk_read (do_fill d h lay sv nrecs np) (v_begin v + e * vxsz v) (vxsz v) = var_fill_bytes v.
Proof.
  intros d h lay sv nrecs np v e Hnp Hnew Hfm Hfix Hx Hfl He Hdisj.
  set (L := nelems h v) in *. set (xs := vxsz v) in *.
  assert (HL : 0 <= L) by lia.
  unfold dk_read.
  replace (zrange (v_begin v + e * xs) xs)
    with (zrange (v_begin v + e * xs) (Zlen (var_fill_bytes v))) by (rewrite Hfl; reflexivity).
  apply map_zrange_eq with (d := 0). intros j Hj. rewrite Hfl in Hj.
  rewrite do_fill_flat. apply fold_write_value.
  - (* every write that covers the byte stores the right value *)
    intros off c v' Hin Hcov. apply in_all_segs in Hin. destruct Hin as (r & Hr & Hin).
    unfold seg_covers in Hcov.
    destruct (Hdisj r off c v' Hr Hin) as [Heq | [Hlo | Hhi]].
    + subst v'. apply fill_plan_in_iff in Hin. fold L xs in Hin.
      destruct Hin as (_ & _ & Hc & [ (_ & Hoff) | (Erec & _) ]); [|congruence].
      pose proof (share_count_nonneg np L r Hnp HL) as Hc0.
      rewrite Hfl in Hcov. subst off c.
      assert (Hin_sh : share_start np L r <= e < share_start np L r + share_count np L r).
      { apply (elem_of_byte _ _ e j xs); try lia. }
      replace (v_begin v + e * xs + j - (v_begin v + share_start np L r * xs))
        with ((e - share_start np L r) * Zlen (var_fill_bytes v) + j) by (rewrite Hfl; lia).
      apply znth_repeat_bytes; lia.
    + exfalso. nia.
    + exfalso. assert ((e + 1) * xs <= L * xs) by (apply Z.mul_le_mono_nonneg_r; lia). lia.
  - (* and some write does cover it *)
    right.
    destruct (fill_plan_fixed_cover h lay sv nrecs np v e Hnp Hnew Hfm Hfix Hx He)
      as (r & st & c & (Hr & Hin & Hst) & _).
    exists (v_begin v + st * xs, c, v). split.
    + apply in_all_segs. exists r. split; assumption.
    + unfold seg_covers. rewrite Hfl.
      assert (Hc0 : 0 <= c) by lia.
      pose proof (proj2 (elem_of_byte st c e j xs Hx Hj Hc0) Hst). lia.
Qed.

(* ------------------------------------------------------------------------- *)
(** * 4. Examples                                                               *)
(* ------------------------------------------------------------------------- *)

(* dims: t (unlimited), x = 7, y = 2.
   vars: old (fixed, existing), a (new fixed int [x]), n (new fixed int [x], NO-FILL),
         r (new record short [t][y]) *)
Definition fx_dims : list dim := [mkdim [116] 0; mkdim [120] 7; mkdim [121] 2].
Definition fx_old : var := mkvar [111] [1] [] 4 100 false.
Definition fx_a   : var := mkvar [97]  [1] [] 4 128 false.
Definition fx_n   : var := mkvar [110] [1] [] 4 156 true.
Definition fx_r   : var := mkvar [114] [0; 2] [] 3 184 false.
Definition fx_h : hdr := mkhdr 1 2 fx_dims [] [fx_old; fx_a; fx_n; fx_r].
Definition fx_lay : layout := mklayout 100 100 184 4 [100; 128; 156; 184].

Example fill_plan_ex :
  map (fun r => map (fun s => (fst (fst s), snd (fst s), v_name (snd s)))
                    (fill_plan fx_h fx_lay 1 2 3 r)) [0; 1; 2]
  = [ [(128, 3, [97]); (184, 1, [114]); (188, 1, [114])];
      [(140, 2, [97]); (186, 1, [114]); (190, 1, [114])];
      [(148, 2, [97]); (188, 0, [114]); (192, 0, [114])] ].
Proof. vm_compute. reflexivity. Qed.

(* hypotheses of the cover theorems are satisfiable on it *)
Example fill_plan_fixed_cover_ex :
  In fx_a (zskipn 1 (h_vars fx_h)) /\ v_nofill fx_a = false /\
  is_recvar (h_dims fx_h) fx_a = false /\ 0 < vxsz fx_a /\ nelems fx_h fx_a = 7.
Proof. repeat split. left. reflexivity. Qed.

Example fill_plan_rec_cover_ex :
  In fx_r (zskipn 1 (h_vars fx_h)) /\ v_nofill fx_r = false /\
  is_recvar (h_dims fx_h) fx_r = true /\ 0 < vxsz fx_r /\
  nelems fx_h fx_r * vxsz fx_r <= l_recsize fx_lay.
Proof.
  repeat split; try (vm_compute; discriminate).
  right. right. left. reflexivity.
Qed.

Definition fx_disk0 : disk := mkdisk true 200 (fun _ => 1).
Definition fx_disk1 : disk := do_fill fx_disk0 fx_h fx_lay 1 2 3.

Example do_fill_ex :
  (* a: seven int fill values (0x80000001), all three ranks' shares *)
  dk_read fx_disk1 128 28 = flat_map (fun _ => [128; 0; 0; 1]) (zrange 0 7) /\
  (* old and the no-fill variable n are untouched *)
  dk_read fx_disk1 100 28 = dk_read fx_disk0 100 28 /\
  dk_read fx_disk1 156 28 = dk_read fx_disk0 156 28 /\
  (* r: two records of two short fill values (0x8001) *)
  dk_read fx_disk1 184 8 = [128; 1; 128; 1; 128; 1; 128; 1] /\
  dk_read fx_disk1 192 4 = dk_read fx_disk0 192 4.
Proof. vm_compute. repeat split. Qed.

Example do_fill_writes_fill_ex :
  Zlen (var_fill_bytes fx_a) = vxsz fx_a /\
  forall r off c v', 0 <= r < 3 -> In (off, c, v') (fill_plan fx_h fx_lay 1 2 3 r) ->
     v' = fx_a \/ off + c * Zlen (var_fill_bytes v') <= v_begin fx_a \/
     v_begin fx_a + nelems fx_h fx_a * vxsz fx_a <= off.
Proof.
  split; [reflexivity|].
  intros r off c v' Hr Hin.
  assert (Hr3 : r = 0 \/ r = 1 \/ r = 2) by lia.
  destruct Hr3 as [?|[?|?]]; subst r; vm_compute in Hin;
    repeat (destruct Hin as [Hin|Hin]; [inversion Hin; subst; clear Hin|]); try contradiction;
    try (left; reflexivity); right; right; vm_compute; discriminate.
Qed.

Print Assumptions fill_share_partition.
Print Assumptions fill_share_exact_cover.
Print Assumptions fill_plan_in_iff.
Print Assumptions fill_plan_only_new_fillmode.
Print Assumptions fill_plan_fixed_cover.
Print Assumptions fill_plan_rec_cover.
Print Assumptions do_fill_frame.
Print Assumptions do_fill_frame_extent.
Print Assumptions do_fill_writes_fill.
