(* Properties_C04.v — statements only: each property theorem is stated in full and closed by
   `exact <lemma>`; the lemmas live in the Proofs_*.v files.  Assembled by tools/mkprops.py. *)
(* C04 Any specification-valid classic file is read back exactly.  Model: coq/Reader.v (the chunked *)
(* header reader of ncmpio_header_get.c over the bufferinfo window, the post-processing at open, the *)
(* dispatcher's signature detection).  Specification: HeaderSpec.decode (BNF decoder) + Reader.c04_valid. *)
(* window_inv: the live part of the window equals the zero-extended file at the abstract position. *)
From Coq Require Import ZArith List.
From Pnc Require Import Proofs_Reader.
Set Printing Width 100.
Set Printing Depth 100000.

Theorem C04_chunk_sizes :
  forall hint : Z, (36 <= Reader.norm_chunk hint)%Z /\ (Reader.norm_chunk hint mod 4)%Z = 0%Z.
Proof. exact @norm_chunk_ok. Qed.
Print Assumptions C04_chunk_sizes.

Theorem C04_window_inv_init :
  forall (chunk : Z) (f : list Base.byte),
         (0 < chunk)%Z -> window_inv chunk (Reader.c_init chunk f) f.
Proof. exact @window_inv_init. Qed.
Print Assumptions C04_window_inv_init.

Theorem C04_window_inv_fetch :
  forall (chunk : Z) (c : Reader.cst) (l : list Base.byte),
         window_inv chunk c l -> (0 < Reader.c_pos c)%Z -> window_inv chunk (Reader.c_fetch c) l.
Proof. exact @window_inv_fetch. Qed.
Print Assumptions C04_window_inv_fetch.

Theorem C04_copy_loop_complete :
  forall (chunk n : Z) (c : Reader.cst) (l : list Base.byte),
         (0 < chunk)%Z ->
         window_inv chunk c l ->
         fst (Reader.c_gbytes n c) = Reader.take_z n l /\
         window_inv chunk (snd (Reader.c_gbytes n c)) (Base.zskipn n l).
Proof. exact @copy_loop_complete. Qed.
Print Assumptions C04_copy_loop_complete.

Theorem C04_chunk_read_eq_flat :
  forall (chunk mm : Z) (f : list Base.byte),
         (8 <= chunk)%Z ->
         fst (Reader.read_header chunk mm f) = fst (Reader.read_header_flat mm f) /\
         snd (snd (Reader.read_header chunk mm f)) = snd (snd (Reader.read_header_flat mm f)) /\
         window_inv chunk (fst (snd (Reader.read_header chunk mm f)))
           (fst (snd (Reader.read_header_flat mm f))).
Proof. exact @chunk_read_eq_flat. Qed.
Print Assumptions C04_chunk_read_eq_flat.

Theorem C04_chunk_decode_eq_flat :
  forall (hint mm : Z) (f : list Base.byte),
         Reader.out_res (Reader.open_model hint mm f) = Reader.open_flat mm f.
Proof. exact @chunk_decode_eq_flat. Qed.
Print Assumptions C04_chunk_decode_eq_flat.

Theorem C04_chunk_independent :
  forall (h1 h2 mm : Z) (f : list Base.byte),
         Reader.out_res (Reader.open_model h1 mm f) = Reader.out_res (Reader.open_model h2 mm f).
Proof. exact @chunk_independent. Qed.
Print Assumptions C04_chunk_independent.

Theorem C04_chunk_alloc_independent :
  forall (hint mm : Z) (f : list Base.byte) (v : Z),
         Reader.inq_file_format f = Reader.Ok v ->
         Reader.ac_alloc (Reader.out_acct (Reader.open_model hint mm f)) =
         (Reader.ac_alloc (snd (snd (Reader.read_header_flat mm f))) + Reader.norm_chunk hint)%Z.
Proof. exact @chunk_alloc_independent. Qed.
Print Assumptions C04_chunk_alloc_independent.

Theorem C04_decode_len :
  forall (f : list Base.byte) (d : HeaderSpec.decoded),
         HeaderSpec.decode f = Some d -> HeaderSpec.dc_len d = Header.hdr_len (HeaderSpec.dc_hdr d).
Proof. exact @decode_len. Qed.
Print Assumptions C04_decode_len.

Theorem C04_flat_accepts_valid :
  forall (mm : Z) (f : list Base.byte) (d : HeaderSpec.decoded),
         HeaderSpec.decode f = Some d ->
         Reader.c04_valid mm d = true -> Reader.open_flat mm f = Reader.Ok (Reader.expected_open d).
Proof. exact @flat_accepts_valid. Qed.
Print Assumptions C04_flat_accepts_valid.

Theorem C04_reader_accepts_valid :
  forall (hint mm : Z) (f : list Base.byte) (d : HeaderSpec.decoded),
         HeaderSpec.decode f = Some d ->
         Reader.c04_valid mm d = true ->
         Reader.out_res (Reader.open_model hint mm f) = Reader.Ok (Reader.expected_open d).
Proof. exact @reader_accepts_valid. Qed.
Print Assumptions C04_reader_accepts_valid.

Theorem C04_reader_accepts_valid_ex :
  exists d : HeaderSpec.decoded,
           HeaderSpec.decode ex_valid_file = Some d /\
           Reader.c04_valid 1048576 d = true /\
           Base.Zlen (Header.h_vars (HeaderSpec.dc_hdr d)) = 4%Z /\
           Header.l_begin_var (Reader.o_lay (Reader.expected_open d)) = 392%Z /\
           Reader.out_fetches (Reader.open_model 36 1048576 ex_valid_file) = 11%Z.
Proof. exact @reader_accepts_valid_ex. Qed.
Print Assumptions C04_reader_accepts_valid_ex.

Theorem C04_reader_recsize_writer_rule :
  forall (hint mm : Z) (f : list Base.byte) (d : HeaderSpec.decoded),
         HeaderSpec.decode f = Some d ->
         Reader.c04_valid mm d = true ->
         exists o : Reader.opened,
           Reader.out_res (Reader.open_model hint mm f) = Reader.Ok o /\
           Reader.o_hdr o = HeaderSpec.dc_hdr d /\
           Header.l_recsize (Reader.o_lay o) = Proofs_Layout.recsize_of (HeaderSpec.dc_hdr d) /\
           (forall v : Header.var,
            Proofs_Layout.rec_vars (HeaderSpec.dc_hdr d) = v :: nil ->
            Header.l_recsize (Reader.o_lay o) =
            (Header.var_nelems_per_rec (Header.var_shape (Header.h_dims (HeaderSpec.dc_hdr d)) v) *
             Header.xlen_type (Header.v_type v))%Z) /\
           (Proofs_Layout.rec_vars (HeaderSpec.dc_hdr d) = nil ->
            Header.l_recsize (Reader.o_lay o) = 0%Z).
Proof. exact @reader_recsize_writer_rule. Qed.
Print Assumptions C04_reader_recsize_writer_rule.

Theorem C04_reader_recsize_writer_rule_ex :
  exists d : HeaderSpec.decoded,
           HeaderSpec.decode ex_valid_file = Some d /\
           Reader.c04_valid 1048576 d = true /\
           length (Proofs_Layout.rec_vars (HeaderSpec.dc_hdr d)) = 2 /\
           Proofs_Layout.recsize_of (HeaderSpec.dc_hdr d) = 12%Z.
Proof. exact @reader_recsize_writer_rule_ex. Qed.
Print Assumptions C04_reader_recsize_writer_rule_ex.

Theorem C04_encoded_read_back :
  forall (hint mm : Z) (h : Header.hdr) (rest : list Base.byte),
         Proofs_Header.wf_hdr h = true ->
         Reader.c04_valid mm (Proofs_Header.decoded_of h) = true ->
         Reader.out_res (Reader.open_model hint mm (Header.encode_header h ++ rest)) =
         Reader.Ok (Reader.expected_open (Proofs_Header.decoded_of h)) /\
         Reader.o_hdr (Reader.expected_open (Proofs_Header.decoded_of h)) =
         Proofs_Header.hdr_content h.
Proof. exact @encoded_read_back. Qed.
Print Assumptions C04_encoded_read_back.
