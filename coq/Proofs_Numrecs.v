(* Proofs_Numrecs.v — proofs about the record-count model Numrecs.v (property C05).
   Generic part: for any loop function L with  L a q fl <= commit_fixed a q fl
   (both the loop as written and the corrected loop satisfy this), then the instances. *)
From Coq Require Import ZArith List Bool Arith Lia.
Import ListNotations.
From Pnc Require Import Numrecs.
Local Open Scope Z_scope.

(* ------------------------------------------------------------------ lists, max *)

Lemma zmaxl_ge : forall l x, In x l -> x <= zmaxl l.
Proof.
  intros l x Hin. destruct l as [|y t]; [inversion Hin|]. simpl.
  assert (A : forall t y, y <= fold_right Z.max y t).
  { induction t0 as [|z t0 IH]; simpl; intros y0; [lia|]. specialize (IH y0). lia. }
  assert (Bm : forall t y x, In x t -> x <= fold_right Z.max y t).
  { induction t0 as [|z t0 IH]; simpl; intros y0 x0 H0; [tauto|].
    destruct H0 as [->|H0]; [lia|]. specialize (IH y0 x0 H0). lia. }
  destruct Hin as [->|Hin]; [apply A|now apply Bm].
Qed.

Lemma fold_right_max_le : forall t y b, y <= b -> (forall x, In x t -> x <= b) -> fold_right Z.max y t <= b.
Proof.
  induction t as [|z t IH]; simpl; intros y b Hy H; [lia|].
  assert (z <= b) by (apply H; auto).
  assert (fold_right Z.max y t <= b) by (apply IH; auto). lia.
Qed.

Lemma zmaxl_le : forall l b, 0 <= b -> (forall x, In x l -> x <= b) -> zmaxl l <= b.
Proof.
  intros [|y t] b Hb H; simpl; [lia|].
  apply fold_right_max_le; [apply H; simpl; auto|intros x Hx; apply H; simpl; auto].
Qed.

Lemma written_ge : forall st r, In r (ranks st) -> g_own r <= written st.
Proof.
  intros st r Hin. unfold written. induction (ranks st) as [|x t IH]; [inversion Hin|].
  simpl. destruct Hin as [->|Hin]; [lia|]. specialize (IH Hin). lia.
Qed.

Lemma written_nonneg : forall st, 0 <= written st.
Proof. intros st. unfold written. induction (ranks st); simpl; lia. Qed.

Lemma written_le : forall st b, 0 <= b -> Forall (fun r => g_own r <= b) (ranks st) -> written st <= b.
Proof.
  intros st b Hb H. unfold written. induction H; simpl; lia.
Qed.

Lemma written_mono : forall l l', Forall2 (fun r r' => g_own r <= g_own r') l l' ->
  fold_right Z.max 0 (map g_own l) <= fold_right Z.max 0 (map g_own l').
Proof. intros l l' H. induction H; simpl; lia. Qed.

Lemma Forall2_map_r : forall {A B} (P : A -> B -> Prop) (f : A -> B) l,
  (forall x, In x l -> P x (f x)) -> Forall2 P l (map f l).
Proof.
  induction l; simpl; intros H; constructor; auto.
Qed.

Lemma Forall2_combine_map : forall {A B C} (P : A -> C -> Prop) (f : A * B -> C) (l : list A) (ps : list B),
  length ps = length l -> (forall x p, In (x, p) (combine l ps) -> P x (f (x, p))) ->
  Forall2 P l (map f (combine l ps)).
Proof.
  induction l as [|x l IH]; intros [|p ps] Hlen H; simpl in *; try discriminate; constructor.
  - apply H; auto.
  - apply IH; [lia|]. intros; apply H; auto.
Qed.

Lemma Forall2_map_map : forall {A B C} (P : B -> C -> Prop) (f : A -> B) (g : A -> C) (l : list A),
  (forall x, In x l -> P (f x) (g x)) -> Forall2 P (map f l) (map g l).
Proof. induction l; simpl; intros H; constructor; auto. Qed.

Lemma Forall2_imp : forall {A B} (P Q : A -> B -> Prop), (forall x y, P x y -> Q x y) ->
  forall l l', Forall2 P l l' -> Forall2 Q l l'.
Proof. intros A B P Q H l l' F. induction F; constructor; auto. Qed.

Lemma Forall2_refl : forall {A} (P : A -> A -> Prop) l, (forall x, P x x) -> Forall2 P l l.
Proof. induction l; constructor; auto. Qed.

Lemma Forall2_upd_nth : forall {A} (P : A -> A -> Prop) (f : A -> A) i l,
  (forall x, P x x) -> (forall x, In x l -> P x (f x)) -> Forall2 P l (upd_nth i f l).
Proof.
  intros A P f i l Hr. revert i. induction l as [|x l IH]; intros i H; simpl; [constructor|].
  destruct i; constructor; auto using Forall2_refl.
  - apply H; simpl; auto.
  - apply IH. intros; apply H; simpl; auto.
Qed.

Lemma Forall2_trans : forall {A} (P : A -> A -> Prop) l1 l2 l3,
  (forall x y z, P x y -> P y z -> P x z) -> Forall2 P l1 l2 -> Forall2 P l2 l3 -> Forall2 P l1 l3.
Proof.
  intros A P l1 l2 l3 Ht H12. revert l3. induction H12; intros l3 H23; inversion H23; subst; constructor; eauto.
Qed.

Lemma In_upd_nth : forall {A} (f : A -> A) i l y, In y (upd_nth i f l) -> In y l \/ exists x, In x l /\ y = f x.
Proof.
  intros A f i l. revert i. induction l as [|x l IH]; intros i y H; simpl in *; [tauto|].
  destruct i; simpl in H.
  - destruct H as [<-|H]; [right; exists x; auto|left; auto].
  - destruct H as [<-|H]; [left; auto|]. destruct (IH _ _ H) as [H1|[z [Hz ->]]]; [left; auto|right; exists z; auto].
Qed.

Lemma length_upd_nth : forall {A} (f : A -> A) i l, length (upd_nth i f l) = length l.
Proof. intros A f i l. revert i. induction l; intros [|i]; simpl; auto. Qed.

(* ------------------------------------------------------------------ the loop *)

Lemma loop_body_ge : forall a e, a <= loop_body a e.
Proof. intros a e. unfold loop_body. destruct (q_isrec (fst e) && snd e); lia. Qed.

Lemma fold_loop_ge : forall l a, a <= fold_left loop_body l a.
Proof.
  induction l as [|e l IH]; simpl; intros a; [lia|].
  pose proof (loop_body_ge a e). pose proof (IH (loop_body a e)). lia.
Qed.

Lemma fold_loop_mono : forall l a b, a <= b -> fold_left loop_body l a <= fold_left loop_body l b.
Proof.
  induction l as [|e l IH]; simpl; intros a b H; [lia|].
  apply IH. unfold loop_body. destruct (q_isrec (fst e) && snd e); lia.
Qed.

Lemma fold_loop_max : forall l a b, fold_left loop_body l a <= Z.max a (fold_left loop_body l b).
Proof.
  induction l as [|e l IH]; simpl; intros a b; [lia|].
  unfold loop_body at 2 4. destruct (q_isrec (fst e) && snd e).
  - pose proof (IH (Z.max a (q_maxrec (fst e))) (Z.max b (q_maxrec (fst e)))).
    pose proof (fold_loop_ge l (Z.max b (q_maxrec (fst e)))). lia.
  - apply IH.
Qed.

Lemma fold_loop_app : forall l1 l2 a, fold_left loop_body (l1 ++ l2) a = fold_left loop_body l2 (fold_left loop_body l1 a).
Proof. intros. apply fold_left_app. Qed.

Lemma firstn_all_combine : forall (q : list preq) (fl : list bool), firstn (length q) (combine q fl) = combine q fl.
Proof.
  intros q fl. apply firstn_all2. rewrite combine_length. lia.
Qed.

Lemma loop_over_le_fixed : forall k a q fl, loop_over k a q fl <= commit_fixed a q fl.
Proof.
  intros k a q fl. unfold commit_fixed, loop_over. rewrite firstn_all_combine.
  rewrite <- (firstn_skipn k (combine q fl)) at 2. rewrite fold_loop_app. apply fold_loop_ge.
Qed.

Lemma loop_over_ge : forall k a q fl, a <= loop_over k a q fl.
Proof. intros. unfold loop_over. apply fold_loop_ge. Qed.

Lemma commit_fixed_eq : forall a q fl, commit_fixed a q fl = fold_left loop_body (combine q fl) a.
Proof. intros. unfold commit_fixed, loop_over. now rewrite firstn_all_combine. Qed.

Lemma fold_loop_noflag : forall l a, forallb (fun ef => negb (q_isrec (fst ef) && snd ef)) l = true ->
  fold_left loop_body l a = a.
Proof.
  induction l as [|e l IH]; simpl; intros a H; [reflexivity|].
  apply andb_true_iff in H. destruct H as [H1 H2]. unfold loop_body at 2.
  destruct (q_isrec (fst e) && snd e); [discriminate|]. now apply IH.
Qed.

Lemma fold_loop_nofl : forall q fl a, existsb (fun b => b) fl = false -> fold_left loop_body (combine q fl) a = a.
Proof.
  induction q as [|e q IH]; intros [|f fl] a H; simpl in *; try reflexivity.
  apply orb_false_iff in H. destruct H as [-> H]. unfold loop_body at 2. simpl. rewrite andb_false_r. now apply IH.
Qed.

(* the loop as written is exact when no flagged record request lies beyond the first k entries *)
Lemma head_ok_exact : forall q sel fl a, head_ok_q q sel = true -> extract q sel = Some fl ->
  commit_loop a q fl = commit_fixed a q fl.
Proof.
  intros q sel fl a H E. unfold head_ok_q in H. rewrite E in H.
  unfold commit_loop, commit_fixed, loop_over. rewrite firstn_all_combine.
  rewrite <- (firstn_skipn (count_true fl) (combine q fl)) at 2. rewrite fold_loop_app.
  now rewrite (fold_loop_noflag _ _ H).
Qed.

(* ------------------------------------------------------------------ coll_update, sync_body *)

Definition bump (mx : Z) (r : rk) : rk := if numrecs r <? mx then set_numrecs r mx else r.

Lemma bump_numrecs : forall mx r, numrecs (bump mx r) = Z.max (numrecs r) mx.
Proof. intros. unfold bump. destruct (Z.ltb_spec (numrecs r) mx); simpl; lia. Qed.
Lemma bump_own : forall mx r, g_own (bump mx r) = g_own r.
Proof. intros. unfold bump. destruct (numrecs r <? mx); reflexivity. Qed.

Lemma upd_if_less_fst : forall b mx r, fst (upd_if_less b mx r) = bump mx r.
Proof.
  intros b mx r. unfold upd_if_less, bump, write_numrecs. rewrite Z.gtb_ltb.
  destruct (numrecs r <? mx) eqn:E; [|reflexivity].
  destruct b; simpl; reflexivity.
Qed.

Lemma upd_if_less_snd : forall mx r, snd (upd_if_less true mx r) = if numrecs r <? mx then Some mx else None.
Proof.
  intros mx r. unfold upd_if_less, write_numrecs. rewrite Z.gtb_ltb.
  destruct (numrecs r <? mx) eqn:E; reflexivity.
Qed.

Lemma coll_update_ranks : forall mx st, ranks (coll_update mx st) = map (bump mx) (ranks st).
Proof.
  intros mx st. unfold coll_update. destruct (ranks st) as [|r0 rest] eqn:E; [now rewrite E|].
  simpl. rewrite upd_if_less_fst. f_equal. apply map_ext. intros; apply upd_if_less_fst.
Qed.

Lemma coll_update_hdr : forall mx st, hdr (coll_update mx st) =
  match ranks st with r0 :: _ => if numrecs r0 <? mx then mx else hdr st | [] => hdr st end.
Proof.
  intros mx st. unfold coll_update. destruct (ranks st) as [|r0 rest]; [reflexivity|].
  simpl. rewrite upd_if_less_snd. destruct (numrecs r0 <? mx); reflexivity.
Qed.

Lemma coll_update_modes : forall mx st, indep (coll_update mx st) = indep st /\ indef (coll_update mx st) = indef st
  /\ hung (coll_update mx st) = hung st.
Proof. intros. unfold coll_update. destruct (ranks st); simpl; auto. Qed.

Definition synced (mx : Z) (r : rk) : rk := set_ndirty (set_numrecs r mx) false.

Lemma sync_body_spec : forall st, ranks st <> [] ->
  sync_body st = mkst (map (synced (zmaxl (map numrecs (ranks st)))) (ranks st)) (zmaxl (map numrecs (ranks st)))
                      (indep st) (indef st) (hung st).
Proof.
  intros st Hne. unfold sync_body.
  assert (Em : map numrecs (map (fun r => set_ndirty r true) (ranks st)) = map numrecs (ranks st)).
  { rewrite map_map. apply map_ext. reflexivity. }
  rewrite Em. set (mx := zmaxl (map numrecs (ranks st))).
  assert (Hge : forall r, In r (ranks st) -> numrecs r <= mx).
  { intros r Hr. apply zmaxl_ge. now apply in_map. }
  destruct (ranks st) as [|r0 rest]; [congruence|]. simpl map.
  unfold write_numrecs. simpl ndirty. rewrite orb_true_r. simpl fst. simpl snd.
  assert (H0 : numrecs r0 <= mx) by (apply Hge; simpl; auto).
  f_equal.
  - simpl. f_equal.
    + unfold synced. destruct (mx >? numrecs r0); reflexivity.
    + rewrite map_map. apply map_ext. reflexivity.
  - simpl. rewrite Z.gtb_ltb. destruct (Z.ltb_spec (numrecs r0) mx); simpl; lia.
Qed.

(* ------------------------------------------------------------------ extract *)

Lemma mark1_length : forall q fl t fl', mark1 q fl t = Some fl' -> length fl' = length fl.
Proof.
  induction q as [|e q IH]; intros [|f fl] t fl' H; simpl in H; try discriminate.
  destruct (negb f && Nat.eqb (q_tag e) t).
  - inversion H; reflexivity.
  - destruct (mark1 q fl t) eqn:E; [|discriminate]. inversion H. simpl. f_equal. eauto.
Qed.

Lemma mark_ids_length : forall q ids fl fl', mark_ids q fl ids = Some fl' -> length fl' = length fl.
Proof.
  induction ids as [|[t|] ids IH]; intros fl fl' H; simpl in H.
  - inversion H; reflexivity.
  - destruct (mark1 q fl t) eqn:E; [|discriminate]. rewrite (IH _ _ H). eapply mark1_length; eauto.
  - eauto.
Qed.

Lemma extract_length : forall q sel fl, extract q sel = Some fl -> length fl = length q.
Proof.
  intros q [|ids] fl H; simpl in H.
  - inversion H. now rewrite map_length.
  - destruct (length ids =? length q)%nat.
    + inversion H. now rewrite map_length.
    + rewrite (mark_ids_length _ _ _ _ H). now rewrite map_length.
Qed.

Lemma extract_all_fst : forall l rfl, extract_all l = Some rfl -> map fst rfl = map fst l.
Proof.
  induction l as [|[r s] l IH]; intros rfl H; simpl in H.
  - inversion H; reflexivity.
  - destruct (extract (queue r) s); [|discriminate]. destruct (extract_all l) eqn:E; [|discriminate].
    inversion H. simpl. f_equal. auto.
Qed.

Lemma extract_all_in : forall l rfl rf, extract_all l = Some rfl -> In rf rfl ->
  exists s, In (fst rf, s) l /\ extract (queue (fst rf)) s = Some (snd rf).
Proof.
  induction l as [|[r s] l IH]; intros rfl rf H Hin; simpl in H.
  - inversion H; subst. inversion Hin.
  - destruct (extract (queue r) s) eqn:E1; [|discriminate]. destruct (extract_all l) eqn:E; [|discriminate].
    inversion H; subst. destruct Hin as [<-|Hin].
    + exists s. simpl. auto.
    + destruct (IH _ _ eq_refl Hin) as [s' [H1 H2]]. exists s'. simpl. auto.
Qed.

Lemma map_fst_combine : forall {A B} (l : list A) (l' : list B), length l' = length l -> map fst (combine l l') = l.
Proof.
  induction l as [|x l IH]; intros [|y l'] H; simpl in *; try discriminate; [reflexivity|].
  f_equal. apply IH. lia.
Qed.

Lemma Forall2_Forall_r : forall {A B} (R : A -> B -> Prop) (P : A -> Prop) (Q : B -> Prop) l l',
  Forall2 R l l' -> Forall P l -> (forall x y, R x y -> P x -> Q y) -> Forall Q l'.
Proof.
  intros A B R P Q l l' H. induction H; intros HP HQ; constructor; inversion HP; subst; eauto.
Qed.

Lemma Forall2_map_r2 : forall {A B C} (R : A -> B -> Prop) (R' : A -> C -> Prop) (f : B -> C) l l1,
  Forall2 R l l1 -> (forall x y, R x y -> R' x (f y)) -> Forall2 R' l (map f l1).
Proof. intros A B C R R' f l l1 H. induction H; intros HR; simpl; constructor; auto. Qed.

(* ================================================================== generic part *)

Section Gen.
Variable L : Z -> list preq -> list bool -> Z.
Hypothesis L_hi : forall a q fl, L a q fl <= commit_fixed a q fl.
Variable Er : bool.
Variable N0 : Z.

Definition Bd (st : state) : Z := Z.max N0 (written st).

Record InvW (st : state) : Prop := mkInvW {
  iw_n0 : 0 <= N0;
  iw_hdr : N0 <= hdr st <= Bd st;
  iw_rk : Forall (fun r => hdr st <= numrecs r <= Bd st) (ranks st);
  iw_coll : indep st = false -> Forall (fun r => numrecs r = hdr st) (ranks st);
  iw_def : indef st = true -> indep st = false }.

Definition InvS (st : state) : Prop := Forall (fun r => g_own r <= numrecs r) (ranks st).
Definition Agree (st : state) : Prop := Forall (fun r => numrecs r = hdr st) (ranks st).
Definition rk_le (r r' : rk) : Prop := numrecs r <= numrecs r' /\ g_own r <= g_own r'.
Definition st_le (st st' : state) : Prop := hdr st <= hdr st' /\ Forall2 rk_le (ranks st) (ranks st').

Lemma rk_le_refl : forall r, rk_le r r.
Proof. intros; unfold rk_le; lia. Qed.
Lemma st_le_refl : forall st, st_le st st.
Proof. intros; split; [lia|apply Forall2_refl, rk_le_refl]. Qed.
Lemma st_le_trans : forall a b c, st_le a b -> st_le b c -> st_le a c.
Proof.
  intros a b c [H1 H2] [H3 H4]. split; [lia|].
  eapply Forall2_trans; eauto. unfold rk_le; intros; lia.
Qed.

Lemma noop_ok : forall st, InvW st -> InvW st /\ st_le st st.
Proof. intros; split; auto using st_le_refl. Qed.

Lemma st_le_Bd : forall st st', st_le st st' -> Bd st <= Bd st'.
Proof.
  intros st st' [_ H]. unfold Bd, written.
  assert (fold_right Z.max 0 (map g_own (ranks st)) <= fold_right Z.max 0 (map g_own (ranks st'))).
  { apply written_mono. eapply Forall2_imp; [|exact H]. unfold rk_le; intros; lia. }
  lia.
Qed.

Lemma Bd_nonneg : forall st, 0 <= N0 -> 0 <= Bd st.
Proof. intros. unfold Bd. lia. Qed.

(* agreement + own writes visible  ==>  the count is exactly max(N0, written) *)
Lemma coh_of_agree : forall st, InvW st -> InvS st -> Agree st -> hdr st = Bd st.
Proof.
  intros st I S A. destruct I as [Hn [Hh1 Hh2] _ _ _].
  assert (written st <= hdr st).
  { apply written_le; [lia|]. unfold InvS, Agree in *. rewrite Forall_forall in *. intros r Hr.
    specialize (S r Hr). specialize (A r Hr). lia. }
  unfold Bd in *. lia.
Qed.

(* ---------------------------------------------------------------- ghost-only / bump / single-rank updates *)

Lemma ghost_ok : forall st ranks1, InvW st ->
  Forall2 (fun r r1 => numrecs r1 = numrecs r /\ g_own r <= g_own r1) (ranks st) ranks1 ->
  InvW (set_ranks st ranks1) /\ st_le st (set_ranks st ranks1).
Proof.
  intros st ranks1 I F.
  assert (Hle : st_le st (set_ranks st ranks1)).
  { split; simpl; [lia|]. eapply Forall2_imp; [|exact F]. unfold rk_le; intros a b [H1 H2]; lia. }
  split; [|exact Hle]. pose proof (st_le_Bd _ _ Hle) as HB.
  destruct I as [Hn Hh Hr Hc Hd]. constructor; simpl; auto.
  - lia.
  - eapply Forall2_Forall_r; [exact F|exact Hr|]. simpl. intros x y [H1 H2] H3. lia.
  - intros Hi. eapply Forall2_Forall_r; [exact F|exact (Hc Hi)|]. simpl. intros x y [H1 H2] H3. lia.
Qed.

Lemma bump_ok : forall st mx, InvW st -> mx <= Bd st ->
  InvW (coll_update mx st) /\ st_le st (coll_update mx st).
Proof.
  intros st mx I Hmx. destruct I as [Hn Hh Hr Hc Hd].
  assert (Hw : written (coll_update mx st) = written st).
  { unfold written. rewrite coll_update_ranks, map_map. f_equal. apply map_ext. apply bump_own. }
  assert (HB : Bd (coll_update mx st) = Bd st) by (unfold Bd; now rewrite Hw).
  destruct (coll_update_modes mx st) as [Ei [Ed Eh]].
  assert (Hhdr : hdr st <= hdr (coll_update mx st) <= Bd st /\
                 Forall (fun r => hdr (coll_update mx st) <= Z.max (numrecs r) mx) (ranks st)).
  { rewrite coll_update_hdr. destruct (ranks st) as [|r0 rest]; [split; [lia|constructor]|].
    inversion Hr as [|? ? H0 Hrest]; subst.
    destruct (Z.ltb_spec (numrecs r0) mx).
    - split; [lia|]. rewrite Forall_forall. intros; lia.
    - split; [lia|]. rewrite Forall_forall in *. intros r Hin. specialize (Hr r Hin). lia. }
  destruct Hhdr as [Hh' Hall].
  split.
  - constructor; auto.
    + rewrite HB. lia.
    + rewrite HB, coll_update_ranks. rewrite Forall_forall in *. intros r' Hin.
      apply in_map_iff in Hin. destruct Hin as [r [<- Hin]]. rewrite bump_numrecs.
      specialize (Hr r Hin). specialize (Hall r Hin). lia.
    + rewrite Ei. intros Hi. specialize (Hc Hi). rewrite coll_update_ranks, coll_update_hdr.
      destruct (ranks st) as [|r0 rest]; [constructor|].
      assert (E0 : numrecs r0 = hdr st) by (inversion Hc; auto).
      rewrite Forall_forall in *. intros r' Hin. apply in_map_iff in Hin. destruct Hin as [r [<- Hin]].
      rewrite bump_numrecs. specialize (Hc r Hin). rewrite E0.
      destruct (Z.ltb_spec (hdr st) mx); lia.
    + rewrite Ei, Ed. auto.
  - split; [lia|]. rewrite coll_update_ranks. apply Forall2_map_r. intros r _. unfold rk_le.
    rewrite bump_numrecs, bump_own. lia.
Qed.

Lemma bump_invS : forall st mx, Forall (fun r => g_own r <= Z.max (numrecs r) mx) (ranks st) -> InvS (coll_update mx st).
Proof.
  intros st mx H. unfold InvS. rewrite coll_update_ranks. rewrite Forall_forall in *. intros r' Hin.
  apply in_map_iff in Hin. destruct Hin as [r [<- Hin]]. rewrite bump_numrecs, bump_own. auto.
Qed.

Lemma bump_agree : forall st mx, Agree st -> Agree (coll_update mx st).
Proof.
  intros st mx A. unfold Agree in *. rewrite coll_update_ranks, coll_update_hdr.
  destruct (ranks st) as [|r0 rest]; [constructor|].
  assert (E0 : numrecs r0 = hdr st) by (inversion A; auto).
  rewrite Forall_forall in *. intros r' Hin. apply in_map_iff in Hin. destruct Hin as [r [<- Hin]].
  rewrite bump_numrecs. specialize (A r Hin). rewrite E0. destruct (Z.ltb_spec (hdr st) mx); lia.
Qed.

Lemma upd_ok : forall st i f, InvW st -> indep st = true ->
  (forall r, In r (ranks st) -> numrecs r <= numrecs (f r) /\ g_own r <= g_own (f r) /\
                                 numrecs (f r) <= Z.max (numrecs r) (g_own (f r))) ->
  InvW (set_ranks st (upd_nth i f (ranks st))) /\ st_le st (set_ranks st (upd_nth i f (ranks st))).
Proof.
  intros st i f I Hi Hf.
  assert (Hle : st_le st (set_ranks st (upd_nth i f (ranks st)))).
  { split; simpl; [lia|]. apply Forall2_upd_nth; [apply rk_le_refl|]. intros r Hr. unfold rk_le. specialize (Hf r Hr). lia. }
  split; [|exact Hle]. pose proof (st_le_Bd _ _ Hle) as HB.
  destruct I as [Hn Hh Hr Hc Hd]. constructor; simpl; auto.
  - lia.
  - rewrite Forall_forall in *. intros r' Hin.
    destruct (In_upd_nth _ _ _ _ Hin) as [H1|[r [H1 ->]]].
    + specialize (Hr r' H1). lia.
    + specialize (Hr r H1). specialize (Hf r H1).
      assert (g_own (f r) <= written (set_ranks st (upd_nth i f (ranks st)))) by (apply written_ge; exact Hin).
      unfold Bd in *. lia.
  - intros Hi'. congruence.
Qed.

Lemma upd_invS : forall st i f, InvS st -> (forall r, In r (ranks st) -> g_own r <= numrecs r -> g_own (f r) <= numrecs (f r)) ->
  InvS (set_ranks st (upd_nth i f (ranks st))).
Proof.
  intros st i f S Hf. unfold InvS in *. simpl. rewrite Forall_forall in *. intros r' Hin.
  destruct (In_upd_nth _ _ _ _ Hin) as [H1|[r [H1 ->]]]; auto.
Qed.

Lemma upd_agree_noindep : forall st, InvW st -> indep st = false -> Agree st.
Proof. intros st I H. exact (iw_coll _ I H). Qed.

Lemma hung_ok : forall st, InvW st -> InvW (set_hung st) /\ st_le st (set_hung st).
Proof.
  intros st [a b c d e]. split; [constructor; simpl; auto|].
  split; simpl; [lia|apply Forall2_refl, rk_le_refl].
Qed.

Lemma ghost_agree : forall st ranks1, Agree st ->
  Forall2 (fun r r1 => numrecs r1 = numrecs r /\ g_own r <= g_own r1) (ranks st) ranks1 ->
  Agree (set_ranks st ranks1).
Proof.
  intros st ranks1 A F. unfold Agree in *. simpl.
  eapply Forall2_Forall_r; [exact F|exact A|]. simpl. intros x y [H1 _] H2. lia.
Qed.

Lemma existsb_false_in : forall {A} (f : A -> bool) l x, existsb f l = false -> In x l -> f x = false.
Proof.
  intros A f l x H Hin. destruct (f x) eqn:E; [|reflexivity].
  assert (existsb f l = true) by (apply existsb_exists; exists x; auto). congruence.
Qed.

Lemma In_upd_nth_nth : forall {A} (f : A -> A) i l y, In y (upd_nth i f l) ->
  In y l \/ exists x, nth_error l i = Some x /\ y = f x.
Proof.
  intros A f i l. revert i. induction l as [|x l IH]; intros i y H; simpl in *; [tauto|].
  destruct i; simpl in H.
  - destruct H as [<-|H]; [right; exists x; auto|left; auto].
  - destruct H as [<-|H]; [left; auto|]. destruct (IH _ _ H) as [H1|[z [Hz ->]]]; [left; auto|right; exists z; auto].
Qed.

(* ---------------------------------------------------------------- collective put on a record variable *)

Lemma coll_put_rec_F : forall st ps, length ps = length (ranks st) ->
  Forall2 (fun r r1 => numrecs r1 = numrecs r /\ g_own r <= g_own r1) (ranks st)
          (map (fun x => part_done (fst x) (snd x)) (combine (ranks st) ps)).
Proof.
  intros st ps El. apply Forall2_combine_map; [exact El|]. intros x p _. simpl. destruct p; simpl; lia.
Qed.

Lemma coll_put_rec_ok : forall st ps, InvW st -> InvW (coll_put_rec Er ps st) /\ st_le st (coll_put_rec Er ps st).
Proof.
  intros st ps I. unfold coll_put_rec.
  destruct (indef st || indep st); [now apply noop_ok|].
  destruct (negb (length ps =? length (ranks st))%nat) eqn:El; [now apply noop_ok|].
  apply negb_false_iff, Nat.eqb_eq in El.
  destruct (length (filter is_invalid ps) =? length ps)%nat; [now apply noop_ok|].
  destruct (0 <? length (filter is_invalid ps))%nat; [now apply hung_ok|].
  pose proof (coll_put_rec_F st ps El) as F.
  set (ranks1 := map (fun x => part_done (fst x) (snd x)) (combine (ranks st) ps)) in *.
  destruct (ghost_ok st ranks1 I F) as [I1 L1].
  assert (Hmx : zmaxl (map (fun x => part_new Er (fst x) (snd x)) (combine (ranks st) ps)) <= Bd (set_ranks st ranks1)).
  { apply zmaxl_le; [apply Bd_nonneg, (iw_n0 _ I)|]. intros x Hx. apply in_map_iff in Hx.
    destruct Hx as [[r p] [<- Hin]]. simpl.
    assert (Hr : In r (ranks st)) by (eapply in_combine_l; exact Hin).
    pose proof (iw_rk _ I) as Hk. rewrite Forall_forall in Hk. specialize (Hk r Hr).
    pose proof (st_le_Bd _ _ L1) as HB.
    assert (Hi : In (part_done r p) ranks1).
    { unfold ranks1. apply in_map_iff. exists (r, p). auto. }
    pose proof (written_ge (set_ranks st ranks1) _ Hi) as Hw. simpl in Hw.
    unfold Bd in *.
    destruct p as [|hi|hi|]; cbn [part_new part_done g_own set_own snd fst] in *; try lia.
    destruct Er; lia. }
  destruct (bump_ok _ _ I1 Hmx) as [I2 L2]. split; [exact I2|eapply st_le_trans; eauto].
Qed.

Lemma coll_put_rec_S : forall st ps, InvS st -> (Er = true \/ forallb erange_free_part ps = true) ->
  InvS (coll_put_rec Er ps st).
Proof.
  intros st ps S X. unfold coll_put_rec.
  destruct (indef st || indep st); [exact S|].
  destruct (negb (length ps =? length (ranks st))%nat) eqn:El; [exact S|].
  destruct (length (filter is_invalid ps) =? length ps)%nat; [exact S|].
  destruct (0 <? length (filter is_invalid ps))%nat; [exact S|].
  apply bump_invS. simpl. rewrite Forall_forall. intros r' Hin. apply in_map_iff in Hin.
  destruct Hin as [[r p] [<- Hin]]. simpl.
  assert (Hr : In r (ranks st)) by (eapply in_combine_l; exact Hin).
  unfold InvS in S. rewrite Forall_forall in S. specialize (S r Hr).
  assert (Hm : part_new Er r p <= zmaxl (map (fun x => part_new Er (fst x) (snd x)) (combine (ranks st) ps))).
  { apply zmaxl_ge. apply in_map_iff. exists (r, p). auto. }
  destruct p as [|hi|hi|]; simpl in *; try lia.
  destruct X as [X|X]; [destruct Er; [lia|discriminate X]|].
  rewrite forallb_forall in X. specialize (X _ (in_combine_r _ _ _ _ Hin)). discriminate X.
Qed.

Lemma coll_put_rec_agree : forall st ps, Agree st -> Agree (coll_put_rec Er ps st).
Proof.
  intros st ps A. unfold coll_put_rec.
  destruct (indef st || indep st); [exact A|].
  destruct (negb (length ps =? length (ranks st))%nat) eqn:El; [exact A|].
  apply negb_false_iff, Nat.eqb_eq in El.
  destruct (length (filter is_invalid ps) =? length ps)%nat; [exact A|].
  destruct (0 <? length (filter is_invalid ps))%nat; [exact A|].
  apply bump_agree. apply ghost_agree; [exact A|now apply coll_put_rec_F].
Qed.

(* ---------------------------------------------------------------- fill_var_rec *)

Lemma fill_rec_F : forall st rs, length rs = length (ranks st) ->
  Forall2 (fun r r1 => numrecs r1 = numrecs r /\ g_own r <= g_own r1) (ranks st)
          (map (fun x => set_own (fst x) (Z.max (g_own (fst x)) (snd x + 1))) (combine (ranks st) rs)).
Proof.
  intros st rs El. apply Forall2_combine_map; [exact El|]. intros x p _. simpl. lia.
Qed.

Lemma fill_rec_ok : forall st rs, InvW st -> InvW (fill_rec rs st) /\ st_le st (fill_rec rs st).
Proof.
  intros st rs I. unfold fill_rec.
  destruct (indef st || indep st); [now apply noop_ok|].
  destruct (negb (length rs =? length (ranks st))%nat) eqn:El; [now apply noop_ok|].
  apply negb_false_iff, Nat.eqb_eq in El.
  pose proof (fill_rec_F st rs El) as F.
  set (ranks1 := map (fun x => set_own (fst x) (Z.max (g_own (fst x)) (snd x + 1))) (combine (ranks st) rs)) in *.
  destruct (ghost_ok st ranks1 I F) as [I1 L1].
  assert (Hmx : zmaxl (map (fun x => snd x + 1) (combine (ranks st) rs)) <= Bd (set_ranks st ranks1)).
  { apply zmaxl_le; [apply Bd_nonneg, (iw_n0 _ I)|]. intros x Hx. apply in_map_iff in Hx.
    destruct Hx as [[r p] [<- Hin]]. simpl.
    assert (Hi : In (set_own r (Z.max (g_own r) (p + 1))) ranks1).
    { unfold ranks1. apply in_map_iff. exists (r, p). auto. }
    pose proof (written_ge (set_ranks st ranks1) _ Hi) as Hw. simpl in Hw. unfold Bd. lia. }
  destruct (bump_ok _ _ I1 Hmx) as [I2 L2]. split; [exact I2|eapply st_le_trans; eauto].
Qed.

Lemma fill_rec_S : forall st rs, InvS st -> InvS (fill_rec rs st).
Proof.
  intros st rs S. unfold fill_rec.
  destruct (indef st || indep st); [exact S|].
  destruct (negb (length rs =? length (ranks st))%nat) eqn:El; [exact S|].
  apply bump_invS. simpl. rewrite Forall_forall. intros r' Hin. apply in_map_iff in Hin.
  destruct Hin as [[r p] [<- Hin]]. simpl.
  assert (Hr : In r (ranks st)) by (eapply in_combine_l; exact Hin).
  unfold InvS in S. rewrite Forall_forall in S. specialize (S r Hr).
  assert (Hm : p + 1 <= zmaxl (map (fun x => snd x + 1) (combine (ranks st) rs))).
  { apply zmaxl_ge. apply in_map_iff. exists (r, p). auto. }
  lia.
Qed.

Lemma fill_rec_agree : forall st rs, Agree st -> Agree (fill_rec rs st).
Proof.
  intros st rs A. unfold fill_rec.
  destruct (indef st || indep st); [exact A|].
  destruct (negb (length rs =? length (ranks st))%nat) eqn:El; [exact A|].
  apply negb_false_iff, Nat.eqb_eq in El.
  apply bump_agree. apply ghost_agree; [exact A|now apply fill_rec_F].
Qed.

(* ---------------------------------------------------------------- post *)

Lemma post_F : forall st i t b vb ro mr,
  Forall2 (fun r r1 => numrecs r1 = numrecs r /\ g_own r <= g_own r1) (ranks st)
          (upd_nth i (fun r => set_queue r (enqueue (queue r) ro (mkreq t b vb mr))) (ranks st)).
Proof.
  intros. apply Forall2_upd_nth; [intros; lia|]. intros x _. simpl. lia.
Qed.

Lemma post_ok : forall st i t b vb ro mr, InvW st -> InvW (post i t b vb ro mr st) /\ st_le st (post i t b vb ro mr st).
Proof. intros. unfold post. apply ghost_ok; auto using post_F. Qed.

Lemma post_S : forall st i t b vb ro mr, InvS st -> InvS (post i t b vb ro mr st).
Proof.
  intros st i t b vb ro mr S. unfold post. apply upd_invS; [exact S|]. intros r _ H. simpl. exact H.
Qed.

Lemma post_agree : forall st i t b vb ro mr, Agree st -> Agree (post i t b vb ro mr st).
Proof. intros. unfold post. apply ghost_agree; auto using post_F. Qed.

(* ---------------------------------------------------------------- independent put *)

Lemma indep_put_f_spec : forall p r,
  numrecs r <= numrecs (indep_put_f Er p r) /\ g_own r <= g_own (indep_put_f Er p r) /\
  numrecs (indep_put_f Er p r) <= Z.max (numrecs r) (g_own (indep_put_f Er p r)) /\
  (Er = true \/ erange_free_part p = true -> g_own r <= numrecs r ->
   g_own (indep_put_f Er p r) <= numrecs (indep_put_f Er p r)).
Proof.
  intros p r. unfold indep_put_f.
  destruct p as [|hi|hi|]; simpl; try (rewrite Z.ltb_irrefl; simpl; repeat split; intros; lia).
  - destruct (Z.ltb_spec (numrecs r) (hi + 1)); simpl; repeat split; intros; lia.
  - destruct Er; simpl.
    + destruct (Z.ltb_spec (numrecs r) (hi + 1)); simpl; repeat split; intros; lia.
    + rewrite Z.ltb_irrefl. simpl. repeat split; try lia; intros [X|X]; discriminate X.
Qed.

Lemma indep_put_rec_ok : forall st i p, InvW st -> InvW (indep_put_rec Er i p st) /\ st_le st (indep_put_rec Er i p st).
Proof.
  intros st i p I. unfold indep_put_rec.
  destruct (indef st); simpl; [now apply noop_ok|]. destruct (indep st) eqn:Ei; simpl; [|now apply noop_ok].
  apply (upd_ok st i (indep_put_f Er p)); auto. intros r _. pose proof (indep_put_f_spec p r). lia.
Qed.

Lemma indep_put_rec_S : forall st i p, InvS st -> (Er = true \/ erange_free_part p = true) ->
  InvS (indep_put_rec Er i p st).
Proof.
  intros st i p S X. unfold indep_put_rec. destruct (indef st || negb (indep st)); [exact S|].
  apply (upd_invS st i (indep_put_f Er p)); [exact S|]. intros r _ H. now apply indep_put_f_spec.
Qed.

(* ---------------------------------------------------------------- wait *)

Definition exact_q (r : rk) (sel : wsel) : Prop :=
  forall fl, extract (queue r) sel = Some fl -> L (numrecs r) (queue r) fl = commit_fixed (numrecs r) (queue r) fl.

Definition exact_at (st : state) (o : op) : Prop :=
  match o with
  | WaitAll sels => Forall (fun rs => exact_q (fst rs) (snd rs)) (combine (ranks st) sels)
  | Wait i sel => forall r, nth_error (ranks st) i = Some r -> exact_q r sel
  | CollPutRec ps => Er = true \/ forallb erange_free_part ps = true
  | IndepPutRec _ p => Er = true \/ erange_free_part p = true
  | _ => True
  end.

Lemma wait_all_F : forall st sels rfl, length sels = length (ranks st) ->
  extract_all (combine (ranks st) sels) = Some rfl ->
  map fst rfl = ranks st /\
  Forall2 (fun r r1 => numrecs r1 = numrecs r /\ g_own r <= g_own r1) (ranks st)
          (map (fun rf => complete (fst rf) (snd rf)) rfl).
Proof.
  intros st sels rfl El E. pose proof (extract_all_fst _ _ E) as Ef. rewrite (map_fst_combine _ _ El) in Ef.
  split; [exact Ef|]. rewrite <- Ef at 1. apply Forall2_map_map. intros [r fl] _. simpl.
  split; [reflexivity|apply fold_loop_ge].
Qed.

Lemma wait_all_ok : forall st sels, InvW st -> InvW (wait_all L sels st) /\ st_le st (wait_all L sels st).
Proof.
  intros st sels I. unfold wait_all.
  destruct (indef st || indep st); [now apply noop_ok|].
  destruct (negb (length sels =? length (ranks st))%nat) eqn:El; [now apply noop_ok|].
  apply negb_false_iff, Nat.eqb_eq in El.
  destruct (extract_all (combine (ranks st) sels)) as [rfl|] eqn:E; [|now apply noop_ok].
  destruct (wait_all_F st sels rfl El E) as [Ef F].
  set (ranks1 := map (fun rf => complete (fst rf) (snd rf)) rfl) in *.
  destruct (ghost_ok st ranks1 I F) as [I1 L1].
  destruct (existsb (fun rf => existsb (fun b => b) (snd rf)) rfl); [|exact (conj I1 L1)].
  assert (Hmx : zmaxl (map (fun rf => L (numrecs (fst rf)) (queue (fst rf)) (snd rf)) rfl) <= Bd (set_ranks st ranks1)).
  { apply zmaxl_le; [apply Bd_nonneg, (iw_n0 _ I)|]. intros x Hx. apply in_map_iff in Hx.
    destruct Hx as [[r fl] [<- Hin]]. simpl.
    assert (Hr : In r (ranks st)). { rewrite <- Ef. apply in_map_iff. exists (r, fl). auto. }
    pose proof (L_hi (numrecs r) (queue r) fl) as H1. rewrite commit_fixed_eq in H1.
    pose proof (fold_loop_max (combine (queue r) fl) (numrecs r) (g_own r)) as H2.
    assert (Hi : In (complete r fl) ranks1). { unfold ranks1. apply in_map_iff. exists (r, fl). auto. }
    pose proof (written_ge (set_ranks st ranks1) _ Hi) as Hw. simpl in Hw.
    pose proof (iw_rk _ I) as Hk. rewrite Forall_forall in Hk. specialize (Hk r Hr).
    pose proof (st_le_Bd _ _ L1) as HB. unfold Bd in *. lia. }
  destruct (bump_ok _ _ I1 Hmx) as [I2 L2]. split; [exact I2|eapply st_le_trans; eauto].
Qed.

Lemma wait_all_S : forall st sels, InvS st -> exact_at st (WaitAll sels) -> InvS (wait_all L sels st).
Proof.
  intros st sels S X. unfold wait_all.
  destruct (indef st || indep st); [exact S|].
  destruct (negb (length sels =? length (ranks st))%nat) eqn:El; [exact S|].
  apply negb_false_iff, Nat.eqb_eq in El.
  destruct (extract_all (combine (ranks st) sels)) as [rfl|] eqn:E; [|exact S].
  destruct (wait_all_F st sels rfl El E) as [Ef _].
  unfold InvS in S. rewrite Forall_forall in S.
  destruct (existsb (fun rf => existsb (fun b => b) (snd rf)) rfl) eqn:Ew.
  - apply bump_invS. simpl. rewrite Forall_forall. intros r' Hin. apply in_map_iff in Hin.
    destruct Hin as [[r fl] [<- Hin]]. simpl.
    assert (Hr : In r (ranks st)). { rewrite <- Ef. apply in_map_iff. exists (r, fl). auto. }
    destruct (extract_all_in _ _ _ E Hin) as [s [Hs1 Hs2]]. simpl in Hs1, Hs2.
    simpl in X. rewrite Forall_forall in X. specialize (X _ Hs1 fl Hs2). simpl in X.
    rewrite commit_fixed_eq in X.
    pose proof (fold_loop_mono (combine (queue r) fl) _ _ (S r Hr)) as Hm.
    assert (Hz : L (numrecs r) (queue r) fl <= zmaxl (map (fun rf => L (numrecs (fst rf)) (queue (fst rf)) (snd rf)) rfl)).
    { apply zmaxl_ge. apply in_map_iff. exists (r, fl). auto. }
    lia.
  - unfold InvS. simpl. rewrite Forall_forall. intros r' Hin. apply in_map_iff in Hin.
    destruct Hin as [[r fl] [<- Hin]]. simpl.
    assert (Hr : In r (ranks st)). { rewrite <- Ef. apply in_map_iff. exists (r, fl). auto. }
    pose proof (existsb_false_in _ _ _ Ew Hin) as Hf. simpl in Hf.
    rewrite (fold_loop_nofl _ _ _ Hf). auto.
Qed.

Lemma wait_all_agree : forall st sels, Agree st -> Agree (wait_all L sels st).
Proof.
  intros st sels A. unfold wait_all.
  destruct (indef st || indep st); [exact A|].
  destruct (negb (length sels =? length (ranks st))%nat) eqn:El; [exact A|].
  apply negb_false_iff, Nat.eqb_eq in El.
  destruct (extract_all (combine (ranks st) sels)) as [rfl|] eqn:E; [|exact A].
  destruct (wait_all_F st sels rfl El E) as [Ef F].
  pose proof (ghost_agree _ _ A F) as A1.
  destruct (existsb (fun rf => existsb (fun b => b) (snd rf)) rfl); [|exact A1].
  now apply bump_agree.
Qed.

Definition wait_f (sel : wsel) (r : rk) : rk :=
  match extract (queue r) sel with
  | None => r
  | Some fl =>
      let new := L (numrecs r) (queue r) fl in
      let r1 := complete r fl in
      if existsb (fun b => b) fl && (numrecs r1 <? new) then set_ndirty (set_numrecs r1 new) true else r1
  end.

Lemma wait_f_spec : forall sel r,
  numrecs r <= numrecs (wait_f sel r) /\ g_own r <= g_own (wait_f sel r) /\
  numrecs (wait_f sel r) <= Z.max (numrecs r) (g_own (wait_f sel r)).
Proof.
  intros sel r. unfold wait_f. destruct (extract (queue r) sel) as [fl|]; [|lia].
  pose proof (L_hi (numrecs r) (queue r) fl) as H1. rewrite commit_fixed_eq in H1.
  pose proof (fold_loop_max (combine (queue r) fl) (numrecs r) (g_own r)) as H2.
  pose proof (fold_loop_ge (combine (queue r) fl) (g_own r)) as H3.
  destruct (existsb (fun b => b) fl); simpl; [|lia].
  destruct (Z.ltb_spec (numrecs r) (L (numrecs r) (queue r) fl)); simpl; lia.
Qed.

Lemma wait_indep_ok : forall st i sel, InvW st -> InvW (wait_indep L i sel st) /\ st_le st (wait_indep L i sel st).
Proof.
  intros st i sel I. unfold wait_indep.
  destruct (indef st); simpl; [now apply noop_ok|]. destruct (indep st) eqn:Ei; simpl; [|now apply noop_ok].
  apply (upd_ok st i (wait_f sel)); auto. intros r _. apply wait_f_spec.
Qed.

Lemma wait_indep_S : forall st i sel, InvS st -> exact_at st (Wait i sel) -> InvS (wait_indep L i sel st).
Proof.
  intros st i sel S X. unfold wait_indep. destruct (indef st || negb (indep st)); [exact S|].
  fold (wait_f sel). unfold InvS in *. simpl. rewrite Forall_forall in *. intros r' Hin.
  destruct (In_upd_nth_nth _ _ _ _ Hin) as [H1|[r [H1 ->]]]; [auto|].
  assert (Hr : In r (ranks st)) by (eapply nth_error_In; eauto).
  specialize (S r Hr). simpl in X. specialize (X r H1). unfold exact_q in X.
  unfold wait_f. destruct (extract (queue r) sel) as [fl|]; [|exact S].
  specialize (X fl eq_refl). rewrite commit_fixed_eq in X.
  pose proof (fold_loop_mono (combine (queue r) fl) _ _ S) as Hm.
  destruct (existsb (fun b => b) fl) eqn:Ee; simpl.
  - destruct (Z.ltb_spec (numrecs r) (L (numrecs r) (queue r) fl)); simpl; lia.
  - rewrite (fold_loop_nofl _ _ _ Ee). exact S.
Qed.

(* ---------------------------------------------------------------- synchronisation calls *)

Lemma zmaxl_in : forall l, l <> [] -> In (zmaxl l) l.
Proof.
  intros [|y t] H; [congruence|]. simpl. clear H. revert y. induction t as [|z t IH]; intros y; simpl; [auto|].
  destruct (Z.max_spec z (fold_right Z.max y t)) as [[_ ->]|[_ ->]]; [|auto].
  destruct (IH y) as [H|H]; [left; exact H|right; right; exact H].
Qed.

Lemma sync_body_ok : forall st, InvW st -> InvW (sync_body st) /\ st_le st (sync_body st).
Proof.
  intros st I. destruct (ranks st) as [|r0 rest] eqn:E.
  - unfold sync_body. rewrite E. simpl. now apply noop_ok.
  - assert (Hne : ranks st <> []) by (rewrite E; discriminate).
    rewrite (sync_body_spec st Hne). set (mx := zmaxl (map numrecs (ranks st))).
    assert (Hge : forall r, In r (ranks st) -> numrecs r <= mx).
    { intros r Hr. apply zmaxl_ge. now apply in_map. }
    assert (Hin : exists r, In r (ranks st) /\ numrecs r = mx).
    { assert (In mx (map numrecs (ranks st))) by (apply zmaxl_in; rewrite E; discriminate).
      apply in_map_iff in H. destruct H as [r [H1 H2]]. exists r; auto. }
    destruct Hin as [rm [Hrm Em]].
    destruct I as [Hn Hh Hr Hc Hd]. rewrite Forall_forall in Hr.
    set (st' := mkst (map (synced mx) (ranks st)) mx (indep st) (indef st) (hung st)).
    assert (HB : Bd st' = Bd st). { unfold Bd, written, st'. simpl. rewrite map_map. reflexivity. }
    pose proof (Hr rm Hrm) as Hm.
    split.
    + constructor; rewrite ?HB; auto.
      * simpl. lia.
      * simpl. rewrite Forall_forall. intros r' Hi. apply in_map_iff in Hi. destruct Hi as [r [<- Hi]]. simpl. lia.
      * intros _. simpl. rewrite Forall_forall. intros r' Hi. apply in_map_iff in Hi. destruct Hi as [r [<- Hi]]. reflexivity.
    + split; simpl; [lia|]. apply Forall2_map_r. intros r Hi. unfold rk_le. simpl. specialize (Hge r Hi). lia.
Qed.

Lemma sync_body_S : forall st, InvS st -> InvS (sync_body st).
Proof.
  intros st S. destruct (ranks st) as [|r0 rest] eqn:E.
  - unfold sync_body. rewrite E. simpl. exact S.
  - assert (Hne : ranks st <> []) by (rewrite E; discriminate).
    rewrite (sync_body_spec st Hne). unfold InvS in *. simpl. rewrite Forall_forall in *.
    intros r' Hi. apply in_map_iff in Hi. destruct Hi as [r [<- Hi]]. simpl.
    assert (numrecs r <= zmaxl (map numrecs (ranks st))) by (apply zmaxl_ge; now apply in_map).
    specialize (S r Hi). lia.
Qed.

Lemma sync_body_agree : forall st, Agree st \/ ranks st <> [] -> Agree (sync_body st).
Proof.
  intros st H. destruct (ranks st) as [|r0 rest] eqn:E.
  - unfold sync_body, Agree. rewrite E. simpl. rewrite E. constructor.
  - assert (Hne : ranks st <> []) by (rewrite E; discriminate).
    rewrite (sync_body_spec st Hne). unfold Agree. simpl. rewrite Forall_forall.
    intros r' Hi. apply in_map_iff in Hi. destruct Hi as [r [<- Hi]]. reflexivity.
Qed.

Lemma sync_body_modes : forall st, indep (sync_body st) = indep st /\ indef (sync_body st) = indef st /\ hung (sync_body st) = hung st.
Proof.
  intros st. unfold sync_body. destruct (map (fun r => set_ndirty r true) (ranks st)); simpl; auto.
Qed.

Lemma set_indep_false_ok : forall st, InvW st -> Agree st -> InvW (set_indep st false).
Proof. intros st [a b c d e] A. constructor; simpl; auto. Qed.

Lemma set_indep_true_ok : forall st, InvW st -> indef st = false -> InvW (set_indep st true).
Proof. intros st [a b c d e] A. constructor; simpl; auto; congruence. Qed.

Lemma same_nums_le : forall st st', hdr st' = hdr st -> ranks st' = ranks st -> st_le st st'.
Proof. intros st st' H1 H2. split; [lia|]. rewrite H2. apply Forall2_refl, rk_le_refl. Qed.

Lemma sync_numrecs_ok : forall st, InvW st -> InvW (sync_numrecs st) /\ st_le st (sync_numrecs st).
Proof.
  intros st I. unfold sync_numrecs. destruct (indef st); [now apply noop_ok|].
  destruct (indep st); [now apply sync_body_ok|now apply noop_ok].
Qed.

Lemma begin_indep_ok : forall st, InvW st -> InvW (begin_indep st) /\ st_le st (begin_indep st).
Proof.
  intros st I. unfold begin_indep. destruct (indef st) eqn:Ed; [now apply noop_ok|].
  split; [now apply set_indep_true_ok|now apply same_nums_le].
Qed.

Lemma end_indep_ok : forall st, InvW st -> InvW (end_indep st) /\ st_le st (end_indep st).
Proof.
  intros st I. unfold end_indep. destruct (indef st) eqn:Ed; [now apply noop_ok|].
  destruct (indep st) eqn:Ei; [|now apply noop_ok].
  destruct (sync_body_ok st I) as [I1 L1]. split.
  - apply set_indep_false_ok; [exact I1|]. apply sync_body_agree.
    destruct (ranks st) eqn:E; [left; unfold Agree; rewrite E; constructor|right; discriminate].
  - eapply st_le_trans; [exact L1|]. now apply same_nums_le.
Qed.

Lemma end_indep_indep : forall st, indef st = false -> indep (end_indep st) = false.
Proof.
  intros st Ed. unfold end_indep. rewrite Ed. destruct (indep st) eqn:Ei; [reflexivity|exact Ei].
Qed.

Lemma end_indep_indef : forall st, indef (end_indep st) = indef st.
Proof.
  intros st. unfold end_indep. destruct (indef st) eqn:Ed; [exact Ed|]. destruct (indep st); [|exact Ed].
  simpl. destruct (sync_body_modes st) as [_ [H _]]. now rewrite H.
Qed.

Lemma redef_ok : forall st, InvW st -> InvW (redef st) /\ st_le st (redef st).
Proof.
  intros st I. unfold redef. destruct (indef st) eqn:Ed; [now apply noop_ok|].
  destruct (end_indep_ok st I) as [I1 L1]. pose proof (end_indep_indep st Ed) as Ei.
  split.
  - destruct I1 as [a b c d e]. constructor; simpl; auto.
  - eapply st_le_trans; [exact L1|]. now apply same_nums_le.
Qed.

Lemma enddef_ok : forall st, InvW st -> InvW (enddef st) /\ st_le st (enddef st).
Proof.
  intros st I. unfold enddef. destruct (indef st) eqn:Ed; simpl; [|now apply noop_ok].
  pose proof (iw_coll _ I (iw_def _ I Ed)) as A.
  assert (Eh : match ranks st with r0 :: _ => numrecs r0 | [] => hdr st end = hdr st).
  { destruct (ranks st); [reflexivity|]. inversion A; auto. }
  rewrite Eh. destruct I as [a b c d e].
  set (st' := mkst (map (fun r => set_ndirty r false) (ranks st)) (hdr st) false false (hung st)).
  assert (HB : Bd st' = Bd st). { unfold Bd, written, st'. simpl. rewrite map_map. reflexivity. }
  split.
  - constructor; rewrite ?HB; auto.
    + simpl. rewrite Forall_forall in *. intros r' Hi. apply in_map_iff in Hi. destruct Hi as [r [<- Hi]]. simpl. auto.
    + intros _. simpl. unfold Agree in A. rewrite Forall_forall in *. intros r' Hi. apply in_map_iff in Hi.
      destruct Hi as [r [<- Hi]]. simpl. auto.
  - split; simpl; [lia|]. apply Forall2_map_r. intros r _. unfold rk_le. simpl. lia.
Qed.

Lemma enddef_indef : forall st, indef (enddef st) = false.
Proof. intros st. unfold enddef. destruct (indef st) eqn:E; simpl; auto. Qed.

Lemma reopen_ok : forall st, InvW st -> InvW (reopen st) /\ st_le st (reopen st).
Proof.
  intros st I. unfold reopen.
  destruct (enddef_ok st I) as [I1 L1]. destruct (end_indep_ok _ I1) as [I2 L2].
  pose proof (end_indep_indep _ (enddef_indef st)) as Ei.
  set (s2 := end_indep (enddef st)) in *.
  pose proof (iw_coll _ I2 Ei) as A. unfold Agree in A. rewrite Forall_forall in A.
  destruct I2 as [a b c d e]. rewrite Forall_forall in c.
  set (st' := mkst (map (fun r => mkrk (hdr s2) false [] (g_own r)) (ranks s2)) (hdr s2) false false (hung s2)).
  assert (HB : Bd st' = Bd s2). { unfold Bd, written, st'. simpl. rewrite map_map. reflexivity. }
  split.
  - constructor; rewrite ?HB; auto.
    + simpl. rewrite Forall_forall. intros r' Hi. apply in_map_iff in Hi. destruct Hi as [r [<- Hi]]. simpl. lia.
    + intros _. simpl. rewrite Forall_forall. intros r' Hi. apply in_map_iff in Hi. destruct Hi as [r [<- Hi]]. reflexivity.
  - eapply st_le_trans; [exact L1|]. eapply st_le_trans; [exact L2|].
    split; simpl; [lia|]. apply Forall2_map_r. intros r Hi. unfold rk_le. simpl. specialize (A r Hi). lia.
Qed.

Lemma enddef_S : forall st, InvS st -> InvS (enddef st).
Proof.
  intros st S. unfold enddef. destruct (indef st); simpl; [|exact S].
  unfold InvS in *. simpl. rewrite Forall_forall in *. intros r' Hi. apply in_map_iff in Hi.
  destruct Hi as [r [<- Hi]]. simpl. auto.
Qed.

Lemma end_indep_S : forall st, InvS st -> InvS (end_indep st).
Proof.
  intros st S. unfold end_indep. destruct (indef st); [exact S|]. destruct (indep st); [|exact S].
  pose proof (sync_body_S st S) as S1. exact S1.
Qed.

Lemma reopen_S : forall st, InvW st -> InvS st -> InvS (reopen st).
Proof.
  intros st I S. unfold reopen.
  destruct (enddef_ok st I) as [I1 _]. destruct (end_indep_ok _ I1) as [I2 _].
  pose proof (end_indep_indep _ (enddef_indef st)) as Ei.
  pose proof (end_indep_S _ (enddef_S _ S)) as S2.
  set (s2 := end_indep (enddef st)) in *.
  pose proof (iw_coll _ I2 Ei) as A. unfold InvS in *. simpl. rewrite Forall_forall in *.
  intros r' Hi. apply in_map_iff in Hi. destruct Hi as [r [<- Hi]]. simpl.
  specialize (A r Hi). specialize (S2 r Hi). lia.
Qed.

(* ---------------------------------------------------------------- one step *)

Lemma step_ok : forall st o, InvW st -> InvW (step L Er st o) /\ st_le st (step L Er st o).
Proof.
  intros st o I. unfold step. destruct (hung st); [now apply noop_ok|].
  destruct o; try (now apply noop_ok).
  - now apply coll_put_rec_ok.
  - now apply indep_put_rec_ok.
  - now apply fill_rec_ok.
  - now apply post_ok.
  - now apply wait_all_ok.
  - now apply wait_indep_ok.
  - now apply begin_indep_ok.
  - now apply end_indep_ok.
  - unfold sync. now apply sync_numrecs_ok.
  - now apply sync_numrecs_ok.
  - now apply redef_ok.
  - now apply enddef_ok.
  - now apply reopen_ok.
Qed.

Lemma step_S : forall st o, InvW st -> InvS st -> exact_at st o -> InvS (step L Er st o).
Proof.
  intros st o I S X. unfold step. destruct (hung st); [exact S|].
  destruct o; try exact S.
  - now apply coll_put_rec_S.
  - now apply indep_put_rec_S.
  - now apply fill_rec_S.
  - now apply post_S.
  - now apply wait_all_S.
  - now apply wait_indep_S.
  - unfold begin_indep. destruct (indef st); exact S.
  - now apply end_indep_S.
  - unfold sync, sync_numrecs. destruct (indef st); [exact S|]. destruct (indep st); [now apply sync_body_S|exact S].
  - unfold sync_numrecs. destruct (indef st); [exact S|]. destruct (indep st); [now apply sync_body_S|exact S].
  - unfold redef. destruct (indef st); [exact S|]. pose proof (end_indep_S st S) as S1. exact S1.
  - now apply enddef_S.
  - now apply reopen_S.
Qed.

(* operations that are not independent writes keep agreement *)
Definition quiet (o : op) : bool := match o with IndepPutRec _ _ | Wait _ _ => false | _ => true end.
(* the documented synchronisation calls *)
Definition sync_op (o : op) : bool :=
  match o with EndIndep | Sync | SyncNumrecs | Redef | Reopen => true | _ => false end.

Lemma step_agree : forall st o, InvW st -> Agree st -> quiet o = true -> Agree (step L Er st o).
Proof.
  intros st o I A Q. pose proof (step_ok st o I) as [I' _]. revert I'. unfold step.
  destruct (hung st); [intros _; exact A|].
  destruct o; try discriminate; intros I'; try exact A.
  - now apply coll_put_rec_agree.
  - now apply fill_rec_agree.
  - now apply post_agree.
  - now apply wait_all_agree.
  - unfold begin_indep in *. destruct (indef st); exact A.
  - unfold end_indep in *. destruct (indef st); [exact A|]. destruct (indep st); [|exact A].
    unfold Agree. simpl. apply sync_body_agree. now left.
  - unfold sync, sync_numrecs in *. destruct (indef st); [exact A|]. destruct (indep st); [|exact A].
    apply sync_body_agree. now left.
  - unfold sync_numrecs in *. destruct (indef st); [exact A|]. destruct (indep st); [|exact A].
    apply sync_body_agree. now left.
  - unfold redef in *. destruct (indef st) eqn:Ed; [exact A|].
    apply (iw_coll _ I'). simpl. now apply end_indep_indep.
  - unfold enddef in *. destruct (indef st) eqn:Ed; [|exact A]. apply (iw_coll _ I'). reflexivity.
  - apply (iw_coll _ I'). reflexivity.
Qed.

Lemma sync_agree : forall st o, InvW st -> hung st = false -> indef st = false -> sync_op o = true ->
  Agree (step L Er st o).
Proof.
  intros st o I Hh Hd Q. pose proof (step_ok st o I) as [I' _]. revert I'. unfold step. rewrite Hh.
  destruct o; try discriminate; intros I'.
  - apply (iw_coll _ I'). now apply end_indep_indep.
  - unfold sync, sync_numrecs in *. rewrite Hd in *. destruct (indep st) eqn:Ei.
    + destruct (ranks st) eqn:E; apply sync_body_agree; [left; unfold Agree; rewrite E; constructor|right; rewrite E; discriminate].
    + exact (iw_coll _ I Ei).
  - unfold sync_numrecs in *. rewrite Hd in *. destruct (indep st) eqn:Ei.
    + destruct (ranks st) eqn:E; apply sync_body_agree; [left; unfold Agree; rewrite E; constructor|right; rewrite E; discriminate].
    + exact (iw_coll _ I Ei).
  - unfold redef in *. rewrite Hd in *. apply (iw_coll _ I'). simpl. now apply end_indep_indep.
  - apply (iw_coll _ I'). reflexivity.
Qed.

(* ---------------------------------------------------------------- histories *)

Lemma init_InvW : forall n, 0 <= N0 -> InvW (init n N0).
Proof.
  intros n Hn.
  assert (Hw : written (init n N0) = 0).
  { unfold written, init. simpl. induction n; simpl; [reflexivity|]. rewrite IHn. reflexivity. }
  assert (HB : Bd (init n N0) = N0). { unfold Bd. rewrite Hw. lia. }
  constructor; rewrite ?HB; auto.
  - simpl. lia.
  - simpl. rewrite Forall_forall. intros r Hr. apply repeat_spec in Hr. subst. simpl. lia.
  - intros _. simpl. rewrite Forall_forall. intros r Hr. apply repeat_spec in Hr. subst. reflexivity.
Qed.

Lemma init_InvS : forall n, 0 <= N0 -> InvS (init n N0).
Proof.
  intros n Hn. unfold InvS. simpl. rewrite Forall_forall. intros r Hr. apply repeat_spec in Hr. subst. simpl. lia.
Qed.

Lemma run_app : forall ops1 ops2 st, run L Er st (ops1 ++ ops2) = run L Er (run L Er st ops1) ops2.
Proof. intros. unfold run. apply fold_left_app. Qed.

Lemma run_ok : forall ops st, InvW st -> InvW (run L Er st ops) /\ st_le st (run L Er st ops).
Proof.
  induction ops as [|o ops IH]; intros st I; simpl; [now apply noop_ok|].
  destruct (step_ok st o I) as [I1 L1]. destruct (IH _ I1) as [I2 L2].
  split; [exact I2|eapply st_le_trans; eauto].
Qed.

Lemma run_S : forall ops st, InvW st -> InvS st -> hist_all L Er exact_at st ops -> InvS (run L Er st ops).
Proof.
  induction ops as [|o ops IH]; intros st I S X; simpl; [exact S|].
  destruct X as [X1 X2]. destruct (step_ok st o I) as [I1 _].
  apply IH; auto. now apply step_S.
Qed.

Lemma hist_all_app : forall P ops1 ops2 st, hist_all L Er P st (ops1 ++ ops2) ->
  hist_all L Er P st ops1 /\ hist_all L Er P (run L Er st ops1) ops2.
Proof.
  induction ops1 as [|o ops1 IH]; intros ops2 st H; simpl in *; [auto|].
  destruct H as [H1 H2]. destruct (IH _ _ H2). auto.
Qed.

Lemma run_agree : forall ops st, InvW st -> Agree st -> forallb quiet ops = true -> Agree (run L Er st ops).
Proof.
  induction ops as [|o ops IH]; intros st I A Q; simpl in *; [exact A|].
  apply andb_true_iff in Q. destruct Q as [Q1 Q2]. destruct (step_ok st o I) as [I1 _].
  apply IH; auto. now apply step_agree.
Qed.

(* --- generic theorems (instantiated below) --- *)

(* in collective mode (and in define mode) every rank holds the header's value; no rank is ever
   above max(N0, written); nothing is below the header *)
Theorem gen_agree : forall n ops, 0 <= N0 ->
  let st := run L Er (init n N0) ops in
  (indep st = false -> forall r, In r (ranks st) -> numrecs r = hdr st) /\
  (forall r, In r (ranks st) -> hdr st <= numrecs r <= Z.max N0 (written st)) /\
  N0 <= hdr st <= Z.max N0 (written st).
Proof.
  intros n ops Hn st. destruct (run_ok ops _ (init_InvW n Hn)) as [I _]. fold st in I.
  destruct I as [a b c d e]. repeat split.
  - intros Hi. specialize (d Hi). now rewrite Forall_forall in d.
  - rewrite Forall_forall in c. apply c. auto.
  - rewrite Forall_forall in c. apply c. auto.
  - apply b.
  - apply b.
Qed.

Theorem gen_monotone : forall n ops1 ops2, 0 <= N0 ->
  let st := run L Er (init n N0) ops1 in let st' := run L Er (init n N0) (ops1 ++ ops2) in
  hdr st <= hdr st' /\ Forall2 (fun r r' => numrecs r <= numrecs r' /\ g_own r <= g_own r') (ranks st) (ranks st').
Proof.
  intros n ops1 ops2 Hn st st'. unfold st'. rewrite run_app. fold st.
  destruct (run_ok ops1 _ (init_InvW n Hn)) as [I _]. fold st in I.
  destruct (run_ok ops2 _ I) as [_ Hl]. exact Hl.
Qed.

Theorem gen_coherent : forall n ops, 0 <= N0 -> hist_all L Er exact_at (init n N0) ops ->
  let st := run L Er (init n N0) ops in
  indep st = false -> forall r, In r (ranks st) -> numrecs r = hdr st /\ hdr st = Z.max N0 (written st).
Proof.
  intros n ops Hn X st Hi r Hr. destruct (run_ok ops _ (init_InvW n Hn)) as [I _]. fold st in I.
  pose proof (run_S ops _ (init_InvW n Hn) (init_InvS n Hn) X) as S. fold st in S.
  pose proof (iw_coll _ I Hi) as A. split.
  - unfold Agree in A. rewrite Forall_forall in A. auto.
  - exact (coh_of_agree st I S A).
Qed.

Theorem gen_indep_then_sync : forall n ops o ops2, 0 <= N0 ->
  hist_all L Er exact_at (init n N0) (ops ++ o :: ops2) ->
  sync_op o = true -> hung (run L Er (init n N0) ops) = false -> indef (run L Er (init n N0) ops) = false ->
  forallb quiet ops2 = true ->
  let st := run L Er (init n N0) (ops ++ o :: ops2) in
  forall r, In r (ranks st) -> numrecs r = hdr st /\ hdr st = Z.max N0 (written st).
Proof.
  intros n ops o ops2 Hn X Q Hh Hd Q2 st r Hr.
  destruct (run_ok (ops ++ o :: ops2) _ (init_InvW n Hn)) as [I _]. fold st in I.
  pose proof (run_S _ _ (init_InvW n Hn) (init_InvS n Hn) X) as S. fold st in S.
  assert (A : Agree st).
  { unfold st. rewrite run_app. simpl.
    destruct (run_ok ops _ (init_InvW n Hn)) as [I0 _].
    destruct (step_ok _ o I0) as [I1 _].
    apply run_agree; auto. now apply sync_agree. }
  split.
  - unfold Agree in A. rewrite Forall_forall in A. auto.
  - exact (coh_of_agree st I S A).
Qed.

Theorem gen_sync_agree : forall n ops o ops2, 0 <= N0 ->
  sync_op o = true -> hung (run L Er (init n N0) ops) = false -> indef (run L Er (init n N0) ops) = false ->
  forallb quiet ops2 = true ->
  let st := run L Er (init n N0) (ops ++ o :: ops2) in
  forall r, In r (ranks st) -> numrecs r = hdr st.
Proof.
  intros n ops o ops2 Hn Q Hh Hd Q2 st r Hr.
  assert (A : Agree st).
  { unfold st. rewrite run_app. simpl.
    destruct (run_ok ops _ (init_InvW n Hn)) as [I0 _].
    destruct (step_ok _ o I0) as [I1 _].
    apply run_agree; auto. now apply sync_agree. }
  unfold Agree in A. rewrite Forall_forall in A. auto.
Qed.

Theorem gen_readable : forall n ops, 0 <= N0 -> hist_all L Er exact_at (init n N0) ops ->
  let st := run L Er (init n N0) ops in
  (forall r, In r (ranks st) -> g_own r <= numrecs r) /\
  (indep st = false -> forall r, In r (ranks st) -> written st <= numrecs r).
Proof.
  intros n ops Hn X st.
  pose proof (run_S ops _ (init_InvW n Hn) (init_InvS n Hn) X) as S. fold st in S.
  split.
  - unfold InvS in S. rewrite Forall_forall in S. exact S.
  - intros Hi r Hr. destruct (gen_coherent n ops Hn X Hi r Hr) as [H1 H2]. fold st in H1, H2. lia.
Qed.

End Gen.

(* ================================================================== instances *)

Lemma loop_lo : forall a q fl, a <= commit_loop a q fl.
Proof. intros. apply loop_over_ge. Qed.
Lemma loop_hi : forall a q fl, commit_loop a q fl <= commit_fixed a q fl.
Proof. intros. apply loop_over_le_fixed. Qed.
Lemma fixed_lo : forall a q fl, a <= commit_fixed a q fl.
Proof. intros. apply loop_over_ge. Qed.
Lemma fixed_hi : forall a q fl, commit_fixed a q fl <= commit_fixed a q fl.
Proof. intros. lia. Qed.

Lemma hist_all_imp : forall L Er (P Q : state -> op -> Prop), (forall s o, P s o -> Q s o) ->
  forall ops st, hist_all L Er P st ops -> hist_all L Er Q st ops.
Proof. intros L Er P Q H. induction ops as [|o ops IH]; intros st X; simpl in *; [auto|]. destruct X; auto. Qed.

Lemma hist_allb_all : forall L Er (P : state -> op -> bool) ops st, hist_allb L Er P st ops = true ->
  hist_all L Er (fun s o => P s o = true) st ops.
Proof.
  intros L Er P. induction ops as [|o ops IH]; intros st H; simpl in *; [auto|].
  apply andb_true_iff in H. destruct H; auto.
Qed.

Lemma hist_all_true : forall L Er (P : state -> op -> Prop), (forall s o, P s o) -> forall ops st, hist_all L Er P st ops.
Proof. intros L Er P H. induction ops; intros st; simpl; auto. Qed.

Lemma fixed_exact : forall st o, exact_at commit_fixed true st o.
Proof.
  intros st o. destruct o; simpl; auto.
  - rewrite Forall_forall. intros rs _ fl _. reflexivity.
  - intros r _ fl _. reflexivity.
Qed.

Lemma head_ok_exact_at : forall st o, head_ok st o = true -> exact_at commit_loop true st o.
Proof.
  intros st o H. destruct o; simpl in *; auto.
  - rewrite Forall_forall. intros rs Hin fl E. rewrite forallb_forall in H. specialize (H rs Hin).
    eapply head_ok_exact; eauto.
  - intros r Hr fl E. rewrite Hr in H. eapply head_ok_exact; eauto.
Qed.

Definition coll_write (o : op) : bool :=
  match o with CollPutRec _ | CollPutFix | FillRec _ | WaitAll _ => true | _ => false end.

Lemma coll_write_indep : forall L Er st o, coll_write o = true -> indep (step L Er st o) = indep st.
Proof.
  intros L Er st o H. unfold step. destruct (hung st); [reflexivity|].
  destruct o; try discriminate; try reflexivity.
  - unfold coll_put_rec. destruct (indef st || indep st); [reflexivity|].
    destruct (negb (length ps =? length (ranks st))%nat); [reflexivity|].
    destruct (length (filter is_invalid ps) =? length ps)%nat; [reflexivity|].
    destruct (0 <? length (filter is_invalid ps))%nat; [reflexivity|].
    match goal with |- indep (coll_update ?m ?s) = _ => now destruct (coll_update_modes m s) as [-> _] end.
  - unfold fill_rec. destruct (indef st || indep st); [reflexivity|].
    destruct (negb (length recnos =? length (ranks st))%nat); [reflexivity|].
    match goal with |- indep (coll_update ?m ?s) = _ => now destruct (coll_update_modes m s) as [-> _] end.
  - unfold wait_all. destruct (indef st || indep st); [reflexivity|].
    destruct (negb (length sels =? length (ranks st))%nat); [reflexivity|].
    destruct (extract_all (combine (ranks st) sels)); [|reflexivity].
    match goal with |- indep (if ?c then _ else _) = _ => destruct c end; [|reflexivity].
    match goal with |- indep (coll_update ?m ?s) = _ => now destruct (coll_update_modes m s) as [-> _] end.
Qed.

(* ------------------------------------------------------------------ corrected loop: the property in full *)

Theorem coll_coherent : forall n N0 ops, 0 <= N0 ->
  let st := run_fixed (init n N0) ops in
  indep st = false ->
  forall r, In r (ranks st) -> numrecs r = hdr st /\ hdr st = Z.max N0 (written st).
Proof.
  intros n N0 ops Hn. apply (gen_coherent commit_fixed fixed_hi true N0 n ops Hn).
  apply hist_all_true. apply fixed_exact.
Qed.

Theorem coll_coherent_after_write : forall n N0 ops o, 0 <= N0 -> coll_write o = true ->
  let st0 := run_fixed (init n N0) ops in
  indep st0 = false ->
  let st := step_fixed st0 o in
  forall r, In r (ranks st) -> numrecs r = hdr st /\ hdr st = Z.max N0 (written st).
Proof.
  intros n N0 ops o Hn Hw st0 Hi st.
  assert (E : st = run_fixed (init n N0) (ops ++ [o])).
  { unfold st, st0, run_fixed, step_fixed. now rewrite run_app. }
  rewrite E. apply coll_coherent; auto. rewrite <- E. unfold st, step_fixed. now rewrite coll_write_indep.
Qed.

Theorem indep_then_sync : forall n N0 ops o ops2, 0 <= N0 ->
  sync_op o = true ->
  hung (run_fixed (init n N0) ops) = false -> indef (run_fixed (init n N0) ops) = false ->
  forallb quiet ops2 = true ->
  let st := run_fixed (init n N0) (ops ++ o :: ops2) in
  forall r, In r (ranks st) -> numrecs r = hdr st /\ hdr st = Z.max N0 (written st).
Proof.
  intros n N0 ops o ops2 Hn. apply (gen_indep_then_sync commit_fixed fixed_hi true N0 n ops o ops2 Hn).
  apply hist_all_true. apply fixed_exact.
Qed.

Theorem numrecs_monotone : forall n N0 ops1 ops2, 0 <= N0 ->
  let st := run_fixed (init n N0) ops1 in let st' := run_fixed (init n N0) (ops1 ++ ops2) in
  hdr st <= hdr st' /\ Forall2 (fun r r' => numrecs r <= numrecs r' /\ g_own r <= g_own r') (ranks st) (ranks st').
Proof. intros n N0. apply (gen_monotone commit_fixed fixed_hi true N0 n). Qed.

Theorem completed_write_readable : forall n N0 ops, 0 <= N0 ->
  let st := run_fixed (init n N0) ops in
  (forall r, In r (ranks st) -> g_own r <= numrecs r) /\
  (indep st = false -> forall r, In r (ranks st) -> written st <= numrecs r).
Proof.
  intros n N0 ops Hn. apply (gen_readable commit_fixed fixed_hi true N0 n ops Hn).
  apply hist_all_true. apply fixed_exact.
Qed.

(* ------------------------------------------------------------------ the library as it is (loop over the queue head) *)

Theorem coll_agree_head : forall n N0 ops, 0 <= N0 ->
  let st := run_head (init n N0) ops in
  (indep st = false -> forall r, In r (ranks st) -> numrecs r = hdr st) /\
  (forall r, In r (ranks st) -> hdr st <= numrecs r <= Z.max N0 (written st)) /\
  N0 <= hdr st <= Z.max N0 (written st).
Proof. intros n N0 ops Hn. apply (gen_agree commit_loop loop_hi true N0 n ops Hn). Qed.

Theorem numrecs_monotone_head : forall n N0 ops1 ops2, 0 <= N0 ->
  let st := run_head (init n N0) ops1 in let st' := run_head (init n N0) (ops1 ++ ops2) in
  hdr st <= hdr st' /\ Forall2 (fun r r' => numrecs r <= numrecs r' /\ g_own r <= g_own r') (ranks st) (ranks st').
Proof. intros n N0. apply (gen_monotone commit_loop loop_hi true N0 n). Qed.

Theorem indep_sync_agree_head : forall n N0 ops o ops2, 0 <= N0 ->
  sync_op o = true ->
  hung (run_head (init n N0) ops) = false -> indef (run_head (init n N0) ops) = false ->
  forallb quiet ops2 = true ->
  let st := run_head (init n N0) (ops ++ o :: ops2) in
  forall r, In r (ranks st) -> numrecs r = hdr st.
Proof. intros n N0 ops o ops2 Hn. apply (gen_sync_agree commit_loop loop_hi true N0 n ops o ops2 Hn). Qed.

(* the full statements, as they would read for the library as it is *)
Definition coll_coherent_full : Prop := forall n N0 ops, 0 <= N0 ->
  let st := run_head (init n N0) ops in
  indep st = false ->
  forall r, In r (ranks st) -> numrecs r = hdr st /\ hdr st = Z.max N0 (written st).

Definition indep_then_sync_full : Prop := forall n N0 ops o ops2, 0 <= N0 ->
  sync_op o = true ->
  hung (run_head (init n N0) ops) = false -> indef (run_head (init n N0) ops) = false ->
  forallb quiet ops2 = true ->
  let st := run_head (init n N0) (ops ++ o :: ops2) in
  forall r, In r (ranks st) -> numrecs r = hdr st /\ hdr st = Z.max N0 (written st).

Definition completed_write_readable_full : Prop := forall n N0 ops, 0 <= N0 ->
  let st := run_head (init n N0) ops in
  (forall r, In r (ranks st) -> g_own r <= numrecs r) /\
  (indep st = false -> forall r, In r (ranks st) -> written st <= numrecs r).

(* F1 witness: rank 0 posts an iput on the fixed-size variable, then an iput writing record 5 of the
   record variable, then every rank calls wait_all and rank 0 names only the second request *)
Definition f1_witness : list op :=
  [Post 0 0 false 512 512 (-1); Post 0 1 true 528 608 6; WaitAll [WIds [Some 1%nat]; WIds []]].
(* same through the independent wait, followed by end_indep_data *)
Definition f1_witness_indep : list op :=
  [BeginIndep; Post 0 0 false 512 512 (-1); Post 0 1 true 528 576 5; Wait 0 (WIds [Some 1%nat])].

Theorem coll_coherent_refuted : ~ coll_coherent_full.
Proof.
  intros H. specialize (H 2%nat 0 f1_witness (Z.le_refl 0)). vm_compute in H.
  destruct (H eq_refl _ (or_introl eq_refl)) as [_ Hx]. discriminate Hx.
Qed.

Theorem indep_then_sync_refuted : ~ indep_then_sync_full.
Proof.
  intros H. specialize (H 2%nat 0 f1_witness_indep EndIndep [] (Z.le_refl 0) eq_refl eq_refl eq_refl eq_refl).
  vm_compute in H. destruct (H _ (or_introl eq_refl)) as [_ Hx]. discriminate Hx.
Qed.

Theorem completed_write_readable_refuted : ~ completed_write_readable_full.
Proof.
  intros H. specialize (H 2%nat 0 f1_witness (Z.le_refl 0)). vm_compute in H.
  destruct H as [H _]. specialize (H _ (or_introl eq_refl)). vm_compute in H. apply H. reflexivity.
Qed.

(* ... and proved for the histories in which every wait finds the record requests it completes among
   the first k = (number of requests it completes) queue entries; in particular every history whose
   waits name all pending requests (NC_REQ_ALL or the full id list) *)
Lemma head_ok_hist : forall st ops, hist_allb commit_loop true head_ok st ops = true ->
  hist_all commit_loop true (exact_at commit_loop true) st ops.
Proof.
  intros st ops H. eapply hist_all_imp; [|apply hist_allb_all; exact H]. intros s o. apply head_ok_exact_at.
Qed.

Theorem coll_coherent_partial : forall n N0 ops, 0 <= N0 ->
  hist_allb commit_loop true head_ok (init n N0) ops = true ->
  let st := run_head (init n N0) ops in
  indep st = false ->
  forall r, In r (ranks st) -> numrecs r = hdr st /\ hdr st = Z.max N0 (written st).
Proof.
  intros n N0 ops Hn Hh. apply (gen_coherent commit_loop loop_hi true N0 n ops Hn). now apply head_ok_hist.
Qed.

Theorem indep_then_sync_partial : forall n N0 ops o ops2, 0 <= N0 ->
  hist_allb commit_loop true head_ok (init n N0) (ops ++ o :: ops2) = true ->
  sync_op o = true ->
  hung (run_head (init n N0) ops) = false -> indef (run_head (init n N0) ops) = false ->
  forallb quiet ops2 = true ->
  let st := run_head (init n N0) (ops ++ o :: ops2) in
  forall r, In r (ranks st) -> numrecs r = hdr st /\ hdr st = Z.max N0 (written st).
Proof.
  intros n N0 ops o ops2 Hn Hh. apply (gen_indep_then_sync commit_loop loop_hi true N0 n ops o ops2 Hn).
  now apply head_ok_hist.
Qed.

Theorem completed_write_readable_partial : forall n N0 ops, 0 <= N0 ->
  hist_allb commit_loop true head_ok (init n N0) ops = true ->
  let st := run_head (init n N0) ops in
  (forall r, In r (ranks st) -> g_own r <= numrecs r) /\
  (indep st = false -> forall r, In r (ranks st) -> written st <= numrecs r).
Proof.
  intros n N0 ops Hn Hh. apply (gen_readable commit_loop loop_hi true N0 n ops Hn). now apply head_ok_hist.
Qed.

(* waits that name every pending request always satisfy the side condition *)
Lemma head_ok_wall : forall q, head_ok_q q WAll = true.
Proof.
  intros q. unfold head_ok_q. simpl.
  assert (E : count_true (map (fun _ : preq => true) q) = length q).
  { unfold count_true. induction q; simpl; auto. }
  rewrite E. rewrite skipn_all2; [reflexivity|]. rewrite combine_length, map_length. lia.
Qed.

(* ------------------------------------------------------------------ the hypotheses are satisfiable, the statements not vacuous *)

(* corrected loop on the F1 witness: all ranks and the header hold 6 = 1 + 5 *)
Example coll_coherent_ex :
  let st := run_fixed (init 2 0) f1_witness in
  indep st = false /\ map numrecs (ranks st) = [6; 6] /\ hdr st = 6 /\ written st = 6.
Proof. vm_compute. repeat split. Qed.

(* the library as it is on the same history: 0 everywhere although record 5 has been written *)
Example f1_witness_head :
  let st := run_head (init 2 0) f1_witness in
  map numrecs (ranks st) = [0; 0] /\ hdr st = 0 /\ written st = 6 /\ hist_allb commit_loop true head_ok (init 2 0) f1_witness = false.
Proof. vm_compute. repeat split. Qed.

(* a history with a proper subset wait that satisfies head_ok (3 ranks; record requests at the queue head) *)
Definition subset_ok_hist : list op :=
  [Post 0 0 true 536 584 3; Post 0 1 true 536 704 8; Post 2 0 true 536 632 5;
   WaitAll [WIds [Some 0%nat]; WIds []; WIds [Some 0%nat]]; BeginIndep; IndepPutRec 1 (PRec 9); EndIndep].
Example partial_hyp_ex :
  hist_allb commit_loop true head_ok (init 3 0) subset_ok_hist = true /\
  let st := run_head (init 3 0) subset_ok_hist in map numrecs (ranks st) = [10; 10; 10] /\ hdr st = 10 /\ indep st = false.
Proof. vm_compute. repeat split. Qed.

(* independent writes, different counts per rank, then a synchronisation call *)
Example indep_then_sync_ex :
  let ops := [BeginIndep; IndepPutRec 1 (PRec 4); IndepPutRec 0 (PRec 2)] in
  map numrecs (ranks (run_fixed (init 2 1) ops)) = [3; 5] /\
  sync_op Sync = true /\ hung (run_fixed (init 2 1) ops) = false /\ indef (run_fixed (init 2 1) ops) = false /\
  map numrecs (ranks (run_fixed (init 2 1) (ops ++ Sync :: [Post 0 7 false 512 512 (-1)]))) = [5; 5].
Proof. vm_compute. repeat split. Qed.

(* ------------------------------------------------------------------ put_varm without the NC_ERANGE disjunct *)
(* run_noerange: the corrected wait loop, but put_varm's condition reads `nelems > 0 && status == NC_NOERR`,
   so a blocking put that returns NC_ERANGE (its data IS written) does not feed its highest record into
   new_numrecs.  The full statements are refuted; they hold for histories without NC_ERANGE puts. *)

Definition erange_witness : list op := [CollPutRec [PRecE 3; PNone]].
Definition erange_witness_indep : list op := [BeginIndep; IndepPutRec 1 (PRecE 5)].

Definition coll_coherent_noerange_full : Prop := forall n N0 ops, 0 <= N0 ->
  let st := run_noerange (init n N0) ops in
  indep st = false ->
  forall r, In r (ranks st) -> numrecs r = hdr st /\ hdr st = Z.max N0 (written st).

Definition indep_then_sync_noerange_full : Prop := forall n N0 ops o ops2, 0 <= N0 ->
  sync_op o = true ->
  hung (run_noerange (init n N0) ops) = false -> indef (run_noerange (init n N0) ops) = false ->
  forallb quiet ops2 = true ->
  let st := run_noerange (init n N0) (ops ++ o :: ops2) in
  forall r, In r (ranks st) -> numrecs r = hdr st /\ hdr st = Z.max N0 (written st).

Definition completed_write_readable_noerange_full : Prop := forall n N0 ops, 0 <= N0 ->
  let st := run_noerange (init n N0) ops in
  (forall r, In r (ranks st) -> g_own r <= numrecs r) /\
  (indep st = false -> forall r, In r (ranks st) -> written st <= numrecs r).

Theorem coll_coherent_noerange_refuted : ~ coll_coherent_noerange_full.
Proof.
  intros H. specialize (H 2%nat 0 erange_witness (Z.le_refl 0)). vm_compute in H.
  destruct (H eq_refl _ (or_introl eq_refl)) as [_ Hx]. discriminate Hx.
Qed.

Theorem indep_then_sync_noerange_refuted : ~ indep_then_sync_noerange_full.
Proof.
  intros H. specialize (H 2%nat 0 erange_witness_indep EndIndep [] (Z.le_refl 0) eq_refl eq_refl eq_refl eq_refl).
  vm_compute in H. destruct (H _ (or_introl eq_refl)) as [_ Hx]. discriminate Hx.
Qed.

Theorem completed_write_readable_noerange_refuted : ~ completed_write_readable_noerange_full.
Proof.
  intros H. specialize (H 2%nat 0 erange_witness (Z.le_refl 0)). vm_compute in H.
  destruct H as [H _]. specialize (H _ (or_introl eq_refl)). vm_compute in H. apply H. reflexivity.
Qed.

Lemma erange_free_exact_at : forall st o, erange_free st o = true -> exact_at commit_fixed false st o.
Proof.
  intros st o H. destruct o; simpl in *; auto.
  - rewrite Forall_forall. intros rs _ fl _. reflexivity.
  - intros r _ fl _. reflexivity.
Qed.

Lemma erange_free_hist : forall st ops, hist_allb commit_fixed false erange_free st ops = true ->
  hist_all commit_fixed false (exact_at commit_fixed false) st ops.
Proof.
  intros st ops H. eapply hist_all_imp; [|apply hist_allb_all; exact H]. intros s o. apply erange_free_exact_at.
Qed.

Theorem coll_coherent_noerange_partial : forall n N0 ops, 0 <= N0 ->
  hist_allb commit_fixed false erange_free (init n N0) ops = true ->
  let st := run_noerange (init n N0) ops in
  indep st = false ->
  forall r, In r (ranks st) -> numrecs r = hdr st /\ hdr st = Z.max N0 (written st).
Proof.
  intros n N0 ops Hn Hh. apply (gen_coherent commit_fixed fixed_hi false N0 n ops Hn). now apply erange_free_hist.
Qed.

Theorem completed_write_readable_noerange_partial : forall n N0 ops, 0 <= N0 ->
  hist_allb commit_fixed false erange_free (init n N0) ops = true ->
  let st := run_noerange (init n N0) ops in
  (forall r, In r (ranks st) -> g_own r <= numrecs r) /\
  (indep st = false -> forall r, In r (ranks st) -> written st <= numrecs r).
Proof.
  intros n N0 ops Hn Hh. apply (gen_readable commit_fixed fixed_hi false N0 n ops Hn). now apply erange_free_hist.
Qed.

(* what survives unconditionally: agreement across ranks and header, upper bound, monotonicity *)
Theorem coll_agree_noerange : forall n N0 ops, 0 <= N0 ->
  let st := run_noerange (init n N0) ops in
  (indep st = false -> forall r, In r (ranks st) -> numrecs r = hdr st) /\
  (forall r, In r (ranks st) -> hdr st <= numrecs r <= Z.max N0 (written st)) /\
  N0 <= hdr st <= Z.max N0 (written st).
Proof. intros n N0 ops Hn. apply (gen_agree commit_fixed fixed_hi false N0 n ops Hn). Qed.

(* with the disjunct (the library as it is): an NC_ERANGE put counts as a completed write *)
Example erange_counts_ex :
  let st := run_fixed (init 2 0) erange_witness in
  map numrecs (ranks st) = [4; 4] /\ hdr st = 4 /\ written st = 4 /\
  let st' := run_noerange (init 2 0) erange_witness in
  map numrecs (ranks st') = [0; 0] /\ hdr st' = 0 /\ written st' = 4.
Proof. vm_compute. repeat split. Qed.
