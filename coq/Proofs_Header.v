(* Proofs_Header.v — the header ENCODER of Header.v (encode_header, hdr_len) against the
   independent grammar DECODER of HeaderSpec.v (decode, strict_valid).

   Main results (all for arbitrary headers: any number of dims/attrs/vars, formats 1, 2, 5):
     decode_encode_full   decode (encode_header h ++ rest) = Some (decoded_of h)
     decode_encode        the requested existential form
     encode_strict_valid  the decoded value of an encoder output is strictly valid
     hdr_len_encode       hdr_len h = Zlen (encode_header h)
     hdr_len_mod4         hdr_len h mod 4 = 0   (hdr_len_mod4_all: even without wf_hdr)
     encode_header_bytes  every emitted byte is in [0,256) when names/att data are
   No model definition is modified; every statement is fully proved. *)
From Pnc Require Import Base Header HeaderSpec Proofs_Base.
Require Import Lia ZArith ZifyBool.
Ltac Zify.zify_post_hook ::= Z.div_mod_to_equations.
Local Open Scope Z_scope.

Local Arguments Z.mul : simpl never.
Local Arguments Z.add : simpl never.
Local Arguments Z.sub : simpl never.
Local Arguments Z.div : simpl never.
Local Arguments Z.modulo : simpl never.
Local Arguments Z.pow : simpl never.
Local Arguments Z.of_nat : simpl never.
Local Arguments Z.to_nat : simpl never.

(* ================================================================== *)
(** * Well-formedness (boolean, executable) *)

(* the three classic formats: CDF-1, CDF-2, CDF-5.  Needed because [magic] maps every
   other number to version byte 1 and [put_nn]/[sz_nn] split at different thresholds
   ([fmt <? 5] versus [fmt =? 5]). *)
Definition fmt_ok (fmt : Z) : bool := (fmt =? 1) || (fmt =? 2) || (fmt =? 5).

(* a NON_NEG field: unsigned 32 bit for CDF-1/2, unsigned 64 bit for CDF-5.
   Needed for every value written with [put_nn]: outside the range the big-endian
   encoder wraps and the decoder reads a different number. *)
Definition nn_ok (fmt x : Z) : bool :=
  (0 <=? x) && (x <? (if fmt <? 5 then 4294967296 else 18446744073709551616)).

(* the OFFSET field ([begin]): unsigned 32 bit for CDF-1, unsigned 64 bit otherwise *)
Definition off_ok (fmt x : Z) : bool :=
  (0 <=? x) && (x <? (if fmt =? 1 then 4294967296 else 18446744073709551616)).

(* a name: only its LENGTH has to fit the NON_NEG field.  The name bytes themselves
   are copied verbatim by encoder and decoder, so no range condition on them is needed
   for the round trip (see [bytes_ok] for the separate byte-range statement). *)
Definition wf_name (fmt : Z) (nm : list byte) : bool := nn_ok fmt (Zlen nm).

(* dimension: name length and size fit NON_NEG (size 0 = unlimited is allowed) *)
Definition wf_dim (fmt : Z) (d : dim) : bool :=
  wf_name fmt (d_name d) && nn_ok fmt (d_size d).

(* attribute:
   - name length fits;
   - the type is a legal external type of the format (the decoder rejects others; also
     gives 1 <= xlen_type, and that the type number fits its u32 field);
   - nelems fits NON_NEG (in particular nelems >= 0);
   - the payload has exactly nelems * xlen_type bytes: the encoder writes [a_data]
     verbatim while the decoder reads nelems * xlen_type bytes, and the encoder writes
     nothing at all when nelems = 0. *)
Definition wf_att (fmt : Z) (a : att) : bool :=
  wf_name fmt (a_name a) && valid_type fmt (a_type a) && nn_ok fmt (a_nelems a) &&
  (Zlen (a_data a) =? a_nelems a * xlen_type (a_type a)).

(* variable: name length, rank, every dimid, attribute count fit NON_NEG; attributes
   well-formed; type legal for the format; begin fits the OFFSET field.
   Nothing is required of [var_len] (the vsize field): the decoder returns whatever
   number is stored, see [dec_vsize]. Dimids need NOT index an existing dimension. *)
Definition wf_var (fmt : Z) (v : var) : bool :=
  wf_name fmt (v_name v) && nn_ok fmt (Zlen (v_dimids v)) && forallb (nn_ok fmt) (v_dimids v) &&
  nn_ok fmt (Zlen (v_atts v)) && forallb (wf_att fmt) (v_atts v) &&
  valid_type fmt (v_type v) && off_ok fmt (v_begin v).

Definition wf_hdr (h : hdr) : bool :=
  let fmt := h_format h in
  fmt_ok fmt && nn_ok fmt (h_numrecs h) &&
  nn_ok fmt (Zlen (h_dims h)) && forallb (wf_dim fmt) (h_dims h) &&
  nn_ok fmt (Zlen (h_gatts h)) && forallb (wf_att fmt) (h_gatts h) &&
  nn_ok fmt (Zlen (h_vars h)) && forallb (wf_var fmt) (h_vars h).

(* Extra hypotheses of [encode_strict_valid] (format-level validity that the encoder does
   not enforce by itself). *)
Definition dimids_ok (h : hdr) : bool :=
  forallb (fun v => forallb (fun i => (0 <=? i) && (i <? Zlen (h_dims h))) (v_dimids v))
          (h_vars h).

Definition unlim_ok (h : hdr) : bool :=
  Zlen (filter (fun dd => d_size dd =? 0) (h_dims h)) <=? 1.

(* CDF-5 stores vsize in 64 bits without saturation: var_len must fit.  (For CDF-1/2 the
   saturation rule of [vsize_field] and [expected_vsize] agree for every var_len >= 0,
   and var_len >= 0 follows from wf_hdr.) *)
Definition vsize_ok (h : hdr) : bool :=
  forallb (fun v => (h_format h <? 5) || (var_len (h_dims h) v <? 18446744073709551616))
          (h_vars h).

(* Byte-range of the verbatim-copied material; NOT needed by the round-trip theorems,
   only by [encode_header_bytes]. *)
Definition att_bytes_ok (a : att) : bool := forallb is_byte (a_name a) && forallb is_byte (a_data a).
Definition bytes_ok (h : hdr) : bool :=
  forallb (fun d => forallb is_byte (d_name d)) (h_dims h) &&
  forallb att_bytes_ok (h_gatts h) &&
  forallb (fun v => forallb is_byte (v_name v) && forallb att_bytes_ok (v_atts v)) (h_vars h).

(* ================================================================== *)
(** * What the decoder is expected to return *)

(* v_nofill is not stored in the file; the decoder sets it to true *)
Definition var_content (v : var) : var :=
  mkvar (v_name v) (v_dimids v) (v_atts v) (v_type v) (v_begin v) true.

Definition hdr_content (h : hdr) : hdr :=
  mkhdr (h_format h) (h_numrecs h) (h_dims h) (h_gatts h) (map var_content (h_vars h)).

Definition dec_dim_of (d : dim) : dec_dim := mkddim d (pad4 (Zlen (d_name d))).

Definition dec_att_of (a : att) : dec_att :=
  mkdatt a (pad4 (Zlen (a_name a)) ++ pad4 (Zlen (a_data a))).

(* the number read back from the vsize field, for EVERY integer var_len *)
Definition dec_vsize (fmt len : Z) : Z :=
  if fmt <? 5 then (if len >? 4294967292 then 4294967295 else len mod 4294967296)
  else len mod 18446744073709551616.

Definition dec_var_of (fmt : Z) (dims : list dim) (v : var) : dec_var :=
  mkdvar (var_content v) (dec_vsize fmt (var_len dims v)) (pad4 (Zlen (v_name v)))
         (map dec_att_of (v_atts v)).

Definition decoded_of (h : hdr) : decoded :=
  mkdec (hdr_content h) (map dec_dim_of (h_dims h)) (map dec_att_of (h_gatts h))
        (map (dec_var_of (h_format h) (h_dims h)) (h_vars h)) (Zlen (encode_header h)).

(* ================================================================== *)
(** * Small facts about formats and types *)

Lemma fmt_ok_cases : forall fmt, fmt_ok fmt = true -> fmt = 1 \/ fmt = 2 \/ fmt = 5.
Proof. intros fmt H. unfold fmt_ok in H. lia. Qed.

Lemma valid_type_range : forall fmt t, valid_type fmt t = true -> 1 <= t <= 11.
Proof.
  intros fmt t H. unfold valid_type in H. destruct (fmt =? 5) eqn:E; lia.
Qed.

Lemma xlen_type_pos : forall t, 1 <= t <= 11 -> 1 <= xlen_type t <= 8.
Proof.
  intros t Ht.
  assert (Hc : t = 1 \/ t = 2 \/ t = 3 \/ t = 4 \/ t = 5 \/ t = 6 \/ t = 7 \/ t = 8 \/
               t = 9 \/ t = 10 \/ t = 11) by lia.
  destruct Hc as [H|[H|[H|[H|[H|[H|[H|[H|[H|[H|H]]]]]]]]]]; subst t; vm_compute; split; discriminate.
Qed.

Lemma valid_type_xlen : forall fmt t, valid_type fmt t = true -> 1 <= xlen_type t <= 8.
Proof. intros fmt t H. apply xlen_type_pos. exact (valid_type_range fmt t H). Qed.

Lemma nn_ok_range32 : forall fmt x, fmt <? 5 = true -> nn_ok fmt x = true -> 0 <= x < 4294967296.
Proof. intros fmt x E H. unfold nn_ok in H. rewrite E in H. lia. Qed.

Lemma nn_ok_range64 : forall fmt x, fmt <? 5 = false -> nn_ok fmt x = true ->
  0 <= x < 18446744073709551616.
Proof. intros fmt x E H. unfold nn_ok in H. rewrite E in H. lia. Qed.

Lemma nn_ok_nonneg : forall fmt x, nn_ok fmt x = true -> 0 <= x.
Proof. intros fmt x H. unfold nn_ok in H. lia. Qed.

(* ================================================================== *)
(** * Piecewise parser lemmas: p_X (put_X x ++ r) = Some (x', r) *)

Lemma p_u32_put_u32 : forall x r, 0 <= x < 4294967296 -> p_u32 (put_u32 x ++ r) = Some (x, r).
Proof. intros x r H. unfold p_u32. apply get_put_u32. exact H. Qed.

Lemma p_nn_put_nn : forall fmt x r, nn_ok fmt x = true ->
  p_nn fmt (put_nn fmt x ++ r) = Some (x, r).
Proof.
  intros fmt x r H. unfold p_nn, put_nn, p_u32, p_u64.
  destruct (fmt <? 5) eqn:E.
  - apply get_put_u32. exact (nn_ok_range32 fmt x E H).
  - apply get_put_u64. exact (nn_ok_range64 fmt x E H).
Qed.

Lemma Zlen_put_nn_pos : forall fmt x, 1 <= Zlen (put_nn fmt x).
Proof.
  intros fmt x. unfold put_nn. destruct (fmt <? 5) eqn:E.
  - rewrite Zlen_put_u32. lia.
  - rewrite Zlen_put_u64. lia.
Qed.

Lemma p_name_put_name : forall fmt nm r, wf_name fmt nm = true ->
  p_name fmt (put_name fmt nm ++ r) = Some ((nm, pad4 (Zlen nm)), r).
Proof.
  intros fmt nm r H. unfold p_name, put_name. rewrite <- !app_assoc.
  rewrite (p_nn_put_nn fmt (Zlen nm) _ H). apply p_padded_app. reflexivity.
Qed.

Lemma Zlen_put_name_pos : forall fmt nm, 1 <= Zlen (put_name fmt nm).
Proof.
  intros fmt nm. unfold put_name. rewrite Zlen_app.
  pose proof (Zlen_put_nn_pos fmt (Zlen nm)) as H1.
  pose proof (Zlen_nonneg _ (nm ++ pad4 (Zlen nm))) as H2. lia.
Qed.

Lemma p_dim_put_dim : forall fmt d r, wf_dim fmt d = true ->
  p_dim fmt (put_dim fmt d ++ r) = Some (dec_dim_of d, r).
Proof.
  intros fmt [nm sz] r H. unfold wf_dim in H. cbn [d_name d_size] in H.
  apply andb_true_iff in H. destruct H as [Hnm Hsz].
  unfold p_dim, put_dim, dec_dim_of. cbn [d_name d_size]. rewrite <- app_assoc.
  rewrite (p_name_put_name fmt nm _ Hnm). rewrite (p_nn_put_nn fmt sz r Hsz). reflexivity.
Qed.

Lemma Zlen_put_dim_pos : forall fmt d, 1 <= Zlen (put_dim fmt d).
Proof.
  intros fmt d. unfold put_dim. rewrite Zlen_app.
  pose proof (Zlen_put_name_pos fmt (d_name d)) as H1.
  pose proof (Zlen_nonneg _ (put_nn fmt (d_size d))) as H2. lia.
Qed.

Lemma wf_att_inv : forall fmt nm t n data, wf_att fmt (mkatt nm t n data) = true ->
  wf_name fmt nm = true /\ valid_type fmt t = true /\ nn_ok fmt n = true /\
  Zlen data = n * xlen_type t.
Proof.
  intros fmt nm t n data H. unfold wf_att in H. cbn [a_name a_type a_nelems a_data] in H.
  apply andb_true_iff in H. destruct H as [H Hd].
  apply andb_true_iff in H. destruct H as [H Hn].
  apply andb_true_iff in H. destruct H as [Hnm Ht].
  repeat split; try assumption. lia.
Qed.

Lemma p_att_put_att : forall fmt a r, wf_att fmt a = true ->
  p_att fmt (put_att fmt a ++ r) = Some (dec_att_of a, r).
Proof.
  intros fmt [nm t n data] r H.
  destruct (wf_att_inv fmt nm t n data H) as (Hnm & Ht & Hn & Hd).
  pose proof (valid_type_range fmt t Ht) as Htr.
  pose proof (valid_type_xlen fmt t Ht) as Hx.
  pose proof (nn_ok_nonneg fmt n Hn) as Hn0.
  unfold p_att, put_att, dec_att_of, p_u32. cbn [a_name a_type a_nelems a_data].
  rewrite <- !app_assoc.
  rewrite (p_name_put_name fmt nm _ Hnm).
  rewrite get_put_u32 by lia.
  rewrite Ht. cbn [negb].
  rewrite (p_nn_put_nn fmt n _ Hn).
  rewrite <- Hd.
  destruct (n >? 0) eqn:En.
  - (* payload present *)
    rewrite <- !app_assoc.
    pose proof (Zlen_nonneg _ (pad4 (Zlen data) ++ r)) as Hr.
    rewrite Zlen_app.
    destruct ((n <? 0) || (Zlen data + Zlen (pad4 (Zlen data) ++ r) <? n)) eqn:Eb; [nia|].
    rewrite p_padded_app by reflexivity. reflexivity.
  - (* nelems = 0: nothing is written, nothing is read *)
    assert (n = 0) by lia. subst n.
    assert (Hd0 : Zlen data = 0) by lia.
    apply Zlen_zero_nil in Hd0. subst data.
    cbn [app]. rewrite Zlen_nil.
    pose proof (Zlen_nonneg _ r) as Hr.
    destruct ((0 <? 0) || (Zlen r <? 0)) eqn:Eb; [lia|].
    rewrite p_padded_0. reflexivity.
Qed.

Lemma Zlen_put_att_pos : forall fmt a, 1 <= Zlen (put_att fmt a).
Proof.
  intros fmt a. unfold put_att. rewrite Zlen_app.
  pose proof (Zlen_put_name_pos fmt (a_name a)) as H1.
  match goal with |- 1 <= _ + Zlen ?l => pose proof (Zlen_nonneg _ l) as H2 end. lia.
Qed.

Lemma p_vsize_field : forall fmt len r,
  p_nn fmt (vsize_field fmt len ++ r) = Some (dec_vsize fmt len, r).
Proof.
  intros fmt len r. unfold p_nn, vsize_field, dec_vsize, p_u32, p_u64.
  destruct (fmt <? 5) eqn:E.
  - destruct (len >? 4294967292) eqn:El.
    + apply get_put_u32. lia.
    + rewrite get_put_u32_mod. rewrite Z.mod_mod by lia. reflexivity.
  - apply get_put_u64_mod.
Qed.

Lemma p_off_put_off : forall fmt b r, off_ok fmt b = true ->
  (if fmt =? 1 then p_u32 ((if fmt =? 1 then put_u32 b else put_u64 b) ++ r)
   else p_u64 ((if fmt =? 1 then put_u32 b else put_u64 b) ++ r)) = Some (b, r).
Proof.
  intros fmt b r H. unfold off_ok in H. unfold p_u32, p_u64.
  destruct (fmt =? 1) eqn:E.
  - apply get_put_u32. lia.
  - apply get_put_u64. lia.
Qed.

Lemma map_da_att_dec : forall l, map da_att (map dec_att_of l) = l.
Proof.
  intros l. rewrite map_map. cbn [da_att dec_att_of]. apply map_id.
Qed.

Lemma p_atts_put_atts : forall fmt l r,
  nn_ok fmt (Zlen l) = true -> forallb (wf_att fmt) l = true ->
  p_list fmt 12 (p_att fmt) (put_list fmt NC_ATTRIBUTE_TAG (put_att fmt) l ++ r)
  = Some (map dec_att_of l, r).
Proof.
  intros fmt l r Hn Hl. change NC_ATTRIBUTE_TAG with 12.
  apply (p_list_put_list (p_att fmt) (put_att fmt) dec_att_of (fun a => wf_att fmt a = true)).
  - intros a r' Ha. apply p_att_put_att. exact Ha.
  - intros a _. apply Zlen_put_att_pos.
  - lia.
  - intros r'. apply p_nn_put_nn. exact Hn.
  - apply forallb_Forall. exact Hl.
Qed.

Lemma wf_var_inv : forall fmt nm ids atts t b nf, wf_var fmt (mkvar nm ids atts t b nf) = true ->
  wf_name fmt nm = true /\ nn_ok fmt (Zlen ids) = true /\ forallb (nn_ok fmt) ids = true /\
  nn_ok fmt (Zlen atts) = true /\ forallb (wf_att fmt) atts = true /\
  valid_type fmt t = true /\ off_ok fmt b = true.
Proof.
  intros fmt nm ids atts t b nf H. unfold wf_var in H.
  cbn [v_name v_dimids v_atts v_type v_begin] in H.
  apply andb_true_iff in H. destruct H as [H Hb].
  apply andb_true_iff in H. destruct H as [H Ht].
  apply andb_true_iff in H. destruct H as [H Hal].
  apply andb_true_iff in H. destruct H as [H Han].
  apply andb_true_iff in H. destruct H as [H Hil].
  apply andb_true_iff in H. destruct H as [Hnm Hin].
  repeat split; assumption.
Qed.

Lemma p_var_put_var : forall fmt dims v r, wf_var fmt v = true ->
  p_var fmt (put_var fmt dims v ++ r) = Some (dec_var_of fmt dims v, r).
Proof.
  intros fmt dims [nm ids atts t b nf] r H.
  destruct (wf_var_inv fmt nm ids atts t b nf H) as (Hnm & Hin & Hil & Han & Hal & Ht & Hb).
  pose proof (valid_type_range fmt t Ht) as Htr.
  unfold p_var, put_var, dec_var_of, var_content.
  cbn [v_name v_dimids v_atts v_type v_begin].
  set (len := var_len dims (mkvar nm ids atts t b nf)).
  rewrite <- !app_assoc.
  rewrite (p_name_put_name fmt nm _ Hnm).
  rewrite (p_nn_put_nn fmt (Zlen ids) _ Hin).
  (* enough bytes for the dimids *)
  assert (Hids : Forall (fun x => nn_ok fmt x = true) ids) by (apply forallb_Forall; exact Hil).
  pose proof (Zlen_flat_map_ge Z (put_nn fmt) (fun x => nn_ok fmt x = true)
                (fun x _ => Zlen_put_nn_pos fmt x) ids Hids) as Hge.
  rewrite Zlen_app.
  match goal with |- context [Zlen (flat_map (put_nn fmt) ids) + Zlen ?l] =>
    pose proof (Zlen_nonneg _ l) as Hrest end.
  match goal with |- context [?a + ?b <? Zlen ids] =>
    destruct (a + b <? Zlen ids) eqn:Eb; [lia|] end.
  rewrite to_nat_Zlen.
  rewrite (p_many_flat_map (p_nn fmt) (put_nn fmt) (fun x => x) (fun x => nn_ok fmt x = true)
             (fun x r' Hx => p_nn_put_nn fmt x r' Hx) ids _ Hids).
  rewrite map_id.
  rewrite (p_atts_put_atts fmt atts _ Han Hal).
  rewrite p_u32_put_u32 by lia.
  rewrite Ht. cbn [negb].
  rewrite p_vsize_field.
  rewrite (p_off_put_off fmt b r Hb).
  rewrite map_da_att_dec. reflexivity.
Qed.

Lemma Zlen_put_var_pos : forall fmt dims v, 1 <= Zlen (put_var fmt dims v).
Proof.
  intros fmt dims v. unfold put_var. rewrite Zlen_app.
  pose proof (Zlen_put_name_pos fmt (v_name v)) as H1.
  match goal with |- 1 <= _ + Zlen ?l => pose proof (Zlen_nonneg _ l) as H2 end. lia.
Qed.

(* ================================================================== *)
(** * The whole header *)

(* [decode] after the magic number, for the three legal formats *)
Lemma decode_magic : forall fmt r, fmt_ok fmt = true ->
  decode (magic fmt ++ r) =
  match p_nn fmt r with
  | Some (numrecs, r1) =>
      match p_list fmt 10 (p_dim fmt) r1 with
      | Some (dims, r2) =>
          match p_list fmt 12 (p_att fmt) r2 with
          | Some (gatts, r3) =>
              match p_list fmt 11 (p_var fmt) r3 with
              | Some (vars, r4) =>
                  Some (mkdec (mkhdr fmt numrecs (map dd_dim dims) (map da_att gatts)
                                     (map dv_var vars))
                              dims gatts vars (Zlen (magic fmt ++ r) - Zlen r4))
              | None => None
              end
          | None => None
          end
      | None => None
      end
  | None => None
  end.
Proof.
  intros fmt r H.
  destruct (fmt_ok_cases fmt H) as [E|[E|E]]; subst fmt; reflexivity.
Qed.

Lemma wf_hdr_inv : forall fmt nr dims gatts vars, wf_hdr (mkhdr fmt nr dims gatts vars) = true ->
  fmt_ok fmt = true /\ nn_ok fmt nr = true /\
  nn_ok fmt (Zlen dims) = true /\ forallb (wf_dim fmt) dims = true /\
  nn_ok fmt (Zlen gatts) = true /\ forallb (wf_att fmt) gatts = true /\
  nn_ok fmt (Zlen vars) = true /\ forallb (wf_var fmt) vars = true.
Proof.
  intros fmt nr dims gatts vars H. unfold wf_hdr in H.
  cbn [h_format h_numrecs h_dims h_gatts h_vars] in H.
  apply andb_true_iff in H. destruct H as [H Hvl].
  apply andb_true_iff in H. destruct H as [H Hvn].
  apply andb_true_iff in H. destruct H as [H Hal].
  apply andb_true_iff in H. destruct H as [H Han].
  apply andb_true_iff in H. destruct H as [H Hdl].
  apply andb_true_iff in H. destruct H as [H Hdn].
  apply andb_true_iff in H. destruct H as [Hf Hnr].
  repeat split; assumption.
Qed.

Lemma p_dims_put_dims : forall fmt l r,
  nn_ok fmt (Zlen l) = true -> forallb (wf_dim fmt) l = true ->
  p_list fmt 10 (p_dim fmt) (put_list fmt NC_DIMENSION_TAG (put_dim fmt) l ++ r)
  = Some (map dec_dim_of l, r).
Proof.
  intros fmt l r Hn Hl. change NC_DIMENSION_TAG with 10.
  apply (p_list_put_list (p_dim fmt) (put_dim fmt) dec_dim_of (fun d => wf_dim fmt d = true)).
  - intros d r' Hd. apply p_dim_put_dim. exact Hd.
  - intros d _. apply Zlen_put_dim_pos.
  - lia.
  - intros r'. apply p_nn_put_nn. exact Hn.
  - apply forallb_Forall. exact Hl.
Qed.

Lemma p_vars_put_vars : forall fmt dims l r,
  nn_ok fmt (Zlen l) = true -> forallb (wf_var fmt) l = true ->
  p_list fmt 11 (p_var fmt) (put_list fmt NC_VARIABLE_TAG (put_var fmt dims) l ++ r)
  = Some (map (dec_var_of fmt dims) l, r).
Proof.
  intros fmt dims l r Hn Hl. change NC_VARIABLE_TAG with 11.
  apply (p_list_put_list (p_var fmt) (put_var fmt dims) (dec_var_of fmt dims)
           (fun v => wf_var fmt v = true)).
  - intros v r' Hv. apply p_var_put_var. exact Hv.
  - intros v _. apply Zlen_put_var_pos.
  - lia.
  - intros r'. apply p_nn_put_nn. exact Hn.
  - apply forallb_Forall. exact Hl.
Qed.

Lemma map_dd_dim_dec : forall l, map dd_dim (map dec_dim_of l) = l.
Proof. intros l. rewrite map_map. cbn [dd_dim dec_dim_of]. apply map_id. Qed.

Lemma map_dv_var_dec : forall fmt dims l,
  map dv_var (map (dec_var_of fmt dims) l) = map var_content l.
Proof. intros fmt dims l. rewrite map_map. cbn [dv_var dec_var_of]. reflexivity. Qed.

(** Main round trip, in its most informative form: the decoder returns exactly
    [decoded_of h] (header modulo v_nofill, every padding run, every raw vsize, and the
    number of bytes consumed), whatever follows the header. *)
Theorem decode_encode_full : forall h rest, wf_hdr h = true ->
  decode (encode_header h ++ rest) = Some (decoded_of h).
Proof.
  intros [fmt nr dims gatts vars] rest H.
  destruct (wf_hdr_inv fmt nr dims gatts vars H)
    as (Hf & Hnr & Hdn & Hdl & Han & Hal & Hvn & Hvl).
  unfold decoded_of, hdr_content, encode_header.
  cbn [h_format h_numrecs h_dims h_gatts h_vars].
  rewrite <- !app_assoc.
  rewrite (decode_magic fmt _ Hf).
  rewrite (p_nn_put_nn fmt nr _ Hnr).
  rewrite (p_dims_put_dims fmt dims _ Hdn Hdl).
  rewrite (p_atts_put_atts fmt gatts _ Han Hal).
  rewrite (p_vars_put_vars fmt dims vars rest Hvn Hvl).
  rewrite map_dd_dim_dec, map_da_att_dec, map_dv_var_dec.
  do 2 f_equal.
  rewrite !Zlen_app. lia.
Qed.

Theorem decode_encode : forall h rest, wf_hdr h = true ->
  exists d, decode (encode_header h ++ rest) = Some d /\
            dc_hdr d = hdr_content h /\ dc_len d = Zlen (encode_header h).
Proof.
  intros h rest H. exists (decoded_of h). split; [|split].
  - apply decode_encode_full. exact H.
  - reflexivity.
  - reflexivity.
Qed.

(* the data section's bytes are untouched: the decoder stops exactly at [rest] *)
Corollary decode_encode_nil : forall h, wf_hdr h = true ->
  decode (encode_header h) = Some (decoded_of h).
Proof.
  intros h H. rewrite <- (app_nil_r (encode_header h)) at 1. apply decode_encode_full. exact H.
Qed.

(* ================================================================== *)
(** * hdr_len versus the encoded length *)

Lemma sz_nn_cases : forall fmt, sz_nn fmt = 4 \/ sz_nn fmt = 8.
Proof. intros fmt. unfold sz_nn. destruct (fmt =? 5); [right|left]; reflexivity. Qed.

Lemma sz_off_cases : forall fmt, sz_off fmt = 4 \/ sz_off fmt = 8.
Proof. intros fmt. unfold sz_off. destruct (fmt =? 1); [left|right]; reflexivity. Qed.

Lemma Zlen_put_nn : forall fmt x, fmt_ok fmt = true -> Zlen (put_nn fmt x) = sz_nn fmt.
Proof.
  intros fmt x H. destruct (fmt_ok_cases fmt H) as [E|[E|E]]; subst fmt; reflexivity.
Qed.

Lemma Zlen_put_name : forall fmt nm, fmt_ok fmt = true ->
  Zlen (put_name fmt nm) = sz_nn fmt + rndup (Zlen nm) 4.
Proof.
  intros fmt nm H. unfold put_name. rewrite !Zlen_app, (Zlen_put_nn fmt _ H), Zlen_pad4.
  rewrite rndup4_padlen. reflexivity.
Qed.

Lemma Zlen_put_dim : forall fmt d, fmt_ok fmt = true -> Zlen (put_dim fmt d) = len_dim fmt d.
Proof.
  intros fmt d H. unfold put_dim, len_dim.
  rewrite Zlen_app, (Zlen_put_name fmt _ H), (Zlen_put_nn fmt _ H). reflexivity.
Qed.

Lemma Zlen_put_att : forall fmt a, fmt_ok fmt = true -> wf_att fmt a = true ->
  Zlen (put_att fmt a) = len_att fmt a.
Proof.
  intros fmt [nm t n data] Hf H.
  destruct (wf_att_inv fmt nm t n data H) as (Hnm & Ht & Hn & Hd).
  pose proof (nn_ok_nonneg fmt n Hn) as Hn0.
  unfold put_att, len_att. cbn [a_name a_type a_nelems a_data].
  rewrite !Zlen_app, (Zlen_put_name fmt _ Hf), (Zlen_put_nn fmt _ Hf), Zlen_put_u32.
  rewrite <- Hd. rewrite (rndup4_padlen (Zlen data)).
  destruct (n >? 0) eqn:En.
  - rewrite Zlen_app, Zlen_pad4. lia.
  - assert (n = 0) by lia. subst n.
    assert (Hd0 : Zlen data = 0) by lia. rewrite Hd0, padlen_0, Zlen_nil. lia.
Qed.

Lemma Zlen_put_list : forall A fmt tag (f : A -> list byte) (len : A -> Z) (P : A -> Prop) l,
  fmt_ok fmt = true -> (forall a, P a -> Zlen (f a) = len a) -> Forall P l ->
  Zlen (put_list fmt tag f l) = 4 + sz_nn fmt + zsum (map len l).
Proof.
  intros A fmt tag f len P l Hf Hlen Hl. unfold put_list. destruct l as [|a l].
  - rewrite Zlen_app, Zlen_put_u32, (Zlen_put_nn fmt _ Hf). cbn [map zsum]. lia.
  - rewrite !Zlen_app, Zlen_put_u32, (Zlen_put_nn fmt _ Hf).
    rewrite (Zlen_flat_map_zsum A f len P (a :: l) Hlen Hl). lia.
Qed.

Lemma Zlen_put_atts : forall fmt l, fmt_ok fmt = true -> forallb (wf_att fmt) l = true ->
  Zlen (put_list fmt NC_ATTRIBUTE_TAG (put_att fmt) l) = len_attarray fmt l.
Proof.
  intros fmt l Hf Hl. unfold len_attarray.
  apply (Zlen_put_list att fmt NC_ATTRIBUTE_TAG (put_att fmt) (len_att fmt)
           (fun a => wf_att fmt a = true) l Hf).
  - intros a Ha. apply Zlen_put_att; assumption.
  - apply forallb_Forall. exact Hl.
Qed.

Lemma Zlen_vsize_field : forall fmt len, fmt_ok fmt = true ->
  Zlen (vsize_field fmt len) = sz_nn fmt.
Proof.
  intros fmt len H. unfold vsize_field.
  destruct (fmt_ok_cases fmt H) as [E|[E|E]]; subst fmt; cbn [Z.ltb Z.compare Pos.compare Pos.compare_cont].
  - destruct (len >? 4294967292); reflexivity.
  - destruct (len >? 4294967292); reflexivity.
  - reflexivity.
Qed.

Lemma Zlen_put_off : forall fmt b,
  Zlen (if fmt =? 1 then put_u32 b else put_u64 b) = sz_off fmt.
Proof. intros fmt b. unfold sz_off. destruct (fmt =? 1); reflexivity. Qed.

Lemma Zlen_put_var : forall fmt dims v, fmt_ok fmt = true -> wf_var fmt v = true ->
  Zlen (put_var fmt dims v) = len_var fmt v.
Proof.
  intros fmt dims [nm ids atts t b nf] Hf H.
  destruct (wf_var_inv fmt nm ids atts t b nf H) as (Hnm & Hin & Hil & Han & Hal & Ht & Hb).
  unfold put_var, len_var. cbn [v_name v_dimids v_atts v_type v_begin].
  rewrite !Zlen_app, (Zlen_put_name fmt _ Hf), (Zlen_put_nn fmt _ Hf), Zlen_put_u32.
  rewrite (Zlen_put_atts fmt atts Hf Hal), (Zlen_vsize_field fmt _ Hf), Zlen_put_off.
  rewrite (Zlen_flat_map_zsum Z (put_nn fmt) (fun _ => sz_nn fmt) (fun _ => True) ids).
  - rewrite zsum_map_const. lia.
  - intros x _. apply Zlen_put_nn. exact Hf.
  - apply Forall_forall. intros x _. exact I.
Qed.

Theorem hdr_len_encode : forall h, wf_hdr h = true -> hdr_len h = Zlen (encode_header h).
Proof.
  intros [fmt nr dims gatts vars] H.
  destruct (wf_hdr_inv fmt nr dims gatts vars H)
    as (Hf & Hnr & Hdn & Hdl & Han & Hal & Hvn & Hvl).
  unfold hdr_len, encode_header. cbn [h_format h_numrecs h_dims h_gatts h_vars].
  rewrite !Zlen_app, (Zlen_put_nn fmt _ Hf).
  rewrite (Zlen_put_list dim fmt NC_DIMENSION_TAG (put_dim fmt) (len_dim fmt)
             (fun _ => True) dims Hf).
  - rewrite (Zlen_put_atts fmt gatts Hf Hal).
    rewrite (Zlen_put_list var fmt NC_VARIABLE_TAG (put_var fmt dims) (len_var fmt)
               (fun v => wf_var fmt v = true) vars Hf).
    + change (Zlen (magic fmt)) with 4. lia.
    + intros v Hv. apply Zlen_put_var; assumption.
    + apply forallb_Forall. exact Hvl.
  - intros d _. apply Zlen_put_dim. exact Hf.
  - apply Forall_forall. intros d _. exact I.
Qed.

(* hdr_len is a multiple of 4 for EVERY header, well-formed or not *)
Lemma len_att_mod4 : forall fmt a, len_att fmt a mod 4 = 0.
Proof.
  intros fmt a. unfold len_att.
  pose proof (rndup4_mod4 (Zlen (a_name a))) as H1.
  pose proof (rndup4_mod4 (a_nelems a * xlen_type (a_type a))) as H2.
  destruct (sz_nn_cases fmt) as [E|E]; rewrite E; lia.
Qed.

Lemma len_attarray_mod4 : forall fmt l, len_attarray fmt l mod 4 = 0.
Proof.
  intros fmt l. unfold len_attarray.
  pose proof (zsum_map_mod4 att (len_att fmt) l (len_att_mod4 fmt)) as H1.
  destruct (sz_nn_cases fmt) as [E|E]; rewrite E; lia.
Qed.

Lemma len_dim_mod4 : forall fmt d, len_dim fmt d mod 4 = 0.
Proof.
  intros fmt d. unfold len_dim.
  pose proof (rndup4_mod4 (Zlen (d_name d))) as H1.
  destruct (sz_nn_cases fmt) as [E|E]; rewrite E; lia.
Qed.

Lemma len_var_mod4 : forall fmt v, len_var fmt v mod 4 = 0.
Proof.
  intros fmt v. unfold len_var.
  pose proof (rndup4_mod4 (Zlen (v_name v))) as H1.
  pose proof (len_attarray_mod4 fmt (v_atts v)) as H2.
  destruct (sz_nn_cases fmt) as [E|E]; rewrite E;
    destruct (sz_off_cases fmt) as [E'|E']; rewrite E'; lia.
Qed.

Theorem hdr_len_mod4_all : forall h, hdr_len h mod 4 = 0.
Proof.
  intros h. unfold hdr_len.
  pose proof (zsum_map_mod4 dim (len_dim (h_format h)) (h_dims h) (len_dim_mod4 _)) as H1.
  pose proof (len_attarray_mod4 (h_format h) (h_gatts h)) as H2.
  pose proof (zsum_map_mod4 var (len_var (h_format h)) (h_vars h) (len_var_mod4 _)) as H3.
  destruct (sz_nn_cases (h_format h)) as [E|E]; rewrite E; lia.
Qed.

Theorem hdr_len_mod4 : forall h, wf_hdr h = true -> hdr_len h mod 4 = 0.
Proof. intros h _. apply hdr_len_mod4_all. Qed.

Corollary encode_header_len_mod4 : forall h, wf_hdr h = true ->
  Zlen (encode_header h) mod 4 = 0.
Proof. intros h H. rewrite <- (hdr_len_encode h H). apply hdr_len_mod4_all. Qed.

(* ================================================================== *)
(** * Strict validity of what the encoder writes *)

Lemma wf_dims_nonneg : forall fmt dims, forallb (wf_dim fmt) dims = true ->
  Forall (fun d => 0 <= d_size d) dims.
Proof.
  intros fmt dims H. apply forallb_Forall in H.
  apply (Forall_impl_strong dim (fun d => wf_dim fmt d = true)); [|exact H].
  intros d Hd. unfold wf_dim in Hd. apply andb_true_iff in Hd. destruct Hd as [_ Hs].
  exact (nn_ok_nonneg fmt _ Hs).
Qed.

Lemma dim_size_nonneg : forall dims id, Forall (fun d => 0 <= d_size d) dims ->
  0 <= dim_size dims id.
Proof.
  intros dims id H. unfold dim_size.
  apply (znth_Forall dim (fun d => 0 <= d_size d)); [cbn [d_size]; lia|exact H].
Qed.

Lemma var_shape_nonneg : forall dims v, Forall (fun d => 0 <= d_size d) dims ->
  Forall (fun x => 0 <= x) (var_shape dims v).
Proof.
  intros dims v H. unfold var_shape. apply Forall_forall. intros x Hx.
  apply in_map_iff in Hx. destruct Hx as [id [Hid _]]. subst x. apply dim_size_nonneg. exact H.
Qed.

Lemma var_nelems_per_rec_nonneg : forall shape, Forall (fun x => 0 <= x) shape ->
  0 <= var_nelems_per_rec shape.
Proof.
  intros shape H. unfold var_nelems_per_rec. destruct shape as [|s0 r]; [lia|].
  destruct (s0 =? 0) eqn:E.
  - apply zprod_nonneg. inversion H; assumption.
  - apply zprod_nonneg. exact H.
Qed.

Lemma var_len_of_nonneg : forall xsz shape, 0 <= xsz -> Forall (fun x => 0 <= x) shape ->
  0 <= var_len_of xsz shape.
Proof.
  intros xsz shape Hx Hs. unfold var_len_of.
  pose proof (var_nelems_per_rec_nonneg shape Hs) as Hn.
  assert (Hl : 0 <= var_nelems_per_rec shape * xsz) by nia.
  set (l := var_nelems_per_rec shape * xsz) in *. cbv zeta.
  destruct (l mod 4 >? 0) eqn:E; lia.
Qed.

(* var_len >= 0 is a consequence of wf_hdr (dimension sizes are non-negative) *)
Lemma var_len_nonneg : forall fmt dims v,
  forallb (wf_dim fmt) dims = true -> valid_type fmt (v_type v) = true ->
  0 <= var_len dims v.
Proof.
  intros fmt dims v Hd Ht. unfold var_len.
  pose proof (valid_type_xlen fmt _ Ht) as Hx.
  apply var_len_of_nonneg; [lia|].
  apply var_shape_nonneg. exact (wf_dims_nonneg fmt dims Hd).
Qed.

(* the stored vsize is the format's expected vsize *)
Lemma dec_vsize_expected : forall fmt len, 0 <= len ->
  (fmt <? 5) || (len <? 18446744073709551616) = true ->
  dec_vsize fmt len = expected_vsize fmt len.
Proof.
  intros fmt len H0 H. unfold dec_vsize, expected_vsize.
  destruct (fmt <? 5) eqn:E.
  - destruct (len >? 4294967292) eqn:El; [reflexivity|]. apply Z.mod_small. lia.
  - apply Z.mod_small. cbn [orb] in H. lia.
Qed.

Theorem strict_valid_decoded_of : forall h,
  wf_hdr h = true -> dimids_ok h = true -> unlim_ok h = true -> vsize_ok h = true ->
  strict_valid (decoded_of h) = true.
Proof.
  intros [fmt nr dims gatts vars] H Hdim Hun Hvs.
  destruct (wf_hdr_inv fmt nr dims gatts vars H)
    as (Hf & Hnr & Hdn & Hdl & Han & Hal & Hvn & Hvl).
  unfold dimids_ok in Hdim. unfold unlim_ok in Hun. unfold vsize_ok in Hvs.
  cbn [h_format h_dims h_vars] in Hdim, Hun, Hvs.
  unfold strict_valid, decoded_of, hdr_content.
  cbn [dc_hdr dc_dims dc_gatts dc_vars h_format h_numrecs h_dims h_gatts h_vars].
  rewrite Hun, andb_true_r.
  assert (Hatts : forall l, forallb (fun y => all_zero (da_pad y)) (map dec_att_of l) = true).
  { intros l. apply forallb_map_all. intros a. cbn [da_pad dec_att_of].
    rewrite all_zero_app, !all_zero_pad4. reflexivity. }
  rewrite (Hatts gatts), andb_true_r.
  apply andb_true_iff. split.
  - apply forallb_map_all. intros d. cbn [dd_pad dec_dim_of]. apply all_zero_pad4.
  - apply forallb_map_Forall.
    apply forallb_Forall in Hdim. apply forallb_Forall in Hvs. apply forallb_Forall in Hvl.
    rewrite Forall_forall in Hdim, Hvs, Hvl. apply Forall_forall. intros v Hv.
    specialize (Hdim v Hv). specialize (Hvs v Hv). specialize (Hvl v Hv). cbv beta in *.
    cbn [dv_pad dv_atts dv_var dv_vsize dec_var_of].
    rewrite all_zero_pad4, (Hatts (v_atts v)).
    change (v_dimids (var_content v)) with (v_dimids v). rewrite Hdim.
    change (var_len dims (var_content v)) with (var_len dims v).
    assert (Hty : valid_type fmt (v_type v) = true).
    { destruct v as [nm ids atts t b nf].
      destruct (wf_var_inv fmt nm ids atts t b nf Hvl) as (_ & _ & _ & _ & _ & Ht & _).
      exact Ht. }
    rewrite (dec_vsize_expected fmt (var_len dims v) (var_len_nonneg fmt dims v Hdl Hty) Hvs).
    rewrite Z.eqb_refl. reflexivity.
Qed.

Theorem encode_strict_valid : forall h rest d,
  wf_hdr h = true -> dimids_ok h = true -> unlim_ok h = true -> vsize_ok h = true ->
  decode (encode_header h ++ rest) = Some d -> strict_valid d = true.
Proof.
  intros h rest d H Hdim Hun Hvs Hdec.
  rewrite (decode_encode_full h rest H) in Hdec. injection Hdec as Hd. subst d.
  apply strict_valid_decoded_of; assumption.
Qed.

(* ================================================================== *)
(** * Every emitted byte is a byte *)

Lemma Forall_flat_map : forall A B (Q : B -> Prop) (f : A -> list B) l,
  (forall a, In a l -> Forall Q (f a)) -> Forall Q (flat_map f l).
Proof.
  intros A B Q f l H. induction l as [|a l IH]; cbn [flat_map]; [apply Forall_nil|].
  apply Forall_app. split.
  - apply H. left. reflexivity.
  - apply IH. intros a' Ha'. apply H. right. exact Ha'.
Qed.

Local Notation bytes l := (Forall (fun b => is_byte b = true) l).

Lemma put_nn_bytes : forall fmt x, bytes (put_nn fmt x).
Proof. intros fmt x. unfold put_nn. destruct (fmt <? 5); [apply put_u32_bytes|apply put_u64_bytes]. Qed.

Lemma put_name_bytes : forall fmt nm, forallb is_byte nm = true -> bytes (put_name fmt nm).
Proof.
  intros fmt nm H. unfold put_name. apply Forall_app. split; [apply put_nn_bytes|].
  apply Forall_app. split; [apply forallb_Forall; exact H|apply zeros_bytes].
Qed.

Lemma put_list_bytes : forall A fmt tag (f : A -> list byte) l,
  (forall a, In a l -> bytes (f a)) -> bytes (put_list fmt tag f l).
Proof.
  intros A fmt tag f l H. unfold put_list. destruct l as [|a l].
  - apply Forall_app. split; [apply put_u32_bytes|apply put_nn_bytes].
  - apply Forall_app. split; [apply put_u32_bytes|].
    apply Forall_app. split; [apply put_nn_bytes|].
    apply Forall_flat_map. exact H.
Qed.

Lemma put_att_bytes : forall fmt a, att_bytes_ok a = true -> bytes (put_att fmt a).
Proof.
  intros fmt a H. unfold att_bytes_ok in H. apply andb_true_iff in H. destruct H as [Hn Hd].
  unfold put_att. apply Forall_app. split; [apply put_name_bytes; exact Hn|].
  apply Forall_app. split; [apply put_u32_bytes|].
  apply Forall_app. split; [apply put_nn_bytes|].
  destruct (a_nelems a >? 0); [|apply Forall_nil].
  apply Forall_app. split; [apply forallb_Forall; exact Hd|apply zeros_bytes].
Qed.

Lemma put_atts_bytes : forall fmt l, forallb att_bytes_ok l = true ->
  bytes (put_list fmt NC_ATTRIBUTE_TAG (put_att fmt) l).
Proof.
  intros fmt l H. apply put_list_bytes. intros a Ha. apply put_att_bytes.
  rewrite forallb_forall in H. exact (H a Ha).
Qed.

Lemma put_var_bytes : forall fmt dims v,
  forallb is_byte (v_name v) && forallb att_bytes_ok (v_atts v) = true ->
  bytes (put_var fmt dims v).
Proof.
  intros fmt dims v H. apply andb_true_iff in H. destruct H as [Hn Ha].
  unfold put_var. apply Forall_app. split; [apply put_name_bytes; exact Hn|].
  apply Forall_app. split; [apply put_nn_bytes|].
  apply Forall_app. split; [apply Forall_flat_map; intros x _; apply put_nn_bytes|].
  apply Forall_app. split; [apply put_atts_bytes; exact Ha|].
  apply Forall_app. split; [apply put_u32_bytes|].
  apply Forall_app. split.
  - unfold vsize_field. destruct (fmt <? 5); [|apply put_u64_bytes].
    destruct (var_len dims v >? 4294967292); apply put_u32_bytes.
  - destruct (fmt =? 1); [apply put_u32_bytes|apply put_u64_bytes].
Qed.

(* No range condition on any NUMBER is needed here: the big-endian writers reduce
   modulo 256 bytewise.  Only the verbatim-copied names and attribute data matter. *)
Theorem encode_header_bytes : forall h, bytes_ok h = true -> bytes (encode_header h).
Proof.
  intros h H. unfold bytes_ok in H.
  apply andb_true_iff in H. destruct H as [H Hv].
  apply andb_true_iff in H. destruct H as [Hd Ha].
  unfold encode_header. apply Forall_app. split.
  - unfold magic, is_byte. repeat (apply Forall_cons; [try reflexivity|]); [|apply Forall_nil].
    destruct (h_format h =? 5); [reflexivity|]. destruct (h_format h =? 2); reflexivity.
  - apply Forall_app. split; [apply put_nn_bytes|].
    apply Forall_app. split.
    + apply put_list_bytes. intros d Hin. unfold put_dim.
      apply Forall_app. split; [|apply put_nn_bytes].
      apply put_name_bytes. rewrite forallb_forall in Hd. exact (Hd d Hin).
    + apply Forall_app. split; [apply put_atts_bytes; exact Ha|].
      apply put_list_bytes. intros v Hin. apply put_var_bytes.
      rewrite forallb_forall in Hv. exact (Hv v Hin).
Qed.

(* ================================================================== *)
(** * Examples: the hypotheses are satisfiable on a non-trivial header *)

(* dims: "time" (unlimited) and "x"=5; global attribute title="hello" (5 chars, 3 bytes of
   padding); variables  float t(time)  and  double temp(time,x)  with units="K". *)
Definition ex_hdr (fmt : Z) : hdr :=
  mkhdr fmt 3
    [ mkdim [116;105;109;101] 0; mkdim [120] 5 ]
    [ mkatt [116;105;116;108;101] 2 5 [104;101;108;108;111] ]
    [ mkvar [116] [0] [] 5 200 false;
      mkvar [116;101;109;112] [0;1] [ mkatt [117;110;105;116;115] 2 1 [75] ] 6 204 true ].

(* the same header as the decoder must return it: every v_nofill is true *)
Definition ex_hdr_read (fmt : Z) : hdr :=
  mkhdr fmt 3
    [ mkdim [116;105;109;101] 0; mkdim [120] 5 ]
    [ mkatt [116;105;116;108;101] 2 5 [104;101;108;108;111] ]
    [ mkvar [116] [0] [] 5 200 true;
      mkvar [116;101;109;112] [0;1] [ mkatt [117;110;105;116;115] 2 1 [75] ] 6 204 true ].

Example ex_wf_1 : wf_hdr (ex_hdr 1) = true. Proof. vm_compute. reflexivity. Qed.
Example ex_wf_2 : wf_hdr (ex_hdr 2) = true. Proof. vm_compute. reflexivity. Qed.
Example ex_wf_5 : wf_hdr (ex_hdr 5) = true. Proof. vm_compute. reflexivity. Qed.

Example ex_side_1 :
  dimids_ok (ex_hdr 1) && unlim_ok (ex_hdr 1) && vsize_ok (ex_hdr 1) && bytes_ok (ex_hdr 1) = true.
Proof. vm_compute. reflexivity. Qed.
Example ex_side_5 :
  dimids_ok (ex_hdr 5) && unlim_ok (ex_hdr 5) && vsize_ok (ex_hdr 5) && bytes_ok (ex_hdr 5) = true.
Proof. vm_compute. reflexivity. Qed.

Example ex_content : hdr_content (ex_hdr 1) = ex_hdr_read 1 /\ hdr_content (ex_hdr 5) = ex_hdr_read 5.
Proof. split; reflexivity. Qed.

(* the bytes of the CDF-1 header *)
Example ex_bytes_1 : encode_header (ex_hdr 1) =
  [67; 68; 70; 1;  0; 0; 0; 3;
   0; 0; 0; 10;  0; 0; 0; 2;
     0; 0; 0; 4;  116; 105; 109; 101;  0; 0; 0; 0;
     0; 0; 0; 1;  120; 0; 0; 0;  0; 0; 0; 5;
   0; 0; 0; 12;  0; 0; 0; 1;
     0; 0; 0; 5;  116; 105; 116; 108; 101; 0; 0; 0;  0; 0; 0; 2;  0; 0; 0; 5;
     104; 101; 108; 108; 111; 0; 0; 0;
   0; 0; 0; 11;  0; 0; 0; 2;
     0; 0; 0; 1;  116; 0; 0; 0;  0; 0; 0; 1;  0; 0; 0; 0;  0; 0; 0; 0;  0; 0; 0; 0;
     0; 0; 0; 5;  0; 0; 0; 4;  0; 0; 0; 200;
     0; 0; 0; 4;  116; 101; 109; 112;  0; 0; 0; 2;  0; 0; 0; 0;  0; 0; 0; 1;
     0; 0; 0; 12;  0; 0; 0; 1;
       0; 0; 0; 5;  117; 110; 105; 116; 115; 0; 0; 0;  0; 0; 0; 2;  0; 0; 0; 1;  75; 0; 0; 0;
     0; 0; 0; 6;  0; 0; 0; 40;  0; 0; 0; 204].
Proof. vm_compute. reflexivity. Qed.

(* decode by computation, with three bytes of "data section" behind the header *)
Example ex_decode_1 :
  option_map (fun d => (dc_hdr d, dc_len d, strict_valid d))
             (decode (encode_header (ex_hdr 1) ++ [1;2;3])) = Some (ex_hdr_read 1, 184, true).
Proof. vm_compute. reflexivity. Qed.

Example ex_decode_2 :
  option_map (fun d => (dc_hdr d, dc_len d, strict_valid d))
             (decode (encode_header (ex_hdr 2) ++ [1;2;3])) = Some (ex_hdr_read 2, 192, true).
Proof. vm_compute. reflexivity. Qed.

Example ex_decode_5 :
  option_map (fun d => (dc_hdr d, dc_len d, strict_valid d))
             (decode (encode_header (ex_hdr 5) ++ [1;2;3])) = Some (ex_hdr_read 5, 284, true).
Proof. vm_compute. reflexivity. Qed.

(* ... and the complete decoder output (paddings, raw vsize fields) is [decoded_of] *)
Example ex_decode_full_1 :
  decode (encode_header (ex_hdr 1) ++ [1;2;3]) = Some (decoded_of (ex_hdr 1)).
Proof. vm_compute. reflexivity. Qed.
Example ex_decode_full_5 :
  decode (encode_header (ex_hdr 5) ++ [1;2;3]) = Some (decoded_of (ex_hdr 5)).
Proof. vm_compute. reflexivity. Qed.

Example ex_hdr_len :
  (hdr_len (ex_hdr 1), hdr_len (ex_hdr 2), hdr_len (ex_hdr 5)) = (184, 192, 284).
Proof. vm_compute. reflexivity. Qed.

(* ================================================================== *)
(** * Sharpness: each hypothesis is needed (counterexamples, by computation) *)

(* vsize_ok: CDF-5, double v(x,y) with x = y = 2^32: var_len = 2^67 wraps in the 64-bit
   vsize field; everything else is fine, yet the decoded header is not strictly valid. *)
Definition sharp_big5 : hdr :=
  mkhdr 5 0 [mkdim [120] 4294967296; mkdim [121] 4294967296] []
        [mkvar [118] [0;1] [] 6 1000 false].
Example sharp_vsize_ok :
  wf_hdr sharp_big5 = true /\ dimids_ok sharp_big5 = true /\ unlim_ok sharp_big5 = true /\
  vsize_ok sharp_big5 = false /\
  option_map strict_valid (decode (encode_header sharp_big5)) = Some false.
Proof. vm_compute. repeat split; reflexivity. Qed.

(* nn_ok on numrecs: 2^32 records in CDF-1 read back as 0 *)
Example sharp_numrecs :
  let h := mkhdr 1 4294967296 [] [] [] in
  wf_hdr h = false /\
  option_map dc_hdr (decode (encode_header h)) = Some (mkhdr 1 0 [] [] []).
Proof. vm_compute. split; reflexivity. Qed.

(* valid_type: an NC_UBYTE attribute in a CDF-1 header is written but cannot be read *)
Example sharp_att_type :
  let h := mkhdr 1 0 [] [mkatt [97] 7 1 [1]] [] in
  wf_hdr h = false /\ decode (encode_header h) = None.
Proof. vm_compute. split; reflexivity. Qed.

(* fmt_ok: any other format number is written with version byte 1 *)
Example sharp_fmt :
  let h := mkhdr 3 0 [] [] [] in
  wf_hdr h = false /\
  option_map dc_hdr (decode (encode_header h)) = Some (mkhdr 1 0 [] [] []).
Proof. vm_compute. split; reflexivity. Qed.

(* payload length: nelems = 0 with a non-empty payload loses the payload *)
Example sharp_att_data :
  let h := mkhdr 1 0 [] [mkatt [97] 2 0 [1]] [] in
  wf_hdr h = false /\
  option_map dc_hdr (decode (encode_header h)) = Some (mkhdr 1 0 [] [mkatt [97] 2 0 []] []).
Proof. vm_compute. split; reflexivity. Qed.

(* off_ok: a begin of 2^32 in CDF-1 reads back as 0 *)
Example sharp_begin :
  let h := mkhdr 1 0 [] [] [mkvar [118] [] [] 4 4294967296 true] in
  wf_hdr h = false /\
  option_map dc_hdr (decode (encode_header h)) =
  Some (mkhdr 1 0 [] [] [mkvar [118] [] [] 4 0 true]).
Proof. vm_compute. split; reflexivity. Qed.

(* ================================================================== *)
(** * Assumption audit *)
Print Assumptions decode_encode_full.
Print Assumptions decode_encode.
Print Assumptions encode_strict_valid.
Print Assumptions hdr_len_encode.
Print Assumptions hdr_len_mod4.
Print Assumptions hdr_len_mod4_all.
Print Assumptions encode_header_bytes.
