(* Files.v — C17: executable model of the ncid table of src/dispatchers/file.c.

     static PNC *pnc_filelist[NC_MAX_NFILES];   ->  slots : list (option fobj), length NC_MAX_NFILES
     static int  pnc_numfiles;                  ->  numfiles : Z
     new_id_PNCList / del_from_PNCList / PNC_check_id written EXACTLY as the C functions are, including the
     paths that cannot happen under the invariant (no free slot although pnc_numfiles < NC_MAX_NFILES).
   PNC_check_id has two switches that tools/tr_modes.py reads from the source as built (Gen_modes.v):
     NUMFILES_ZERO_TEST  (the `pnc_numfiles == 0` disjunct)  and  CHECK_ID_NULL_TEST (a NULL-slot test);
   check_id_gen takes them as parameters so that both the code as it is and the repaired code are modelled.
   A slot value None with a check that answers OK is the NULL pointer every API function dereferences next:
   the model then says Crash and the process is gone (state None).
   create/open follow ncmpi_create / ncmpi_open of file.c through their exits:
     early failure (bad path, bad cmode, open: file missing / not a netCDF file with one process) before anything
       is allocated, *ncidp untouched;
     NCI_Malloc of the PNC object; new_id_PNCList; NC_ENFILE exit (does it free the object? switch from the source);
     driver failure (NC_EEXIST, ...): del_from_PNCList, free, *ncidp = -1;
     success.
   close/abort: check id, driver close (NC_EPENDING when nonblocking requests are pending: they are cancelled),
   del_from_PNCList even if the driver reports an error, free the object.
   `heap` counts the PNC objects allocated and not freed (a ghost counter for the one leak the table code can cause).
   NO PROOFS in this file (Proofs_Files.v). *)
From Coq Require Import ZArith List Bool.
From Pnc Require Import Gen_consts Gen_modes.
Import ListNotations.
Local Open Scope Z_scope.

Definition MAXF : nat := Z.to_nat NC_MAX_NFILES.

Record fobj := mkF { uid : nat;      (* which create/open made it *)
                     nops : nat;     (* API calls served *)
                     pend : nat }.   (* pending nonblocking requests *)
Record tbl := mkT { slots : list (option fobj); numfiles : Z; nextuid : nat; heap : nat }.
Definition tbl0 : tbl := mkT (repeat None MAXF) 0 0 0.

Definition is_none {A} (o : option A) : bool := match o with None => true | Some _ => false end.

Fixpoint first_free (l : list (option fobj)) : option nat :=
  match l with
  | [] => None
  | None :: _ => Some O
  | Some _ :: r => option_map S (first_free r)
  end.
Fixpoint set_nth {A} (n : nat) (x : A) (l : list A) : list A :=
  match l, n with
  | [], _ => []
  | _ :: r, O => x :: r
  | y :: r, S n' => y :: set_nth n' x r
  end.

(* ---- PNC_check_id *)
Inductive chk := ChkBad | ChkOk (p : option fobj).      (* ChkOk None : NC_NOERR with *pncp == NULL *)
Definition check_id_gen (zerotest nulltest : bool) (t : tbl) (ncid : Z) : chk :=
  if (zerotest && (numfiles t =? 0)) || (ncid <? 0) || (ncid >=? NC_MAX_NFILES) then ChkBad
  else let p := nth (Z.to_nat ncid) (slots t) None in
       if nulltest && is_none p then ChkBad else ChkOk p.
Definition check_id : tbl -> Z -> chk := check_id_gen NUMFILES_ZERO_TEST CHECK_ID_NULL_TEST.

(* ---- new_id_PNCList: (table, err, *new_id) *)
Definition new_id (t : tbl) (p : fobj) : tbl * Z * Z :=
  if numfiles t =? NC_MAX_NFILES then (t, NC_ENFILE, -1)
  else match first_free (slots t) with
       | Some i => (mkT (set_nth i (Some p) (slots t)) (numfiles t + 1) (nextuid t) (heap t), NC_NOERR, Z.of_nat i)
       | None => (t, NC_NOERR, -1)        (* loop ends without a free slot: err stays NC_NOERR, *new_id stays -1 *)
       end.
(* A VARIANT that is NOT the code: the scan for a free slot starts at index pnc_numfiles ("the first pnc_numfiles
   elements are normally all in use").  Proofs_Files.v refutes for it what holds of new_id: with a hole below
   pnc_numfiles and no free slot above, it finds nothing and answers NC_NOERR with id -1. *)
Fixpoint first_free_from (k : nat) (l : list (option fobj)) : option nat :=
  match k, l with
  | O, _ => first_free l
  | S k', [] => None
  | S k', _ :: r => option_map S (first_free_from k' r)
  end.
Definition new_id_from_numfiles (t : tbl) (p : fobj) : tbl * Z * Z :=
  if numfiles t =? NC_MAX_NFILES then (t, NC_ENFILE, -1)
  else match first_free_from (Z.to_nat (numfiles t)) (slots t) with
       | Some i => (mkT (set_nth i (Some p) (slots t)) (numfiles t + 1) (nextuid t) (heap t), NC_NOERR, Z.of_nat i)
       | None => (t, NC_NOERR, -1)
       end.

(* ---- del_from_PNCList ("validity of ncid should have been checked already") *)
Definition del_id (t : tbl) (ncid : Z) : tbl :=
  mkT (set_nth (Z.to_nat ncid) None (slots t)) (numfiles t - 1) (nextuid t) (heap t).

(* ---- events *)
Inductive outcome := OOk | OEarly (e : Z) | ODriver (e : Z).
Inductive ev :=
| ECreate (o : outcome)      (* ncmpi_create *)
| EOpen (o : outcome)        (* ncmpi_open *)
| EClose (id : Z) | EAbort (id : Z)
| EApi (id : Z)              (* any other API function: PNC_check_id, then pncp-> ... *)
| EPost (id : Z).            (* a nonblocking post that is accepted when the id is valid *)
Inductive res := RRc (rc : Z) (ncid : option Z) | RCrash.   (* ncid: what *ncidp was set to, None = untouched *)

Definition set_heap (t : tbl) (h : nat) : tbl := mkT (slots t) (numfiles t) (nextuid t) h.

Definition do_create (frees_on_enfile : bool) (t : tbl) (o : outcome) : tbl * res :=
  match o with
  | OEarly e => (t, RRc e None)
  | _ =>
      let p := mkF (nextuid t) 0 0 in
      let t1 := mkT (slots t) (numfiles t) (S (nextuid t)) (S (heap t)) in        (* NCI_Malloc(sizeof(PNC)) *)
      let '(t2, err, id) := new_id t1 p in
      if negb (err =? NC_NOERR) then
        ((if frees_on_enfile then set_heap t2 (pred (heap t2)) else t2), RRc err (Some id))
      else match o with
           | ODriver e =>      (* driver->create/open failed: del_from_PNCList of the id; NCI_Free(pncp); ncid := -1 *)
               let t3 := del_id t2 id in (set_heap t3 (pred (heap t3)), RRc e (Some (-1)))
           | _ => (t2, RRc NC_NOERR (Some id))
           end
  end.

Fixpoint remove_z (x : Z) (l : list Z) : list Z :=
  match l with [] => [] | y :: r => if x =? y then remove_z x r else y :: remove_z x r end.
Definition mem_z (x : Z) (l : list Z) : bool := existsb (Z.eqb x) l.

(* the machine, for an arbitrary id check ck (instantiated below with the check as built) *)
Section Machine.
Variable ck : tbl -> Z -> chk.

Definition with_id (t : tbl) (id : Z) (k : fobj -> tbl * res) : option tbl * res :=
  match ck t id with
  | ChkBad => (Some t, RRc NC_EBADID None)
  | ChkOk None => (None, RCrash)                       (* pncp->driver->... with pncp == NULL *)
  | ChkOk (Some f) => let '(t', r) := k f in (Some t', r)
  end.

Definition step1 (t : tbl) (e : ev) : option tbl * res :=
  match e with
  | ECreate o => let '(t', r) := do_create ncmpi_create_ENFILE_FREES_PNC t o in (Some t', r)
  | EOpen o => let '(t', r) := do_create ncmpi_open_ENFILE_FREES_PNC t o in (Some t', r)
  | EClose id =>
      with_id t id (fun f => let t1 := del_id t id in
                             (set_heap t1 (pred (heap t1)), RRc (if Nat.eqb (pend f) 0 then NC_NOERR else NC_EPENDING) None))
  | EAbort id =>
      with_id t id (fun f => let t1 := del_id t id in (set_heap t1 (pred (heap t1)), RRc NC_NOERR None))
  | EApi id =>
      with_id t id (fun f => (mkT (set_nth (Z.to_nat id) (Some (mkF (uid f) (S (nops f)) (pend f))) (slots t))
                                  (numfiles t) (nextuid t) (heap t), RRc NC_NOERR None))
  | EPost id =>
      with_id t id (fun f => (mkT (set_nth (Z.to_nat id) (Some (mkF (uid f) (S (nops f)) (S (pend f)))) (slots t))
                                  (numfiles t) (nextuid t) (heap t), RRc NC_NOERR None))
  end.

(* the process: None = killed by the NULL dereference *)
Definition step (s : option tbl) (e : ev) : option tbl * res :=
  match s with None => (None, RCrash) | Some t => step1 t e end.
Fixpoint run (s : option tbl) (h : list ev) : option tbl :=
  match h with [] => s | e :: r => run (fst (step s e)) r end.
Fixpoint run_res (s : option tbl) (h : list ev) : list res :=
  match h with [] => [] | e :: r => snd (step s e) :: run_res (fst (step s e)) r end.

(* ---- SPEC: which ids are open, from the history of returned ids alone *)
Definition live_step (l : list Z) (e : ev) (r : res) : list Z :=
  match e, r with
  | (ECreate _ | EOpen _), RRc rc (Some id) => if (rc =? NC_NOERR) && (0 <=? id) then id :: l else l
  | (EClose id | EAbort id), RRc rc _ => if rc =? NC_EBADID then l else remove_z id l   (* released unless refused *)
  | _, _ => l
  end.
Fixpoint live_of (s : option tbl) (l : list Z) (h : list ev) : list Z :=
  match h with [] => l | e :: r => live_of (fst (step s e)) (live_step l e (snd (step s e))) r end.
Definition live (h : list ev) : list Z := live_of (Some tbl0) [] h.
End Machine.

Definition occupied (t : tbl) (id : Z) : bool :=
  (0 <=? id) && (id <? NC_MAX_NFILES) && negb (is_none (nth (Z.to_nat id) (slots t) None)).
Definition count_occ (l : list (option fobj)) : nat := length (filter (fun o => negb (is_none o)) l).

(* ---- codes for the tie (checks/C17.py writes histories as Coq terms; results are printed by vm_compute) *)
Definition res_code (r : res) : Z * Z :=
  match r with
  | RCrash => (-7777, -7777)
  | RRc rc None => (rc, -99)
  | RRc rc (Some id) => (rc, id)
  end.
Definition run_codes (h : list ev) : list (Z * Z) := map res_code (run_res check_id (Some tbl0) h).
Definition final_numfiles (h : list ev) : Z :=
  match run check_id (Some tbl0) h with None => -1 | Some t => numfiles t end.
Definition final_heap (h : list ev) : Z :=
  match run check_id (Some tbl0) h with None => -1 | Some t => Z.of_nat (heap t) end.
