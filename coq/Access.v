(* Access.v — request checking (dispatcher check_start_count_stride), the mapping of
   (start,count,stride) requests to file offsets as ncmpio_filetype.c builds it
   (is_request_contiguous, ncmpio_first_offset, subarray/hvector type maps,
   stride_flatten), the imap type map (ncmpii_create_imaptype), and the SPEC:
   row-major index enumeration and elem_off.  Executable; no proofs here. *)
From Pnc Require Export Header.
Local Open Scope Z_scope.

(* geometry of one variable inside a file *)
Record geom := mkgeom { g_begin : Z; g_xsz : Z; g_shape : list Z;  (* shape[0]=0 <-> record *)
                        g_recsize : Z; g_nrecvars : Z }.

Definition g_isrec (g : geom) : bool :=
  match g_shape g with s0 :: _ => s0 =? 0 | [] => false end.

(* ================= SPEC ================= *)
(* row-major linear index of idx in an array of the given shape *)
Fixpoint lin (shape idx : list Z) : Z :=
  match shape, idx with
  | _ :: ss, i :: is_ => i * zprod ss + lin ss is_
  | _, _ => 0
  end.

Definition elem_off (g : geom) (idx : list Z) : Z :=
  g_begin g +
  (if g_isrec g then
     match idx with
     | i0 :: r => i0 * g_recsize g + lin (tl (g_shape g)) r * g_xsz g
     | [] => 0
     end
   else lin (g_shape g) idx * g_xsz g).

(* all index vectors addressed by a request, in row-major (= canonical data stream) order *)
Fixpoint req_indices (start count stride : list Z) : list (list Z) :=
  match start, count, stride with
  | s :: ss, c :: cs, t :: ts =>
      flat_map (fun i => map (cons (s + i * t)) (req_indices ss cs ts)) (zrange 0 c)
  | _, _, _ => [[]]
  end.

Definition ones (n : nat) : list Z := repeat 1 n.

Definition spec_offsets (g : geom) (start count stride : list Z) : list Z :=
  map (elem_off g) (req_indices start count stride).

(* ================= MODEL of ncmpio_filetype.c ================= *)
(* is_request_contiguous *)
Fixpoint all_le1 (l : list Z) : bool :=
  match l with [] => true | c :: r => (c <=? 1) && all_le1 r end.

(* scan from the last dimension down to index most_sig+1; [rc]/[rs] are count/shape reversed
   and already truncated so that their last element is index most_sig+... ; we work on the
   reversed lists of the dims strictly above most_sig and the list of counts from most_sig
   up to i-1 *)
Fixpoint contig_scan (rcs : list (Z * Z)) (* reversed (count,shape) for i = ndims-1 .. most_sig+1 *)
         (lower : list Z) (* counts for j = most_sig .. ndims-2, in increasing j *)
  : bool :=
  match rcs with
  | [] => true
  | (c, s) :: r =>
      if c <? s then all_le1 lower
      else contig_scan r (removelast lower)
  end.

Definition is_contig (isrec : bool) (nrecvars : Z) (shape count : list Z) : bool :=
  match shape with
  | [] => true
  | _ =>
    if existsb (fun c => c =? 0) count then true
    else
      let most_sig : nat := if isrec && (nrecvars >? 1) then 1%nat else 0%nat in
      if isrec && (nrecvars >? 1) && (hd 0 count >? 1) then false
      else
        let cs := skipn most_sig count in       (* counts from most_sig *)
        let ss := skipn most_sig shape in
        (* dims i > most_sig : tl cs / tl ss, reversed *)
        contig_scan (rev (zip (tl cs) (tl ss))) (removelast cs)
  end.

(* ncmpio_first_offset *)
Definition first_offset (g : geom) (start : list Z) : Z :=
  match g_shape g with
  | [] => g_begin g
  | _ =>
    if g_isrec g then
      g_begin g + hd 0 start * g_recsize g + lin (tl (g_shape g)) (tl start) * g_xsz g
    else g_begin g + lin (g_shape g) start * g_xsz g
  end.

(* MPI subarray (ORDER_C) type map: element displacements in type-map order *)
Fixpoint subarray_disps (shape count start : list Z) : list Z :=
  match shape, count, start with
  | _ :: ss, c :: cs, s :: st =>
      flat_map (fun i => map (Z.add ((s + i) * zprod ss)) (subarray_disps ss cs st)) (zrange 0 c)
  | _, _, _ => [0]
  end.

(* filetype_create_vara: element offsets in the order the file view delivers them *)
Definition vara_offsets (g : geom) (start count : list Z) : list Z :=
  match g_shape g with
  | [] => [g_begin g]
  | _ =>
    if is_contig (g_isrec g) (g_nrecvars g) (g_shape g) count then
      map (fun k => first_offset g start + k * g_xsz g) (zrange 0 (zprod count))
    else if g_isrec g then
      let off := g_begin g + hd 0 start * g_recsize g in
      let rect := match tl (g_shape g) with
                  | [] => [0]
                  | ss => map (fun d => d * g_xsz g) (subarray_disps ss (tl count) (tl start))
                  end in
      flat_map (fun r => map (fun d => off + r * g_recsize g + d) rect) (zrange 0 (hd 0 count))
    else
      map (fun d => g_begin g + d * g_xsz g) (subarray_disps (g_shape g) count start)
  end.

(* stride_flatten: byte displacements (relative to varp->begin) of blocks of seg_len bytes *)
Fixpoint flatten_outer (rdims : list (Z * Z * Z * Z)) (* reversed (start,count,stride,unit) for dims n-2..0 *)
         (disps : list Z) : list Z :=
  match rdims with
  | [] => disps
  | (s, c, t, unit) :: r =>
      flatten_outer r (flat_map (fun i => map (Z.add ((s + i * t) * unit)) disps) (zrange 0 c))
  end.

(* unit (bytes) of one index step in dimension d (0-based) *)
Fixpoint dim_units (isrec : bool) (recsize xsz : Z) (shape : list Z) (d : nat) : list Z :=
  match shape with
  | [] => []
  | _ :: ss => (if isrec && Nat.eqb d 0 then recsize else zprod ss * xsz)
               :: dim_units isrec recsize xsz ss (S d)
  end.

Definition quad (a : Z * Z) (b : Z * Z) : Z * Z * Z * Z := (fst a, snd a, fst b, snd b).

Definition stride_flatten (g : geom) (start count stride : list Z) : list Z * Z :=
  (* returns (block displacements, elements per block) *)
  let n := length (g_shape g) in
  let sl := last start 0 in let cl := last count 0 in let tl_ := last stride 1 in
  let nstride := if tl_ =? 1 then 1 else cl in
  let seg_elems := if tl_ =? 1 then cl else 1 in
  let units := dim_units (g_isrec g) (g_recsize g) (g_xsz g) (g_shape g) 0 in
  (* unit of the lowest dimension: xsz, except for a 1-D record variable where the lowest
     dimension IS the record dimension (unit = recsize) *)
  let d0 := map (fun k => (sl + k * tl_) * last units (g_xsz g)) (zrange 0 nstride) in
  let outer := zip (zip (removelast start) (removelast count)) (zip (removelast stride) (removelast units)) in
  (flatten_outer (rev (map (fun p => quad (fst p) (snd p)) outer)) d0, seg_elems).

(* ncmpio_filetype_create_vars *)
Definition is_true_vars (count stride : list Z) : bool :=
  existsb (fun p => (fst p >? 1) && (snd p >? 1)) (zip count stride).

Definition vars_offsets (g : geom) (start count : list Z) (stride : option (list Z)) : list Z :=
  match stride with
  | None => vara_offsets g start count
  | Some st =>
      if negb (is_true_vars count st) then vara_offsets g start count
      else match g_shape g with
           | [] => [g_begin g]
           | _ =>
             if zprod count =? 0 then []
             else
               let '(disps, seg) := stride_flatten g start count st in
               flat_map (fun d => map (fun k => g_begin g + d + k * g_xsz g) (zrange 0 seg)) disps
           end
  end.

(* a zero-length request addresses nothing whatever the path *)
Definition model_offsets (g : geom) (start count : list Z) (stride : option (list Z)) : list Z :=
  if zprod count =? 0 then [] else vars_offsets g start count stride.

(* ================= imap (ncmpii_create_imaptype) ================= *)
(* SPEC: element positions (in elements) in row-major order of the request *)
Fixpoint imap_positions_spec (count imap : list Z) : list Z :=
  match count, imap with
  | c :: cs, m :: ms =>
      flat_map (fun i => map (Z.add (i * m)) (imap_positions_spec cs ms)) (zrange 0 c)
  | _, _ => [0]
  end.

(* MODEL: the trailing dims with imap[d] = prod count[d+1..] form one contiguous block *)
Fixpoint imap_contig_scan (rcm : list (Z * Z)) (blk : Z) : Z * list (Z * Z) :=
  (* rcm reversed (count, imap); returns (contig blocklen, remaining reversed dims) *)
  match rcm with
  | (c, m) :: r => if blk =? m then imap_contig_scan r (blk * c) else (blk, rcm)
  | [] => (blk, [])
  end.

Fixpoint imap_outer (rdims : list (Z * Z)) (pos : list Z) : list Z :=
  match rdims with
  | [] => pos
  | (c, m) :: r => imap_outer r (flat_map (fun i => map (Z.add (i * m)) pos) (zrange 0 c))
  end.

(* None = "imaptype is MPI_DATATYPE_NULL" (contiguous) *)
Definition imap_positions (count : list Z) (imap : option (list Z)) : option (list Z) :=
  match imap with
  | None => None
  | Some im =>
      match count with
      | [] => None
      | _ =>
        if zprod count =? 1 then None
        else
          let '(blk, rest) := imap_contig_scan (rev (zip count im)) 1 in
          match rest with
          | [] => None
          | (c, m) :: r =>
              (* MPI_Type_vector(count[dim], blk, imap[dim]) then hvectors outward *)
              let v := flat_map (fun i => map (Z.add (i * m)) (zrange 0 blk)) (zrange 0 c) in
              Some (imap_outer r v)
          end
      end
  end.

(* ================= argument checking (dispatcher) ================= *)
Definition check_EINVALCOORDS (strict : bool) (start count shape : Z) : Z :=
  if strict then
    if (start <? 0) || (start >=? shape) then NC_EINVALCOORDS else NC_NOERR
  else
    if (start <? 0) || (start >? shape) then NC_EINVALCOORDS
    else if (start =? shape) && (count >? 0) then NC_EINVALCOORDS else NC_NOERR.

Definition check_EEDGE (start count : Z) (stride : option Z) (shape : Z) : Z :=
  if (count >? shape) || (start + count >? shape) then NC_EEDGE
  else match stride with
       | None => NC_NOERR
       | Some t => if (count >? 0) && (start + (count - 1) * t >=? shape) then NC_EEDGE else NC_NOERR
       end.

Fixpoint first_err (l : list Z) : Z :=
  match l with [] => NC_NOERR | e :: r => if e =? NC_NOERR then first_err r else e end.

Inductive apikind := API_VAR1 | API_VARA | API_VARS | API_VARM.

(* shape0 = current number of records for a record variable.
   start = None models a NULL pointer; count = None likewise (var1 / NULL). *)
Definition check_scs (fmt : Z) (strict isrec isread : bool) (kind : apikind)
           (shape : list Z) (numrecs : Z)
           (start : option (list Z)) (count : option (list Z)) (stride : option (list Z)) : Z :=
  match start with
  | None => NC_EINVALCOORDS
  | Some st =>
    if hd 0 st <? 0 then NC_EINVALCOORDS
    else
      let shp := if isrec then numrecs :: tl shape else shape in
      let cnt_or1 := match count with Some c => c | None => map (fun _ => 1) shp end in
      let e_rec :=
        if isrec then
          if (fmt <? 5) && (hd 0 st >? NC_MAX_UINT) then NC_EINVALCOORDS
          else if isread then
            let len := hd 1 cnt_or1 in
            if (numrecs =? 0) && (len >? 0) then NC_EINVALCOORDS
            else check_EINVALCOORDS strict (hd 0 st) len numrecs
          else NC_NOERR
        else NC_NOERR in
      if negb (e_rec =? NC_NOERR) then e_rec
      else
        let skip := if isrec then 1%nat else 0%nat in
        let e_coords := first_err (map (fun p => check_EINVALCOORDS strict (fst (fst p)) (snd (fst p)) (snd p))
                                       (zip (zip (skipn skip st) (skipn skip cnt_or1)) (skipn skip shp))) in
        if negb (e_coords =? NC_NOERR) then e_coords
        else
          match count with
          | None => match kind with API_VAR1 => NC_NOERR | _ => NC_EEDGE end
          | Some cn =>
              let strides := match stride with
                             | Some t => map Some t
                             | None => map (fun _ => None) cn end in
              let e0 :=
                if isrec then
                  if hd 0 cn <? 0 then NC_ENEGATIVECNT
                  else if isread then check_EEDGE (hd 0 st) (hd 0 cn) (hd None strides) numrecs
                  else NC_NOERR
                else NC_NOERR in
              if negb (e0 =? NC_NOERR) then e0
              else
                let e_edge := first_err
                  (map (fun q => let '(s, c, t, sh) := q in
                                 if sh <? 0 then NC_EEDGE
                                 else if c <? 0 then NC_ENEGATIVECNT
                                 else check_EEDGE s c t sh)
                       (map (fun p => (fst (fst (fst p)), snd (fst (fst p)), snd (fst p), snd p))
                            (zip (zip (zip (skipn skip st) (skipn skip cn)) (skipn skip strides)) (skipn skip shp)))) in
                if negb (e_edge =? NC_NOERR) then e_edge
                else match stride with
                     | Some t => if existsb (fun x => x <=? 0) t then NC_ESTRIDE else NC_NOERR
                     | None => NC_NOERR
                     end
          end
  end.

(* SPEC of acceptance: every addressed index is inside the (current) shape *)
Definition idx_in_shape (shape idx : list Z) : bool :=
  forall2b (fun s i => (0 <=? i) && (i <? s)) shape idx.
