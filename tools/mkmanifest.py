#!/usr/bin/env python3
"""regenerate MANIFEST.json from the table below (keeps it valid and in one place)"""
import json, subprocess
ALL = ['C%02d' % i for i in range(1, 21)]
PROOF_NOTE = ('Trusted: Coq 8.16.1 kernel (vm_compute, no native_compute), no axioms (Print Assumptions: closed under the global context) '
              'unless listed in the evidence; translator tools/tr_consts.py (constants regenerated from the sources as built); the model is '
              'hand-written Gallina tied to the code by a correspondence check (extracted with ExtrOcamlBasic only, OCaml driver) against '
              'libpnetcdf.a rebuilt from /repo working tree; OpenMPI/ROMIO, POSIX and the C compiler are modelled, not verified. ')
CHECKS = {
 'C01': dict(tech='Coq proof (model of file-view offsets = row-major spec, all shapes/requests) + API correspondence of extracted model vs library + spec oracle',
   text='Machine-checked: the byte offsets the library addresses for any (start,count,stride) request equal the row-major enumeration of the addressed elements, elements are disjoint (Properties_C01.v, unbounded in dimensions/shape/request). The executable model containing these definitions predicts every buffer, return code and file byte of generated sessions (all access forms, typed/flexible, vector buffers, 1-4 ranks, decompositions, independent mode, reopen) and is diffed against the real library; a Python re-statement of the spec judges the implementation alone.', ref='5 C01'),
 'C03': dict(tech='Coq proof (spec decoder inverts header encoder; layout theorems for NC_begins) + byte-exact header correspondence + files decoded by extracted spec decoder',
   text='Machine-checked: decode(encode h ++ rest) recovers h for every well-formed header, encoder output strictly valid, hdr_len = encoded length; the offset assignment yields ordered, 4-byte aligned, non-overlapping data areas honouring alignment/minfree, for new files and any redefinition history (Properties_C03.v). Tie: header predicted byte for byte; every file the library writes is decoded by the extracted grammar-only decoder and compared with what the script defined; library reports vs file; clobbered predecessor bytes searched.', ref='5 C03'),
 'C06': dict(tech='Coq proof (data mover correct for all nprocs/unit/sizes; redefinition preserves every old byte) + API correspondence with hook H2 + oracle',
   text='Machine-checked: move_file_block rounds partition exactly and move any block intact (overlapping or not) changing nothing else; composed with the layout theorems: after any redefinition every byte of every old variable is at its new offset (Properties_C06.v). Tie: redefinition sessions (header growth, new fixed/record variables, alignment changes, small mover round size via PNETCDF_VERIF_MOVE_UNIT, 1-4 ranks) against the extracted model; oracle: old elements found at new offsets, abort leaves the file byte-identical / removes a fresh file.', ref='5 C06'),
 'C15': dict(tech='Coq proof (argument check accepts only fitting requests; addressed bytes inside the variable) + API correspondence on one-perturbation invalid requests + oracle',
   text='Machine-checked: acceptance by the model of check_start_count_stride implies every addressed index is inside the shape; accepted requests address exactly the elements bytes, which lie inside the variable region (Properties_C15.v). Tie: sessions with invalid (one perturbation at a time), zero-length and size-mismatched requests, strict and relaxed bound, vs the extracted model; oracle: documented error code, file byte-identical after a rejected or zero-length request.', ref='5 C15'),
 'C16': dict(tech='Coq proof (fill partition tiles exactly; fill plan covers only new fill-mode variables; frame) + API correspondence + fill oracle',
   text='Machine-checked: per-rank shares tile every variable for all lengths/process counts; the fill plan addresses exactly the new fill-mode variables (and their slices of existing records), each element once; no other byte changes (Properties_C16.v). Tie: sessions with set_fill/def_var_fill orders, custom _FillValue, redefinitions adding variables with existing records, fill_var_rec, 1-4 ranks; oracle: never-written elements read as the fill value, written data survives, no-fill variables untouched.', ref='5 C16'),
 'C18': dict(tech='Coq proof (overflow-free size test exact, no int64 overflow, two-pass rule iff declarative rule, enddef verdict) + threshold-grid correspondence + independent rule oracle',
   text='Machine-checked: check_vlen accepts iff xsz*prod(dims) <= limit with all intermediate products bounded; check_vlens returns NC_NOERR iff the declarative last-variable rule holds; NC_begins fails only for CDF-1 offsets above 2^31-1; thresholds from regenerated constants (Properties_C18.v). Tie: definitions just below/at/above each threshold in different orders, def_dim limits, single-element accesses of huge sparse variables on both sides of 2^31/2^32; oracle: independent Python statement of the rule, round trip, reopen.', ref='5 C18'),
}
m = dict(version=1, setup_cmd='tools/setup.sh',
         hooks=dict(guard='PNETCDF_VERIF',
                    enable='tools/buildlib.sh copies /repo working tree to a scratch directory and runs make -C src CPPFLAGS=-DPNETCDF_VERIF (cache keyed by a hash of the tree)',
                    baseline_off_cmd='tools/baseline_off.sh', source_commits=['4e4d3265'], add_only=True),
         engines=[dict(name='pnc', path='pnc/', serves_properties=sorted(CHECKS), kind_free_text='Coq 8.16.1 development coq/ (model, proofs, Properties_Cxx.v) + extracted OCaml model + C/MPI script driver + Python orchestration')],
         checks=[], not_applicable=[], notes='see DESIGN.md; known findings in known_findings.json')
for pid in sorted(CHECKS):
    c = CHECKS[pid]
    m['checks'].append(dict(property_id=pid, quick_cmd='./check %s --tier quick' % pid, thorough_cmd='./check %s --tier thorough' % pid,
                            evidence_file='evidence/%s.json' % pid, replay_cmd_template='./check %s --replay {path}' % pid, engine='pnc',
                            level_claimed=dict(category=c.get('level', 'proof'), text=c['text'], design_ref='DESIGN.md section ' + c['ref']),
                            level_note=c.get('note', PROOF_NOTE), technique=c['tech']))
for pid in ALL:
    if pid not in CHECKS:
        m['not_applicable'].append(dict(property_id=pid, reason='check under construction in this session (package being built; see DESIGN.md section 5 %s); not claimed until it runs clean' % pid))
json.dump(m, open('/verif/MANIFEST.json', 'w'), indent=1)
print('claimed', sorted(CHECKS))
