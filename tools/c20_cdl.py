#!/usr/bin/env python3
"""c20_cdl.py — a small INDEPENDENT reader of the text the offline utilities print:
  * parse_cdl(text)       CDL as printed by `ncmpidump` (header and data sections)
  * parse_ncoffsets(text) the report of `ncoffsets [-s] [-g]`
Nothing here looks at the utilities' sources' data structures; it reads the text only.
Numbers are returned exactly: integers as int, floating constants as fractions.Fraction of the
printed decimal, together with the number of significant digits printed (for the precision-aware
comparison done by checks/C20.py).  Character data are returned as bytes.

Usage as a program:  c20_cdl.py cdl <file> | c20_cdl.py offsets <file>   (prints the parse as JSON)"""
import re, sys, json
from fractions import Fraction

TYPE_NUM = {'byte': 1, 'char': 2, 'short': 3, 'int': 4, 'float': 5, 'double': 6, 'ubyte': 7, 'ushort': 8,
            'uint': 9, 'int64': 10, 'uint64': 11}


class CdlError(Exception):
    pass


# ------------------------------------------------------------------ tokenizer
def _unescape(s, i):
    """s[i] is the char after a backslash; returns (byte value, next index)"""
    c = s[i]
    simple = {'b': 8, 'f': 12, 'n': 10, 'r': 13, 't': 9, 'v': 11, '\\': 92, "'": 39, '"': 34, 'a': 7, '?': 127}
    if c in '01234567':
        j = i
        while j < len(s) and j < i + 3 and s[j] in '01234567':
            j += 1
        return int(s[i:j], 8) & 255, j
    if c in 'xX':
        j = i + 1
        while j < len(s) and j < i + 3 and s[j] in '0123456789abcdefABCDEF':
            j += 1
        return int(s[i + 1:j], 16), j
    if c in simple:
        return simple[c], i + 1
    return ord(c) & 255, i + 1


def tokenize_values(s):
    """tokens of a value list (text between '=' and the terminating ';'): ('str', bytes) |
    ('num', text) | ('fill',) ; commas and whitespace separate"""
    out = []
    i = 0
    n = len(s)
    while i < n:
        c = s[i]
        if c in ' \t\r\n,':
            i += 1
        elif c == '/' and s[i:i + 2] == '//':
            j = s.find('\n', i)
            i = n if j < 0 else j
        elif c == '"':
            b = bytearray()
            i += 1
            while True:
                if i >= n:
                    raise CdlError('unterminated string')
                if s[i] == '\\':
                    v, i = _unescape(s, i + 1)
                    b.append(v)
                elif s[i] == '"':
                    i += 1
                    break
                else:
                    b += s[i].encode('latin-1')
                    i += 1
            out.append(('str', bytes(b)))
        else:
            j = i
            while j < n and s[j] not in ' \t\r\n,;':
                j += 1
            t = s[i:j]
            out.append(('fill',) if t == '_' else ('num', t))
            i = j
    return out


def find_terminator(text, start):
    """index of the ';' that ends a statement starting at `start` (skipping strings and // comments)"""
    i = start
    n = len(text)
    while i < n:
        c = text[i]
        if c == '"':
            i += 1
            while i < n and text[i] != '"':
                i += 2 if text[i] == '\\' else 1
            i += 1
        elif c == '/' and text[i:i + 2] == '//':
            j = text.find('\n', i)
            i = n if j < 0 else j
        elif c == ';':
            return i
        else:
            i += 1
    raise CdlError('missing ;')


NUM_RE = re.compile(r'^([+-]?)(\d*)(?:\.(\d*))?(?:[eE]([+-]?\d+))?$')


def parse_number(tok):
    """-> dict(kind=type number implied by the suffix/shape, value=int|Fraction|'nan'|'inf'|'-inf',
    digits=significant decimal digits printed (floats), text=tok)"""
    t = tok
    low = t.lower()
    for suf, k in (('ull', 11), ('ll', 10), ('ub', 7), ('us', 8), ('u', 9)):
        if low.endswith(suf) and re.match(r'^[+-]?\d+$', t[:-len(suf)]):
            return dict(kind=k, value=int(t[:-len(suf)]), text=tok)
    if re.match(r'^[+-]?\d+[bB]$', t):
        return dict(kind=1, value=int(t[:-1]), text=tok)
    if re.match(r'^[+-]?\d+[sS]$', t):
        return dict(kind=3, value=int(t[:-1]), text=tok)
    if re.match(r'^[+-]?\d+$', t):
        return dict(kind=4, value=int(t), text=tok)
    body, kind = t, 6
    if low.endswith('f') and not low.endswith('inf'):
        body, kind = t[:-1], 5
    lb = body.lower()
    if lb in ('nan', '-nan', '+nan'):
        return dict(kind=kind, value='nan', text=tok)
    if lb in ('inf', '+inf', 'infinity', '+infinity'):
        return dict(kind=kind, value='inf', text=tok)
    if lb in ('-inf', '-infinity'):
        return dict(kind=kind, value='-inf', text=tok)
    m = NUM_RE.match(body)
    if not m or (m.group(2) == '' and not m.group(3)):
        raise CdlError('bad number %r' % tok)
    sign, ip, fp, ex = m.group(1), m.group(2) or '', m.group(3) or '', int(m.group(4) or 0)
    digs = (ip + fp).lstrip('0')
    val = Fraction(int(ip + fp or '0'), 10 ** len(fp)) * (Fraction(10) ** ex)
    if sign == '-':
        val = -val
    # significant digits actually printed (trailing zeros of the fraction were trimmed by the printer)
    return dict(kind=kind, value=val, digits=len(digs), neg=(sign == '-'), text=tok)


# ------------------------------------------------------------------ CDL
def parse_cdl(text):
    """-> dict(name, format (1|2|5|None), dims=[dict(name,len,unlimited,current)],
               vars=[dict(name,type,typename,dims=[names],atts=[att])], gatts=[att],
               data={varname: [tokens]})      att = dict(name, tokens=[...])"""
    res = dict(name=None, format=None, dims=[], vars=[], gatts=[], data={})
    m = re.match(r'\s*netcdf\s+(\S+)\s*\{', text)
    if not m:
        raise CdlError('no netcdf header line')
    res['name'] = m.group(1)
    fm = re.search(r'//\s*file format:\s*CDF-(\d)', text)
    if fm:
        res['format'] = int(fm.group(1))
    pos = m.end()
    section = None
    n = len(text)
    byname = {}
    while pos < n:
        # skip whitespace / comments
        mm = re.compile(r'(\s+|//[^\n]*)*').match(text, pos)
        pos = mm.end()
        if pos >= n:
            break
        if text[pos] == '}':
            break
        km = re.compile(r'(dimensions|variables|data):').match(text, pos)
        if km:
            section = km.group(1)
            pos = km.end()
            continue
        end = find_terminator(text, pos)
        stmt = text[pos:end]
        # a trailing comment after ';' on the same line ("// (2 currently)")
        lineend = text.find('\n', end)
        trail = text[end + 1: lineend if lineend >= 0 else n]
        pos = end + 1
        if section == 'dimensions':
            dm = re.match(r'\s*(\S+)\s*=\s*(\S+)\s*$', stmt)
            if not dm:
                raise CdlError('bad dimension %r' % stmt)
            nm, ln = dm.group(1), dm.group(2)
            if ln == 'UNLIMITED':
                cm = re.search(r'\((\d+) currently\)', trail)
                res['dims'].append(dict(name=nm, len=0, unlimited=True, current=int(cm.group(1)) if cm else None))
            else:
                res['dims'].append(dict(name=nm, len=int(ln), unlimited=False, current=None))
        elif section == 'variables':
            am = re.match(r'\s*([^\s:="]*):([^\s=]+)\s*=(.*)$', stmt, re.S)
            if am:
                att = dict(name=am.group(2), tokens=tokenize_values(am.group(3)))
                if am.group(1) == '':
                    res['gatts'].append(att)
                else:
                    if am.group(1) not in byname:
                        raise CdlError('attribute of unknown variable %r' % am.group(1))
                    byname[am.group(1)]['atts'].append(att)
                continue
            vm = re.match(r'\s*(\w+)\s+([^\s(]+)\s*(?:\(([^)]*)\))?\s*$', stmt)
            if not vm or vm.group(1) not in TYPE_NUM:
                raise CdlError('bad variable declaration %r' % stmt)
            dn = [d.strip() for d in vm.group(3).split(',')] if vm.group(3) else []
            v = dict(name=vm.group(2), typename=vm.group(1), type=TYPE_NUM[vm.group(1)], dims=dn, atts=[])
            res['vars'].append(v)
            byname[v['name']] = v
        elif section == 'data':
            dm = re.match(r'\s*([^\s=]+)\s*=(.*)$', stmt, re.S)
            if not dm:
                raise CdlError('bad data statement %r' % stmt[:40])
            res['data'][dm.group(1)] = tokenize_values(dm.group(2))
        else:
            raise CdlError('statement outside a section: %r' % stmt[:40])
    return res


def att_type_and_values(att):
    """type implied by the printed tokens and the values: (type, bytes) for text,
    (type, [numbers]) otherwise; an empty string "" is how ncmpidump prints ANY zero-length attribute"""
    toks = att['tokens']
    if toks and all(t[0] == 'str' for t in toks):
        return 2, b''.join(t[1] for t in toks)
    nums = [parse_number(t[1]) for t in toks if t[0] == 'num']
    if len(nums) != len(toks):
        raise CdlError('mixed attribute values')
    kinds = {x['kind'] for x in nums}
    if len(kinds) != 1:
        raise CdlError('attribute values of different types: %r' % [x['text'] for x in nums])
    return kinds.pop(), nums


# ------------------------------------------------------------------ ncoffsets
def parse_ncoffsets(text):
    """-> dict(format, ndims, nvars, ngatts, header_size, header_extent, dims=[(name,len|None,current)],
               fixed=[var], record=[var])   var = dict(typename,name,dims,start,end,recs=[[start,end,recno|None]...],size?,gap?)"""
    res = dict(format=None, dims=[], fixed=[], record=[], header_size=None, header_extent=None)
    m = re.search(r'//\s*File format:\s*CDF-(\d)', text)
    if m:
        res['format'] = int(m.group(1))
    for key, pat in (('ndims', r'Number of dimensions:\s*(\d+)'), ('nvars', r'Number of variables:\s*(\d+)'),
                     ('ngatts', r'Number of global attributes:\s*(\d+)'),
                     ('header_size', r'size\s*=\s*(\d+) bytes'), ('header_extent', r'extent\s*=\s*(\d+) bytes')):
        mm = re.search(pat, text)
        res[key] = int(mm.group(1)) if mm else None
    section = None
    cur = None
    for line in text.split('\n'):
        s = line.strip()
        if s in ('dimensions:', 'fixed-size variables:', 'record variables:', 'file header:'):
            section = s
            continue
        if section == 'dimensions:':
            dm = re.match(r'(\S+)\s*=\s*(\S+)(?:\s*//\s*\((\d+) currently\))?', s)
            if dm:
                if dm.group(2) == 'UNLIMITED':
                    res['dims'].append((dm.group(1), None, int(dm.group(3)) if dm.group(3) else None))
                else:
                    res['dims'].append((dm.group(1), int(dm.group(2)), None))
        elif section in ('fixed-size variables:', 'record variables:'):
            vm = re.match(r'(\w+)\s+([^\s(:]+)(?:\(([^)]*)\))?:$', s)
            if vm and vm.group(1) in TYPE_NUM:
                cur = dict(typename=vm.group(1), name=vm.group(2),
                           dims=[d.strip() for d in vm.group(3).split(',')] if vm.group(3) else [])
                (res['fixed'] if section.startswith('fixed') else res['record']).append(cur)
                continue
            om = re.match(r'(start file offset|end   file offset|size in bytes|gap from prev var)\s*=\s*(-?\d+)', s)
            if om and cur is not None:
                k = {'start file offset': 'start', 'end   file offset': 'end', 'size in bytes': 'size',
                     'gap from prev var': 'gap'}[om.group(1)]
                if k not in cur:          # 'start'/'end' keep the first (0th record) ...
                    cur[k] = int(om.group(2))
                if k == 'start':          # ... 'recs' lists every printed (start, end) pair with its record label
                    rm = re.search(r'\((\d+)(?:st|nd|rd|th) record\)', s)
                    cur.setdefault('recs', []).append([int(om.group(2)), None, int(rm.group(1)) if rm else None])
                elif k == 'end' and cur.get('recs') and cur['recs'][-1][1] is None:
                    cur['recs'][-1][1] = int(om.group(2))
    return res


def _jsonable(x):
    if isinstance(x, Fraction):
        return str(x)
    if isinstance(x, bytes):
        return x.hex()
    if isinstance(x, dict):
        return {k: _jsonable(v) for k, v in x.items()}
    if isinstance(x, (list, tuple)):
        return [_jsonable(v) for v in x]
    return x


if __name__ == '__main__':
    mode, path = sys.argv[1], sys.argv[2]
    txt = open(path, errors='replace').read()
    print(json.dumps(_jsonable(parse_cdl(txt) if mode == 'cdl' else parse_ncoffsets(txt)), indent=1))
