#!/bin/bash
# seed_matrix.sh [name-glob]: runs every kept seeded change (seeded/<Cxx>_<name>/patch.diff) against the check of
# its property (quick tier) in a scratch worktree outside /repo and /verif, and writes seeded/MATRIX.tsv
# (name, check, exit code, first VIOLATION line, seconds).  /repo is never touched; evidence/ is not written
# (pnc/common.py records PNC_REPO runs under evidence_mut/).  Up to 3 changes at a time.
cd /verif
G=${1:-*}
OUT=seeded/MATRIX.tsv; TMP=$(mktemp -d /var/tmp/seedmx.XXXX)
one() {
  n=$1; id=${n%%_*}; wt=$TMP/wt_$n
  alt=$(python3 -c "import json;print(' '.join(json.load(open('seeded/$n/meta.json')).get('also_checks',[])))" 2>/dev/null)
  git -C /repo worktree add -f --detach $wt HEAD >/dev/null 2>&1 || { echo "$n	$id	worktree-failed" > $TMP/$n.res; return; }
  rsync -a --exclude .git --exclude '*.o' --exclude '*.lo' --exclude '.libs' /repo/ $wt/
  git -C $wt apply /verif/seeded/$n/patch.diff || { echo "$n	$id	patch-does-not-apply" > $TMP/$n.res; git -C /repo worktree remove --force $wt; return; }
  : > $TMP/$n.res
  for c in $id $alt; do
    t0=$(date +%s)
    PNC_REPO=$wt timeout ${SEED_TIMEOUT:-3000} ./check $c > $TMP/$n.$c.log 2>&1; rc=$?
    nv=$(grep -c '^VIOLATION' $TMP/$n.$c.log); nn=$(grep -c '^VIOLATION.*no-failing-input-found' $TMP/$n.$c.log)
    echo "$n	$c	rc=$rc	violations=$nv (of which no-failing-input-found: $nn)	$(tail -1 $TMP/$n.$c.log | sed 's/^.*obligations/obligations/')	$(( $(date +%s) - t0 ))s" >> $TMP/$n.res
  done
  git -C /repo worktree remove --force $wt
}
N=0
if [ -n "${SEEDS:-}" ]; then LIST=$(for n in $SEEDS; do echo seeded/$n/; done); G=subset; else LIST=$(ls -d seeded/$G/); fi
for d in $LIST; do n=$(basename $d); [ -f $d/patch.diff ] || continue
  one $n & N=$((N+1)); if [ $((N % ${SEED_PAR:-2})) = 0 ]; then wait; fi
done; wait
cat $TMP/*.res | sort > $OUT.new
if [ "$G" = "*" ]; then mv $OUT.new $OUT; else cat $OUT.new; python3 - $OUT $OUT.new <<'PY'
import sys
old=[l for l in open(sys.argv[1]) if l.strip()] if __import__('os').path.exists(sys.argv[1]) else []
new=[l for l in open(sys.argv[2]) if l.strip()]
keys={tuple(l.split('\t')[:2]) for l in new}
out=[l for l in old if tuple(l.split('\t')[:2]) not in keys]+new
open(sys.argv[1],'w').write(''.join(sorted(out)))
PY
rm $OUT.new; fi
git -C /repo worktree prune; rm -rf $TMP
