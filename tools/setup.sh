#!/bin/bash
# one-time setup after a fresh restore (offline): library cache, Coq development, model, harness
cd "$(dirname "$0")/.." || exit 1
python3 - <<'PY'
import sys, glob, os
sys.path.insert(0, '.')
from pnc import common as C, scripts as S
lib = C.libdir()
C.run_translators(lib, ('consts',))
targets = sorted(os.path.basename(p)[:-2] + '.vo' for p in glob.glob('coq/Properties_C*.v'))
ok, log = C.coq_make(targets + ['Extract.vo'], timeout=3400)
print(log[-1500:] if not ok else 'coq build ok: %d property files' % len(targets))
S.impl_exe(lib); C.model_exe()
print('setup done')
PY
