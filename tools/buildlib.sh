#!/bin/bash
# Build libpnetcdf.a (+ utilities, generated sources) from /repo's CURRENT working tree
# into a content-addressed cache /verif/build/lib-<variant>-<sha>/ and print that path.
# usage: buildlib.sh [default|asan|bb|debug]
set -u
VARIANT=${1:-default}
REPO=${PNC_REPO:-/repo}
VERIF=$(cd "$(dirname "$0")/.." && pwd)
CACHE=$VERIF/build
mkdir -p "$CACHE"
# hash of everything that can influence the library: sources, m4, headers, build files
SHA=$(cd "$REPO" && find src configure configure.ac m4 scripts -type f \
      \( -name '*.c' -o -name '*.h' -o -name '*.m4' -o -name '*.in' -o -name '*.am' \
         -o -name '*.y' -o -name '*.l' -o -name '*.hpp' -o -name '*.cpp' -o -name configure -o -name '*.ac' \) \
      ! -path '*/.libs/*' ! -path '*/.deps/*' -print0 2>/dev/null | sort -z | xargs -0 sha1sum | sha1sum | cut -c1-16)
OUT=$CACHE/lib-$VARIANT-$SHA
if [ -f "$OUT/.ok" ]; then echo "$OUT"; exit 0; fi
exec 9>"$CACHE/.lock-$VARIANT"
flock 9
if [ -f "$OUT/.ok" ]; then echo "$OUT"; exit 0; fi
# keep the cache small: at most 2 older entries per variant
ls -dt "$CACHE"/lib-$VARIANT-* 2>/dev/null | tail -n +8 | xargs -r rm -rf
S=$(mktemp -d "${TMPDIR:-/var/tmp}/pncverif.XXXXXX")
trap 'rm -rf "$S"' EXIT
rsync -a --exclude .git "$REPO"/ "$S"/ >&2 || exit 2
cd "$S" || exit 2
find . \( -name '*.o' -o -name '*.lo' -o -name '*.la' -o -name '*.a' \) -delete
find . -name .libs -type d -prune -exec rm -rf {} +
LOG=$CACHE/build-$VARIANT-$SHA.log
CPPF="-DPNETCDF_VERIF"
CFL="-Wno-error -g"
case $VARIANT in
  default) NEEDCONF=0 ;;
  asan)    NEEDCONF=0; CFL="-Wno-error -O1 -g -fsanitize=address,undefined -fno-sanitize-recover=undefined -fno-omit-frame-pointer" ;;
  debug)   NEEDCONF=1; CONFARGS="--enable-debug" ;;
  bb)      NEEDCONF=1; CONFARGS="--enable-burst-buffering" ;;
  *) echo "unknown variant $VARIANT" >&2; exit 2 ;;
esac
if [ ! -f config.status ] || [ ! -f src/include/pnetcdf.h ]; then NEEDCONF=1; CONFARGS=${CONFARGS:-}; fi
if [ "$NEEDCONF" = 1 ]; then
  ( ./configure --disable-fortran --disable-cxx ${CONFARGS:-} ) >"$LOG" 2>&1 || { echo "configure failed, see $LOG" >&2; exit 2; }
fi
( make -C src -j16 CPPFLAGS="$CPPF" CFLAGS="$CFL" ) >>"$LOG" 2>&1 || { echo "BUILD FAILED, see $LOG" >&2; tail -30 "$LOG" >&2; exit 3; }
mkdir -p "$OUT.tmp/gen" "$OUT.tmp/bin" "$OUT.tmp/include"
cp src/libs/.libs/libpnetcdf.a "$OUT.tmp/" || exit 3
cp src/include/pnetcdf.h src/include/config.h "$OUT.tmp/include/"
# generated C sources (from m4) and the sources the translators read, as built
for f in src/drivers/common/*.c src/drivers/common/*.h src/drivers/include/*.h src/drivers/ncmpio/*.c src/drivers/ncmpio/*.h src/dispatchers/*.c src/include/*.h src/drivers/ncbbio/*.c src/drivers/ncbbio/*.h; do
  [ -f "$f" ] && { mkdir -p "$OUT.tmp/gen/$(dirname $f)"; cp "$f" "$OUT.tmp/gen/$f"; }
done
# preprocessed ncx.c for the conversion-table translator
( cd src/drivers/common && mpicc -E -P -DHAVE_CONFIG_H -I. -I../../../src/include -I../../../src/drivers/include $CPPF ncx.c ) > "$OUT.tmp/gen/ncx.i" 2>>"$LOG"
# utilities (relinked statically so they run from the cache)
for u in ncvalidator/ncvalidator ncmpidiff/cdfdiff ncoffsets/ncoffsets; do
  [ -f src/utils/$u ] && cp src/utils/$u "$OUT.tmp/bin/" 2>/dev/null
done
for u in ncmpidiff/ncmpidiff ncmpidump/ncmpidump ncmpigen/ncmpigen; do
  d=src/utils/$(dirname $u); n=$(basename $u)
  if ls $d/*.o >/dev/null 2>&1; then
    mpicc $CFL -o "$OUT.tmp/bin/$n" $d/*.o "$OUT.tmp/libpnetcdf.a" -lm >>"$LOG" 2>&1
  fi
done
echo "$SHA" > "$OUT.tmp/.sha"
touch "$OUT.tmp/.ok"
rm -rf "$OUT"; mv "$OUT.tmp" "$OUT"
echo "$OUT"
