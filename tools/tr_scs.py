#!/usr/bin/env python3
"""tr_scs.py <libdir> <out.v>: coq/Gen_scs.v = Gallina rendering of check_start_count_stride, check_EINVALCOORDS and check_EEDGE
(src/dispatchers/var_getput.c as built), by tools/tr_cfun.py (target scs)."""
import sys, os
sys.path.insert(0, os.path.dirname(os.path.abspath(__file__)))
import tr_cfun
sys.exit(tr_cfun.main(sys.argv[1], sys.argv[2], 'scs'))
