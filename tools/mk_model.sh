#!/bin/bash
# dev helper: compile model files + extraction + OCaml driver into /tmp/pnc_model
cd /verif/coq || exit 1
for f in Gen_consts Base Header Access Data Disk Move Fill HeaderSpec Exec Extract; do
  if [ ! -f $f.vo ] || [ $f.v -nt $f.vo ] || [ -n "$FORCE" ]; then
    FORCE=1
    timeout 300 coqc -Q . Pnc $f.v || exit 1
  fi
done
ocamlfind ocamlopt -package zarith -linkpkg -w -a -I . pnc_model.mli pnc_model.ml -I ../harness ../harness/driver.ml -o /tmp/pnc_model || exit 1
rm -f ../harness/driver.cm* ../harness/driver.o
echo built
