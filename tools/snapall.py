#!/usr/bin/env python3
# insert "* snapshot 0" after every top-level line of a script (dev helper to localise a divergence)
import sys
out=[]; ingrp=False
for l in open(sys.argv[1]).read().split('\n'):
    out.append(l)
    t=l.split()
    if not t: continue
    if t[0]=='{': ingrp=True; continue
    if t[0]=='}': ingrp=False
    if ingrp or t[0] in ('nprocs','env','hint') or (len(t)>1 and t[1] in ('create','def_dim','def_var','snapshot','close','abort','begin_indep','put_att','open')): continue
    if len(t)>1 and t[0]!='*' and t[1] not in ('put',): continue
    out.append('* snapshot 0')
print('\n'.join(out))
