#!/bin/bash
# usage: confirm_seed.sh <worktree> <mutdir> <nprocs>   -- confirms a seeded change: builds with patch,
# runs the repo's suite, runs the demo with and without the patch. Prints a summary.
WT=$1; MD=$2; NP=${3:-1}
cd $WT || exit 2
git checkout -q -- . ; git apply $MD/patch.diff || { echo "PATCH DOES NOT APPLY"; exit 2; }
make -C src -j8 >/dev/null 2>$MD/confirm_build.err || { echo "BUILD FAILED"; git checkout -q -- .; exit 2; }
mpicc -g -I$WT/src/include -o $MD/demo_mut $MD/demo.c $WT/src/libs/.libs/libpnetcdf.a -lm || { echo DEMO BUILD FAILED; }
mkdir -p $MD/scratch
( cd $MD/scratch && timeout 600 mpiexec --allow-run-as-root --oversubscribe -n $NP $MD/demo_mut $MD/scratch/t.nc > $MD/confirm_demo_mut.out 2>&1 ); RC_MUT=$?
find . -name '*.trs' -delete; make -k check -j8 > $MD/confirm_check.log 2>&1
SUITE=$(grep -h ':test-result:' $(find . -name '*.trs') | sort | uniq -c | tr '\n' ' ')
git checkout -q -- .
make -C src -j8 >/dev/null 2>&1
mpicc -g -I$WT/src/include -o $MD/demo_base $MD/demo.c $WT/src/libs/.libs/libpnetcdf.a -lm
( cd $MD/scratch && timeout 600 mpiexec --allow-run-as-root --oversubscribe -n $NP $MD/demo_base $MD/scratch/t.nc > $MD/confirm_demo_base.out 2>&1 ); RC_BASE=$?
rm -rf $MD/scratch $MD/demo_mut $MD/demo_base
echo "CONFIRM $MD: suite_with_change=[$SUITE] demo_with_change_rc=$RC_MUT demo_without_change_rc=$RC_BASE"
