#!/usr/bin/env python3
"""c04_lib.py — shared machinery of checks/C04.py and checks/C19.py: build of the extracted reader
model (coq/Reader.v -> OCaml, harness/c04_model.ml), running harness/c04_open.c on the real
library (plain or ASan+UBSan build, 1-3 ranks, hints, header chunk hook), parsing of both outputs,
static ties of the model's constants/assumptions to the sources as built."""
import os, re, sys, glob, shutil, hashlib, struct, concurrent.futures as cf
sys.path.insert(0, os.path.dirname(os.path.dirname(os.path.abspath(__file__))))
from pnc import common as C

HARNESS = os.path.join(C.VERIF, 'harness', 'c04_open.c')
ASAN_FLAGS = ['-fsanitize=address,undefined', '-fno-sanitize-recover=undefined', '-fno-omit-frame-pointer']
MODEL_SRCS = ['Gen_consts.v', 'Base.v', 'Header.v', 'HeaderSpec.v', 'Reader.v', 'Extract_Reader.v']


def harness_exe(lib, asan=False):
    return C.build_c(lib, [HARNESS], 'c04_open' + ('_asan' if asan else ''), extra=ASAN_FLAGS if asan else None)


def stable_copy(exe, wd):
    """the library cache keeps only the most recent builds and is shared with concurrently running
    checks: keep a private copy of a harness executable for the duration of this check"""
    dst = os.path.join(wd, os.path.basename(exe))
    if not os.path.exists(dst):
        shutil.copy2(exe, dst)
    return dst


def model_exe():
    """extract coq/Reader.v to OCaml and build c04_model (cached on the hash of the sources)"""
    h = hashlib.sha1()
    for s in MODEL_SRCS:
        h.update(open(os.path.join(C.COQ, s), 'rb').read())
    h.update(open(os.path.join(C.VERIF, 'harness', 'c04_model.ml'), 'rb').read())
    exe = os.path.join(C.BUILD, 'c04_model-' + h.hexdigest()[:12])
    if os.path.isfile(exe):
        return exe
    ok, log = C.coq_make(['Extract_Reader.vo'])
    if not ok:
        raise C.BuildFailure('reader model build failed:\n' + log[-3000:])
    with C.Lock('ocaml-c04'):
        if os.path.isfile(exe):
            return exe
        for old in glob.glob(os.path.join(C.BUILD, 'c04_model-*')):
            os.remove(old)
        d = C.scratch('c04ml.')
        for f in ('reader_model.ml', 'reader_model.mli'):
            shutil.copy(os.path.join(C.COQ, f), d)
        shutil.copy(os.path.join(C.VERIF, 'harness', 'c04_model.ml'), d)
        rc, out = C.sh('ocamlfind ocamlopt -O2 -package zarith -linkpkg -w -a reader_model.mli reader_model.ml c04_model.ml -o c04_model 2>&1 || '
                       'ocamlfind ocamlopt -package zarith -linkpkg -w -a reader_model.mli reader_model.ml c04_model.ml -o c04_model', cwd=d, timeout=600)
        if not os.path.isfile(os.path.join(d, 'c04_model')):
            raise C.BuildFailure('ocaml build of the reader model failed:\n' + out[-3000:])
        shutil.move(os.path.join(d, 'c04_model'), exe)
    return exe


# ------------------------------------------------------------------ static ties
def static_ties(lib):
    """the assumptions/constants written into coq/Reader.v, checked against the sources as built.
    returns a list of broken ties (strings); empty = all hold"""
    bad = []
    cfg = open(os.path.join(lib, 'include', 'config.h')).read()
    if re.search(r'^\s*#\s*define\s+ENABLE_NULL_BYTE_HEADER_PADDING', cfg, re.M):
        bad.append('config.h defines ENABLE_NULL_BYTE_HEADER_PADDING: the model skips padding unexamined')
    if re.search(r'^\s*#\s*define\s+(PNETCDF_DEBUG|PNC_MALLOC_TRACE)\b', cfg, re.M):
        bad.append('debug build: safe mode / malloc tracing not modelled')
    ph = open(os.path.join(lib, 'include', 'pnetcdf.h')).read()
    for name in ('NC_MAX_DIMS', 'NC_MAX_ATTRS', 'NC_MAX_VARS', 'NC_MAX_VAR_DIMS'):
        if not re.search(r'^#define\s+%s\s+NC_MAX_INT\b' % name, ph, re.M):
            bad.append('%s is not NC_MAX_INT in pnetcdf.h' % name)
    for name, val in (('NC_ENOTNC3', -113), ('NC_MAX_NAME', 256), ('NC_ENOTBUILT', -128), ('NC_EFILE', -204)):
        m = re.search(r'^#define\s+%s\s+\(?(-?\d+)\)?' % name, ph, re.M)
        if not m or int(m.group(1)) != val:
            bad.append('%s is not %d in pnetcdf.h' % (name, val))
    src = os.path.join(lib, 'gen', 'src', 'drivers', 'ncmpio')
    hg = open(os.path.join(src, 'ncmpio_header_get.c')).read()
    nospace = re.sub(r'\s+', '', hg)
    # pattern -> number of occurrences (the 32-bit and the 64-bit branch of a test are separate lines:
    # a change of ONE branch must break the tie)
    pats = {
        'chunk normalisation': ('getbuf.chunk=PNETCDF_RNDUP(MAX(MIN_NC_XSZ+4,ncp->chunk),X_ALIGN);', 1),
        'slack special case': ('slack=gbp->chunk-(gbp->pos-gbp->base);if(slack==gbp->chunk)slack=0;', 1),
        'zero fill': ('if(get_size<readLen)memset(readBuf+get_size,0,readLen-get_size);', 1),
        'offset advance': ('gbp->offset+=readLen;', 1),
        'u32 guard': ('if(gbp->pos+4>gbp->end){err=hdr_fetch(gbp);', 3),
        'u64 guard': ('if(gbp->pos+8>gbp->end){err=hdr_fetch(gbp);', 1),
        'padding guard': ('if(gbp->pos+padding>gbp->end){err=hdr_fetch(gbp);', 2),
        'name limit (32/64)': ('if(tmp>NC_MAX_NAME)DEBUG_RETURN_ERROR(NC_EMAXNAME)', 2),
        'unlimited once': ('if(unlimited_id!=-1&&dim_length==0){', 1),
        'array growby': ('alloc_size=PNETCDF_RNDUP(ncap->ndefined,PNC_ARRAY_GROWBY);', 3),
        'count limit dims (32/64)': ('if(tmp>NC_MAX_DIMS)DEBUG_RETURN_ERROR(NC_EMAXDIMS)', 2),
        'count limit attrs (32/64)': ('if(tmp>NC_MAX_ATTRS)DEBUG_RETURN_ERROR(NC_EMAXATTS)', 2),
        'count limit vars (32/64)': ('if(tmp>NC_MAX_VARS)DEBUG_RETURN_ERROR(NC_EMAXVARS)', 2),
        'var ndims limit (32/64)': ('if(tmp>NC_MAX_VAR_DIMS){', 2),
        'empty list': ('if(ndefined==0)returnNC_NOERR;', 3),
        'tag dims': ('if(tag!=NC_DIMENSION){', 1),
        'tag attrs': ('if(tag!=NC_ATTRIBUTE){', 1),
        'tag vars': ('if(tag!=NC_VARIABLE){', 1),
        'type lower bound': ('if(xtype<NC_BYTE)DEBUG_RETURN_ERROR(NC_EBADTYPE)', 1),
        'type upper bound': ('if(gbp->version<5){if(xtype>NC_DOUBLE)DEBUG_RETURN_ERROR(NC_EBADTYPE)}elseif(xtype>NC_UINT64)DEBUG_RETURN_ERROR(NC_EBADTYPE)', 1),
        'dimid range test (32/64)': ('if(tmp>=f_ndims){DEBUG_ASSIGN_ERROR(err,NC_EBADDIM)', 2),
        'begin by version': ('if(gbp->version==1){uinttmp;err=hdr_get_uint32(gbp,&tmp);varp->begin=(MPI_Offset)tmp;}', 1),
        'attrV nbytes': ('nbytes=attrp->nelems*xsz;padding=attrp->xsz-nbytes;', 1),
        'final layout test': ('if(ncp->begin_var<=0||ncp->xsz>ncp->begin_var||ncp->begin_rec<=0||ncp->begin_var>ncp->begin_rec)', 1),
        'post checks order': ('err=compute_var_shape(ncp);', 1),
    }
    for k, (p, n) in pats.items():
        if nospace.count(p) != n:
            bad.append('source pattern changed in ncmpio_header_get.c: %s (%d occurrence(s), expected %d)' % (k, nospace.count(p), n))
    nh = open(os.path.join(src, 'ncmpio_NC.h')).read()
    if not re.search(r'#define\s+IS_RECVAR\(vp\)\s*\\\s*\(\(vp\)->shape != NULL \? \(\*\(vp\)->shape == NC_UNLIMITED\) : 0 \)', nh):
        bad.append('IS_RECVAR changed in ncmpio_NC.h')
    if 'VAR_BEGIN_IN_ARBITRARY_ORDER' in cfg and re.search(r'^\s*#\s*define\s+VAR_BEGIN_IN_ARBITRARY_ORDER', cfg, re.M):
        bad.append('VAR_BEGIN_IN_ARBITRARY_ORDER defined: check_voffs variant not modelled')
    return bad


# ------------------------------------------------------------------ running
def parse_blocks(text):
    """c04_model output -> {tag: dict(result, cost, flat, valid, expected, consistent, dump)}"""
    res = {}
    cur = None
    for l in text.split('\n'):
        if l.startswith('case '):
            cur = dict(dump=[], result=None, cost=None, flat=None, valid=None, expected=None, consistent=None)
            res[l.split(' ', 1)[1]] = cur
        elif l == 'end':
            cur = None
        elif cur is not None:
            t = l.split()
            if not t:
                continue
            if t[0] == 'result':
                cur['result'] = t[1:]
            elif t[0] == 'cost':
                cur['cost'] = dict(zip(('fetches', 'offset', 'getsize', 'alloc', 'maxreq', 'nalloc'), map(int, t[1:])))
            elif t[0] in ('flat', 'valid', 'expected', 'consistent'):
                cur[t[0]] = t[1]
            else:
                cur['dump'].append(l)
    return res


def run_model(model, cases, wd, jobs=8, timeout=900):
    """cases: list of (tag, chunk_hint, mm, maxdata, path).  Sharded over `jobs` processes."""
    # cases of one file go to the same process (the driver caches the file and its decoding)
    order = {}
    for c in cases:
        order.setdefault(c[4], []).append(c)
    shards = [[] for _ in range(jobs)]
    for grp in sorted(order.values(), key=lambda g: -sum(os.path.getsize(x[4]) for x in g)):
        min(shards, key=lambda sh: sum(os.path.getsize(x[4]) for x in sh)).extend(grp)
    def one(ix):
        sh = shards[ix]
        if not sh:
            return {}
        p = os.path.join(wd, 'mcases.%d.%d' % (os.getpid(), ix))
        with open(p, 'w') as f:
            for c in sh:
                f.write('%s %d %d %d %s\n' % c)
        rc, out = C.sh('ulimit -s unlimited 2>/dev/null; exec %s %s' % (model, p), timeout=timeout)
        os.remove(p)
        r = parse_blocks(out)
        if rc != 0 or len(r) != len(sh):
            for c in sh:
                r.setdefault(c[0], dict(dump=[], result=['modelfail', str(rc), out[-200:]], cost=None, flat=None,
                                        valid=None, expected=None, consistent=None))
        return r
    res = {}
    with cf.ThreadPoolExecutor(max_workers=jobs) as ex:
        for r in ex.map(one, range(jobs)):
            res.update(r)
    return res


SAN_ENV = {'ASAN_OPTIONS': 'detect_leaks=0:allocator_may_return_null=1:max_allocation_size_mb=%d:abort_on_error=0',
           'UBSAN_OPTIONS': 'print_stacktrace=1'}


def run_impl(exe, path, chunk=None, np_=1, hints=(), maxdata=None, indep=False, asan_mb=None, timeout=60,
             extra_args=(), extra_env=None):
    """run harness/c04_open.c; returns dict(rc, lines (dump), ranks_agree, rss_kb, wall_ms, raw)"""
    env = {}
    if chunk is not None:
        env['PNETCDF_VERIF_HDR_CHUNK'] = str(chunk)
    if asan_mb is not None:
        env['ASAN_OPTIONS'] = SAN_ENV['ASAN_OPTIONS'] % asan_mb
        env['UBSAN_OPTIONS'] = SAN_ENV['UBSAN_OPTIONS']
    if extra_env:
        env.update(extra_env)
    args = [path]
    for h in hints:
        args += ['-h', h]
    if maxdata is not None:
        args += ['-d', str(maxdata)]
    if indep:
        args.append('-i')
    args += list(extra_args)
    if np_ == 1:
        e = dict(os.environ); e.update(env)
        rc, out = C.sh([exe] + args, timeout=timeout, env=e)
    else:
        rc, out = C.mpirun(np_, exe, args, env=env, timeout=timeout)
    r = dict(rc=rc, raw=out, lines=[], ranks_agree=None, rss_kb=None, wall_ms=None, cpu_ms=None)
    for l in out.split('\n'):
        if l.startswith('ranks '):
            r['ranks_agree'] = l.split()[3] == '1'
        elif l.startswith('rusage '):
            t = l.split(); r['rss_kb'] = int(t[2]); r['wall_ms'] = int(t[4]); r['cpu_ms'] = int(t[6]) if len(t) > 6 else None
        elif l and re.match(r'^(open|format|inq|sizes|dim|att|var|data|idata|rec|close|vard_zero) ', l):
            r['lines'].append(l)
    return r


def mask_getsize(lines):
    out = []
    for l in lines:
        if l.startswith('sizes '):
            t = l.split(); t[-1] = '?'; l = ' '.join(t)
        out.append(l)
    return out


def first_diff(a, b):
    for i, (x, y) in enumerate(zip(a, b)):
        if x != y:
            return i, x, y
    if len(a) != len(b):
        i = min(len(a), len(b))
        return i, (a[i] if i < len(a) else '<missing>'), (b[i] if i < len(b) else '<missing>')
    return None


# ------------------------------------------------------------------ sanitizer reports
def sanitizer_site(raw):
    """(kind, function) of the first sanitizer report / signal in the output, or None"""
    m = re.search(r'runtime error: ([^\n]*)\n\s*#0 0x[0-9a-f]+ in (\S+)', raw)
    if m:
        msg = m.group(1)
        if 'signed integer overflow' in msg: kind = 'signed-overflow'
        elif 'null pointer passed as argument' in msg: kind = 'null-arg'
        elif 'null pointer' in msg: kind = 'null-deref'
        elif 'misaligned' in msg: kind = 'misaligned'
        elif 'out of bounds' in msg: kind = 'index-oob'
        elif 'division by zero' in msg: kind = 'div-zero'
        elif 'shift' in msg: kind = 'shift'
        elif 'outside the range of representable values' in msg: kind = 'float-cast-overflow'
        else: kind = 'ub:' + msg.split(':')[0][:30]
        return kind, m.group(2)
    m = re.search(r'ERROR: AddressSanitizer: (\S+)', raw)
    if m:
        kind = m.group(1)
        fn = None
        for f in re.findall(r'#\d+ 0x[0-9a-f]+ in (\S+)', raw):
            if not f.startswith(('__interceptor', '__asan', 'memcpy', 'memset', 'memmove', 'malloc', 'calloc', 'realloc', 'free', 'strlen', 'strcpy')):
                fn = f; break
        return kind, fn or '?'
    m = re.search(r'SUMMARY: AddressSanitizer: (\S+) \S+ in (\S+)', raw)      # head of the report cut off
    if m:
        fn = m.group(2)
        if fn.startswith(('__interceptor', '__asan', 'mem')):
            for f in re.findall(r'#\d+ 0x[0-9a-f]+ in (\S+)', raw):
                if not f.startswith(('__interceptor', '__asan', 'memcpy', 'memset', 'memmove', 'malloc', 'calloc', 'realloc', 'free', 'strlen', 'strcpy')):
                    fn = f; break
        return m.group(1), fn
    if 'runtime error:' in raw:
        m = re.search(r'runtime error: ([^\n]*)', raw)
        return 'ub', m.group(1)[:40]
    return None


def alloc_refused(raw):
    """sizes (bytes) of the allocation requests the sanitizer allocator refused (> max_allocation_size_mb)"""
    return [int(x, 16) for x in re.findall(r'AddressSanitizer failed to allocate (0x[0-9a-f]+) bytes', raw)]


# ------------------------------------------------------------------ batch mode of the harness
def _parse_batch(out):
    """-> (finished {tag: result}, pending tag or None, text after the pending 'case' line)"""
    done = {}
    cur = None; lines = []; agree = None; buf = []
    for l in out.split('\n'):
        if l.startswith('case '):
            cur = l.split(' ', 1)[1]; lines = []; agree = None; buf = []
            continue
        if cur is None:
            continue
        buf.append(l)
        if l.startswith('endcase '):
            t = l.split()
            done[cur] = dict(status='done', lines=lines, ranks_agree=agree, wall_ms=int(t[1]), rss_kb=int(t[2]),
                             cpu_ms=int(t[3]) if len(t) > 3 else None, raw='\n'.join(buf))
            cur = None
        elif l.startswith('ranks '):
            agree = l.split()[3] == '1'
        elif re.match(r'^(open|format|inq|sizes|dim|att|var|data|idata|rec|close|vard_zero) ', l):
            lines.append(l)
    return done, cur, '\n'.join(buf)


def run_batch(exe, cases, wd, np_=1, asan_mb=None, jobs=8, bsz=40, case_timeout=30, extra_env=None):
    """cases: list of dict(tag, path, chunk=None|int, maxdata=int, flags='' , hints=[]).
    One process handles up to bsz cases; when it dies (sanitizer abort, signal) or hangs, the case in
    progress is recorded (status 'abort' / 'hang', raw = its output) and the rest is restarted.
    Returns {tag: dict(status, lines, ranks_agree, wall_ms, rss_kb, raw)}"""
    env = {}
    if asan_mb is not None:
        env['ASAN_OPTIONS'] = SAN_ENV['ASAN_OPTIONS'] % asan_mb
        env['UBSAN_OPTIONS'] = SAN_ENV['UBSAN_OPTIONS']
    if extra_env:
        env.update(extra_env)
    groups = [cases[i:i + bsz] for i in range(0, len(cases), bsz)]
    def one(gi):
        todo = list(groups[gi])
        res = {}
        n = 0
        while todo:
            n += 1
            lp = os.path.join(wd, 'blist.%d.%d.%d' % (os.getpid(), gi, n))
            with open(lp, 'w') as f:
                for c in todo:
                    f.write('%s %s %d %s %s %s\n' % (c['tag'], '-' if c.get('chunk') is None else c['chunk'],
                                                     c.get('maxdata', 1 << 20), c.get('flags') or '-',
                                                     ','.join(c.get('hints') or []) or '-', c['path']))
            to = 60 + case_timeout + 2 * len(todo)
            if np_ == 1:
                e = dict(os.environ); e.update(env)
                rc, out = C.sh([exe, '-B', lp], timeout=to, env=e)
            else:
                rc, out = C.mpirun(np_, exe, ['-B', lp], env=env, timeout=to)
            os.remove(lp)
            done, pending, tail = _parse_batch(out)
            res.update(done)
            rest = [c for c in todo if c['tag'] not in done]
            if not rest:
                break
            if pending is None:
                # died before/between cases (MPI start-up failure): blame nothing, retry once, then give up
                if n >= 3:
                    for c in rest:
                        res[c['tag']] = dict(status='norun', lines=[], ranks_agree=None, wall_ms=None, rss_kb=None,
                                             raw=out[-2000:])
                    break
                todo = rest
                continue
            res[pending] = dict(status='hang' if rc == -9 else 'abort', lines=[], ranks_agree=None, wall_ms=None,
                                rss_kb=None, raw=tail[-6000:], rc=rc)
            todo = [c for c in rest if c['tag'] != pending]
        return res
    res = {}
    with cf.ThreadPoolExecutor(max_workers=jobs) as ex:
        for r in ex.map(one, range(len(groups))):
            res.update(r)
    return res
