#!/usr/bin/env python3
"""first_div.py <script>: insert snapshots after every op, run impl+model, show the first op after
which the file bytes (or any observation) differ"""
import sys, os
sys.path.insert(0, '/verif')
from pnc import common as C, scripts as S
src = open(sys.argv[1]).read().split('\n')
out = []; ing = False
for l in src:
    out.append(l); t = l.split()
    if not t: continue
    if t[0] == '{': ing = True; continue
    if t[0] == '}': ing = False
    if ing or t[0] in ('nprocs', 'env', 'hint', 'nohints'): continue
    if len(t) > 1 and t[1] in ('create', 'def_dim', 'def_var', 'snapshot', 'close', 'abort', 'put_att', 'open', 'redef', 'set_fill', 'def_var_fill', 'inq'): continue
    if t[0] not in ('*', '}') : 
        if len(t) > 1 and t[1] not in ('put',): continue
    out.append('* snapshot 0')
text = '\n'.join(out) + '\n'
lib = C.libdir(); impl = S.impl_exe(lib); model = C.model_exe()
wd = C.scratch()
r = S.run_script(text, impl, model, wd, 'x', keep=True)
print('hang', r.hang, 'crash', r.crash)
for m in r.mism[:1]:
    ln = m['line']
    print('FIRST MISMATCH line', ln, m['why'], ':', out[ln - 1])
    k = ln - 2
    while k >= 0 and (not out[k].strip() or out[k].split()[1:2] == ['snapshot']): k -= 1
    print('  previous op:', out[max(0,k)])
    a = (m['impl'] or [''])[-1]; b = m['model'][-1]
    if m['why'] == 'file bytes':
        n = max(len(a), len(b)); a = a.ljust(n, '0'); b = b.ljust(n, '?')
        d = [i // 2 for i in range(0, n, 2) if a[i:i + 2] != b[i:i + 2] and b[i:i+2] != '??']
        print('  differing bytes (offset impl model):', [(i, a[2*i:2*i+2], b[2*i:2*i+2]) for i in d[:24]])
    else:
        print('  impl :', ' '.join(m['impl'] or [])[:600]); print('  model:', ' '.join(m['model'])[:600])
# context: schema lines
for l in out:
    t = l.split()
    if len(t) > 1 and t[1] in ('create', 'def_dim', 'def_var', 'enddef', '_enddef') or t[:1] in (['hint'], ['env'], ['nprocs']): print('   ', l)
