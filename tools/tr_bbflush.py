#!/usr/bin/env python3
"""Translator for C12 (burst-buffer driver): structural facts of src/drivers/ncbbio, regenerated
from the sources AS BUILT.   usage: tr_bbflush.py <libdir> <out.v>

Emits coq/Gen_bbflush.v:
  bb_status_j_reset_inside : bool   shape of the loop "Fill up the status for nonblocking request"
                                    in ncbbio_log_flush_core (true = `j = 0;` inside the loop body,
                                    the defect F10; false = reset once before the loop)
  bb_read_at_dataread : bool        both reads of the data log into the flush buffer target databuffer + dataread
  bb_trig_get / getn / wait / sync / flush / redef : bool
                                    the API entry point calls ncbbio_log_flush(ncbbp) before it
                                    forwards to ncmpio
  bb_trig_close : bool              ncbbio_close -> ncbbio_log_close(ncbbp, 1) -> ncbbio_log_flush_core
  bb_unlink_on_close : bool         ncbbio_log_close unlinks both log files under NC_LOG_HINT_DEL_ON_CLOSE
  BB_KIND_VARA / BB_KIND_VARS, BB_SIZEOF_ENTRY, BB_SIZEOF_OFF, BB_DATALOG_HDR
Fail closed: an unrecognised pattern is emitted as the value that makes the dependent theorem of
Proofs_BurstBuffer.v unprovable (reset inside = true, trigger = false, sizes = -1)."""
import re, sys, os
lib, out = sys.argv[1], sys.argv[2]
D = os.path.join(lib, 'gen', 'src', 'drivers', 'ncbbio')


def text(f):
    p = os.path.join(D, f)
    if not os.path.exists(p):
        return ''
    t = open(p, errors='replace').read()
    t = re.sub(r'/\*.*?\*/', ' ', t, flags=re.S)
    t = re.sub(r'//[^\n]*', ' ', t)
    return t


def body(t, fname):
    """text of the body of C function `fname` (brace matching), '' if absent"""
    m = re.search(r'\b%s\s*\([^;{]*\)\s*\{' % re.escape(fname), t)
    if not m:
        return ''
    i = m.end(); depth = 1
    while i < len(t) and depth:
        depth += {'{': 1, '}': -1}.get(t[i], 0); i += 1
    return t[m.end():i]


notes = []
fl = text('ncbbio_log_flush.c')
core = body(fl, 'ncbbio_log_flush_core')
# the status loop: the for(i = lb; i < ub; i++) whose body assigns putlist.reqs[...].status
inside = True
m = re.search(r'(j\s*=\s*0\s*;\s*)?for\s*\(\s*i\s*=\s*lb\s*;\s*i\s*<\s*ub\s*;\s*i\+\+\s*\)\s*\{((?:[^{}]|\{(?:[^{}]|\{[^{}]*\})*\})*)\}\s*databufferused\s*=\s*0',
              core)
if m and 'putlist.reqs[ip->reqid].status' in m.group(2):
    lb = re.sub(r'\s+', '', m.group(2))
    canon_fixed = 'ip=ncbbp->metaidx.entries+i;if(ip->valid){if(ip->reqid>=0){ncbbp->putlist.reqs[ip->reqid].status=stats[j];ncbbp->putlist.reqs[ip->reqid].ready=1;}j++;}'
    canon_old = 'ip=ncbbp->metaidx.entries+i;j=0;if(ip->valid){if(ip->reqid>=0){ncbbp->putlist.reqs[ip->reqid].status=stats[j];ncbbp->putlist.reqs[ip->reqid].ready=1;}j++;}'
    if lb == canon_fixed and m.group(1):
        inside = False
    elif lb == canon_old:
        inside = True
    else:
        notes.append('status loop body not recognised: ' + lb[:200])
else:
    notes.append('status loop not found')

# the two reads of the data log into the flush buffer (before skipping a cancelled entry, and at the end of the batch
# scan) must append at the current fill level: databuffer + dataread
reads = re.findall(r'ncbbio_sharedfile_read\(\s*ncbbp->datalog_fd\s*,\s*([^,]+?)\s*,\s*([^)]+?)\s*\)', core)
read_ok = len(reads) == 2 and all(re.sub(r'\s+', '', a) == 'databuffer+dataread' and re.sub(r'\s+', '', b) == 'databufferused-dataread' for a, b in reads) \
    and re.sub(r'\s+', '', core).count('dataread=databufferused;') == 2 \
    and re.search(r'ncbbio_sharedfile_seek\(ncbbp->datalog_fd,\s*ncbbp->entrydatasize\.values\[ub\],\s*SEEK_CUR\)', core) is not None \
    and 'databufferoff += entryp->data_len;' in core and re.search(r'databufferoff\s*=\s*databuffer\s*;', core) is not None
if not read_ok:
    notes.append('data-log reads of the flush buffer not recognised: %s' % (reads,))

var = text('ncbbio_var.c'); fil = text('ncbbio_file.c'); log = text('ncbbio_log.c')


def trig(t, fname, forward):
    b = body(t, fname)
    i = b.find('ncbbio_log_flush(ncbbp)')
    j = b.find(forward)
    ok = 0 <= i < j and re.search(r'if\s*\(\s*ncbbp->inited\s*\)\s*\{?\s*(?:status|err)\s*=\s*ncbbio_log_flush\(ncbbp\)', b) is not None
    if not ok:
        notes.append('no flush-before-forward in ' + fname)
    return ok


T = dict(
    get=trig(var, 'ncbbio_get_var', 'ncmpio_driver->get_var'),
    getn=trig(var, 'ncbbio_get_varn', 'ncmpio_driver->get_varn'),
    wait=trig(fil, 'ncbbio_wait', 'ncbbio_handle_'),
    sync=trig(fil, 'ncbbio_sync', 'ncmpio_driver->sync'),
    flush=trig(fil, 'ncbbio_flush', 'ncmpio_driver->flush'),
    redef=trig(fil, 'ncbbio_redef', 'ncmpio_driver->redef'),
)
cl = body(fil, 'ncbbio_close'); lc = body(log, 'ncbbio_log_close')
i1 = cl.find('ncbbio_log_close(ncbbp, 1)'); i2 = cl.find('ncmpio_driver->close')
close_ok = 0 <= i1 < i2 and re.search(
    r'if\s*\(\s*replay\s*&&\s*\(\s*headerp->num_entries\s*>\s*0\s*\|\|\s*!\s*\(\s*fIsSet\(ncbbp->flag,\s*NC_MODE_INDEP\)\s*\)\s*\)\s*\)\s*\{\s*status\s*=\s*ncbbio_log_flush_core\(ncbbp\)',
    lc) is not None
if not close_ok:
    notes.append('close does not replay the log before ncmpio close')
unlink_ok = re.search(r'if\s*\(\s*ncbbp->hints\s*&\s*NC_LOG_HINT_DEL_ON_CLOSE\s*\)\s*\{\s*unlink\(ncbbp->datalogpath\);\s*unlink\(ncbbp->metalogpath\);\s*\}', lc) is not None
if not unlink_ok:
    notes.append('log files not unlinked under DEL_ON_CLOSE')

hdr = text('ncbbio_driver.h')


def macro(name):
    m = re.search(r'#define\s+%s\s+(-?\d+)' % name, hdr)
    return int(m.group(1)) if m else None


ka, ks = macro('NC_LOG_API_KIND_VARA'), macro('NC_LOG_API_KIND_VARS')
m = re.search(r'typedef\s+struct\s+NC_bb_metadataentry\s*\{(.*?)\}\s*NC_bb_metadataentry', hdr, re.S)
esz = -1
if m:
    sz = {'MPI_Offset': 8, 'int': 4}
    tot = 0
    for decl in [d.strip() for d in m.group(1).split(';') if d.strip()]:
        ty = decl.rsplit(None, 1)[0].strip()
        if ty not in sz or '[' in decl:
            tot = -1; notes.append('entry field not recognised: ' + decl); break
        tot += sz[ty]
    esz = tot
lp = text('ncbbio_log.c')
dh = 8 if re.search(r'ncbbio_sharedfile_write\(ncbbp->datalog_fd,\s*"PnetCDF0",\s*8\)', lp) and \
    re.search(r'ncbbp->datalogsize\s*=\s*8\s*;', lp) else -1


def b(x):
    return 'true' if x else 'false'


o = ['(* GENERATED by tools/tr_bbflush.py from the sources as built — do not edit *)',
     'From Coq Require Import ZArith Bool.', 'Local Open Scope Z_scope.']
for n in notes:
    o.append('(* NOT RECOGNISED: %s *)' % n.replace('*)', '* )'))
o.append('Definition bb_status_j_reset_inside : bool := %s.' % b(inside))
o.append('Definition bb_read_at_dataread : bool := %s.' % b(read_ok))
for k in ('get', 'getn', 'wait', 'sync', 'flush', 'redef'):
    o.append('Definition bb_trig_%s : bool := %s.' % (k, b(T[k])))
o.append('Definition bb_trig_close : bool := %s.' % b(close_ok))
o.append('Definition bb_unlink_on_close : bool := %s.' % b(unlink_ok))
o.append('Definition BB_KIND_VARA : Z := (%d).' % (ka if ka is not None else 0))
o.append('Definition BB_KIND_VARS : Z := (%d).' % (ks if ks is not None else 0))
o.append('Definition BB_SIZEOF_ENTRY : Z := (%d).' % esz)
o.append('Definition BB_SIZEOF_OFF : Z := (8).')
o.append('Definition BB_DATALOG_HDR : Z := (%d).' % dh)
open(out, 'w').write('\n'.join(o) + '\n')
