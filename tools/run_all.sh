#!/bin/bash
# run_all.sh [tier]: every check on /repo itself, one after the other; summary lines in build/run_all.log
cd "$(dirname "$0")/.."; T=${1:-quick}; L=build/run_all.log; : > $L
for c in C01 C02 C03 C04 C05 C06 C07 C08 C09 C10 C11 C12 C13 C14 C15 C16 C17 C18 C19 C20; do
  ./check $c --tier $T > build/run_all.$c.out 2>&1; rc=$?
  echo "$c rc=$rc $(grep -c '^VIOLATION' build/run_all.$c.out) violations | $(tail -1 build/run_all.$c.out)" >> $L
done
echo DONE >> $L
