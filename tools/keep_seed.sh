#!/bin/bash
# keep_seed.sh <mutdir> <name> : copy a confirmed seeded change into /verif/seeded/<name>/
MD=$1; N=$2; D=/verif/seeded/$N; mkdir -p $D
cp $MD/patch.diff $MD/demo.c $D/
python3 - "$MD" "$D" <<'PY'
import json,sys
md,d=sys.argv[1],sys.argv[2]
m=json.load(open(md+'/meta.json'))
m['confirmed_by_me']=open(md+'/confirm.txt').read().strip()
m['what_i_ran']='tools/confirm_seed.sh <worktree> <dir> <nprocs>: apply patch, make -C src, make -k check -j8 (suite), demo with change, revert, rebuild, demo without change'
json.dump(m,open(d+'/meta.json','w'),indent=1)
PY
git -C /repo worktree list >/dev/null
