#!/usr/bin/env python3
"""tr_cfun.py — translate selected integer-arithmetic leaf functions of PnetCDF from the C source AS BUILT
(clang JSON AST, macros already expanded) to Gallina definitions over Z (coq/Gen_<target>.v), so that
"generated definition = hand-written model definition, for all inputs" can be a machine-checked theorem
(coq/Proofs_Gen*.v) that is re-checked against the regenerated file on every run.

usage: tr_cfun.py <libdir> <out.v> <target>          (tools/tr_vlens.py, tools/tr_scs.py, tools/tr_contig.py are thin
                                                      wrappers so that C.prove(pid, gens=(..., '<target>')) finds them)
Targets (TARGETS below):  vlens  = ncmpio_NC_check_vlen, ncmpio_NC_check_vlens (ncmpio_enddef.c)  -> Gen_vlens.v, C18
                          scs    = check_EINVALCOORDS, check_EEDGE, check_start_count_stride (var_getput.c) -> Gen_scs.v, C15
                          contig = is_request_contiguous (ncmpio_filetype.c)                      -> Gen_contig.v, C01
Equivalence proofs against the hand-written model: coq/Proofs_GenVlens.v, Proofs_GenScs.v, Proofs_GenContig.v.

Meaning of the generated code: coq/CSub.v.  The subset:
  * integer locals and parameters (int, long long = MPI_Offset, unsigned ..., enums), parameters never assigned;
  * struct values reached through pointers / members -> Gallina records holding exactly the fields the
    translated functions read (a new field read changes the record and breaks the proof file's view);
    a dereferenced struct pointer is assumed valid and not aliased by anything the function writes;
  * pointers to integer arrays (and arrays of structs / of struct pointers) -> CSub.c_ptr = NULL or (array, offset):
    p[i], *p, p + i, p == NULL, p != NULL; every read carries an index-inside-the-array test;
  * expressions: literals, + - * / % (signed: range test of the result in the type of the operation, / and %
    also divisor tests; unsigned: wrap), unary - ! ~, comparisons, && || ?: (tests of the unevaluated arm are
    not required), & | ^ << >> on non-negative operands is NOT in the subset except & | ^ (Z.land/lor/lxor are
    the two's-complement operations), integral casts (widening: identity; to unsigned: wrap; narrowing to signed:
    range test, failing = CUndef), calls of functions translated in the same file (arguments by value);
  * statements: declarations with/without initialiser, x = e, x op= e, x++ / ++x / x-- / --x (as statements),
    if/else, for (init; i < e; inc) (also <=, >, >=) with the general loop semantics CSub.c_loop and fuel
    |e - i| + 1 (+ 1) computed at loop entry (a loop that needs more runs out of fuel = CUnsup), return, break,
    continue, blocks, empty statement;
  * calls through a function-pointer member named in the target's `externs` table: an unknown function that returns
    an arbitrary value and stores an arbitrary value through one output argument (two extra parameters of the
    generated function); the store must go through a local pointer that is the only access path to its array;
  * every local must be definitely assigned before it is read (conservative flow analysis in the translator;
    a possibly uninitialised read is outside the subset).
FAIL CLOSED: anything else becomes `CUnsup "<what>"` at the statement where it occurs (the function then cannot
be proved equal to FVal ...), is listed in `tr_cfun_unsupported`, and a warning is printed.  A function that is
missing altogether is emitted as a constant `FUnsup`, whose type does not fit the proof file."""
import sys, os, re, json, subprocess, traceback

TARGETS = {
    'vlens': dict(src='drivers/ncmpio/ncmpio_enddef.c',
                  funcs=['ncmpio_NC_check_vlen', 'ncmpio_NC_check_vlens']),
    'scs': dict(src='dispatchers/var_getput.c',
                funcs=['check_EINVALCOORDS', 'check_EEDGE', 'check_start_count_stride'],
                # calls through a function-pointer member that are modelled as an unknown function: the call
                # returns an arbitrary value (extra parameter x<k>_<name>_ret) and stores an arbitrary value
                # (x<k>_<name>_out) through its argument number `out`; it is assumed to have no other effect
                # on anything the translated function reads
                externs={'inq_dim': dict(out=3)}),
    'contig': dict(src='drivers/ncmpio/ncmpio_filetype.c', funcs=['is_request_contiguous']),
    'begins': dict(src='drivers/ncmpio/ncmpio_enddef.c', funcs=['NC_begins'],
                   # the header length is computed by ncmpio_hdr_len_NC (modelled by Header.hdr_len, proved equal
                   # to the encoder's length elsewhere): an unknown function, extra parameter x<k>_..._ret
                   externs={'ncmpio_hdr_len_NC': dict(out=None)},
                   # LISTED EXCLUSION: the redundant cross-process consistency test of safe mode (MPI_Bcast /
                   # MPI_Allreduce) is not translated; if its condition holds the generated function yields
                   # CUnsup, so every theorem about it carries the guard that the condition is false
                   exclude_if=['ncp->safe_mode && ncp->nprocs > 1']),
}

INT_TYPES = {
    'int': ('s', 32), 'signed int': ('s', 32), 'long long': ('s', 64), 'long': ('s', 64), 'signed long': ('s', 64),
    'long long int': ('s', 64), 'short': ('s', 16), 'signed char': ('s', 8), 'char': ('s', 8),
    'unsigned int': ('u', 32), 'unsigned long': ('u', 64), 'unsigned long long': ('u', 64),
    'unsigned short': ('u', 16), 'unsigned char': ('u', 8), '_Bool': ('u', 1),
}


class Unsupported(Exception):
    pass


# ------------------------------------------------------------------ clang
def clang_flags(lib):
    rc = subprocess.run(['mpicc', '-showme:compile'], stdout=subprocess.PIPE, stderr=subprocess.DEVNULL)
    mpi = rc.stdout.decode().split() if rc.returncode == 0 else []
    g = os.path.join(lib, 'gen', 'src')
    return ['-DHAVE_CONFIG_H', '-DPNETCDF_VERIF', '-I.', '-I' + os.path.join(g, 'include'),
            '-I' + os.path.join(g, 'drivers', 'include'), '-I' + os.path.join(g, 'drivers', 'ncmpio'),
            '-I' + os.path.join(g, 'drivers', 'common'), '-I' + os.path.join(lib, 'include')] + mpi


def clang_ast(path, flags, filt):
    cmd = ['clang', '-Xclang', '-ast-dump=json', '-fsyntax-only', '-w'] + flags + \
          ['-Xclang', '-ast-dump-filter=' + filt, os.path.basename(path)]
    p = subprocess.run(cmd, cwd=os.path.dirname(path), stdout=subprocess.PIPE, stderr=subprocess.PIPE)
    if p.returncode != 0:
        raise RuntimeError('clang failed on %s:\n%s' % (path, p.stderr.decode()[-2000:]))
    txt = p.stdout.decode(errors='replace')
    dec = json.JSONDecoder()
    out, i = [], 0
    while True:
        j = txt.find('{', i)
        if j < 0:
            break
        o, i = dec.raw_decode(txt, j)
        out.append(o)
    return out


class Source:
    """one C file: function bodies and typedef / enum lookups through filtered AST dumps"""
    def __init__(self, path, flags):
        self.path, self.flags = path, flags
        self.tdef = {}
        self.enumv = {}

    def function(self, name):
        for d in clang_ast(self.path, self.flags, name):
            if d.get('kind') == 'FunctionDecl' and d.get('name') == name and \
               any(c.get('kind') == 'CompoundStmt' for c in d.get('inner', [])):
                return d
        return None

    def typedef(self, name):
        """resolved spelling of a typedef name ('long long', 'struct X', 'enum E', ...) or None"""
        if name not in self.tdef:
            r = None
            for d in clang_ast(self.path, self.flags, name):
                if d.get('kind') == 'TypedefDecl' and d.get('name') == name:
                    r = d['type'].get('desugaredQualType', d['type']['qualType'])
                    q = d['type']['qualType']
                    if q.startswith(('struct ', 'enum ', 'union ')):
                        r = q
                    break
            self.tdef[name] = r
        return self.tdef[name]

    def enum_constant(self, name):
        """value of an enumeration constant"""
        if name not in self.enumv:
            self.probe_enum_constants([name])
        return self.enumv.get(name)

    def probe_enum_constants(self, names):
        """let clang evaluate the constants: a probe translation unit that includes the source and declares
        enum { tr_cfun_probe_<name> = (<name>) }; the initialiser appears as a ConstantExpr with its value"""
        names = [n for n in names if n not in self.enumv and re.match(r'^[A-Za-z_]\w*$', n)]
        if not names:
            return
        probe = '#include "%s"\nenum { %s };\n' % (os.path.basename(self.path),
                                                  ', '.join('tr_cfun_probe_%s = (%s)' % (n, n) for n in names))
        cmd = ['clang', '-Xclang', '-ast-dump=json', '-fsyntax-only', '-w'] + self.flags + \
              ['-Xclang', '-ast-dump-filter=tr_cfun_probe_', '-x', 'c', '-']
        p = subprocess.run(cmd, cwd=os.path.dirname(self.path), input=probe.encode(), stdout=subprocess.PIPE, stderr=subprocess.PIPE)
        if p.returncode != 0:
            return
        txt = p.stdout.decode(errors='replace')
        dec = json.JSONDecoder()
        i = 0
        while True:
            j = txt.find('{', i)
            if j < 0:
                break
            o, i = dec.raw_decode(txt, j)
            if o.get('kind') == 'EnumConstantDecl' and o.get('name', '').startswith('tr_cfun_probe_'):
                for c in o.get('inner', []):
                    if c.get('kind') == 'ConstantExpr' and 'value' in c:
                        self.enumv[o['name'][len('tr_cfun_probe_'):]] = int(c['value'])


# ------------------------------------------------------------------ types
class Types:
    def __init__(self, src):
        self.src = src

    def resolve(self, q):
        """canonical spelling: typedef names replaced, qualifiers dropped; pointers kept as trailing ' *'"""
        q = re.sub(r'\b(const|volatile|restrict)\b', ' ', q)
        q = re.sub(r'\s+', ' ', q).strip()
        stars = 0
        while q.endswith('*'):
            q = q[:-1].strip(); stars += 1
        seen = 0
        while q not in INT_TYPES and not q.startswith(('struct ', 'enum ', 'union ')) and q != 'void' and seen < 8:
            r = self.src.typedef(q)
            if r is None:
                break
            r = re.sub(r'\b(const|volatile|restrict)\b', ' ', r)
            r = re.sub(r'\s+', ' ', r).strip()
            while r.endswith('*'):
                r = r[:-1].strip(); stars += 1
            q = r; seen += 1
        return q + ' *' * stars

    def of(self, node):
        t = node.get('type', {})
        return self.resolve(t.get('desugaredQualType', t.get('qualType', '?')))

    @staticmethod
    def is_ptr(t):
        return t.endswith('*')

    @staticmethod
    def pointee(t):
        return t[:-1].strip()

    @staticmethod
    def int_info(t):
        if t in INT_TYPES:
            return INT_TYPES[t]
        if t.startswith('enum '):
            return ('u', 32)       # enumerations without negative constants: unsigned int (gcc/clang)
        return None

    @staticmethod
    def struct_name(t):
        return t[len('struct '):] if t.startswith('struct ') and not t.endswith('*') else None


def rng(info):
    s, b = info
    return (-(1 << (b - 1)), (1 << (b - 1)) - 1) if s == 's' else (0, (1 << b) - 1)


def zlit(v):
    return '(%d)' % v if v < 0 else '%d' % v


def ccomment(s):
    """text that is safe inside a Coq comment"""
    return s.replace('(*', '( *').replace('*)', '* )').replace('"', "'")


def cq(s):
    """Coq string literal"""
    return '"' + s.replace('"', "'").replace('\n', ' ')[:160] + '"'


# ------------------------------------------------------------------ translated expressions
class E:
    """kind: 'int' (term : Z) | 'bool' (term : bool) | 'ptr' (term : c_ptr <elem>) | 'struct' (term : c_<name>)
       chk: None or a bool term that must be true for the evaluation to be defined
       cty: resolved C type of the expression"""
    def __init__(self, kind, term, chk, cty, elem=None, sname=None, const=None):
        self.kind, self.term, self.chk, self.cty, self.elem, self.sname = kind, term, chk, cty, elem, sname
        self.const = const      # python int when the value is a compile-time constant (then term is its literal)


def lit(v, cty, chk=None):
    return E('int', zlit(v), chk, cty, const=v)


def conj(*cs):
    cs = [c for c in cs if c]
    if not cs:
        return None
    r = cs[0]
    for c in cs[1:]:
        r = '(%s && %s)' % (r, c)
    return r


def cond_chk(c, a, b):
    if not a and not b:
        return None
    return '(if %s then %s else %s)' % (c, a or 'true', b or 'true')


def ctext(n):
    """C-like rendering of an AST expression (comments and messages only)"""
    k = n.get('kind')
    inner = [c for c in n.get('inner', []) if c]
    if k in ('ImplicitCastExpr', 'ParenExpr', 'ConstantExpr'):
        return ctext(inner[0]) if k != 'ParenExpr' else '(' + ctext(inner[0]) + ')'
    if k == 'CStyleCastExpr':
        return '(%s)%s' % (n['type']['qualType'], ctext(inner[0]))
    if k == 'IntegerLiteral':
        return n.get('value', '?')
    if k == 'DeclRefExpr':
        return n.get('referencedDecl', {}).get('name', '?')
    if k == 'MemberExpr':
        return ctext(inner[0]) + ('->' if n.get('isArrow') else '.') + n.get('name', '?')
    if k == 'ArraySubscriptExpr':
        return '%s[%s]' % (ctext(inner[0]), ctext(inner[1]))
    if k == 'UnaryOperator':
        return (ctext(inner[0]) + n['opcode']) if n.get('isPostfix') else (n['opcode'] + ctext(inner[0]))
    if k in ('BinaryOperator', 'CompoundAssignOperator'):
        return '%s %s %s' % (ctext(inner[0]), n['opcode'], ctext(inner[1]))
    if k == 'ConditionalOperator':
        return '%s ? %s : %s' % tuple(ctext(c) for c in inner[:3])
    if k == 'CallExpr':
        return '%s(%s)' % (ctext(inner[0]), ', '.join(ctext(c) for c in inner[1:]))
    return '<%s>' % k


def strip(n):
    """drop parentheses, lvalue-to-rvalue and no-op casts"""
    while n.get('kind') in ('ParenExpr', 'ConstantExpr') or \
            (n.get('kind') == 'ImplicitCastExpr' and n.get('castKind') in ('LValueToRValue', 'NoOp')):
        n = n['inner'][0]
    return n


def strip_casts(n):
    while n.get('kind') in ('ParenExpr', 'ConstantExpr', 'ImplicitCastExpr', 'CStyleCastExpr'):
        n = n['inner'][0]
    return n


# ------------------------------------------------------------------ one function
class Fn:
    def __init__(self, tr, decl):
        self.tr, self.decl, self.T = tr, decl, tr.T
        self.name = decl['name']
        self.params = []          # (c name, gallina name, kind, coq type, E)
        self.locals = {}          # decl id -> dict(name, field, kind, coqty, default, cty, ...)
        self.local_order = []
        self.loops = []           # emitted loop definitions (text)
        self.nloop = 0
        self.hoist = None         # list collecting hoisted calls of the statement being translated
        self.cond_depth = 0
        self.ncall = 0
        self.unsupported = []

    # ---- naming
    def st(self):
        return 'st_' + self.name

    def fld(self, v):
        return '%s__%s' % (self.name, v)

    # ---- declarations
    def classify(self, cty):
        """(kind, coq type, default term, elem, sname) of a C type"""
        T = self.T
        ii = T.int_info(cty)
        if ii:
            return ('int', 'Z', '0', None, None)
        sn = T.struct_name(cty)
        if sn:
            self.tr.need_struct(sn)
            return ('struct', 'c_' + sn, 'c_%s_default' % sn, None, sn)
        if T.is_ptr(cty):
            pt = T.pointee(cty)
            if T.int_info(pt):
                return ('ptr', 'c_ptr Z', 'None', ('int', pt), None)
            sn = T.struct_name(pt)
            if sn:
                # pointer to struct used as a reference to ONE valid struct (->); indexing it makes it an array (see subscript)
                self.tr.need_struct(sn)
                return ('sref', 'c_' + sn, 'c_%s_default' % sn, None, sn)
            if T.is_ptr(pt):
                sn = T.struct_name(T.pointee(pt))
                if sn:
                    self.tr.need_struct(sn)
                    return ('ptr', 'c_ptr c_' + sn, 'None', ('struct', sn), None)
        raise Unsupported('type %s' % cty)

    def scan(self):
        """parameters, locals; which parameters / struct-pointer variables are indexed (arrays of structs)"""
        d = self.decl
        self.indexed_sref = set()
        self.assigned_ids = set()
        self.ext_sites = {}       # CallExpr id -> (k, name)
        self.member_count = {}    # (owner type, field) -> number of occurrences
        self.ptr_sources = {}     # local decl id -> list of initialising expressions
        self.mutating = False     # the function writes struct fields: struct-pointer parameters live in the state,
                                  # struct-pointer locals are references (array index), `return` keeps the state
        externs = self.tr.spec.get('externs', {})
        excl = self.tr.spec.get('exclude_if', [])

        def walk(n):
            if not isinstance(n, dict):
                return
            k = n.get('kind')
            if k == 'ArraySubscriptExpr':
                b = strip(n['inner'][0])
                if b.get('kind') == 'DeclRefExpr':
                    self.indexed_sref.add(b['referencedDecl']['id'])
            if k == 'MemberExpr':
                key = (self.T.of(n['inner'][0]), n.get('name'))
                self.member_count[key] = self.member_count.get(key, 0) + 1
            if k == 'IfStmt' and ctext(n['inner'][0]) in excl:
                walk(n['inner'][0])
                for c in n['inner'][2:]:
                    walk(c)
                return                     # the excluded branch is not looked at
            if k == 'CallExpr':
                cal = strip_casts(n['inner'][0])
                if cal.get('kind') == 'MemberExpr' and cal.get('name') in externs:
                    self.ext_sites[n['id']] = (len(self.ext_sites) + 1, cal['name'])
                if cal.get('kind') == 'DeclRefExpr' and cal.get('referencedDecl', {}).get('name') in externs:
                    self.ext_sites[n['id']] = (len(self.ext_sites) + 1, cal['referencedDecl']['name'])
            if (k in ('BinaryOperator', 'CompoundAssignOperator') and (n.get('opcode') == '=' or k == 'CompoundAssignOperator')) \
                    or (k == 'UnaryOperator' and n.get('opcode') in ('++', '--')):
                if strip(n['inner'][0]).get('kind') in ('MemberExpr', 'ArraySubscriptExpr'):
                    self.mutating = True
            if k == 'VarDecl' and self.T.is_ptr(self.T.of(n)):
                ini = [c for c in n.get('inner', []) if c.get('kind') and 'Attr' not in c.get('kind', '')]
                if ini:
                    self.ptr_sources.setdefault(n['id'], []).append(ini[0])
            if k in ('BinaryOperator', 'CompoundAssignOperator') and (n['opcode'] == '=' or k == 'CompoundAssignOperator'):
                t = strip(n['inner'][0])
                if t.get('kind') == 'DeclRefExpr':
                    self.assigned_ids.add(t['referencedDecl']['id'])
                    if self.T.is_ptr(self.T.of(t)):
                        self.ptr_sources.setdefault(t['referencedDecl']['id'], []).append(n['inner'][1])
            if k == 'UnaryOperator' and n['opcode'] in ('++', '--', '&'):
                t = strip(n['inner'][0])
                if t.get('kind') == 'DeclRefExpr':
                    self.assigned_ids.add(t['referencedDecl']['id'])
            for c in n.get('inner', []):
                walk(c)
        walk(d)
        for c in d.get('inner', []):
            if c.get('kind') == 'ParmVarDecl':
                cty = self.T.of(c)
                nm = c.get('name', '_')
                try:
                    kind, coqty, dflt, elem, sn = self.classify(cty)
                    if kind == 'sref' and c['id'] in self.indexed_sref:
                        kind, coqty, elem, sn = 'ptr', 'c_ptr c_' + sn, ('struct', sn), None
                    if c['id'] in self.assigned_ids:
                        raise Unsupported('parameter %s is assigned / has its address taken' % nm)
                    self.params.append(dict(id=c['id'], name=nm, g='p_' + nm, kind=kind, coqty=coqty, cty=cty, elem=elem, sname=sn,
                                            instate=(self.mutating and kind == 'sref'), field=self.fld('P_' + nm)))
                except Unsupported as e:
                    self.params.append(dict(id=c['id'], name=nm, g='p_' + nm, kind='bad', coqty='unit', cty=cty, elem=None, sname=None,
                                            why=str(e)))
        for cid, (kx, nm) in sorted(self.ext_sites.items(), key=lambda kv: kv[1][0]):
            for suf in (('ret', 'out') if externs[nm].get('out') is not None else ('ret',)):
                g = 'x%d_%s_%s' % (kx, nm, suf)
                self.params.append(dict(id='ext:%s:%s' % (cid, suf), name=g, g=g, kind='int', coqty='Z', cty='long long',
                                        elem=None, sname=None, ext=True))
        names = {}

        def decls(n):
            if not isinstance(n, dict):
                return
            if n.get('kind') == 'VarDecl':
                nm = n['name']
                names[nm] = names.get(nm, 0) + 1
                f = nm if names[nm] == 1 else '%s_%d' % (nm, names[nm])
                cty = self.T.of(n)
                try:
                    kind, coqty, dflt, elem, sn = self.classify(cty)
                    if n.get('storageClass') in ('static', 'extern'):
                        raise Unsupported('static/extern local %s' % nm)
                    root = None
                    if kind == 'sref' and self.mutating:
                        root = self.ref_root(n['id'], nm)
                        kind, coqty, dflt = 'ref', 'c_ref', 'None'
                    self.locals[n['id']] = dict(name=nm, field=self.fld(f), kind=kind, coqty=coqty, dflt=dflt, cty=cty, elem=elem, sname=sn,
                                                root=root)
                except Unsupported as e:
                    self.locals[n['id']] = dict(name=nm, field=self.fld(f), kind='bad', coqty='unit', dflt='tt', cty=cty, elem=None, sname=None,
                                                why=str(e))
                self.local_order.append(n['id'])
            for c in n.get('inner', []):
                decls(c)
        decls(d)

    def ref_root(self, did, nm):
        """the array a reference local points into: every value assigned to it is NULL or <array>[index] with the
        same <array>, an expression built from parameters and members only"""
        root = None
        for src in self.ptr_sources.get(did, []):
            t = strip_casts(src)
            if t.get('kind') == 'IntegerLiteral' and t.get('value') == '0':
                continue
            t = strip(src)
            if t.get('kind') != 'ArraySubscriptExpr':
                raise Unsupported('pointer %s is assigned %s' % (nm, ctext(src)))
            base = strip(t['inner'][0])

            def stable(b):
                b = strip(b)
                if b.get('kind') == 'MemberExpr':
                    return stable(b['inner'][0])
                return b.get('kind') == 'DeclRefExpr' and b['referencedDecl'].get('kind') == 'ParmVarDecl'
            if not stable(base):
                raise Unsupported('pointer %s is assigned %s' % (nm, ctext(src)))
            if root is not None and ctext(root) != ctext(base):
                raise Unsupported('pointer %s points into two arrays' % nm)
            root = base
        if root is None:
            raise Unsupported('pointer %s is never assigned an element' % nm)
        return root

    # ---- expressions
    def var_ref(self, n):
        rd = n['referencedDecl']
        if rd.get('kind') == 'EnumConstantDecl':
            v = self.tr.src.enum_constant(rd['name'])
            if v is None:
                raise Unsupported('value of enumeration constant %s' % rd['name'])
            return lit(v, 'int')
        for p in self.params:
            if p['id'] == rd['id']:
                if p['kind'] == 'bad':
                    raise Unsupported('parameter %s: %s' % (p['name'], p['why']))
                k = 'struct' if p['kind'] == 'sref' else p['kind']
                if p.get('instate'):
                    return E(k, '(%s s)' % p['field'], None, p['cty'], p['elem'], p['sname'])
                return E(k, p['g'], None, p['cty'], p['elem'], p['sname'])
        if rd['id'] in self.locals:
            l = self.locals[rd['id']]
            if l['kind'] == 'bad':
                raise Unsupported('local %s: %s' % (l['name'], l['why']))
            if rd['id'] not in self.assigned:
                raise Unsupported('local %s may be read before it is assigned' % l['name'])
            k = 'struct' if l['kind'] == 'sref' else l['kind']
            e = E(k, '(%s s)' % l['field'], None, l['cty'], l['elem'], l['sname'])
            e.root = l.get('root')
            return e
        raise Unsupported('reference to %s %s' % (rd.get('kind'), rd.get('name')))

    def as_int(self, e):
        if e.kind == 'int':
            return e
        if e.kind == 'bool':
            return E('int', '(b2z %s)' % e.term, e.chk, 'int')
        raise Unsupported('%s value used as an integer' % e.kind)

    def as_bool(self, e):
        if e.kind == 'bool':
            return e
        if e.kind == 'int':
            return E('bool', '(z2b %s)' % e.term, e.chk, 'int')
        if e.kind == 'ptr':
            return E('bool', '(negb (p_isnull %s))' % e.term, e.chk, 'int')
        if e.kind == 'ref':
            return E('bool', '(negb (r_isnull %s))' % e.term, e.chk, 'int')
        if e.kind == 'ostruct':
            return E('bool', '(o_ok %s)' % e.term, e.chk, 'int')
        raise Unsupported('%s value used as a condition' % e.kind)

    def convert(self, e, to_cty, what='conversion'):
        """integral conversion of e to C type to_cty"""
        e = self.as_int(e)
        ti = self.T.int_info(to_cty)
        fi = self.T.int_info(e.cty)
        if ti is None or fi is None:
            raise Unsupported('%s from %s to %s' % (what, e.cty, to_cty))
        if to_cty == '_Bool':
            return E('int', '(b2z (z2b %s))' % e.term, e.chk, to_cty)
        (flo, fhi), (tlo, thi) = rng(fi), rng(ti)
        if e.const is not None and to_cty != '_Bool':
            if tlo <= e.const <= thi:
                return lit(e.const, to_cty, e.chk)
            if ti[0] == 'u':
                return lit(e.const % (1 << ti[1]), to_cty, e.chk)
            return lit(e.const, to_cty, conj(e.chk, 'false'))
        if tlo <= flo and fhi <= thi:
            return E('int', e.term, e.chk, to_cty)
        if ti[0] == 'u':
            return E('int', '(wrap_u%d %s)' % (ti[1], e.term), e.chk, to_cty)
        return E('int', e.term, conj(e.chk, '(in_i%d %s)' % (ti[1], e.term)), to_cty)

    def arith(self, op, a, b, cty):
        """a op b performed in C type cty (operands already converted by clang's implicit casts)"""
        ti = self.T.int_info(cty)
        if ti is None:
            raise Unsupported('arithmetic in type %s' % cty)
        a, b = self.as_int(a), self.as_int(b)
        sgn, bits = ti
        if bits < 32:
            raise Unsupported('arithmetic in a type narrower than int (%s)' % cty)
        chk = conj(a.chk, b.chk)
        if a.const is not None and b.const is not None:
            x, y = a.const, b.const
            lo, hi = rng(ti)
            v = None
            if op == '+': v = x + y
            elif op == '-': v = x - y
            elif op == '*': v = x * y
            elif op in ('/', '%') and y != 0 and x >= 0 and y > 0:
                v = x // y if op == '/' else x % y
            elif op == '&': v = x & y
            elif op == '|': v = x | y
            elif op == '^': v = x ^ y
            if v is not None:
                if lo <= v <= hi:
                    return lit(v, cty, chk)
                if sgn == 'u':
                    return lit(v % (1 << bits), cty, chk)
                return lit(v, cty, conj(chk, 'false'))
        if op in ('+', '-', '*'):
            t = '(%s %s %s)' % (a.term, op, b.term)
            if sgn == 's':
                return E('int', t, conj(chk, '(in_i%d %s)' % (bits, t)), cty)
            return E('int', '(wrap_u%d %s)' % (bits, t), chk, cty)
        if op in ('/', '%'):
            f = 'Z.quot' if op == '/' else 'Z.rem'
            t = '(%s %s %s)' % (f, a.term, b.term)
            if sgn == 's':
                return E('int', t, conj(chk, '(div_ok i%d_min %s %s)' % (bits, a.term, b.term)), cty)
            return E('int', t, conj(chk, '(negb (%s =? 0))' % b.term), cty)
        if op in ('&', '|', '^'):
            f = {'&': 'Z.land', '|': 'Z.lor', '^': 'Z.lxor'}[op]
            return E('int', '(%s %s %s)' % (f, a.term, b.term), chk, cty)
        raise Unsupported('operator %s' % op)

    def expr(self, n):
        k = n.get('kind')
        inner = [c for c in n.get('inner', [])]
        T = self.T
        if k in ('ParenExpr', 'ConstantExpr'):
            return self.expr(inner[0])
        if k in ('IntegerLiteral', 'CharacterLiteral'):
            return lit(int(n['value']), T.of(n))
        if k == 'DeclRefExpr':
            return self.var_ref(n)
        if k in ('ImplicitCastExpr', 'CStyleCastExpr'):
            ck = n.get('castKind')
            if ck in ('LValueToRValue', 'NoOp'):
                e = self.expr(inner[0])
                return e
            if ck == 'IntegralCast':
                return self.convert(self.expr(inner[0]), T.of(n))
            if ck == 'IntegralToBoolean':
                e = self.as_bool(self.expr(inner[0]))
                return E('int', '(b2z %s)' % e.term, e.chk, T.of(n))
            if ck == 'NullToPointer':
                return E('ptr', 'None', None, T.of(n), ('null', None))
            if ck == 'BitCast' and strip_casts(n).get('kind') == 'IntegerLiteral' and strip_casts(n).get('value') == '0':
                return E('ptr', 'None', None, T.of(n), ('null', None))
            raise Unsupported('cast kind %s in %s' % (ck, ctext(n)))
        if k == 'MemberExpr':
            b = self.expr(inner[0])
            if b.kind == 'ref':
                # p->f through a reference: the element is read from the current state
                arr = self.expr(b.root)
                if arr.kind != 'ptr' or not arr.elem or arr.elem[0] != 'struct':
                    raise Unsupported('reference into %s' % ctext(b.root))
                sn0 = arr.elem[1]
                b = E('struct', '(r_get c_%s_default %s %s)' % (sn0, b.term, arr.term),
                      conj(b.chk, arr.chk, '(r_ok %s %s)' % (b.term, arr.term)), 'struct ' + sn0, None, sn0)
            if b.kind == 'ostruct':
                b = E('struct', '(o_get c_%s_default %s)' % (b.sname, b.term), conj(b.chk, '(o_ok %s)' % b.term),
                      b.cty, None, b.sname)
            if b.kind != 'struct':
                raise Unsupported('member of a non-struct value: %s' % ctext(n))
            fname = n['name']
            cty = T.of(n)
            kind, coqty, dflt, elem, sn = self.classify(cty)
            own = T.of(inner[0])
            own = T.struct_name(T.pointee(own) if T.is_ptr(own) else own)
            if kind == 'sref' and (own, fname) in self.tr.nullable_fields:
                # a pointer to one struct that is compared with NULL somewhere: option; a pointer to the owner's own
                # struct type gets a record type of its own (the fields read through it)
                sn2 = '%s__%s' % (b.sname, fname) if sn == own else sn
                self.tr.need_struct(sn2)
                self.tr.use_field(b.sname, fname, 'option c_' + sn2, 'None')
                return E('ostruct', '(%s__%s %s)' % (b.sname, fname, b.term), b.chk, cty, None, sn2)
            # a struct-pointer member that is indexed somewhere is an array of structs: decided globally by the translator
            if kind == 'sref' and self.tr.field_is_array(b.sname, fname):
                kind, coqty, dflt, elem, sn = 'ptr', 'c_ptr c_' + sn, 'None', ('struct', sn), None
            self.tr.use_field(b.sname, fname, coqty, dflt)
            if kind == 'sref':
                kind = 'struct'
            return E(kind, '(%s__%s %s)' % (b.sname, fname, b.term), b.chk, cty, elem, sn)
        if k == 'ArraySubscriptExpr':
            b = self.expr(inner[0])
            i = self.as_int(self.expr(inner[1]))
            return self.deref(b, i, ctext(n))
        if k == 'UnaryOperator':
            op = n['opcode']
            if op == '*':
                b = self.expr(inner[0])
                return self.deref(b, lit(0, 'int'), ctext(n))
            if op == '&':
                t = strip(inner[0])
                if t.get('kind') == 'ArraySubscriptExpr':
                    b = self.expr(t['inner'][0])
                    i = self.as_int(self.expr(t['inner'][1]))
                    if b.kind != 'ptr' or not b.elem or b.elem[0] == 'null':
                        raise Unsupported('address of %s' % ctext(t))
                    return E('ptr', '(p_add %s %s)' % (b.term, i.term),
                             conj(b.chk, i.chk, '(p_add_ok %s %s)' % (b.term, i.term)), b.cty, b.elem)
                if t.get('kind') == 'UnaryOperator' and t.get('opcode') == '*':
                    return self.expr(t['inner'][0])
                raise Unsupported('address of %s' % ctext(t))
            if op == '!':
                e = self.as_bool(self.expr(inner[0]))
                return E('bool', '(negb %s)' % e.term, e.chk, 'int')
            if op == '-':
                e = self.as_int(self.expr(inner[0]))
                return self.arith('-', lit(0, e.cty), e, T.of(n))
            if op == '+':
                return self.as_int(self.expr(inner[0]))
            if op == '~':
                e = self.as_int(self.expr(inner[0]))
                ti = T.int_info(T.of(n))
                if ti and ti[0] == 's':
                    return E('int', '(Z.lnot %s)' % e.term, e.chk, T.of(n))
                raise Unsupported('~ on an unsigned value')
            raise Unsupported('unary operator %s in an expression: %s' % (op, ctext(n)))
        if k == 'BinaryOperator':
            op = n['opcode']
            if op in ('&&', '||'):
                a = self.as_bool(self.expr(inner[0]))
                self.cond_depth += 1
                try:
                    b = self.as_bool(self.expr(inner[1]))
                finally:
                    self.cond_depth -= 1
                if op == '&&':
                    return E('bool', '(%s && %s)' % (a.term, b.term), conj(a.chk, cond_chk(a.term, b.chk, None)), 'int')
                return E('bool', '(%s || %s)' % (a.term, b.term), conj(a.chk, cond_chk(a.term, None, b.chk)), 'int')
            if op in ('<', '<=', '>', '>=', '==', '!='):
                a, b = self.expr(inner[0]), self.expr(inner[1])
                if op in ('==', '!=') and (a.kind in ('ref', 'ostruct') or b.kind in ('ref', 'ostruct')):
                    x, y = (a, b) if a.kind in ('ref', 'ostruct') else (b, a)
                    if not (y.kind == 'ptr' and y.elem and y.elem[0] == 'null'):
                        raise Unsupported('pointer comparison %s' % ctext(n))
                    t = '(r_isnull %s)' % x.term if x.kind == 'ref' else '(negb (o_ok %s))' % x.term
                    return E('bool', t if op == '==' else '(negb %s)' % t, x.chk, 'int')
                if a.kind == 'ptr' or b.kind == 'ptr':
                    if op in ('==', '!=') and a.kind == 'ptr' and b.kind == 'ptr' and \
                            ((b.elem and b.elem[0] == 'null') or (a.elem and a.elem[0] == 'null')):
                        p = a if (b.elem and b.elem[0] == 'null') else b
                        t = '(p_isnull %s)' % p.term
                        return E('bool', t if op == '==' else '(negb %s)' % t, p.chk, 'int')
                    raise Unsupported('pointer comparison %s' % ctext(n))
                a, b = self.as_int(a), self.as_int(b)
                cop = {'<': '<?', '<=': '<=?', '>': '>?', '>=': '>=?', '==': '=?'}.get(op)
                if op == '!=':
                    return E('bool', '(negb (%s =? %s))' % (a.term, b.term), conj(a.chk, b.chk), 'int')
                return E('bool', '(%s %s %s)' % (a.term, cop, b.term), conj(a.chk, b.chk), 'int')
            if op in ('+', '-') and (T.is_ptr(T.of(inner[0])) or T.is_ptr(T.of(inner[1]))):
                a, b = self.expr(inner[0]), self.expr(inner[1])
                if a.kind == 'ptr' and b.kind in ('int', 'bool') and not (a.elem and a.elem[0] == 'null'):
                    b = self.as_int(b)
                    off = b.term if op == '+' else '(- %s)' % b.term
                    return E('ptr', '(p_add %s %s)' % (a.term, off), conj(a.chk, b.chk, '(p_add_ok %s %s)' % (a.term, off)),
                             a.cty, a.elem)
                raise Unsupported('pointer arithmetic %s' % ctext(n))
            if op in ('+', '-', '*', '/', '%', '&', '|', '^'):
                return self.arith(op, self.expr(inner[0]), self.expr(inner[1]), T.of(n))
            if op == ',':
                raise Unsupported('comma operator')
            raise Unsupported('binary operator %s in an expression: %s' % (op, ctext(n)))
        if k == 'ConditionalOperator':
            c = self.as_bool(self.expr(inner[0]))
            self.cond_depth += 1
            try:
                a, b = self.expr(inner[1]), self.expr(inner[2])
            finally:
                self.cond_depth -= 1
            if a.kind == 'ptr' or b.kind == 'ptr' or a.kind == 'struct' or b.kind == 'struct':
                raise Unsupported('?: on non-integers: %s' % ctext(n))
            a, b = self.as_int(a), self.as_int(b)
            return E('int', '(if %s then %s else %s)' % (c.term, a.term, b.term), conj(c.chk, cond_chk(c.term, a.chk, b.chk)), T.of(n))
        if k == 'CallExpr':
            callee = strip_casts(inner[0])
            if callee.get('kind') != 'DeclRefExpr' or callee['referencedDecl'].get('kind') != 'FunctionDecl':
                raise Unsupported('indirect call %s' % ctext(n))
            fname = callee['referencedDecl']['name']
            if n.get('id') in self.ext_sites and self.tr.spec['externs'][fname].get('out') is None:
                # unknown function without output argument: its value is an extra parameter; arguments that are
                # integers are evaluated (definedness), pointers / structs are opaque
                kx, _ = self.ext_sites[n['id']]
                chks = []
                for a in inner[1:]:
                    if not T.is_ptr(T.of(a)):
                        chks.append(self.as_int(self.expr(a)).chk)
                return E('int', 'x%d_%s_ret' % (kx, fname), conj(*chks), T.of(n))
            target = self.tr.done.get(fname)
            if target is None:
                raise Unsupported('call of %s, which is not translated in this file' % fname)
            if self.cond_depth > 0:
                raise Unsupported('call inside a conditionally evaluated operand: %s' % ctext(n))
            if self.hoist is None:
                raise Unsupported('call outside a statement context: %s' % ctext(n))
            args, chks = [], []
            if any(p.get('ext') for p in target.params):
                raise Unsupported('call of %s, which contains modelled external calls' % fname)
            if len(inner) - 1 != len(target.params):
                raise Unsupported('argument count of %s' % ctext(n))
            for a, p in zip(inner[1:], target.params):
                ea = self.expr(a)
                if p['kind'] == 'int':
                    ea = self.as_int(ea)
                elif p['kind'] == 'ptr':
                    if ea.kind != 'ptr':
                        raise Unsupported('argument %s of %s' % (ctext(a), fname))
                elif p['kind'] == 'sref':
                    if ea.kind != 'struct' or ea.sname != p['sname']:
                        raise Unsupported('argument %s of %s' % (ctext(a), fname))
                else:
                    raise Unsupported('argument %s of %s' % (ctext(a), fname))
                args.append(ea.term); chks.append(ea.chk)
            self.ncall += 1
            v = 'r%d' % self.ncall
            self.hoist.append((v, '(%s %s)' % (target.gname(), ' '.join(args)), conj(*chks), ctext(n)))
            return E('int', v, None, T.of(n))
        raise Unsupported('expression kind %s' % k)

    def deref(self, b, i, what):
        if b.kind != 'ptr' or not b.elem or b.elem[0] == 'null':
            raise Unsupported('dereference of %s' % what)
        chk = conj(b.chk, i.chk, '(p_ok %s %s)' % (b.term, i.term))
        if b.elem[0] == 'int':
            return E('int', '(p_get 0 %s %s)' % (b.term, i.term), chk, b.elem[1])
        sn = b.elem[1]
        return E('struct', '(p_get c_%s_default %s %s)' % (sn, b.term, i.term), chk, 'struct ' + sn, None, sn)

    # ---- statements.  Each returns a term of type cres st with the current state free as `s`.
    def gname(self):
        return self.name + '_c'

    def with_calls(self, build):
        """translate one statement whose expressions may contain calls: build() -> (chk, term)"""
        old = self.hoist
        self.hoist = []
        try:
            chk, term, what = build()
            r = self.chk(chk, what, term)
            for v, call, cchk, cwhat in reversed(self.hoist):
                r = self.chk(cchk, 'arguments of ' + cwhat, '(c_call %s (fun %s => %s))' % (call, v, r))
            return r
        finally:
            self.hoist = old

    def chk(self, chk, what, term):
        if not chk:
            return term
        return '(c_chk %s %s %s)' % (chk, cq('%s: %s' % (self.name, what)), term)

    def assign_local(self, target, e, what):
        """(chk, term, what) for  target = e  where target is a DeclRefExpr node of a local"""
        t = strip(target)
        if t.get('kind') != 'DeclRefExpr' or t['referencedDecl']['id'] not in self.locals:
            raise Unsupported('assignment to %s' % ctext(target))
        l = self.locals[t['referencedDecl']['id']]
        if l['kind'] == 'bad':
            raise Unsupported('local %s: %s' % (l['name'], l['why']))
        want = 'struct' if l['kind'] == 'sref' else l['kind']
        if want == 'int':
            e = self.as_int(e)
        if e.kind != want:
            raise Unsupported('assignment of a %s to %s' % (e.kind, l['name']))
        if want == 'ptr' and e.elem and e.elem[0] == 'null':
            pass
        elif want == 'ptr' and e.elem != l['elem']:
            raise Unsupported('pointer assignment with different element types: %s' % what)
        if want == 'struct' and e.sname != l['sname']:
            raise Unsupported('struct assignment with different types: %s' % what)
        self.assigned_after = t['referencedDecl']['id']
        return e.chk, '(CNorm (set_%s %s s))' % (l['field'], e.term), what

    def assign_ref(self, tl, rhs, what):
        """p = NULL  or  p = <root array>[index]  for a reference local p"""
        l = self.locals[tl['referencedDecl']['id']]
        self.assigned_after = tl['referencedDecl']['id']
        t = strip_casts(rhs)
        if t.get('kind') == 'IntegerLiteral' and t.get('value') == '0':
            return None, '(CNorm (set_%s None s))' % l['field'], what
        t = strip(rhs)
        if t.get('kind') != 'ArraySubscriptExpr' or ctext(strip(t['inner'][0])) != ctext(l['root']):
            raise Unsupported('pointer assignment %s' % what)
        arr = self.expr(t['inner'][0])
        i = self.as_int(self.expr(t['inner'][1]))
        if arr.kind != 'ptr' or not arr.elem or arr.elem[0] != 'struct':
            raise Unsupported('pointer assignment %s' % what)
        return conj(arr.chk, i.chk, '(p_ok %s %s)' % (arr.term, i.term)), \
            '(CNorm (set_%s (Some %s) s))' % (l['field'], i.term), what

    def lv_update(self, n, new, chks):
        """state after storing the term `new` into the object designated by the lvalue n: a member / element chain that
        ends in a struct-pointer parameter (which lives in the state of a mutating function)"""
        n = strip(n)
        k = n.get('kind')
        if k == 'DeclRefExpr':
            for p in self.params:
                if p['id'] == n['referencedDecl']['id'] and p.get('instate'):
                    return '(set_%s %s s)' % (p['field'], new)
            raise Unsupported('store through %s' % ctext(n))
        if k == 'MemberExpr':
            b = self.expr(n['inner'][0])
            if b.kind != 'struct':
                raise Unsupported('store through %s' % ctext(n))
            chks.append(b.chk)
            return self.lv_update(n['inner'][0], '(set_%s__%s %s %s)' % (b.sname, n['name'], new, b.term), chks)
        if k == 'ArraySubscriptExpr':
            a = self.expr(n['inner'][0])
            i = self.as_int(self.expr(n['inner'][1]))
            if a.kind != 'ptr' or not a.elem or a.elem[0] not in ('struct', 'int'):
                raise Unsupported('store through %s' % ctext(n))
            chks += [a.chk, i.chk, '(p_ok %s %s)' % (a.term, i.term)]
            return self.lv_update(n['inner'][0], '(p_set %s %s %s)' % (a.term, i.term, new), chks)
        raise Unsupported('store through %s' % ctext(n))

    def assign_lvalue(self, lhs, e, what):
        if not self.mutating:
            raise Unsupported('assignment to %s' % ctext(lhs))
        if self.T.int_info(self.T.of(lhs)) is None:
            raise Unsupported('assignment of a non-integer to %s' % ctext(lhs))
        e = self.as_int(e)
        # make sure the member exists in the record even if it is never read
        probe = self.expr(strip(lhs))
        chks = [e.chk]
        term = self.lv_update(lhs, e.term, chks)
        return conj(*chks), '(CNorm %s)' % term, what

    def check_no_alias(self, did):
        """a local pointer that is written through must be the only access path to its array: every value assigned
        to it is NULL or a struct member that occurs exactly once in the function"""
        for src in self.ptr_sources.get(did, []):
            t = strip_casts(src)
            if t.get('kind') == 'IntegerLiteral' and t.get('value') == '0':
                continue
            t = strip(src)
            if t.get('kind') == 'MemberExpr':
                key = (self.T.of(t['inner'][0]), t.get('name'))
                if self.member_count.get(key, 0) == 1:
                    continue
            raise Unsupported('store through %s, whose target may be reached by another path (%s)' %
                              (self.locals[did]['name'], ctext(src)))
        if not self.ptr_sources.get(did):
            raise Unsupported('store through %s, which is never initialised' % self.locals[did]['name'])

    def expr_stmt(self, n):
        """expression statement"""
        k = n.get('kind')
        if k == 'ParenExpr':
            return self.expr_stmt(n['inner'][0])
        newly = []

        def build():
            if k == 'BinaryOperator' and n['opcode'] == '=' and strip_casts(n['inner'][1]).get('id') in self.ext_sites and \
                    self.tr.spec['externs'][self.ext_sites[strip_casts(n['inner'][1])['id']][1]].get('out') is not None:
                lhs, rhs = n['inner']
                call = strip_casts(rhs)
                kx, nm = self.ext_sites[call['id']]
                out_idx = self.tr.spec['externs'][nm]['out']
                args = call['inner'][1:]
                chks = []
                store = None
                for ai, a in enumerate(args):
                    if ai == out_idx:
                        t = strip_casts(a)
                        if t.get('kind') == 'UnaryOperator' and t.get('opcode') == '&' and \
                                strip(t['inner'][0]).get('kind') == 'ArraySubscriptExpr':
                            sub = strip(t['inner'][0])
                            base = strip(sub['inner'][0])
                            if base.get('kind') != 'DeclRefExpr' or base['referencedDecl']['id'] not in self.locals:
                                raise Unsupported('output argument %s of %s' % (ctext(a), nm))
                            did = base['referencedDecl']['id']
                            self.check_no_alias(did)
                            pb = self.expr(sub['inner'][0])
                            pi = self.as_int(self.expr(sub['inner'][1]))
                            if pb.kind != 'ptr' or not pb.elem or pb.elem[0] != 'int':
                                raise Unsupported('output argument %s of %s' % (ctext(a), nm))
                            chks += [pb.chk, pi.chk, '(p_ok %s %s)' % (pb.term, pi.term)]
                            store = '(set_%s (p_set %s %s x%d_%s_out) s)' % (self.locals[did]['field'], pb.term, pi.term, kx, nm)
                        else:
                            raise Unsupported('output argument %s of %s' % (ctext(a), nm))
                    else:
                        aty = self.T.of(a)
                        if self.T.is_ptr(aty):
                            continue          # opaque handle / NULL: not evaluated
                        chks.append(self.as_int(self.expr(a)).chk)
                if store is None:
                    raise Unsupported('external call %s without its output argument' % nm)
                ret = self.convert(E('int', 'x%d_%s_ret' % (kx, nm), None, self.T.of(call)), self.T.of(call))
                c2, t2, w2 = self.assign_local(lhs, ret, ctext(n))
                newly.append(self.assigned_after)
                return conj(*chks), '(c_bind (CNorm %s) (fun s => %s))' % (store, t2), ctext(n)
            if k == 'BinaryOperator' and n['opcode'] == '=':
                lhs, rhs = n['inner']
                tl = strip(lhs)
                if tl.get('kind') == 'DeclRefExpr' and tl['referencedDecl']['id'] in self.locals and \
                        self.locals[tl['referencedDecl']['id']]['kind'] == 'ref':
                    r = self.assign_ref(tl, rhs, ctext(n))
                    newly.append(self.assigned_after)
                    return r
                e = self.expr(rhs)
                if tl.get('kind') != 'DeclRefExpr':
                    return self.assign_lvalue(lhs, e, ctext(n))
                r = self.assign_local(lhs, e, ctext(n))
                newly.append(self.assigned_after)
                return r
            if k == 'CompoundAssignOperator':
                lhs, rhs = n['inner']
                op = n['opcode'][:-1]
                cur = self.expr(lhs)
                comp = self.T.resolve(n['computeResultType']['qualType'])
                a = self.convert(cur, self.T.resolve(n['computeLHSType']['qualType']))
                b = self.expr(rhs)
                v = self.arith(op, a, b, comp)
                v = self.convert(v, self.T.of(lhs))
                if strip(lhs).get('kind') != 'DeclRefExpr':
                    return self.assign_lvalue(lhs, v, ctext(n))
                r = self.assign_local(lhs, v, ctext(n))
                return r
            if k == 'UnaryOperator' and n['opcode'] in ('++', '--'):
                tgt = n['inner'][0]
                cur = self.as_int(self.expr(tgt))
                cty = self.T.of(tgt)
                ti = self.T.int_info(cty)
                if ti is None or ti[1] < 32:
                    raise Unsupported('%s on type %s' % (n['opcode'], cty))
                v = self.arith('+' if n['opcode'] == '++' else '-', cur, lit(1, cty), cty)
                if strip(tgt).get('kind') != 'DeclRefExpr':
                    return self.assign_lvalue(tgt, v, ctext(n))
                return self.assign_local(tgt, v, ctext(n))
            if k == 'CallExpr':
                e = self.expr(n)
                return e.chk, '(CNorm s)', ctext(n)
            raise Unsupported('expression statement %s' % ctext(n))
        r = self.with_calls(build)
        for i in newly:
            self.assigned = self.assigned | {i}
        return r

    def stmt(self, n):
        """returns term; updates self.assigned (definite assignment; None = statement cannot complete normally)"""
        try:
            return self.stmt1(n)
        except Unsupported as e:
            msg = '%s: %s' % (self.name, e)
            self.unsupported.append(msg)
            sys.stderr.write('tr_cfun WARNING (fail closed): %s\n' % msg)
            return '(CUnsup %s)' % cq(msg)

    def stmt1(self, n):
        k = n.get('kind')
        if k == 'CompoundStmt':
            parts = [c for c in n.get('inner', [])]
            return self.seq(parts)
        if k == 'NullStmt':
            return '(CNorm s)'
        if k == 'DeclStmt':
            terms = []
            for d in n.get('inner', []):
                if d.get('kind') != 'VarDecl':
                    raise Unsupported('declaration of %s' % d.get('kind'))
                l = self.locals[d['id']]
                self.assigned = self.assigned - {d['id']}
                init = [c for c in d.get('inner', []) if c.get('kind') not in (None,) and 'Attr' not in c.get('kind', '')]
                if init:
                    if d.get('init') not in ('c', None):
                        raise Unsupported('initialiser style %s' % d.get('init'))
                    fake = dict(kind='DeclRefExpr', referencedDecl=dict(id=d['id'], kind='VarDecl', name=d['name']), type=d['type'])
                    did = d['id']

                    def build(fake=fake, init=init, d=d):
                        if self.locals[d['id']]['kind'] == 'ref':
                            return self.assign_ref(fake, init[0], '%s = %s' % (d['name'], ctext(init[0])))
                        e = self.expr(init[0])
                        return self.assign_local(fake, e, '%s = %s' % (d['name'], ctext(init[0])))
                    terms.append(self.with_calls(build))
                    self.assigned = self.assigned | {did}
            if not terms:
                return '(CNorm s)'
            return self.chain(terms)
        if k == 'ReturnStmt':
            inner = n.get('inner', [])
            if not inner:
                raise Unsupported('return without a value')

            def build():
                e = self.as_int(self.expr(inner[0]))
                if self.mutating:
                    return e.chk, '(CRetS %s s)' % e.term, 'return ' + ctext(inner[0])
                return e.chk, '(CRet %s)' % e.term, 'return ' + ctext(inner[0])
            r = self.with_calls(build)
            self.assigned = None
            return r
        if k == 'ContinueStmt':
            self.assigned = None
            return '(CCnt s)'
        if k == 'BreakStmt':
            self.assigned = None
            return '(CBrk s)'
        if k == 'IfStmt':
            inner = n['inner']
            if n.get('hasInit') or n.get('hasVar'):
                raise Unsupported('if with declaration')
            cond, thn = inner[0], inner[1]
            els = inner[2] if len(inner) > 2 else None
            excluded = ctext(cond) in self.tr.spec.get('exclude_if', [])
            before = self.assigned
            # translate the condition first (it may hoist calls), then the arms
            old = self.hoist
            self.hoist = []
            try:
                c = self.as_bool(self.expr(cond))
                hoisted = self.hoist
            finally:
                self.hoist = old
            self.assigned = before
            if excluded:
                msg = '%s: EXCLUDED by the target description: the branch of if (%s)' % (self.name, ctext(cond))
                self.tr.excluded.append(msg)
                a = '(CUnsup %s)' % cq(msg)
                self.assigned = None
            else:
                a = self.stmt(thn)
            after_a = self.assigned
            self.assigned = before
            b = self.stmt(els) if els is not None else '(CNorm s)'
            after_b = self.assigned
            if after_a is None:
                self.assigned = after_b
            elif after_b is None:
                self.assigned = after_a
            else:
                self.assigned = after_a & after_b
            r = self.chk(c.chk, 'if (%s)' % ctext(cond), '(if %s then %s else %s)' % (c.term, a, b))
            for v, call, cchk, cwhat in reversed(hoisted):
                r = self.chk(cchk, 'arguments of ' + cwhat, '(c_call %s (fun %s => %s))' % (call, v, r))
            return r
        if k == 'ForStmt':
            init, condvar, cond, inc, body = (n['inner'] + [None] * 5)[:5]
            if condvar:
                raise Unsupported('for with a condition variable')
            if not cond:
                raise Unsupported('for without a condition')
            if init and strip(init).get('kind') == 'BinaryOperator' and strip(init).get('opcode') == ',':
                parts = []

                def flat(x):
                    x = strip(x)
                    if x.get('kind') == 'BinaryOperator' and x.get('opcode') == ',':
                        flat(x['inner'][0]); flat(x['inner'][1])
                    else:
                        parts.append(x)
                flat(init)
                ti = self.chain([self.stmt1(x) for x in parts])
            else:
                ti = self.stmt1(init) if init else '(CNorm s)'   # an unsupported init makes the whole loop unsupported
            if self.assigned is None:
                raise Unsupported('for init does not complete')
            entry = self.assigned
            cn = strip(cond)
            if cn.get('kind') != 'BinaryOperator' or cn['opcode'] not in ('<', '<=', '>', '>='):
                raise Unsupported('loop condition is not of the form i < e, i <= e, i > e, i >= e: %s' % ctext(cond))
            fuelfn = {'<': 'c_fuel_lt', '<=': 'c_fuel_le', '>': 'c_fuel_gt', '>=': 'c_fuel_ge'}[cn['opcode']]
            old = self.hoist
            self.hoist = None          # no calls in loop conditions
            try:
                lo = self.as_int(self.expr(cn['inner'][0]))
                hi = self.as_int(self.expr(cn['inner'][1]))
                c = self.as_bool(self.expr(cond))
            finally:
                self.hoist = old
            self.nloop += 1
            idx = self.nloop
            tb = self.stmt(body) if body else '(CNorm s)'
            self.assigned = entry
            if inc:
                tinc = self.expr_stmt(inc)
            else:
                tinc = '(CNorm s)'
            self.assigned = entry
            base = '%s_loop%d' % (self.name, idx)
            pdecl = self.param_binders()
            pargs = self.param_args()
            L = []
            L.append('(* %s *)' % ccomment('%s: for (%s; %s; %s)' % (self.name, ctext(init) if init else '', ctext(cond), ctext(inc) if inc else '')))
            L.append('Definition %s_cdef %s (s : %s) : bool := %s.' % (base, pdecl, self.st(), c.chk or 'true'))
            L.append('Definition %s_cond %s (s : %s) : bool := %s.' % (base, pdecl, self.st(), c.term))
            L.append('Definition %s_fuel %s (s : %s) : nat := %s %s %s.' % (base, pdecl, self.st(), fuelfn, lo.term, hi.term))
            L.append('Definition %s_body %s (s : %s) : cres %s :=\n  %s.' % (base, pdecl, self.st(), self.st(), tb))
            L.append('Definition %s_inc %s (s : %s) : cres %s :=\n  %s.' % (base, pdecl, self.st(), self.st(), tinc))
            self.loops.append('\n'.join(L))
            loop = '(c_loop (%s_fuel %s s) (%s_cdef %s) (%s_cond %s) (%s_body %s) (%s_inc %s) s)' % \
                   (base, pargs, base, pargs, base, pargs, base, pargs, base, pargs)
            return self.chain([ti, loop])
        if k in ('WhileStmt', 'DoStmt', 'SwitchStmt', 'GotoStmt', 'LabelStmt'):
            raise Unsupported('statement kind %s' % k)
        # expression statement
        if k in ('BinaryOperator', 'CompoundAssignOperator', 'UnaryOperator', 'CallExpr', 'ParenExpr'):
            return self.expr_stmt(n)
        raise Unsupported('statement kind %s' % k)

    def chain(self, terms):
        terms = [t for t in terms[:-1] if t != '(CNorm s)'] + [terms[-1]]
        r = terms[-1]
        for t in reversed(terms[:-1]):
            r = '(c_bind %s (fun s =>\n  %s))' % (t, r)
        return r

    def seq(self, parts):
        terms = []
        for p in parts:
            if self.assigned is None:
                # unreachable code after return/continue/break: keep it out, but say so
                msg = '%s: unreachable statement after return/break/continue' % self.name
                self.unsupported.append(msg)
                sys.stderr.write('tr_cfun WARNING (fail closed): %s\n' % msg)
                terms.append('(CUnsup %s)' % cq(msg))
                break
            terms.append(self.stmt(p))
        if not terms:
            return '(CNorm s)'
        return self.chain(terms)

    def param_binders(self):
        return ' '.join('(%s : %s)' % (p['g'], p['coqty']) for p in self.params)

    def param_args(self):
        return ' '.join(p['g'] for p in self.params)

    def translate(self):
        self.scan()
        for p in self.params:
            if p['kind'] == 'bad':
                msg = '%s: parameter %s: %s' % (self.name, p['name'], p['why'])
                self.unsupported.append(msg)
                sys.stderr.write('tr_cfun WARNING (fail closed): %s\n' % msg)
        ret = self.T.resolve(self.decl['type']['qualType'].split('(')[0].strip())
        self.assigned = set()
        body = [c for c in self.decl['inner'] if c.get('kind') == 'CompoundStmt'][0]
        if self.T.int_info(ret) is None:
            msg = '%s: return type %s' % (self.name, ret)
            self.unsupported.append(msg)
            self.body = '(CUnsup %s)' % cq(msg)
        else:
            self.body = self.stmt(body)

    def emit(self):
        L = []
        st = self.st()
        ls = [self.locals[i] for i in self.local_order]
        # struct-pointer parameters of a function that writes struct fields: the pointed-to object is part of the state
        ps = [dict(field=p['field'], coqty=p['coqty'], dflt=p['g']) for p in self.params if p.get('instate')]
        ls = sorted(ls + ps, key=lambda l: l['field'])
        pd = self.param_binders()
        L.append('(* ---------------- %s ---------------- *)' % self.name)
        L.append('Record %s : Type := mk_%s { %s }.' % (st, st, '; '.join('%s : %s' % (l['field'], l['coqty']) for l in ls)))
        L.append('Definition %s_init %s: %s := mk_%s %s.' % (st, (pd + ' ') if ps else '', st, st, ' '.join('%s' % (l['dflt'] if ' ' not in l['dflt'] else '(%s)' % l['dflt']) for l in ls)))
        for l in ls:
            L.append('Definition set_%s (v : %s) (s : %s) : %s := mk_%s %s.' %
                     (l['field'], l['coqty'], st, st, st, ' '.join('v' if m is l else '(%s s)' % m['field'] for m in ls)))
        L.extend(self.loops)
        L.append('Definition %s_body %s (s : %s) : cres %s :=\n  %s.' % (self.name, pd, st, st, self.body))
        init = '(%s_init %s)' % (st, self.param_args()) if ps else '%s_init' % st
        if self.mutating:
            L.append('(* the function writes through its pointer arguments: value and final state *)')
            L.append('Definition %s %s : fres_st %s :=\n  c_fun_st (%s_body %s %s).' % (self.gname(), pd, st, self.name, self.param_args(), init))
        else:
            L.append('Definition %s %s : fres :=\n  c_fun (%s_body %s %s).' % (self.gname(), pd, self.name, self.param_args(), init))
        return '\n'.join(L)


# ------------------------------------------------------------------ whole file
class Translator:
    def __init__(self, lib, target):
        spec = TARGETS[target]
        self.target = target
        self.spec = spec
        g = os.path.join(lib, 'gen', 'src')
        self.path = os.path.join(g, spec['src'])
        self.src = Source(self.path, clang_flags(lib))
        self.T = Types(self.src)
        self.structs = {}        # name -> {field: (coqty, default)}
        self.struct_order = []
        self.array_fields = set()
        self.done = {}
        self.unsupported = []
        self.excluded = []
        self.nullable_fields = set()   # (struct, field): pointer-to-struct members that are compared with NULL

    def need_struct(self, sn):
        if sn not in self.structs:
            self.structs[sn] = {}
            self.struct_order.append(sn)

    def use_field(self, sn, f, coqty, dflt):
        self.need_struct(sn)
        old = self.structs[sn].get(f)
        if old and old != (coqty, dflt):
            raise Unsupported('field %s.%s used at two different types' % (sn, f))
        self.structs[sn][f] = (coqty, dflt)

    def field_is_array(self, sn, f):
        return (sn, f) in self.array_fields

    def prescan_arrays(self, decls):
        """struct-pointer members that are indexed (p->f[i]) anywhere in the translated functions are arrays of structs"""
        def walk(n):
            if not isinstance(n, dict):
                return
            if n.get('kind') == 'ArraySubscriptExpr':
                b = strip(n['inner'][0])
                if b.get('kind') == 'MemberExpr':
                    owner = self.T.of(b['inner'][0])
                    if self.T.is_ptr(owner):
                        owner = self.T.pointee(owner)
                    sn = self.T.struct_name(owner)
                    if sn:
                        self.array_fields.add((sn, b['name']))
            if n.get('kind') == 'BinaryOperator' and n.get('opcode') in ('==', '!='):
                for x, y in ((n['inner'][0], n['inner'][1]), (n['inner'][1], n['inner'][0])):
                    xs, ys = strip(x), strip_casts(y)
                    if xs.get('kind') == 'MemberExpr' and ys.get('kind') == 'IntegerLiteral' and ys.get('value') == '0':
                        owner = self.T.of(xs['inner'][0])
                        if self.T.is_ptr(owner):
                            owner = self.T.pointee(owner)
                        sn = self.T.struct_name(owner)
                        ft = self.T.of(xs)
                        if sn and self.T.is_ptr(ft) and self.T.struct_name(self.T.pointee(ft)):
                            self.nullable_fields.add((sn, xs['name']))
            for c in n.get('inner', []):
                walk(c)
        for d in decls:
            walk(d)

    def run(self):
        decls = []
        for f in self.spec['funcs']:
            d = self.src.function(f)
            decls.append((f, d))
        self.prescan_arrays([d for _, d in decls if d])
        enums = set()

        def walk(n):
            if isinstance(n, dict):
                if n.get('kind') == 'DeclRefExpr' and n.get('referencedDecl', {}).get('kind') == 'EnumConstantDecl':
                    enums.add(n['referencedDecl']['name'])
                for c in n.get('inner', []):
                    walk(c)
        for _, d in decls:
            if d:
                walk(d)
        self.src.probe_enum_constants(sorted(enums))
        fns = []
        for f, d in decls:
            if d is None:
                msg = 'function %s not found in %s' % (f, self.spec['src'])
                sys.stderr.write('tr_cfun WARNING (fail closed): %s\n' % msg)
                self.unsupported.append(msg)
                fns.append((f, None))
                continue
            fn = Fn(self, d)
            try:
                fn.translate()
            except Exception as e:        # anything unexpected: fail closed for this function
                msg = '%s: translator error %s' % (f, traceback.format_exc().strip().split('\n')[-1])
                sys.stderr.write('tr_cfun WARNING (fail closed): %s\n' % msg)
                self.unsupported.append(msg)
                fns.append((f, None))
                continue
            self.done[f] = fn
            self.unsupported.extend(fn.unsupported)
            fns.append((f, fn))
        return fns

    def emit(self, fns):
        L = ['(* GENERATED by tools/tr_cfun.py (target %s) from %s as built — do not edit.' % (self.target, self.spec['src']),
             '   Gallina rendering of the C functions %s; meaning of the combinators: CSub.v. *)' % ', '.join(self.spec['funcs']),
             'From Coq Require Import ZArith List Bool String.',
             'From Pnc Require Import Base CSub.',
             'Import ListNotations.',
             'Local Open Scope string_scope.',
             'Local Open Scope Z_scope.',
             '']
        # structs: dependency order = a struct after the structs its fields mention
        emitted = set()

        def emit_struct(sn, stack=()):
            if sn in emitted or sn in stack:
                return
            for f, (ty, _) in sorted(self.structs[sn].items()):
                m = re.search(r'c_(\w+)$', ty)
                if m and m.group(1) in self.structs and m.group(1) != sn:
                    emit_struct(m.group(1), stack + (sn,))
            emitted.add(sn)
            fs = sorted(self.structs[sn].items())
            L.append('(* the fields of %s that the translated functions read *)' % sn)
            L.append('Record c_%s : Type := mk_c_%s { %s }.' % (sn, sn, '; '.join('%s__%s : %s' % (sn, f, ty) for f, (ty, _) in fs)))
            L.append('Definition c_%s_default : c_%s := mk_c_%s %s.' % (sn, sn, sn, ' '.join(d if ' ' not in d else '(%s)' % d for f, (ty, d) in fs)))
            if any(fn is not None and fn.mutating for _, fn in fns):
                for f, (ty, _) in fs:
                    L.append('Definition set_%s__%s (v : %s) (r : c_%s) : c_%s := mk_c_%s %s.' %
                             (sn, f, ty, sn, sn, sn, ' '.join('v' if g == f else '(%s__%s r)' % (sn, g) for g, _ in fs)))
        for sn in self.struct_order:
            emit_struct(sn)
        L.append('')
        for f, fn in fns:
            if fn is None:
                L.append('(* %s: NOT TRANSLATED *)' % f)
                L.append('Definition %s_c : fres := FUnsup %s.' % (f, cq(f + ' not translated')))
            else:
                L.append(fn.emit())
            L.append('')
        L.append('(* constructs outside the subset met by the translator (must be empty for the equivalence proofs) *)')
        L.append('Definition tr_cfun_unsupported : list string := [%s].' % '; '.join(cq(m) for m in self.unsupported))
        L.append('(* branches left out on purpose (target description): reaching one yields CUnsup *)')
        L.append('Definition tr_cfun_excluded : list string := [%s].' % '; '.join(cq(m) for m in self.excluded))
        return '\n'.join(L) + '\n'


def main(lib, out, target):
    lib = os.path.abspath(lib)
    try:
        tr = Translator(lib, target)
        fns = tr.run()
        txt = tr.emit(fns)
    except Exception:
        tb = traceback.format_exc()
        sys.stderr.write('tr_cfun FAILED (fail closed):\n' + tb)
        txt = ('(* GENERATED by tools/tr_cfun.py (target %s): TRANSLATION FAILED\n%s *)\n'
               'From Coq Require Import String List.\nFrom Pnc Require Import CSub.\nLocal Open Scope string_scope.\n'
               'Definition tr_cfun_unsupported : list string := ["translator failed"].\n') % (target, tb.replace('*)', '* )'))
    with open(out, 'w') as f:
        f.write(txt)
    return 0


if __name__ == '__main__':
    if len(sys.argv) != 4 or sys.argv[3] not in TARGETS:
        sys.stderr.write(__doc__)
        sys.exit(2)
    sys.exit(main(sys.argv[1], sys.argv[2], sys.argv[3]))
