#!/usr/bin/env python3
"""Translator for C08: every MPI call site that is collective over a communicator or a file
handle, per C function, from the sources AS BUILT.
usage: tr_collsites.py <libdir> <out.v> [--json out.json]

Reads <libdir>/gen/src/{dispatchers,drivers/ncmpio,drivers/common}/*.c, runs the C preprocessor on
each file with the configuration of the build (config.h of the build, -DPNETCDF_VERIF, the headers
as built), so comments, disabled #if blocks and macros (TRACE_COMM / TRACE_IO / CHECK_ERROR) are
resolved exactly as the compiler saw them, keeps only the text that originates from the .c file
itself (line markers), splits it into top-level function bodies and lists every call `MPI_xxx(`.

Every MPI function name is classified by the tables below:
  COLL   collective over a communicator / file handle -> a site (function, call, ordinal)
  LOCAL  known non-collective -> ignored
  anything else -> emitted as a site with call "UNKNOWN:<name>" (fail closed: the equality theorem
  C08_sites_enumerated in Properties_C08.v then no longer holds).
A file that cannot be preprocessed or parsed is emitted as a site ("<file>", "UNPARSED", 0).

Output: coq/Gen_collsites.v with
  Definition gen_sites : list (string * string * nat)   (sorted; function, MPI call, ordinal of
                                                          that call among the calls of the same
                                                          MPI function in that C function, from 1)
  (with --json <file>: the same list with source file and line of every site, used by the
   correspondence harness to map return addresses to sites; not part of the Coq file, so that
   moving code does not change Gen_collsites.v)
"""
import re, sys, os, subprocess, json, glob

COLL = set('''
Barrier Bcast Gather Gatherv Scatter Scatterv Allgather Allgatherv Alltoall Alltoallv Alltoallw
Reduce Allreduce Reduce_scatter Reduce_scatter_block Scan Exscan
Ibarrier Ibcast Igather Igatherv Iscatter Iscatterv Iallgather Iallgatherv Ialltoall Ialltoallv
Ialltoallw Ireduce Iallreduce Ireduce_scatter Ireduce_scatter_block Iscan Iexscan
Neighbor_allgather Neighbor_allgatherv Neighbor_alltoall Neighbor_alltoallv Neighbor_alltoallw
Comm_dup Comm_dup_with_info Comm_idup Comm_create Comm_create_group Comm_split Comm_split_type
Comm_free Comm_disconnect Comm_spawn Comm_spawn_multiple Comm_accept Comm_connect Comm_set_info
Intercomm_create Intercomm_merge Cart_create Cart_sub Graph_create Dist_graph_create
Dist_graph_create_adjacent
Win_create Win_allocate Win_allocate_shared Win_create_dynamic Win_free Win_fence
File_open File_close File_set_view File_set_size File_preallocate File_set_info File_set_atomicity
File_sync File_seek_shared
File_read_all File_write_all File_read_at_all File_write_at_all File_read_ordered File_write_ordered
File_read_all_begin File_read_all_end File_write_all_begin File_write_all_end
File_read_at_all_begin File_read_at_all_end File_write_at_all_begin File_write_at_all_end
File_read_ordered_begin File_read_ordered_end File_write_ordered_begin File_write_ordered_end
File_iread_all File_iwrite_all File_iread_at_all File_iwrite_at_all
'''.split())
# large-count variants
COLL |= {c + '_c' for c in list(COLL)}

LOCAL = set('''
Comm_rank Comm_size Comm_compare Comm_group Comm_get_name Comm_set_name Comm_get_attr Comm_test_inter
Comm_get_errhandler Comm_set_errhandler Comm_call_errhandler Comm_get_info Comm_c2f Comm_f2c
Group_free Group_size Group_rank Group_translate_ranks
Abort Initialized Finalized Error_class Error_string Get_processor_name Wtime Wtick Get_version
Get_library_version Get_address Aint_diff Aint_add Get_count Get_count_c Get_elements Get_elements_x
Get_elements_c Status_set_elements
Send Recv Isend Irecv Ssend Bsend Rsend Issend Sendrecv Wait Waitall Waitany Waitsome Test Testall
Testany Iprobe Probe Cancel Request_free Send_c Recv_c Isend_c Irecv_c
Pack Unpack Pack_size Pack_c Unpack_c Pack_size_c
Type_size Type_size_x Type_size_c Type_commit Type_free Type_dup Type_contiguous Type_contiguous_c
Type_vector Type_vector_c Type_hvector Type_create_hvector Type_create_hvector_c Type_indexed
Type_hindexed Type_create_hindexed Type_create_hindexed_c Type_create_indexed_block
Type_create_hindexed_block Type_create_struct Type_create_struct_c Type_struct Type_create_subarray
Type_create_subarray_c Type_create_darray Type_create_resized Type_create_resized_c
Type_get_extent Type_get_extent_x Type_get_extent_c Type_get_true_extent Type_get_true_extent_x
Type_get_true_extent_c Type_get_envelope Type_get_envelope_c Type_get_contents Type_get_contents_c
Type_extent Type_lb Type_ub Type_get_name Type_set_name Type_c2f Type_f2c Type_match_size
Info_create Info_free Info_set Info_get Info_get_string Info_dup Info_delete Info_get_nkeys
Info_get_nthkey Info_get_valuelen Info_c2f Info_f2c
Op_create Op_free Alloc_mem Free_mem
File_get_info File_get_size File_get_position File_get_byte_offset File_get_view File_get_amode
File_get_group File_get_atomicity File_get_type_extent File_get_errhandler File_set_errhandler
File_call_errhandler File_delete File_seek File_c2f File_f2c
File_read File_write File_read_at File_write_at File_read_shared File_write_shared
File_iread File_iwrite File_iread_at File_iwrite_at File_iread_shared File_iwrite_shared
File_read_c File_write_c File_read_at_c File_write_at_c
'''.split())

ERR_NAMES = ['NC_EMULTIDEFINE_FNC_ARGS', 'NC_EMULTIDEFINE_CMODE', 'NC_EMULTIDEFINE_OMODE',
             'NC_EMULTIDEFINE_FILL_MODE', 'NC_EMULTIDEFINE_VAR_FILL_VALUE']
DIRS = ['dispatchers', 'drivers/ncmpio', 'drivers/common']
KEYWORDS = {'if', 'while', 'for', 'switch', 'return', 'sizeof', 'do', 'else'}


def preprocess(lib, path):
    G = os.path.join(lib, 'gen', 'src')
    cmd = ['mpicc', '-E', '-DHAVE_CONFIG_H', '-DPNETCDF_VERIF',
           '-I' + os.path.join(lib, 'include'), '-I' + os.path.join(G, 'include'),
           '-I' + os.path.join(G, 'drivers', 'include'), '-I' + os.path.dirname(path), path]
    p = subprocess.run(cmd, stdout=subprocess.PIPE, stderr=subprocess.PIPE, timeout=120)
    if p.returncode != 0:
        return None
    return p.stdout.decode(errors='replace')


def own_text(pp, path):
    """[(line_no, text)] of the preprocessed lines that originate from `path` itself"""
    res = []
    cur_file, cur_line = None, 0
    base = os.path.basename(path)
    for l in pp.split('\n'):
        m = re.match(r'#\s*(?:line\s+)?(\d+)\s+"([^"]*)"', l)
        if m:
            cur_line = int(m.group(1)); cur_file = m.group(2)
            continue
        if l.startswith('#'):
            continue
        if cur_file is not None and os.path.basename(cur_file) == base and \
           os.path.abspath(cur_file) == os.path.abspath(path):
            res.append((cur_line, l))
        cur_line += 1
    return res


def strip_strings(s):
    return re.sub(r'"(?:\\.|[^"\\])*"|\'(?:\\.|[^\'\\])*\'', '""', s)


def functions(lines):
    """split into top-level function bodies: yields (name, [(line, text)])"""
    depth = 0
    header = ''           # text at depth 0 since the last ';' or '}'
    cur = None; body = []
    for ln, raw in lines:
        t = strip_strings(raw)
        i = 0
        seg_start = 0
        while i < len(t):
            c = t[i]
            if c == '{':
                if depth == 0:
                    header += t[seg_start:i]
                    # function definition: identifier ( ... ) {   (not struct/enum/union/=)
                    h = header.strip()
                    m = re.search(r'([A-Za-z_][A-Za-z0-9_]*)\s*\([^;{}]*\)\s*$', h, re.S)
                    if m and not re.search(r'=\s*$', h) and m.group(1) not in KEYWORDS:
                        cur = m.group(1); body = []
                    else:
                        cur = None
                    header = ''
                    seg_start = i + 1
                depth += 1
            elif c == '}':
                depth -= 1
                if depth == 0:
                    if cur is not None:
                        body.append((ln, t[seg_start:i]))
                        yield cur, body
                    cur = None; body = []; header = ''
                    seg_start = i + 1
            elif c == ';' and depth == 0:
                header = ''; seg_start = i + 1
            i += 1
        rest = t[seg_start:]
        if depth == 0:
            header += rest + '\n'
        elif cur is not None:
            body.append((ln, rest))
    if depth != 0:
        raise ValueError('unbalanced braces')


def collect(lib):
    G = os.path.join(lib, 'gen', 'src')
    sites = []      # (func, call, ordinal, file, line)
    nfiles = 0
    # only the translation units that are members of libpnetcdf.a are "sources as built"
    # (ncmpio_subfile.c, error_adios2nc.c are in the tree but not compiled in this configuration)
    p = subprocess.run(['ar', 't', os.path.join(lib, 'libpnetcdf.a')], stdout=subprocess.PIPE, stderr=subprocess.PIPE)
    members = set(p.stdout.decode().split())
    if p.returncode != 0 or not members:
        return [('libpnetcdf.a', 'UNPARSED', 0, '', 0)]
    seen = set()
    for d in DIRS:
        for path in sorted(glob.glob(os.path.join(G, d, '*.c'))):
            rel = os.path.basename(path)
            if rel[:-2] + '.o' not in members:
                continue
            seen.add(rel[:-2] + '.o')
            nfiles += 1
            pp = preprocess(lib, path)
            if pp is None:
                sites.append((rel, 'UNPARSED', 0, rel, 0)); continue
            try:
                for fn, body in functions(own_text(pp, path)):
                    cnt = {}
                    for ln, t in body:
                        for m in re.finditer(r'\b(P?MPI_([A-Za-z0-9_]+))\s*\(', t):
                            name = m.group(2)
                            if name in LOCAL:
                                continue
                            call = 'MPI_' + name if name in COLL else 'UNKNOWN:MPI_' + name
                            cnt[call] = cnt.get(call, 0) + 1
                            sites.append((fn, call, cnt[call], rel, ln))
            except Exception as e:
                sites.append((rel, 'UNPARSED', 0, rel, 0))
    if nfiles < 30:
        sites.append(('<sources>', 'UNPARSED', nfiles, '', 0))
    # every C member of the archive (the C++ binding objects ncmpi*.o excluded) must have been read
    for m in sorted(members - seen):
        if not re.match(r'ncmpi[A-Z_]', m):
            sites.append((m, 'UNPARSED', 0, m, 0))
    return sites


def coq_str(s):
    return '"' + s.replace('"', '""') + '"'


def main():
    lib, out = sys.argv[1], sys.argv[2]
    sites = collect(lib)
    sites.sort(key=lambda s: (s[0], s[1], s[2]))
    o = ['(* GENERATED by tools/tr_collsites.py from the sources as built -- do not edit.',
         '   One entry per collective MPI call site: (C function, MPI call, ordinal). *)',
         'From Coq Require Import String List.', 'Import ListNotations.', 'Local Open Scope string_scope.', '',
         'Definition gen_sites : list (string * string * nat) := [']
    o.append(';\n'.join('  (%s, %s, %d)' % (coq_str(f), coq_str(c), n) for f, c, n, _, _ in sites))
    o.append('].\n')
    o.append('Definition gen_nsites : nat := %d.' % len(sites))
    # error codes the model of the safe-mode blocks needs and tools/tr_consts.py does not emit
    hdr = open(os.path.join(lib, 'include', 'pnetcdf.h'), errors='replace').read()
    o.append('From Coq Require Import ZArith.')
    for name in ERR_NAMES:
        m = re.search(r'#define\s+%s\s+\(?\s*(-?\d+)\s*\)?' % name, hdr)
        # a missing code is emitted as +1: lemma gen_codes_negative in Proofs_Collective.v fails (fail closed)
        o.append('Definition %s : Z := (%s)%%Z.' % (name, m.group(1) if m else '1'))
    open(out, 'w').write('\n'.join(o) + '\n')
    if '--json' in sys.argv:
        json.dump([list(s) for s in sites], open(sys.argv[sys.argv.index('--json') + 1], 'w'))


if __name__ == '__main__':
    main()
