#!/bin/bash
# run1.sh <script> [nprocs]: run impl and model on one script, print comparison (dev helper)
S=$1; NP=${2:-$(grep -m1 '^nprocs' $S | cut -d' ' -f2)}
D=$(mktemp -d /tmp/run1.XXXX)
PNC_DIR=$D PNC_OUT=$D/out timeout 60 mpiexec --allow-run-as-root --oversubscribe -n $NP ${PNC_IMPL:-/tmp/pnc_impl} $S > $D/stdout 2>&1
${PNC_MODEL:-/tmp/pnc_model} $S > $D/model.out
python3 - $D $NP <<'PY'
import sys; sys.path.insert(0,'/verif')
from pnc.cmp import *
d,np_=sys.argv[1],int(sys.argv[2])
impl={}
for r in range(np_): impl.update(read_log('%s/out.%d'%(d,r)))
model=read_log(d+'/model.out')
n,s,m=compare(impl,model,np_)
print('compared',n,'skipped',s,'mismatches',len(m))
for x in m[:8]:
    print(' line',x['line'],'rank',x['rank'],x['why']); print('   impl :',' '.join(x['impl'] or [])[:400]); print('   model:',' '.join(x['model'])[:400])
PY
echo "dir $D"
