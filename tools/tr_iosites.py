#!/usr/bin/env python3
"""Translator for property C11 (I/O failures are never silently dropped).
usage: tr_iosites.py <libdir> <out.v> [--json <out.json>] [--jobs N]

Reads the C sources AS BUILT (<libdir>/gen/src/drivers/ncmpio/*.c, .../drivers/common/*.c,
<libdir>/gen/src/dispatchers/*.c) through clang's JSON AST (same -D/-I as the build) and emits
coq/Gen_iosites.v:

 * io_sites   : every call  MPI_File_{read,write,iread,iwrite}*  (the data-transfer calls);
 * link_sites : every call of a function from which an I/O site is reachable (static call graph,
                calls through the driver table `pncp->driver->f(...)` are resolved with the
                initialiser of `ncmpio_driver`), up to the public ncmpi_* entry points;
 * for each site the CONTINUATION of the enclosing function from the statement that contains the
   call to the function's exit, sliced to the `int` locals (mpireturn, err, status, ...), as a term
   of the policy language of coq/Fault.v (frames = rest of each enclosing block / enclosing loops),
   the facts known from the enclosing `if` conditions, the source span, and a one-line POLICY
   summary of the first statement consuming the result (OnFail(...) / Unchecked /
   OverwrittenByNextCall / Unrecognised);
 * mpi2nc_table : the class -> NC code table of ncmpii_error_mpi2nc (drivers/common/error_mpi2nc.c);
 * nc_codes     : the NC_* constants that occur, driver_table: driver slot -> ncmpio function.

FAIL CLOSED: a statement / expression that touches a tracked variable (or contains the marked call)
in a way the translator does not recognise becomes `SUnrec "..."`, whose only outcome in the model
is OBad, so the theorem of every site whose continuation contains it cannot be proved.
A missing/unparsable source, or no site found at all, makes the translator exit non-zero.
"""
import sys, os, re, json, subprocess, hashlib
from concurrent.futures import ThreadPoolExecutor

IO_RE = re.compile(r'^MPI_File_(i?read|i?write)(_at)?(_all)?(_begin|_end)?(_c)?$|^MPI_File_(i?read|i?write)_(shared|ordered)(_begin|_end)?(_c)?$')
MAP_FN = 'ncmpii_error_mpi2nc'


def clang_flags(lib):
    rc = subprocess.run(['mpicc', '-showme:compile'], stdout=subprocess.PIPE, stderr=subprocess.DEVNULL)
    mpi = rc.stdout.decode().split() if rc.returncode == 0 else []
    g = os.path.join(lib, 'gen', 'src')
    return ['-DHAVE_CONFIG_H', '-DPNETCDF_VERIF', '-I.', '-I' + os.path.join(g, 'include'),
            '-I' + os.path.join(g, 'drivers', 'include'), '-I' + os.path.join(g, 'drivers', 'ncmpio'),
            '-I' + os.path.join(lib, 'include')] + mpi


def clang_ast(path, flags, filt=None):
    cmd = ['clang', '-Xclang', '-ast-dump=json', '-fsyntax-only', '-w'] + flags
    if filt:
        cmd += ['-Xclang', '-ast-dump-filter=' + filt]
    cmd.append(os.path.basename(path))
    p = subprocess.run(cmd, cwd=os.path.dirname(path), stdout=subprocess.PIPE, stderr=subprocess.PIPE)
    if p.returncode != 0:
        raise RuntimeError('clang failed on %s:\n%s' % (path, p.stderr.decode()[-2000:]))
    txt = p.stdout.decode(errors='replace')
    if not filt:
        return json.loads(txt)['inner']
    # filtered dump: a sequence of "Dumping <name>:" lines and JSON objects
    dec = json.JSONDecoder()
    out = []
    i = 0
    n = len(txt)
    while True:
        j = txt.find('{', i)
        if j < 0:
            break
        obj, i = dec.raw_decode(txt, j)
        out.append(obj)
    return out


# ------------------------------------------------------------------ AST helpers
def kids(n):
    return n.get('inner', []) or []


def strip(n):
    """remove casts/parens"""
    while n.get('kind') in ('ImplicitCastExpr', 'ParenExpr', 'CStyleCastExpr', 'ConstantExpr') and kids(n):
        n = kids(n)[0]
    return n


def exp_off(loc):
    """offset of a location in the file where it is (macro-)expanded"""
    if 'expansionLoc' in loc:
        loc = loc['expansionLoc']
    return loc.get('offset'), loc.get('tokLen', 0)


def span(n):
    r = n.get('range', {})
    b, _ = exp_off(r.get('begin', {}))
    e, l = exp_off(r.get('end', {}))
    if b is None or e is None:
        return None
    return b, e + l


class TU:
    """one translation unit: its functions (defined in the main file), parent links, source text"""
    def __init__(self, path, decls, is_dispatcher):
        self.path = path
        self.base = os.path.basename(path)
        self.text = open(path, errors='replace').read()
        self.is_dispatcher = is_dispatcher
        self.funcs = {}
        self.libfns = set()
        self.records = {}
        self.inits = {}
        cur = [None]

        def walk_files(x):
            if isinstance(x, dict):
                for k, v in x.items():
                    if k == 'file' and isinstance(v, str):
                        cur[0] = v
                    elif k == 'includedFrom':
                        continue
                    else:
                        walk_files(v)
            elif isinstance(x, list):
                for y in x:
                    walk_files(y)
        for d in decls:
            # file of the declaration's own location (delta-encoded by clang: track in document order)
            walk_files(d.get('loc', {}))
            f = cur[0]
            k = d.get('kind')
            inmain = f is not None and os.path.basename(f) == self.base
            if k == 'FunctionDecl' and inmain and any(c.get('kind') == 'CompoundStmt' for c in kids(d)):
                self.funcs[d['name']] = d
            if k == 'FunctionDecl' and f is not None and not f.startswith('/usr/') and 'name' in d:
                self.libfns.add(d['name'])
            if k == 'RecordDecl' and d.get('name') == 'PNC_driver' and kids(d):
                self.records['PNC_driver'] = [c['name'] for c in kids(d) if c.get('kind') == 'FieldDecl']
            if k == 'VarDecl' and d.get('name') == 'ncmpio_driver' and inmain:
                self.inits['ncmpio_driver'] = d
            walk_files(d.get('range', {}))
            walk_files(d.get('inner', []))

    def line_of(self, off):
        return self.text.count('\n', 0, off) + 1

    def src(self, n, cap=70):
        s = span(n)
        if not s:
            return '?'
        e = s[1]
        if re.fullmatch(r'\w+', self.text[s[0]:e]) and self.text[e:e + 1] == '(' and self.text[s[0]:e].isupper() | ('expansionLoc' in n.get('range', {}).get('begin', {})):
            d = 0
            for j in range(e, min(len(self.text), e + 400)):
                d += self.text[j] == '('
                d -= self.text[j] == ')'
                if d == 0:
                    e = j + 1
                    break
        t = re.sub(r'\s+', ' ', self.text[s[0]:e]).strip()
        t = t.replace('"', "'")
        t = ''.join(ch if 32 <= ord(ch) < 127 else '?' for ch in t)
        return t if len(t) <= cap else t[:cap - 3] + '...'


def set_parents(n, parent=None):
    n['_p'] = parent
    for c in kids(n):
        if isinstance(c, dict):
            set_parents(c, n)


def walk(n):
    yield n
    for c in kids(n):
        if isinstance(c, dict):
            yield from walk(c)


def callee_name(call, driver_table):
    """(name, via_driver) of a CallExpr; calls through `...->driver->slot` are resolved"""
    f = strip(kids(call)[0])
    if f.get('kind') == 'DeclRefExpr':
        return f['referencedDecl'].get('name'), False
    if f.get('kind') == 'MemberExpr':
        slot = f.get('name')
        base = strip(kids(f)[0]) if kids(f) else {}
        bname = base.get('name') if base.get('kind') == 'MemberExpr' else base.get('referencedDecl', {}).get('name')
        if bname == 'driver' and slot in driver_table:
            return driver_table[slot], True
    return None, False


def const_val(n):
    n = strip(n)
    k = n.get('kind')
    if k == 'IntegerLiteral':
        return int(n['value'])
    if k == 'UnaryOperator' and n.get('opcode') == '-':
        v = const_val(kids(n)[0])
        return -v if v is not None else None
    if k == 'UnaryOperator' and n.get('opcode') == '+':
        return const_val(kids(n)[0])
    return None


# ------------------------------------------------------------------ Coq term printing
def q(s):
    return '"' + s.replace('"', "'") + '"'


def zc(z):
    return '(%d)' % z


class Fn:
    """translation context of one function"""
    def __init__(self, tu, fd, driver_table):
        self.tu = tu
        self.fd = fd
        self.name = fd['name']
        self.dt = driver_table
        self.body = [c for c in kids(fd) if c.get('kind') == 'CompoundStmt'][0]
        self.void = fd.get('type', {}).get('qualType', '').split('(')[0].strip() == 'void'
        set_parents(fd)
        # candidate variables: locals/params of type int; unique names for shadowing declarations
        cand = {}
        used = {}
        for n in walk(fd):
            if n.get('kind') in ('VarDecl', 'ParmVarDecl') and n.get('type', {}).get('qualType') == 'int' \
               and n.get('storageClass') != 'static' and 'name' in n:
                nm = n['name']
                k = used.get(nm, 0)
                used[nm] = k + 1
                cand[n['id']] = nm if k == 0 else '%s#%d' % (nm, k + 1)
        # tracked = the candidates RELEVANT for the value the function returns (backward slice):
        # variables in return expressions; variables in the right-hand side of an assignment to a relevant
        # variable; variables in a condition that controls a return/break/continue/goto or an assignment
        # to (or a by-address use of) a relevant variable.  Everything else is opaque (unknown value,
        # undetermined condition), which only adds behaviours.
        def refs(n):
            return set(m['referencedDecl'].get('id') for m in walk(n)
                       if m.get('kind') == 'DeclRefExpr' and m['referencedDecl'].get('id') in cand)
        rel = set()
        for n in walk(self.body):
            if n.get('kind') == 'ReturnStmt':
                rel |= refs(n)

        def lhs_id(m):
            x = strip(m)
            return x['referencedDecl'].get('id') if x.get('kind') == 'DeclRefExpr' and x['referencedDecl'].get('id') in cand else None

        def writes_rel(n):
            for m in walk(n):
                k = m.get('kind')
                if k in ('ReturnStmt', 'BreakStmt', 'ContinueStmt', 'GotoStmt'):
                    return True
                if k in ('BinaryOperator', 'CompoundAssignOperator') and (m.get('opcode') == '=' or k == 'CompoundAssignOperator') \
                   and lhs_id(kids(m)[0]) in rel:
                    return True
                if k == 'UnaryOperator' and m.get('opcode') in ('++', '--', '&') and lhs_id(kids(m)[0]) in rel:
                    return True
                if k == 'VarDecl' and m.get('id') in rel:
                    return True
            return False
        while True:
            n0 = len(rel)
            for n in walk(self.body):
                k = n.get('kind')
                if k == 'BinaryOperator' and n.get('opcode') == '=' and lhs_id(kids(n)[0]) in rel:
                    rel |= refs(kids(n)[1])
                elif k == 'VarDecl' and n.get('id') in rel:
                    rel |= refs(n)
                elif k == 'IfStmt':
                    ch = kids(n)
                    if any(writes_rel(c) for c in ch[1:]):
                        rel |= refs(ch[0])
                elif k == 'ConditionalOperator':
                    pa = n['_p']
                    while pa.get('kind') in ('ImplicitCastExpr', 'ParenExpr', 'CStyleCastExpr'):
                        pa = pa['_p']
                    if pa.get('kind') == 'ReturnStmt' or (pa.get('kind') == 'BinaryOperator' and pa.get('opcode') == '='
                                                           and lhs_id(kids(pa)[0]) in rel) or \
                       (pa.get('kind') == 'VarDecl' and pa.get('id') in rel):
                        rel |= refs(n)
                elif k == 'CallExpr':
                    # MPI_Allreduce(&a, &b, ...) / by-address arguments: if one is relevant, so are the others
                    ad = [lhs_id(kids(strip(a))[0]) for a in kids(n)[1:]
                          if strip(a).get('kind') == 'UnaryOperator' and strip(a).get('opcode') == '&' and kids(strip(a))]
                    if any(x in rel for x in ad):
                        rel |= set(x for x in ad if x)
            if len(rel) == n0:
                break
        self.tracked = {i: nm for i, nm in cand.items() if i in rel}
        self.mark = None   # id of the marked CallExpr

    def tv(self, n):
        """name of the tracked variable an expression denotes (after casts), else None"""
        n = strip(n)
        if n.get('kind') == 'DeclRefExpr':
            return self.tracked.get(n['referencedDecl'].get('id'))
        return None

    # ---- classification of untranslated subtrees
    def touches(self, n):
        """does the subtree modify / take the address of a tracked variable, contain the marked call,
        or a control transfer?  (then it may not be skipped)"""
        for m in walk(n):
            k = m.get('kind')
            if m.get('id') == self.mark:
                return 'marked call'
            if k in ('ReturnStmt', 'GotoStmt', 'BreakStmt', 'ContinueStmt', 'IndirectGotoStmt'):
                return k
            if k == 'BinaryOperator' and m.get('opcode') == '=' and self.tv(kids(m)[0]):
                return 'assignment to ' + self.tv(kids(m)[0])
            if k == 'CompoundAssignOperator' and self.tv(kids(m)[0]):
                return 'assignment to ' + self.tv(kids(m)[0])
            if k == 'UnaryOperator' and m.get('opcode') in ('++', '--', '&') and self.tv(kids(m)[0]):
                return '%s on %s' % (m.get('opcode'), self.tv(kids(m)[0]))
            if k == 'VarDecl' and m.get('id') in self.tracked:
                return 'declaration of ' + self.tracked[m['id']]
        return None

    # ---- expressions
    def expr(self, n):
        n0 = n
        n = strip(n)
        k = n.get('kind')
        c = const_val(n)
        if c is not None:
            return 'EConst %s' % zc(c)
        v = self.tv(n)
        if v:
            return 'EVar %s' % q(v)
        if k == 'CallExpr':
            if n.get('id') == self.mark:
                return 'EMark'
            nm, _ = callee_name(n, self.dt)
            args = kids(n)[1:]
            if nm == MAP_FN and args and self.tv(args[0]):
                return 'EMap %s' % q(self.tv(args[0]))
            for a in args:
                t = self.touches(a)
                if t:
                    return None        # side effects on tracked variables inside arguments: caller handles
            if nm and nm.startswith('MPI_'):
                return 'EMpiCall %s' % q(nm)
            return 'ECall %s' % q(nm or self.tu.src(kids(n)[0], 40))
        if k == 'ConditionalOperator':
            cc, a, b = kids(n)
            C = self.cond(cc)
            A = self.expr(a)
            B = self.expr(b)
            if C is None or A is None or B is None:
                return None
            return 'ECond (%s) (%s) (%s)' % (C, A, B)
        if self.touches(n):
            return None
        return 'EOpaque %s' % q(self.tu.src(n0, 50))

    def is_rank(self, n):
        n = strip(n)
        if n.get('kind') == 'DeclRefExpr' and n['referencedDecl'].get('name') == 'rank':
            return True
        if n.get('kind') == 'MemberExpr' and n.get('name') == 'rank':
            return True
        return False

    def cond(self, n):
        n0 = n
        n = strip(n)
        k = n.get('kind')
        if k == 'BinaryOperator':
            op = n.get('opcode')
            a, b = kids(n)
            if op in ('&&', '||'):
                A = self.cond(a)
                B = self.cond(b)
                if A is None or B is None:
                    return None
                return '%s (%s) (%s)' % ('CAnd' if op == '&&' else 'COr', A, B)
            if op in ('==', '!=', '<', '<=', '>', '>='):
                # process rank test
                if self.is_rank(a) and const_val(b) == 0:
                    if op == '==':
                        return 'CRoot'
                    if op in ('!=', '>'):
                        return 'CNot (CRoot)'
                A = self.expr(a)
                B = self.expr(b)
                if A is None or B is None:
                    return None
                if A.startswith('EOpaque') and B.startswith(('EOpaque', 'EConst')) or \
                   B.startswith('EOpaque') and A.startswith(('EOpaque', 'EConst')):
                    return 'CAtom %s' % q(self.tu.src(n0, 60))
                o = {'==': 'Eq', '!=': 'Ne', '<': 'Lt', '<=': 'Le', '>': 'Gt', '>=': 'Ge'}[op]
                return 'CCmp %s (%s) (%s)' % (o, A, B)
            if op == ',':
                return None
        if k == 'UnaryOperator' and n.get('opcode') == '!':
            A = self.cond(kids(n)[0])
            return None if A is None else 'CNot (%s)' % A
        # truth value of an expression
        if self.tv(n) or const_val(n) is not None or (k == 'CallExpr'):
            E = self.expr(n)
            if E is None:
                return None
            if E.startswith(('ECall', 'EMpiCall')) and 'EMark' not in E:
                return 'CAtom %s' % q(self.tu.src(n0, 60))
            return 'CCmp Ne (%s) (EConst (0))' % E
        if self.touches(n):
            return None
        return 'CAtom %s' % q(self.tu.src(n0, 60))

    # ---- statements
    def seq(self, l):
        l = [x for x in l if x != 'SSkip']
        if not l:
            return 'SSkip'
        r = l[-1]
        for x in reversed(l[:-1]):
            r = 'SSeq (%s) (%s)' % (x, r)
        return r

    def unrec(self, n, why):
        return 'SUnrec %s' % q('%s:%d %s: %s' % (self.tu.base, self.tu.line_of(span(n)[0]) if span(n) else 0, why, self.tu.src(n, 40)))

    def call_effects(self, call):
        """statements modelling the effect of a call on tracked variables passed by address;
        recognises MPI_Allreduce(&a,&b,1,MPI_INT,MPI_MIN,..) and MPI_Bcast(&v,1,MPI_INT,0,..)"""
        nm, _ = callee_name(call, self.dt)
        args = kids(call)[1:]

        def addr_of(a):
            a = strip(a)
            if a.get('kind') == 'UnaryOperator' and a.get('opcode') == '&':
                return self.tv(kids(a)[0])
            return None
        addrs = [addr_of(a) for a in args]
        for a, ad in zip(args, addrs):
            if ad is None and self.touches(a):
                return None
        out = []
        def mpi_handle(a, text, declpat, mpich_const):
            # a predefined MPI handle: by source text, by the Open MPI object it expands to, or by
            # its MPICH integer value (inside macro bodies the source text is the macro invocation)
            if re.sub(r'\s', '', self.tu.src(a)) == text:
                return True
            if const_val(a) == mpich_const:
                return True
            return any(m.get('kind') == 'DeclRefExpr' and re.fullmatch(declpat, m['referencedDecl'].get('name', ''))
                       for m in walk(a))
        if nm == 'MPI_Allreduce' and len(args) >= 5 and addrs[0] and addrs[1] and \
           mpi_handle(args[4], 'MPI_MIN', r'ompi_mpi_op_min', 0x58000002) and \
           mpi_handle(args[3], 'MPI_INT', r'ompi_mpi_int', 0x4c000405):
            out.append('SAllMin %s %s' % (q(addrs[0]), q(addrs[1])))
        elif nm == 'MPI_Bcast' and len(args) >= 4 and addrs[0] and const_val(args[3]) == 0:
            out.append('SBcast0 %s' % q(addrs[0]))
        else:
            for ad in addrs:
                if ad:
                    out.append('SHavoc %s' % q(ad))
        return out

    def assign(self, v, rhs):
        """v = rhs ; handles calls with by-address side effects"""
        r = strip(rhs)
        pre = []
        if r.get('kind') == 'CallExpr' and r.get('id') != self.mark:
            eff = self.call_effects(r)
            if eff is None:
                return None
            pre = eff
            nm, _ = callee_name(r, self.dt)
            e = ('EMpiCall %s' % q(nm)) if nm and nm.startswith('MPI_') else \
                ('EMap %s' % q(self.tv(kids(r)[1]))) if nm == MAP_FN and len(kids(r)) > 1 and self.tv(kids(r)[1]) else \
                ('ECall %s' % q(nm or self.tu.src(kids(r)[0], 40)))
        elif r.get('kind') == 'BinaryOperator' and r.get('opcode') == '=' and self.tv(kids(r)[0]):
            # chained assignment a = b = e
            inner = self.assign(self.tv(kids(r)[0]), kids(r)[1])
            if inner is None:
                return None
            return self.seq([inner, 'SAssign %s (EVar %s)' % (q(v), q(self.tv(kids(r)[0])))])
        elif r.get('kind') == 'ConditionalOperator':
            cc, a, b = kids(r)
            C, A, B = self.cond(cc), self.assign(v, a), self.assign(v, b)
            if C is None or A is None or B is None:
                return None
            return 'SIf (%s) (%s) (%s)' % (C, A, B)
        else:
            e = self.expr(rhs)
            if e is None:
                return None
        return self.seq(pre + ['SAssign %s (%s)' % (q(v), e)])

    def hoist_cond(self, c):
        """`(v = e) op x` inside a condition: returns (pre-statement, condition node list) or None"""
        n = strip(c)
        if n.get('kind') == 'BinaryOperator' and n.get('opcode') in ('==', '!=', '<', '<=', '>', '>='):
            a, b = kids(n)
            sa = strip(a)
            if sa.get('kind') == 'BinaryOperator' and sa.get('opcode') == '=' and self.tv(kids(sa)[0]) and not self.touches(b):
                v = self.tv(kids(sa)[0])
                pre = self.assign(v, kids(sa)[1])
                B = self.expr(b)
                if pre is None or B is None:
                    return None
                o = {'==': 'Eq', '!=': 'Ne', '<': 'Lt', '<=': 'Le', '>': 'Gt', '>=': 'Ge'}[n['opcode']]
                return pre, 'CCmp %s (EVar %s) (%s)' % (o, q(v), B)
        return None

    def stmt(self, n):
        k = n.get('kind')
        if not k:          # absent child
            return 'SSkip'
        if k == 'CompoundStmt':
            return self.seq([self.stmt(c) for c in kids(n)])
        if k == 'NullStmt':
            return 'SSkip'
        if k == 'LabelStmt':
            return self.seq(['SLabel %s' % q(n.get('name', '?')), self.stmt(kids(n)[0]) if kids(n) else 'SSkip'])
        if k == 'GotoStmt':
            lab = None
            for m in walk(self.body):
                if m.get('kind') == 'LabelStmt' and m.get('declId') == n.get('targetLabelDeclId'):
                    lab = m.get('name')
            return 'SGoto %s' % q(lab) if lab else self.unrec(n, 'goto')
        if k == 'IfStmt':
            ch = kids(n)
            if n.get('hasInit') or n.get('hasVar'):
                return self.unrec(n, 'if with init')
            c = ch[0]
            C = self.cond(c)
            pre = 'SSkip'
            if C is None:
                h = self.hoist_cond(c)
                if h is None:
                    return self.unrec(n, 'condition')
                pre, C = h
            T = self.stmt(ch[1])
            E = self.stmt(ch[2]) if len(ch) > 2 else 'SSkip'
            return self.seq([pre, 'SIf (%s) (%s) (%s)' % (C, T, E)])
        if k == 'ReturnStmt':
            if not kids(n):
                return 'SRetVoid'
            r = strip(kids(n)[0])
            if r.get('kind') == 'CallExpr' and r.get('id') != self.mark:
                eff = self.call_effects(r)
                if eff is None:
                    return self.unrec(n, 'return')
            if r.get('kind') == 'ConditionalOperator':
                # return c ? a : b   ==>   if (c) return a; else return b;   (keeps the outcomes apart)
                cc, a, b = kids(r)
                C, A, B = self.cond(cc), self.expr(a), self.expr(b)
                if C is not None and A is not None and B is not None:
                    return 'SIf (%s) (SRet (%s)) (SRet (%s))' % (C, A, B)
            e = self.expr(kids(n)[0])
            if e is None:
                return self.unrec(n, 'return')
            return 'SRet (%s)' % e
        if k == 'BreakStmt':
            return 'SBreak'
        if k == 'ContinueStmt':
            return 'SContinue'
        if k in ('WhileStmt', 'DoStmt', 'ForStmt'):
            ch = kids(n)
            if k == 'WhileStmt':
                init, c, inc, body = None, ch[0], None, ch[1]
            elif k == 'DoStmt':
                init, c, inc, body = None, ch[1], None, ch[0]
            else:
                init, c, inc, body = ch[0], ch[2], ch[3], ch[4]
                if ch[1].get('kind'):
                    return self.unrec(n, 'for with condition variable')
            if c.get('kind') and self.touches(c):
                return self.unrec(n, 'loop condition (%s)' % self.touches(c))
            I = self.stmt(init) if init is not None and init.get('kind') else 'SSkip'
            INC = self.stmt(inc) if inc is not None and inc.get('kind') else 'SSkip'
            B = self.stmt(body)
            return self.seq([I, 'SLoop (%s) (%s)' % (B, INC)])
        if k == 'DeclStmt':
            out = []
            for d in kids(n):
                if d.get('kind') != 'VarDecl':
                    continue
                init = [c for c in kids(d) if c.get('kind')]
                if d.get('id') in self.tracked:
                    v = self.tracked[d['id']]
                    if init and 'init' in d:
                        a = self.assign(v, init[0])
                        if a is None:
                            return self.unrec(n, 'initialiser')
                        out.append(a)
                    else:
                        out.append('SHavoc %s' % q(v))
                elif init:
                    s = self.expr_stmt(init[0])
                    if s is None:
                        return self.unrec(n, 'initialiser')
                    out.append(s)
            return self.seq(out)
        if k in ('SwitchStmt', 'IndirectGotoStmt', 'CaseStmt', 'DefaultStmt'):
            if k == 'SwitchStmt':
                t = self.touches_switch(n)
                if not t:
                    return 'SSkip'
                return self.unrec(n, 'switch (%s)' % t)
            return self.unrec(n, k)
        s = self.expr_stmt(n)
        if s is None:
            return self.unrec(n, 'statement (%s)' % (self.touches(n) or k))
        return s

    def touches_switch(self, n):
        for m in walk(n):
            if m is n:
                continue
            k = m.get('kind')
            if k == 'BreakStmt':
                continue
            if k in ('ReturnStmt', 'GotoStmt', 'ContinueStmt'):
                return k
        # breaks inside the switch are local to it
        for m in walk(n):
            k = m.get('kind')
            if m.get('id') == self.mark:
                return 'marked call'
            if k == 'BinaryOperator' and m.get('opcode') == '=' and self.tv(kids(m)[0]):
                return 'assignment'
            if k == 'CompoundAssignOperator' and self.tv(kids(m)[0]):
                return 'assignment'
            if k == 'UnaryOperator' and m.get('opcode') in ('++', '--', '&') and self.tv(kids(m)[0]):
                return 'modification'
        return None

    def expr_stmt(self, n):
        """an expression evaluated for its side effects"""
        m = strip(n)
        k = m.get('kind')
        if k == 'BinaryOperator' and m.get('opcode') == '=':
            v = self.tv(kids(m)[0])
            if v:
                return self.assign(v, kids(m)[1])
            # assignment to something untracked: RHS may still contain the marked call / touch tracked
            if self.touches(kids(m)[0]):
                return self.havoc_fallback(m)
            return self.expr_stmt(kids(m)[1])
        if k == 'BinaryOperator' and m.get('opcode') == ',':
            a = self.expr_stmt(kids(m)[0])
            b = self.expr_stmt(kids(m)[1])
            return None if a is None or b is None else self.seq([a, b])
        if k == 'CompoundAssignOperator':
            v = self.tv(kids(m)[0])
            if v:
                return None if self.touches(kids(m)[1]) else 'SHavoc %s' % q(v)
        if k == 'UnaryOperator' and m.get('opcode') in ('++', '--') and self.tv(kids(m)[0]):
            return 'SHavoc %s' % q(self.tv(kids(m)[0]))
        if k == 'CallExpr':
            if m.get('id') == self.mark:
                for a in kids(m)[1:]:
                    if self.touches(a):
                        return None
                return 'SDiscard %s' % q('result of the call discarded: ' + self.tu.src(m, 50))
            eff = self.call_effects(m)
            if eff is None:
                return None
            return self.seq(eff)
        if self.touches(m):
            return self.havoc_fallback(m)
        return 'SSkip'

    def havoc_fallback(self, n):
        """an expression with side effects on tracked variables in a shape not modelled exactly:
        every tracked variable it may modify becomes unknown (sound over-approximation); not
        applicable if the marked call or a control transfer is inside"""
        vs = []
        for m in walk(n):
            k = m.get('kind')
            if m.get('id') == self.mark or k in ('ReturnStmt', 'GotoStmt', 'BreakStmt', 'ContinueStmt', 'IndirectGotoStmt', 'StmtExpr'):
                return None
            v = None
            if k == 'BinaryOperator' and m.get('opcode') == '=':
                v = self.tv(kids(m)[0])
            elif k == 'CompoundAssignOperator' or (k == 'UnaryOperator' and m.get('opcode') in ('++', '--', '&')):
                v = self.tv(kids(m)[0])
            if v and v not in vs:
                vs.append(v)
        return self.seq(['SHavoc %s' % q(v) for v in vs])

    # ---- continuation of a marked call
    def site(self, call):
        """returns dict(frames, facts, stmt_node, policy)"""
        self.mark = call['id']
        # containing statement: climb until the parent is a block / if-branch / loop body / label
        n = call
        while True:
            p = n['_p']
            pk = p.get('kind')
            if pk == 'CompoundStmt' or pk == 'LabelStmt':
                break
            if pk == 'IfStmt':
                if n is kids(p)[0]:        # inside the condition: the if statement is the container
                    n = p
                    continue
                break
            if pk in ('WhileStmt', 'DoStmt', 'ForStmt'):
                body = kids(p)[1] if pk == 'WhileStmt' else kids(p)[0] if pk == 'DoStmt' else kids(p)[4]
                if n is body:
                    break
                return dict(frames=['FSeq (%s)' % self.unrec(p, 'marked call in loop header')], facts=[], node=p, cont=[])
            if pk in ('SwitchStmt', 'CaseStmt', 'DefaultStmt'):
                return dict(frames=['FSeq (%s)' % self.unrec(p, 'marked call inside switch')], facts=[], node=p, cont=[])
            if pk == 'FunctionDecl':
                return dict(frames=['FSeq (%s)' % self.unrec(n, 'marked call outside a statement')], facts=[], node=n, cont=[])
            n = p
        container = n
        frames = ['FSeq (%s)' % self.stmt(container)]
        cont_nodes = []
        facts = []
        loops_between = []
        site_off = span(call)[0]
        while True:
            p = n['_p']
            pk = p.get('kind')
            if pk == 'FunctionDecl':
                break
            if pk == 'CompoundStmt':
                ch = kids(p)
                i = [j for j, c in enumerate(ch) if c is n][0]
                rest = self.seq([self.stmt(c) for c in ch[i + 1:]])
                cont_nodes += ch[i + 1:]
                if rest != 'SSkip':
                    frames.append('FSeq (%s)' % rest)
            elif pk == 'IfStmt':
                ch = kids(p)
                branch = n is ch[1]
                C = self.cond(ch[0])
                if C is not None and not p.get('hasInit') and not p.get('hasVar'):
                    # keep the fact only if its tracked variables are not modified between the test and the site
                    vs = set(re.findall(r'E(?:Var|Map) "([^"]+)"', C))
                    stale = False
                    for m in walk(n):
                        t = None
                        if m.get('kind') == 'BinaryOperator' and m.get('opcode') == '=':
                            t = self.tv(kids(m)[0])
                        elif m.get('kind') in ('CompoundAssignOperator',) or \
                                (m.get('kind') == 'UnaryOperator' and m.get('opcode') in ('++', '--', '&')):
                            t = self.tv(kids(m)[0])
                        elif m.get('kind') == 'VarDecl' and m.get('id') in self.tracked:
                            t = self.tracked[m['id']]
                        if t in vs:
                            sp = span(m)
                            inloop = any(span(L)[0] <= sp[0] < span(L)[1] for L in loops_between)
                            if sp[0] < site_off or inloop:
                                stale = True
                    if not stale:
                        facts.append('(%s, %s)' % (C, 'true' if branch else 'false'))
            elif pk in ('WhileStmt', 'DoStmt', 'ForStmt'):
                ch = kids(p)
                body = ch[1] if pk == 'WhileStmt' else ch[0] if pk == 'DoStmt' else ch[4]
                c = ch[0] if pk == 'WhileStmt' else ch[1] if pk == 'DoStmt' else ch[2]
                inc = ch[3] if pk == 'ForStmt' else None
                if c.get('kind') and self.touches(c):
                    frames.append('FSeq (%s)' % self.unrec(p, 'loop condition'))
                INC = self.stmt(inc) if inc is not None and inc.get('kind') else 'SSkip'
                # further iterations: the marked call is an ordinary (succeeding) call there -- single fault
                saved, self.mark = self.mark, None
                frames.append('FLoop (%s) (%s)' % (self.stmt(body), INC))
                self.mark = saved
                cont_nodes.append(body)
                loops_between.append(p)
                # facts gathered inside the loop stay valid only if untouched in the loop: handled above
            elif pk == 'LabelStmt':
                pass
            else:
                frames.append('FSeq (%s)' % self.unrec(p, 'enclosing ' + pk))
            n = p
        self.mark = None
        return dict(frames=frames, facts=facts, node=container, cont=cont_nodes)


# ------------------------------------------------------------------ policy classification on the AST
def classify(fn, call, container, cont, ncname):
    """POLICY of the first statement, in continuation order, that refers to the variable receiving
    the result of the marked call.  Informative (reports, site table); the theorems evaluate the frames."""
    recv = None
    for x in walk(container):
        if x.get('kind') == 'BinaryOperator' and x.get('opcode') == '=' and strip(kids(x)[1]).get('id') == call['id']:
            recv = fn.tv(kids(x)[0])
        if x.get('kind') == 'VarDecl' and x.get('id') in fn.tracked and kids(x) and strip(kids(x)[-1]).get('id') == call['id']:
            recv = fn.tracked[x['id']]
    if container.get('kind') == 'ReturnStmt':
        return 'ReturnedDirectly'
    if recv is None:
        if container.get('kind') == 'IfStmt':
            return 'TestedInCondition (%s)' % pretty_stmt(fn, container, None, ncname)
        return 'Discarded'
    for st in cont:
        refs = [x for x in walk(st) if x.get('kind') == 'DeclRefExpr' and
                fn.tracked.get(x['referencedDecl'].get('id')) == recv and span(x)]
        refs.sort(key=lambda x: span(x)[0])
        if not refs:
            if st.get('kind') == 'ReturnStmt':
                return 'Unchecked'
            continue
        x = refs[0]
        pa = x['_p']
        while pa.get('kind') in ('ImplicitCastExpr', 'ParenExpr'):
            pa = pa['_p']
        if pa.get('kind') == 'BinaryOperator' and pa.get('opcode') == '=' and strip(kids(pa)[0]) is x:
            r = strip(kids(pa)[1])
            if r.get('kind') == 'CallExpr':
                return 'OverwrittenByNextCall %s' % (callee_name(r, fn.dt)[0] or '?')
            return 'OverwrittenByAssignment'
        return pretty_stmt(fn, st, recv, ncname)
    return 'Unchecked'


def pretty_stmt(fn, s, recv, ncname):
    """OnFail (MapErr err; IfEq err EFILE (Set status EWRITE)) style rendering"""
    def nc(v):
        n = ncname.get(v)
        return n[3:] if n else str(v)

    def pe(n):
        n = strip(n)
        c = const_val(n)
        if c is not None:
            return nc(c)
        v = fn.tv(n)
        if v:
            return v
        k = n.get('kind')
        if k == 'CallExpr':
            nm = callee_name(n, fn.dt)[0]
            if nm == MAP_FN:
                return 'mpi2nc(%s)' % pe(kids(n)[1])
            return '%s(..)' % (nm or '?')
        if k == 'ConditionalOperator':
            c, a, b = kids(n)
            sc = strip(c)
            if sc.get('kind') == 'BinaryOperator' and sc.get('opcode') == '==' and pe(kids(sc)[0]) == pe(b):
                return 'Rewrite %s->%s' % (pe(kids(sc)[1]), pe(a))
            return '(%s ? %s : %s)' % (pc(c), pe(a), pe(b))
        return fn.tu.src(n, 30)

    def pc(n):
        n = strip(n)
        k = n.get('kind')
        if k == 'BinaryOperator' and n.get('opcode') in ('==', '!=', '<', '>', '<=', '>=', '&&', '||'):
            a, b = kids(n)
            if n['opcode'] in ('&&', '||'):
                return '%s %s %s' % (pc(a), n['opcode'], pc(b))
            return '%s %s %s' % (pe(a), n['opcode'], pe(b))
        if k == 'UnaryOperator' and n.get('opcode') == '!':
            return '!(%s)' % pc(kids(n)[0])
        return pe(n)

    def relevant(n):
        return any(m.get('kind') in ('ReturnStmt', 'BreakStmt') or
                   (m.get('kind') == 'BinaryOperator' and m.get('opcode') == '=' and fn.tv(kids(m)[0]) not in (None, 'mpireturn'))
                   and not re.search(r'_size$|count$|^len$', fn.tv(kids(m)[0]))
                   for m in walk(n))

    def ps(n):
        k = n.get('kind')
        if k == 'CompoundStmt':
            return '; '.join(x for x in (ps(c) for c in kids(n)) if x)
        if k == 'IfStmt':
            ch = kids(n)
            sc = strip(ch[0])
            t = ps(ch[1])
            e = ps(ch[2]) if len(ch) > 2 and relevant(ch[2]) else ''
            if not t and not e:
                return ''
            if sc.get('kind') == 'BinaryOperator' and sc.get('opcode') in ('==', '!=') and fn.tv(kids(sc)[0]) and const_val(kids(sc)[1]) is not None:
                v, c = fn.tv(kids(sc)[0]), const_val(kids(sc)[1])
                if v == recv and c == 0:
                    r = ('OnFail (%s)' if sc['opcode'] == '!=' else 'OnSuccess (%s)') % t
                elif c == 0:
                    r = ('IfNoerr %s (%s)' if sc['opcode'] == '==' else 'IfErr %s (%s)') % (v, t)
                else:
                    r = ('IfEq %s %s (%s)' if sc['opcode'] == '==' else 'IfNe %s %s (%s)') % (v, nc(c), t)
            else:
                r = 'If [%s] (%s)' % (pc(ch[0]), t)
            return r + (' Else (%s)' % e if e else '')
        if k == 'ReturnStmt':
            return 'Return %s' % (pe(kids(n)[0]) if kids(n) else '')
        if k == 'BreakStmt':
            return 'Break'
        m = strip(n)
        if m.get('kind') == 'BinaryOperator' and m.get('opcode') == '=' and fn.tv(kids(m)[0]):
            v = fn.tv(kids(m)[0])
            r = strip(kids(m)[1])
            if r.get('kind') == 'CallExpr' and callee_name(r, fn.dt)[0] == MAP_FN:
                return 'MapErr %s' % v
            if re.search(r'_size$|count$|^len$', v) or v == 'mpireturn':
                return ''
            return 'Set %s (%s)' % (v, pe(kids(m)[1]))
        return ''
    return ps(s) or 'NoEffect (%s)' % fn.tu.src(s, 50)


# ------------------------------------------------------------------ mpi2nc table
def mpi2nc_table(tu):
    """[(class macro name, NC code)] + default from ncmpii_error_mpi2nc: a chain of
    `if (errorclass == MPI_ERR_X) return NC_Y;` ended by `return NC_EFILE;`; anything else fails"""
    fd = tu.funcs.get(MAP_FN)
    if fd is None:
        return None, None, 'function %s not found' % MAP_FN
    body = [c for c in kids(fd) if c.get('kind') == 'CompoundStmt'][0]
    tab = []
    default = None
    for s in kids(body):
        k = s.get('kind')
        if k == 'IfStmt':
            c = strip(kids(s)[0])
            th = kids(s)[1]
            if c.get('kind') == 'BinaryOperator' and c.get('opcode') == '==' and th.get('kind') == 'ReturnStmt' and len(kids(s)) == 2:
                a, b = kids(c)
                if strip(a).get('kind') == 'DeclRefExpr' and strip(a)['referencedDecl'].get('name') == 'errorclass':
                    cls = re.sub(r'\s', '', tu.src(b))
                    v = const_val(kids(th)[0])
                    cv = const_val(b)
                    if re.fullmatch(r'MPI_ERR_\w+', cls) and v is not None:
                        tab.append((cls, v, cv))
                        continue
            return None, None, 'unrecognised statement in %s: %s' % (MAP_FN, tu.src(s))
        elif k == 'ReturnStmt':
            default = const_val(kids(s)[0])
            if default is None:
                return None, None, 'unrecognised return in %s' % MAP_FN
        elif k in ('DeclStmt', 'CallExpr'):
            for m in walk(s):
                if m.get('kind') == 'ReturnStmt':
                    return None, None, 'unexpected return'
        else:
            return None, None, 'unrecognised statement kind %s in %s' % (k, MAP_FN)
    return tab, default, None


# ------------------------------------------------------------------ per-file worker
def analyse_file(task):
    """parse one source file (or one name-filtered part of a big one) and return, for every function
    defined in it, the candidate sites: calls of MPI_File_read*/write*, of library functions, and calls
    through the driver table.  Which candidates are kept is decided by the caller (reachability)."""
    path, filt, is_disp, driver_table, flags, want, ncname = task
    decls = clang_ast(path, flags, filt=filt)
    tu = TU(path, decls, is_disp)
    res = dict(path=path, filt=filt, funcs=sorted(tu.funcs), sites=[], extra={})
    if 'driver' in want:
        fields = tu.records.get('PNC_driver')
        init = tu.inits.get('ncmpio_driver')
        dt = {}
        if fields and init is not None:
            il = [c for c in kids(init) if c.get('kind') == 'InitListExpr']
            if il:
                vals = [strip(c) for c in kids(il[0])]
                if len(vals) == len(fields):
                    for f, v in zip(fields, vals):
                        if v.get('kind') == 'DeclRefExpr':
                            dt[f] = v['referencedDecl'].get('name')
        res['extra']['driver_table'] = dt
        return res
    if 'mpi2nc' in want:
        res['extra']['mpi2nc'] = mpi2nc_table(tu)
    res['census'] = census(path, flags)
    for fname in sorted(tu.funcs):
        fd = tu.funcs[fname]
        fn = None
        for n in walk(fd):
            if n.get('kind') != 'CallExpr':
                continue
            nm, via = callee_name(n, driver_table)
            if not nm:
                continue
            isio = bool(IO_RE.match(nm))
            if not isio and not via and nm not in tu.libfns:
                continue
            if nm == MAP_FN:
                continue
            if fn is None:
                fn = Fn(tu, fd, driver_table)
            r = fn.site(n)
            sp = span(n)
            csp = span(r['node'])
            res['sites'].append(dict(
                file=tu.base, func=fname, callee=nm, via_driver=via, io=isio,
                kind=('KRead' if 'read' in nm else 'KWrite') if isio else 'KLink',
                line=tu.line_of(sp[0]), line_end=tu.line_of(max(sp[0], sp[1] - 1)),
                stmt_line=tu.line_of(csp[0]), stmt_line_end=tu.line_of(max(csp[0], csp[1] - 1)),
                off=sp[0], frames=r['frames'], facts=r['facts'], void=fn.void,
                vars=sorted(set(fn.tracked.values())), policy=classify(fn, n, r['node'], r['cont'], ncname),
                is_api=tu.is_dispatcher, src=tu.src(r['node'], 100)))
    return res


def census(path, flags):
    """textual count, on the PREPROCESSED main-file text, of the calls the AST walk must find"""
    p = subprocess.run(['clang', '-E', '-w'] + flags + [os.path.basename(path)], cwd=os.path.dirname(path),
                       stdout=subprocess.PIPE, stderr=subprocess.PIPE)
    if p.returncode != 0:
        return dict(io=-1, driver=-1)
    base = os.path.basename(path)
    keep = []
    inmain = False
    for l in p.stdout.decode(errors='replace').split('\n'):
        m = re.match(r'#\s*(?:line\s+)?\d+\s+"([^"]*)"', l)
        if m:
            inmain = os.path.basename(m.group(1)) == base
            continue
        if inmain:
            keep.append(l)
    t = '\n'.join(keep)
    return dict(io=len(re.findall(r'\bMPI_File_i?(?:read|write)\w*\s*\(', t)),
                driver=len(re.findall(r'\bdriver\s*->\s*\w+\s*\(', t)))


def strip_comments(t):
    return re.sub(r'/\*.*?\*/', ' ', t, flags=re.S)


# ------------------------------------------------------------------ main
def main():
    args = sys.argv[1:]
    lib, out = os.path.abspath(args[0]), args[1]
    jout = None
    jobs = 8
    i = 2
    while i < len(args):
        if args[i] == '--json':
            jout = args[i + 1]; i += 2
        elif args[i] == '--jobs':
            jobs = int(args[i + 1]); i += 2
        else:
            i += 1
    g = os.path.join(lib, 'gen', 'src')
    flags = clang_flags(lib)
    ls = lambda d: sorted(os.path.join(g, d, f) for f in os.listdir(os.path.join(g, d)) if f.endswith('.c'))
    drv, com, dis = ls('drivers/ncmpio'), ls('drivers/common'), ls('dispatchers')
    # only the sources that are part of the library as built (e.g. ncmpio_subfile.c is not compiled)
    ar = subprocess.run(['ar', 't', os.path.join(lib, 'libpnetcdf.a')], stdout=subprocess.PIPE)
    objs = set(x[:-2] for x in ar.stdout.decode().split() if x.endswith('.o'))
    built = lambda l: [p for p in l if os.path.basename(p)[:-2] in objs]
    drv, com, dis = built(drv), built(com), built(dis)
    if not drv or not dis or ar.returncode != 0:
        print('sources not found under', g); sys.exit(2)
    texts = {p: strip_comments(open(p, errors='replace').read()) for p in drv + com + dis}

    # nc code names
    hdr = open(os.path.join(lib, 'include', 'pnetcdf.h'), errors='replace').read()
    ncname = {}
    ncname[0] = 'NC_NOERR'
    all_codes = [(0, 'NC_NOERR')]
    # error codes are written `#define NC_Exxx (<integer>)` (type/format constants have no parentheses)
    for m in re.finditer(r'^#define\s+(NC_E\w+)\s+\(\s*([-+]?\d+)\s*\)', hdr, re.M):
        ncname.setdefault(int(m.group(2)), m.group(1))
        all_codes.append((int(m.group(2)), m.group(1)))

    # driver table first (dispatcher calls through it are resolved with it)
    dpath = os.path.join(g, 'drivers', 'ncmpio', 'ncmpio_driver.c')
    driver_table = analyse_file((dpath, None, False, {}, flags, ('driver',), ncname))['extra'].get('driver_table')
    if not driver_table:
        print('cannot resolve the ncmpio driver table'); sys.exit(2)

    # tasks: one per file; big generated dispatcher files are split by API-name prefix
    tasks = []
    expect_funcs = {}
    for p in drv + com + dis:
        if p.endswith('ncx.c') or p.endswith('utf8proc.c'):
            if not re.search(r'\bMPI_File_', texts[p]):
                continue      # pure conversion / unicode tables: no MPI-IO, no calls into the driver
        want = ('mpi2nc',) if p.endswith('error_mpi2nc.c') else ()
        if p in dis and len(texts[p]) > 400000:
            # names of the functions defined in the file: identifier before `(` on a line starting in column 0
            names = re.findall(r'^(?:[A-Za-z_][\w \t\*]*?[ \t\*])?(\w+)[ \t]*\((?![^\n]*;[ \t]*$)', texts[p], re.M)
            names = [n for n in names if n not in ('if', 'while', 'for', 'switch', 'return', 'sizeof', 'defined')]
            pref = sorted(set(re.match(r'ncmpi_[a-z0-9]+_', n).group(0) if re.match(r'ncmpi_[a-z0-9]+_', n) else n for n in names))
            expect_funcs[p] = set(names)
            for f in pref:
                tasks.append((p, f, True, driver_table, flags, want, ncname))
        else:
            tasks.append((p, None, p in dis, driver_table, flags, want, ncname))
    from concurrent.futures import ProcessPoolExecutor
    with ProcessPoolExecutor(max_workers=jobs) as ex:
        results = list(ex.map(analyse_file, tasks))
    cand = []
    seen = set()
    defined = {}
    tab = default = None
    why = 'error_mpi2nc.c not found'
    cens = {}
    for r in results:
        cens[r['path']] = r['census']
        for f in r['funcs']:
            defined.setdefault(r['path'], set()).add(f)
        if 'mpi2nc' in r['extra']:
            tab, default, why = r['extra']['mpi2nc']
        for s in r['sites']:
            k = (s['file'], s['func'], s['off'])
            if k not in seen:
                seen.add(k)
                cand.append(s)
    problems = []
    for p, names in expect_funcs.items():
        missing = names - defined.get(p, set())
        if missing:
            problems.append('%s: functions not covered by the filtered AST dumps: %s' % (os.path.basename(p), ', '.join(sorted(missing)[:5])))
    # every `driver->slot(` occurrence in the dispatcher texts must have been seen as a call
    for p in dis:
        n_txt = cens[p]['driver']
        n_ast = sum(1 for s in cand if s['via_driver'] and s['file'] == os.path.basename(p))
        if n_txt != n_ast:
            problems.append('%s: %d textual driver-> calls but %d in the AST' % (os.path.basename(p), n_txt, n_ast))
    # every MPI_File_read/write occurrence in the texts must have been seen as a call
    for p in drv + com + dis:
        if p not in cens:
            continue
        n_txt = cens[p]['io']
        n_ast = sum(1 for s in cand if s['io'] and s['file'] == os.path.basename(p))
        if n_txt != n_ast:
            problems.append('%s: %d textual MPI_File_read/write calls but %d in the AST (conditional compilation?)' % (os.path.basename(p), n_txt, n_ast))

    # reachability: a function is interesting if it contains an I/O site or calls an interesting one
    interesting = set(s['func'] for s in cand if s['io'])
    while True:
        more = set(s['func'] for s in cand if s['callee'] in interesting) - interesting
        if not more:
            break
        interesting |= more
    sites = [s for s in cand if s['io'] or s['callee'] in interesting]
    io = [s for s in sites if s['io']]
    if not io:
        print('no MPI_File_read*/write* call found: refusing to emit an empty site list'); sys.exit(2)

    # ids: file:function:callee[#ordinal] (ordinal in source order among equal (function, callee))
    sites.sort(key=lambda s: (s['file'], s['off']))
    cnt = {}
    for s in sites:
        k = (s['file'], s['func'], s['callee'])
        cnt[k] = cnt.get(k, 0) + 1
        s['ord'] = cnt[k]
    for s in sites:
        k = (s['file'], s['func'], s['callee'])
        s['id'] = '%s:%s:%s' % (s['file'], s['func'], s['callee']) + ('' if cnt[k] == 1 else '#%d' % s['ord'])

    # ---------------- emit
    o = []
    o.append('(* Gen_iosites.v -- GENERATED by tools/tr_iosites.py from the C sources as built; do not edit.')
    o.append('   io_sites: every MPI_File_read*/write* call; link_sites: every call of a function from which')
    o.append('   an I/O site is reachable; continuation of the enclosing function as policy-language frames. *)')
    o.append('From Coq Require Import ZArith String List.')
    o.append('From Pnc Require Import Fault.')
    o.append('Import ListNotations.')
    o.append('Local Open Scope string_scope.')
    o.append('Local Open Scope Z_scope.')
    o.append('')
    o.append('(* completeness checks of the translator (textual census against the AST); must be empty *)')
    o.append('Definition translator_problems : list string :=\n  [ %s ].' % ';\n    '.join(q(x) for x in problems))
    if tab is None:
        o.append('(* ncmpii_error_mpi2nc NOT RECOGNISED: %s *)' % why)
        o.append('Definition mpi2nc_table : list (string * Z) := [].')
        o.append('Definition mpi2nc_default : Z := 0.   (* fail closed: 0 = NC_NOERR breaks mpi2nc_matches_source *)')
    else:
        o.append('(* ncmpii_error_mpi2nc: `if (errorclass == C) return V;` ... `return default;` *)')
        o.append('Definition mpi2nc_table : list (string * Z) :=\n  [ %s ].' % ';\n    '.join('(%s, %s)' % (q(c), zc(v)) for c, v, _ in tab))
        o.append('Definition mpi2nc_default : Z := %s.' % zc(default))
    used = set(int(x) for s in sites for f in s['frames'] + s['facts'] for x in re.findall(r'EConst \((-?\d+)\)', f))
    if tab:
        used |= {v for _, v, _ in tab} | {default}
    o.append('(* every error code of pnetcdf.h (#define NC_E... <integer>) and NC_NOERR *)')
    o.append('Definition nc_codes : list (Z * string) :=\n  [ %s ].' % ';\n    '.join('(%s, %s)' % (zc(v), q(n)) for v, n in all_codes))
    o.append('(* integer constants occurring in the continuations that are not one of them *)')
    o.append('Definition other_constants : list Z := [ %s ].' % '; '.join(zc(v) for v in sorted(used) if v not in ncname))
    o.append('Definition driver_table : list (string * string) :=\n  [ %s ].' % ';\n    '.join('(%s, %s)' % (q(a), q(b)) for a, b in driver_table.items()))
    o.append('')
    # share identical continuations (the dispatcher APIs are generated from one m4 template)
    shared = {}
    defs = []

    def body_of(s):
        return 'mkBody\n   [ %s ]\n   [ %s ]\n   [ %s ]\n   %s' % (
            '; '.join(q(v) for v in s['vars']), ';\n     '.join(s['facts']), ';\n     '.join(s['frames']),
            'true' if s['void'] else 'false')
    for s in sites:
        b = body_of(s)
        h = hashlib.sha1(b.encode()).hexdigest()[:10]
        if h not in shared:
            shared[h] = 'body_%d' % len(shared)
            defs.append('Definition %s : body :=\n  %s.' % (shared[h], b))
        s['body'] = shared[h]
    o += defs
    o.append('')

    def site_term(s):
        return '(mkSite %s %s %d %d %s %s %s %s %s %s)' % (
            q(s['id']), q(s['file']), s['stmt_line'], s['stmt_line_end'], q(s['func']), q(s['callee']), s['kind'],
            'true' if s['is_api'] else 'false', q(s['policy'].replace('"', "'")), s['body'])
    # upward closures of the functions containing I/O sites (certificates: Coq checks them with
    # Fault.up_closed, it does not trust this computation)
    callers = {}
    for x in sites:
        if not x['io']:
            callers.setdefault(x['callee'], set()).add(x['func'])
    ups = []
    for f in sorted(set(x['func'] for x in sites if x['io'])):
        seen = [f]
        todo = [f]
        while todo:
            g = todo.pop()
            for h in sorted(callers.get(g, ())):
                if h not in seen:
                    seen.append(h)
                    todo.append(h)
        ups.append((f, seen))
    o.append('(* for each function containing an I/O site: the function and all its direct and indirect callers *)')
    o.append('Definition up_sets : list (string * list string) :=\n  [ %s ].' % ';\n    '.join(
        '(%s, [%s])' % (q(f), '; '.join(q(g) for g in r)) for f, r in ups))
    o.append('Definition up_set (f : string) : list string :=\n  match find (fun x => String.eqb (fst x) f) up_sets with Some x => snd x | None => [] end.')
    o.append('')
    o.append('Definition io_sites : list site :=\n  [ %s ].' % ';\n    '.join(site_term(s) for s in sites if s['io']))
    o.append('')
    o.append('Definition link_sites : list site :=\n  [ %s ].' % ';\n    '.join(site_term(s) for s in sites if not s['io']))
    o.append('')
    with open(out, 'w') as f:
        f.write('\n'.join(o) + '\n')
    jout = jout or os.environ.get('C11_SITES_JSON')
    if jout:
        with open(jout + '.tmp', 'w') as f:
            json.dump(dict(sites=sites, driver_table=driver_table, problems=problems,
                           mpi2nc=[(c, v) for c, v, _ in (tab or [])], mpi2nc_default=default,
                           mpi_class_values={c: cv for c, v, cv in (tab or [])}), f, indent=1)
        os.replace(jout + '.tmp', jout)
    print('tr_iosites: %d I/O sites, %d link sites (of %d candidate calls), %d distinct continuations, %d parse tasks%s' % (
        len(io), len(sites) - len(io), len(cand), len(shared), len(tasks),
        ''.join('\n  PROBLEM: ' + x for x in problems)))


if __name__ == '__main__':
    main()
