#!/usr/bin/env python3
"""tr_contig.py <libdir> <out.v>: coq/Gen_contig.v = Gallina rendering of is_request_contiguous
(src/drivers/ncmpio/ncmpio_filetype.c as built), by tools/tr_cfun.py (target contig)."""
import sys, os
sys.path.insert(0, os.path.dirname(os.path.abspath(__file__)))
import tr_cfun
sys.exit(tr_cfun.main(sys.argv[1], sys.argv[2], 'contig'))
