#!/usr/bin/env python3
"""tr_vlens.py <libdir> <out.v>: coq/Gen_vlens.v = Gallina rendering of ncmpio_NC_check_vlen and
ncmpio_NC_check_vlens (src/drivers/ncmpio/ncmpio_enddef.c as built), by tools/tr_cfun.py (target vlens)."""
import sys, os
sys.path.insert(0, os.path.dirname(os.path.abspath(__file__)))
import tr_cfun
sys.exit(tr_cfun.main(sys.argv[1], sys.argv[2], 'vlens'))
