#!/usr/bin/env python3
"""c04_gen.py — an ENCODER WITH FREE CHOICES for the classic netCDF formats (CDF-1/2/5), written
from the format specification (BNF in the NetCDF User's Guide / PnetCDF CDF-5 description) and NOT
from PnetCDF's writer.  It produces files PnetCDF itself would never write:
  * arbitrary (4-byte aligned) gaps before the data section, between fixed-size variables and
    before the record section; the gaps and the space between header and data hold junk bytes;
  * vsize fields that are correct, stale (random), zero or saturated (0xFFFFFFFF / 2^64-1);
  * zero-length attributes of every type; ABSENT lists written as ZERO ZERO or as TAG 0;
  * fixed-size and record variables interleaved in definition order, scalars, 1..4 dimensions;
  * headers from the 32-byte minimum up to several read chunks.
It also produces the GROUND TRUTH: the canonical text harness/c04_open.c must print for the file.
Used by checks/C04.py and checks/C19.py (seed files).  No dependency on the Coq model."""
import struct

XSZ = {1: 1, 2: 1, 3: 2, 4: 4, 5: 4, 6: 8, 7: 1, 8: 2, 9: 4, 10: 8, 11: 8}
NC_FORMAT = {1: 1, 2: 2, 5: 5}
TAG_DIM, TAG_VAR, TAG_ATT = 10, 11, 12


class Dim:
    def __init__(self, name, size):
        self.name, self.size = name, size


class Att:
    def __init__(self, name, typ, nelems, data):
        self.name, self.typ, self.nelems, self.data = name, typ, nelems, data


class Var:
    def __init__(self, name, dimids, atts, typ):
        self.name, self.dimids, self.atts, self.typ = name, dimids, atts, typ
        self.begin = None; self.vsize_field = None; self.data = None; self.len = None


def fnv(b):
    h = 1469598103934665603
    for x in b:
        h = ((h ^ x) * 1099511628211) & 0xFFFFFFFFFFFFFFFF
    return h


def hexblob(b):
    if len(b) == 0:
        return '-'
    if len(b) > 512:
        return 'fnv:%016x:%d' % (fnv(b), len(b))
    return b.hex()


def hexname(b):
    return b.hex() if b else '-'


class File:
    """schema + layout choices; encode() gives bytes, truth() the expected dump"""
    def __init__(self, fmt):
        self.fmt = fmt
        self.numrecs = 0
        self.dims, self.gatts, self.vars = [], [], []
        self.absent_style = {}       # 'dims'/'gatts'/'vars'/('vatts', i) -> 'zero' | 'tag'
        self.hdr_gap = 0             # junk bytes between header end and first variable
        self.rec_gap = 0             # extra bytes before the record section
        self.var_gaps = {}           # index of fixed var -> gap before it
        self.junk = b''              # junk generator output (set by build)
        self.streaming = False

    # ---- primitive encoders
    def nn(self, x):
        return struct.pack('>I', x) if self.fmt < 5 else struct.pack('>Q', x)

    def off(self, x):
        return struct.pack('>I', x) if self.fmt == 1 else struct.pack('>Q', x)

    def name(self, b):
        return self.nn(len(b)) + b + b'\0' * ((4 - len(b) % 4) % 4)

    def lst(self, tag, items, enc, key):
        if not items:
            if self.absent_style.get(key, 'zero') == 'tag':
                return struct.pack('>I', tag) + self.nn(0)
            return struct.pack('>I', 0) + self.nn(0)
        return struct.pack('>I', tag) + self.nn(len(items)) + b''.join(enc(x) for x in items)

    def att(self, a):
        d = a.data
        return self.name(a.name) + struct.pack('>I', a.typ) + self.nn(a.nelems) + d + b'\0' * ((4 - len(d) % 4) % 4)

    def shape(self, v):
        return [self.dims[i].size for i in v.dimids]

    def isrec(self, v):
        s = self.shape(v)
        return len(s) > 0 and s[0] == 0

    def nel_per_rec(self, v):
        s = self.shape(v)
        if self.isrec(v):
            s = s[1:]
        n = 1
        for x in s:
            n *= x
        return n

    def vlen(self, v):
        l = self.nel_per_rec(v) * XSZ[v.typ]
        return (l + 3) // 4 * 4

    def var(self, i, v):
        return (self.name(v.name) + self.nn(len(v.dimids)) + b''.join(self.nn(d) for d in v.dimids) +
                self.lst(TAG_ATT, v.atts, self.att, ('vatts', i)) + struct.pack('>I', v.typ) +
                self.nn(v.vsize_field) + self.off(v.begin))

    def header(self):
        magic = b'CDF' + bytes([self.fmt])
        nr = self.numrecs
        if self.streaming:
            nr = 0xFFFFFFFF if self.fmt < 5 else 0xFFFFFFFFFFFFFFFF
        return (magic + self.nn(nr) + self.lst(TAG_DIM, self.dims, lambda d: self.name(d.name) + self.nn(d.size), 'dims') +
                self.lst(TAG_ATT, self.gatts, self.att, 'gatts') +
                self.lst(TAG_VAR, list(enumerate(self.vars)), lambda p: self.var(p[0], p[1]), 'vars'))

    # ---- layout
    def layout(self, rng):
        """assign begins (definition order within each class), vsize fields (free choice)"""
        for v in self.vars:
            v.begin = 0; v.len = self.vlen(v)
            if v.vsize_field is None:
                v.vsize_field = v.len
        hl = len(self.header())       # header length does not depend on the values of begin/vsize
        self.hdr_len = hl
        pos = hl + self.hdr_gap
        fixed = [i for i, v in enumerate(self.vars) if not self.isrec(v)]
        recs = [i for i, v in enumerate(self.vars) if self.isrec(v)]
        for i in fixed:
            pos += self.var_gaps.get(i, 0)
            self.vars[i].begin = pos
            pos += self.vars[i].len
        self.end_fixed = pos
        pos += self.rec_gap
        self.begin_rec = pos
        if len(recs) == 1:
            v = self.vars[recs[0]]
            self.recsize = self.nel_per_rec(v) * XSZ[v.typ]       # single record variable: no padding
        else:
            self.recsize = sum(self.vars[i].len for i in recs)
        for i in recs:
            self.vars[i].begin = pos
            pos += self.vars[i].len
        self.begin_var = self.vars[fixed[0]].begin if fixed else (self.begin_rec if recs else 0)
        self.fixed, self.recs = fixed, recs
        if not self.vars:
            self.begin_rec = 0; self.recsize = 0

    def encode(self, rng):
        """file bytes: header, junk, data. Every byte outside header and variable data is junk."""
        h = self.header()
        assert len(h) == self.hdr_len
        nrec = self.numrecs
        size = self.end_fixed
        if self.recs:
            size = self.begin_rec + self.recsize * nrec
            # the last record of a single padded-less record variable may end unaligned: fine
        size = max(size, len(h) + self.hdr_gap)
        buf = bytearray(rng_bytes(rng, size))
        buf[:len(h)] = h
        for i in self.fixed:
            v = self.vars[i]
            n = self.nel_per_rec(v) * XSZ[v.typ]
            v.data = rng_data(rng, v.typ, n)
            buf[v.begin:v.begin + n] = v.data
        for i in self.recs:
            v = self.vars[i]
            n = self.nel_per_rec(v) * XSZ[v.typ]
            chunks = []
            for r in range(nrec):
                d = rng_data(rng, v.typ, n)
                o = v.begin + r * self.recsize
                buf[o:o + n] = d
                chunks.append(d)
            v.data = b''.join(chunks)
        return bytes(buf)

    # ---- ground truth in the text form of harness/c04_open.c
    def truth(self, maxdata=1 << 20, get_size=None):
        L = ['open 0', 'format 0 %d' % NC_FORMAT[self.fmt]]
        unlim = -1
        for i, d in enumerate(self.dims):
            if d.size == 0:
                unlim = i
        L.append('inq 0 %d %d %d %d' % (len(self.dims), len(self.vars), len(self.gatts), unlim))
        L.append('sizes %d %d %d %d %d %s' % (self.hdr_len, self.begin_var, self.recsize, len(self.recs),
                                              len(self.fixed), '?' if get_size is None else str(get_size)))
        for i, d in enumerate(self.dims):
            L.append('dim %d 0 %s %d' % (i, hexname(d.name), self.numrecs if d.size == 0 else d.size))
        def att_lines(varid, atts):
            for j, a in enumerate(atts):
                if a.nelems * XSZ[a.typ] > maxdata:
                    L.append('att %d %d 0 %s %d %d 0 skipped' % (varid, j, hexname(a.name), a.typ, a.nelems))
                else:
                    L.append('att %d %d 0 %s %d %d 0 %s' % (varid, j, hexname(a.name), a.typ, a.nelems, hexblob(a.data)))
        att_lines(-1, self.gatts)
        for i, v in enumerate(self.vars):
            L.append('var %d 0 %s %d %d %s %d 0 %d' % (i, hexname(v.name), v.typ, len(v.dimids),
                                                    ','.join(map(str, v.dimids)) if v.dimids else '-', len(v.atts), v.begin))
            att_lines(i, v.atts)
        for i, v in enumerate(self.vars):
            nb = len(v.data)
            if nb > maxdata or maxdata == 0:
                L.append('data %d 0 0 skipped' % i)
            else:
                L.append('data %d 0 %d %s' % (i, nb, hexblob(v.data)))
                if self.isrec(v) and 1 <= self.numrecs <= 64:       # every record read separately
                    per = self.nel_per_rec(v) * XSZ[v.typ]
                    for r in range(self.numrecs):
                        L.append('rec %d %d 0 %s' % (i, r, hexblob(v.data[r * per:(r + 1) * per])))
        L.append('close 0')
        return L


def rng_bytes(rng, n):
    """n pseudo-random bytes (fast: 8 per draw)"""
    out = bytearray()
    while len(out) < n:
        out += struct.pack('<Q', rng.next())
    return bytes(out[:n])


def rng_data(rng, typ, nbytes):
    b = bytearray(rng_bytes(rng, nbytes))
    return bytes(b)


NAME_FIRST = b'abcdefghijklmnopqrstuvwxyzABCDEFGHIJKLMNOPQRSTUVWXYZ0123456789_'
NAME_REST = NAME_FIRST + b'.-+@'


def rand_name(rng, used, maxlen=20):
    while True:
        n = rng.range(1, maxlen)
        if rng.chance(1, 40):
            n = rng.choice([1, 2, 3, 4, 5, 255, 256, 63, 64, 65])
        b = bytes([rng.choice(NAME_FIRST)] + [rng.choice(NAME_REST) for _ in range(n - 1)])
        if rng.chance(1, 12) and n >= 3:            # a 2-byte UTF-8 letter (already NFC)
            b = b[:1] + 'é'.encode() + b[3:]
        if b not in used:
            used.add(b)
            return b


def rand_att(rng, fmt, used, big=False):
    typ = rng.range(1, 11 if fmt == 5 else 6)
    c = rng.below(10)
    if c < 2:
        n = 0                                   # zero-length attribute
    elif c < 8:
        n = rng.range(1, 9)
    else:
        n = rng.range(10, 300 if not big else 3000)
    return Att(rand_name(rng, used), typ, n, rng_bytes(rng, n * XSZ[typ]))


def gen_file(rng, fmt=None, size_class=None, with_data=True):
    """a random specification-valid file description (File, laid out, not yet encoded)"""
    fmt = fmt or rng.choice([1, 2, 5])
    f = File(fmt)
    size_class = size_class if size_class is not None else rng.choice(['min', 'small', 'small', 'medium', 'medium', 'large'])
    used = set()
    if size_class == 'min':
        nd = rng.below(2); ng = rng.below(2); nv = rng.below(2) if nd else 0
    elif size_class == 'small':
        nd = rng.range(0, 4); ng = rng.range(0, 3); nv = rng.range(0, 4)
    elif size_class == 'medium':
        nd = rng.range(1, 8); ng = rng.range(0, 12); nv = rng.range(1, 10)
    elif size_class == 'huge':           # header of >= 600 KiB: several genuine 256 KiB chunks
        nd = rng.range(10, 20); ng = rng.range(180, 220); nv = rng.range(150, 300)
    else:
        nd = rng.range(2, 20); ng = rng.range(5, 60); nv = rng.range(5, 40)
    has_unlim = nd > 0 and rng.chance(2, 3)
    upos = rng.below(nd) if has_unlim else -1
    for i in range(nd):
        f.dims.append(Dim(rand_name(rng, used), 0 if i == upos else rng.choice([1, 1, 2, 3, 4, 5, 7])))
    aused = set()
    for _ in range(ng):
        a = rand_att(rng, fmt, aused, big=(size_class == 'large'))
        if size_class == 'huge':
            a.nelems = rng.range(500, 3000); a.data = rng_bytes(rng, a.nelems * XSZ[a.typ])
        f.gatts.append(a)
    vused = set()
    for i in range(nv):
        k = rng.range(0, min(4, nd))
        ids = []
        if k > 0:
            if has_unlim and rng.chance(1, 2):
                ids.append(upos)
            while len(ids) < k:
                d = rng.below(nd)
                if d != upos:
                    ids.append(d)
                elif nd == 1:
                    break
            if nd == 1 and upos == 0 and not ids:
                ids = [0]
        vu = set()
        atts = [rand_att(rng, fmt, vu) for _ in range(rng.choice([0, 0, 1, 2, 3] if size_class not in ('large', 'huge') else [0, 1, 2, 5, 9]))]
        f.vars.append(Var(rand_name(rng, vused), ids, atts, rng.range(1, 11 if fmt == 5 else 6)))
    # free choices of the encoder
    for key in ['dims', 'gatts', 'vars'] + [('vatts', i) for i in range(nv)]:
        if rng.chance(1, 3):
            f.absent_style[key] = 'tag'
    f.hdr_gap = 4 * rng.choice([0, 0, 1, 2, 7, 64, 129])
    f.rec_gap = 4 * rng.choice([0, 0, 1, 5, 33])
    for i in range(nv):
        if rng.chance(1, 3):
            f.var_gaps[i] = 4 * rng.choice([1, 2, 3, 16, 100])
    f.numrecs = rng.choice([0, 1, 2, 3, 5]) if any(f.isrec(v) for v in f.vars) else rng.choice([0, 0, 0, 3])
    if not with_data:
        f.numrecs = 0
    vmax = 0xFFFFFFFF if fmt < 5 else 0xFFFFFFFFFFFFFFFF
    for v in f.vars:
        c = rng.below(6)
        if c == 0:
            v.vsize_field = vmax                      # saturated
        elif c == 1:
            v.vsize_field = rng.below(vmax + 1)       # stale / arbitrary
        elif c == 2:
            v.vsize_field = 0
    f.layout(rng)
    return f


def fixed_schema(fmt, glen, name_len=5):
    """the fixed header used by the exhaustive split sweep: one global text attribute of length
    glen shifts everything that follows across the chunk boundaries"""
    class R:            # deterministic tiny rng for data bytes
        def __init__(self): self.s = 12345
        def next(self):
            self.s = (self.s * 6364136223846793005 + 1442695040888963407) & 0xFFFFFFFFFFFFFFFF
            return self.s
    f = File(fmt)
    f.dims = [Dim(b't', 0), Dim(b'lat' + b'x' * (name_len - 3), 3), Dim(b'lon', 2)]
    f.gatts = [Att(b'title', 2, glen, bytes((65 + i % 26) for i in range(glen))),
               Att(b'v', 6, 2, struct.pack('>dd', 1.5, -2.25)),
               Att(b'empty', 4, 0, b'')]
    f.vars = [Var(b'fix', [1, 2], [Att(b'units', 2, 3, b'm/s'), Att(b'sc', 3, 3, b'\x00\x01\x00\x02\xff\xfe')], 4),
              Var(b'rec1', [0, 1], [Att(b'a', 1, 1, b'\x7f')], 3),
              Var(b'scal', [], [], 6),
              Var(b'rec2', [0], [], 5)]
    f.vars[0].vsize_field = 0xFFFFFFFF if fmt < 5 else 0xFFFFFFFFFFFFFFFF
    f.vars[1].vsize_field = 12345
    f.absent_style[('vatts', 2)] = 'tag'
    f.hdr_gap = 8; f.rec_gap = 4; f.var_gaps = {2: 8}
    f.numrecs = 2
    r = R()
    f.layout(r)
    return f, r


def growby_schema(fmt, nd):
    """seed with nd dimensions (nd = 64, 128: multiples of PNC_ARRAY_GROWBY, so dims.value[] has no
    spare NULL slot after the last dimension) and variables that use the LAST valid dimid"""
    class R:
        def __init__(self): self.s = 777 + nd
        def next(self):
            self.s = (self.s * 6364136223846793005 + 1442695040888963407) & 0xFFFFFFFFFFFFFFFF
            return self.s
    f = File(fmt)
    f.dims = [Dim(b't', 0)] + [Dim(b'd%d' % i, 1 + i % 3) for i in range(1, nd)]
    f.gatts = [Att(b'g', 2, 2, b'hi')]
    f.vars = [Var(b'last', [nd - 1], [], 1),
              Var(b'rl', [0, nd - 1], [Att(b'u', 4, 1, b'\x00\x00\x00\x07')], 3),
              Var(b'two', [nd - 2, nd - 1], [], 4)]
    f.hdr_gap = 4; f.numrecs = 1
    r = R()
    f.layout(r)
    return f, r


def selfref_values(f):
    """every count stored in the header of f (ndims, nvars, ngatts, per-variable natts/ndims, dimids,
    name lengths, nelems, dimension lengths, numrecs) and each of them +-1"""
    vals = {len(f.dims), len(f.vars), len(f.gatts), f.numrecs}
    for d in f.dims:
        vals |= {d.size, len(d.name)}
    for a in f.gatts:
        vals |= {a.nelems, len(a.name)}
    for v in f.vars:
        vals |= {len(v.atts), len(v.dimids), len(v.name)} | set(v.dimids)
        for a in v.atts:
            vals |= {a.nelems, len(a.name)}
    out = set()
    for x in vals:
        out |= {x - 1, x, x + 1}
    return sorted(x for x in out if 0 <= x < (1 << 32))


def var_list_offset(f):
    """byte offset of the var_list in the header of f"""
    return len(f.header()) - len(f.lst(TAG_VAR, list(enumerate(f.vars)), lambda p: f.var(p[0], p[1]), 'vars'))


def recsize_family(rng, full=False):
    """targeted family for the open-time record-size rule: EXACTLY ONE record variable (recsize = its
    UNPADDED size) x every external type x 1..5 elements per record x 0..2 fixed-size variables x
    2..4 records x the three formats; and the control with TWO record variables (recsize = sum of the
    padded lens).  full=False: (fixed, records) rotate, except for the 2-byte types where every
    combination is generated.  Yields (name, File)."""
    k = 0
    for fmt in (1, 2, 5):
        for typ in range(1, 12 if fmt == 5 else 7):
            for cnt in range(1, 6):
                combos = [(nf, nr) for nf in (0, 1, 2) for nr in (2, 3, 4)]
                if not (full or XSZ[typ] == 2):
                    combos = [combos[(k + typ + cnt) % 9]]
                for nf, nr in combos:
                    for ctrl in ((False, True) if (cnt == 3 and nf == 1 and nr == 2) or (XSZ[typ] == 2 and nf == 0 and nr == 3) else (False,)):
                        k += 1
                        f = File(fmt)
                        f.dims = [Dim(b't', 0)] + [Dim(b'c%d' % c, c) for c in range(1, 6)]
                        f.vars = []
                        if nf >= 1:
                            f.vars.append(Var(b'fa', [3], [], 4))
                        f.vars.append(Var(b'r', [0, cnt], [Att(b'u', 2, 1, b'x')] if k % 2 else [], typ))
                        if ctrl:
                            f.vars.append(Var(b'r2', [0, 1 + k % 5], [], 1 + k % 6))
                        if nf >= 2:
                            f.vars.append(Var(b'fb', [2, 1], [], 3))
                        f.hdr_gap = 4 * (k % 3); f.rec_gap = 4 * (k % 2); f.numrecs = nr
                        if k % 4 == 0:
                            f.vars[-1].vsize_field = 0xFFFFFFFF
                        f.layout(rng)
                        yield ('q%d_t%d_c%d_f%d_n%d%s' % (fmt, typ, cnt, nf, nr, '_2' if ctrl else ''), f)
