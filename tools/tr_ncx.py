#!/usr/bin/env python3
"""Translator for C09: the conversion / range-test table of ncx.c AS BUILT.
usage: tr_ncx.py <libdir> <out.v>          (also importable: build_table(libdir) -> list of dicts)

Input : <libdir>/gen/ncx.i  (gcc -E of the m4-generated ncx.c of /repo's current tree).
Method: clang-14 parses the preprocessed file (`-Xclang -ast-dump=json`); every function
        ncmpix_[pad_]{putn,getn}_NC_<X>_<I> (X = 10 numeric external types, I = 11 memory types incl.
        long) and the static leaf ncmpix_{put,get}_NC_<X>_<I> it calls is executed SYMBOLICALLY on
        one element.  The C front end supplies the types of every sub-expression (integer
        promotions, usual arithmetic conversions, literal types), this script only evaluates
        constant expressions exactly (Python int / Fraction, IEEE rounding done with exact
        rationals) and records, per function, the decision list
             [ test_1 -> action_1 ; ... ; test_n -> action_n ]  default: cast chain
        test   = (operator, comparison type, conversions applied to the source value before
                  comparing, constant converted to the comparison type)
        action = fill (fillp, default constant or none) + NC_ERANGE | store constant + NC_NOERR
        plus the loop shape (memcpy / swapn / inline loop / loop calling the leaf, element stride,
        status rule) and the cast chain of the in-range path.
Fail closed: whatever is not understood is emitted as `BUnrec "<reason>"`; the exactness theorem
        of that pair cannot be proved (Proofs_Convert.v demands `body_ok` of every entry) and the
        model returns `RUnrec` for it, which never equals an implementation result.
"""
import sys, os, re, json, subprocess, tempfile
from fractions import Fraction

XTYPES = ['BYTE', 'UBYTE', 'SHORT', 'USHORT', 'INT', 'UINT', 'FLOAT', 'DOUBLE', 'INT64', 'UINT64']
ITYPES = ['schar', 'uchar', 'short', 'ushort', 'int', 'uint', 'long', 'float', 'double', 'longlong', 'ulonglong']
PADX = ['BYTE', 'UBYTE', 'SHORT', 'USHORT']
XCTY = dict(BYTE='Schar', UBYTE='Uchar', SHORT='Short', USHORT='Ushort', INT='Int', UINT='Uint',
            FLOAT='Float', DOUBLE='Double', INT64='Longlong', UINT64='Ulonglong')
XSIZE = dict(BYTE=1, UBYTE=1, SHORT=2, USHORT=2, INT=4, UINT=4, FLOAT=4, DOUBLE=8, INT64=8, UINT64=8)
ICTY = dict(schar='Schar', uchar='Uchar', short='Short', ushort='Ushort', int='Int', uint='Uint', long='Long',
            float='Float', double='Double', longlong='Longlong', ulonglong='Ulonglong')
CTY = {'signed char': 'Schar', 'unsigned char': 'Uchar', 'short': 'Short', 'unsigned short': 'Ushort',
       'int': 'Int', 'unsigned int': 'Uint', 'long': 'Long', 'unsigned long': 'Ulong',
       'long long': 'Longlong', 'unsigned long long': 'Ulonglong', 'float': 'Float', 'double': 'Double'}
INTBITS = dict(Schar=(8, 1), Uchar=(8, 0), Short=(16, 1), Ushort=(16, 0), Int=(32, 1), Uint=(32, 0),
               Long=(64, 1), Ulong=(64, 0), Longlong=(64, 1), Ulonglong=(64, 0))
FLT = dict(Float=(24, -149, 104), Double=(53, -1074, 971))      # precision, emin, emax (value = m * 2^e, m < 2^prec)


class Unrec(Exception):
    pass


# ------------------------------------------------------------------ exact arithmetic
def irange(t):
    b, s = INTBITS[t]
    return (-(1 << (b - 1)), (1 << (b - 1)) - 1) if s else (0, (1 << b) - 1)


def wrap(t, z):
    b, s = INTBITS[t]
    z &= (1 << b) - 1
    if s and z >= (1 << (b - 1)):
        z -= 1 << b
    return z


def rne(t, q):
    """round the rational q to the nearest value of the binary format t, ties to even;
    returns Fraction or 'inf'/'-inf'"""
    p, emin, emax = FLT[t]
    if q == 0:
        return Fraction(0)
    neg = q < 0
    a = -q if neg else q
    # find e with 2^(p-1) <= a / 2^e < 2^p, clamp e >= emin
    e = (a.numerator.bit_length() - a.denominator.bit_length()) - p
    while a / Fraction(2) ** e >= (1 << p):
        e += 1
    while a / Fraction(2) ** e < (1 << (p - 1)):
        e -= 1
    if e < emin:
        e = emin
    s = a / Fraction(2) ** e
    m = s.numerator // s.denominator
    r = s - m
    if r > Fraction(1, 2) or (r == Fraction(1, 2) and (m & 1)):
        m += 1
    if m == (1 << p):
        m >>= 1
        e += 1
    if e > emax:
        return '-inf' if neg else 'inf'
    v = Fraction(m) * Fraction(2) ** e
    return -v if neg else v


def fdecomp(t, q):
    """Fraction (exactly representable in t) -> (neg, m, e) canonical"""
    p, emin, emax = FLT[t]
    if q == 0:
        return (False, 0, emin)
    neg = q < 0
    a = -q if neg else q
    e = emin
    s = a / Fraction(2) ** e
    while s.denominator != 1 or s >= (1 << p):
        if s.denominator == 1 and s.numerator % 2 == 0 and s >= (1 << p):
            e += 1
            s = a / Fraction(2) ** e
        else:
            raise Unrec('constant %s not representable in %s' % (q, t))
    if e > emax:
        raise Unrec('constant exponent out of range')
    return (neg, int(s), e)


def parse_float_literal(txt):
    txt = txt.strip()
    suf = ''
    while txt and txt[-1] in 'fFlL':
        suf = txt[-1].lower() + suf
        txt = txt[:-1]
    if txt.lower().startswith('0x'):
        raise Unrec('hex float literal')
    m = re.fullmatch(r'(\d*)\.?(\d*)(?:[eE]([+-]?\d+))?', txt)
    if not m or not (m.group(1) or m.group(2)):
        raise Unrec('float literal ' + txt)
    ip, fp, ex = m.group(1) or '0', m.group(2) or '', int(m.group(3) or 0)
    if '.' in txt:
        digits = ip + fp
        q = Fraction(int(digits or '0')) / Fraction(10) ** len(fp)
    else:
        q = Fraction(int(ip))
    q = q * Fraction(10) ** ex
    t = 'Float' if suf == 'f' else 'Double'
    if suf == 'l':
        raise Unrec('long double literal')
    r = rne(t, q)
    if isinstance(r, str):
        raise Unrec('float literal overflows')
    return t, r


def conv_const(to, frm, v):
    """C conversion of the constant v (type frm) to type `to`, exact"""
    if isinstance(v, str):
        raise Unrec('non-finite constant')
    if to in INTBITS:
        if frm in INTBITS:
            return wrap(to, v)                       # modular (implementation-defined for signed: gcc/clang wrap)
        z = int(v) if v >= 0 else -int(-v)           # truncation toward zero
        lo, hi = irange(to)
        if not (lo <= z <= hi):
            raise Unrec('constant float->int conversion out of range (undefined)')
        return z
    if frm in INTBITS or frm != to:
        r = rne(to, Fraction(v))
        if isinstance(r, str):
            raise Unrec('constant conversion overflows to infinity')
        return r
    return v


# ------------------------------------------------------------------ AST access
def qt(n):
    t = n.get('type', {})
    s = t.get('desugaredQualType') or t.get('qualType') or ''
    return s.replace('const ', '').replace('volatile ', '').strip()


def cty(n):
    s = qt(n)
    if s not in CTY:
        raise Unrec('type ' + s)
    return CTY[s]


def kids(n):
    return n.get('inner', [])


def strip(n):
    """remove parens and value-preserving casts"""
    while True:
        k = n['kind']
        if k == 'ParenExpr':
            n = kids(n)[0]
        elif k in ('ImplicitCastExpr', 'CStyleCastExpr') and n.get('castKind') in ('LValueToRValue', 'NoOp', 'BitCast', 'FunctionToPointerDecay'):
            n = kids(n)[0]
        else:
            return n


def refname(n):
    n = strip(n)
    if n['kind'] == 'DeclRefExpr':
        return n['referencedDecl']['name']
    return None


def deref_of(n):
    """if n is `*p`, `*p++` (possibly parenthesised) return (pointer variable name, postinc?)"""
    n = strip(n)
    if n['kind'] == 'UnaryOperator' and n.get('opcode') == '*':
        m = strip(kids(n)[0])
        if m['kind'] == 'UnaryOperator' and m.get('opcode') == '++' and m.get('isPostfix'):
            r = refname(kids(m)[0])
            return (r, True) if r else None
        r = refname(m)
        return (r, False) if r else None
    return None


class Src:
    def __init__(self, text):
        self.text = text.encode()
        self.typedefs = {}
        for m in re.finditer(r'^typedef ([a-z ]+?) (\w+);$', text, re.M):
            self.typedefs[m.group(2)] = re.sub(r'\bint\b', '', m.group(1)).strip() if m.group(1).strip() not in ('int', 'unsigned int') \
                else m.group(1).strip()

    def resolve(self, t):
        seen = 0
        while t not in CTY and t in self.typedefs and seen < 8:
            t = self.typedefs[t]
            seen += 1
        return {'unsigned': 'unsigned int', 'long long': 'long long'}.get(t, t)

    def tok(self, n):
        b = n['range']['begin']
        if 'offset' not in b:
            b = b.get('expansionLoc') or b.get('spellingLoc')
        return self.text[b['offset']: b['offset'] + b['tokLen']].decode()

    def span(self, n):
        b, e = n['range']['begin'], n['range']['end']
        return self.text[b['offset']: e['offset'] + e['tokLen']].decode()


# ------------------------------------------------------------------ symbolic execution of one element
# symbolic values:
#   ('src',)                       the source element (C type = self.src_ty)
#   ('const', ty, v)               v: int | Fraction
#   ('cast', ty, sv)               C conversion to ty
#   ('fill', default_sv|None)      *fillp if fillp != NULL else default (None: destination left as it was)
#   ('band', sv, int)              sv & mask
#   ('prev',)                      status variable before this element
#   ('undef',)
class Exec:
    def __init__(self, src, mode, srcptr, dstptr, src_ty, retvar=None):
        self.S = src
        self.mode = mode            # 'put' | 'get'
        self.srcptr = srcptr        # name of the pointer whose deref is the source element ('ip','tp','xp') or None
        self.dstptr = dstptr
        self.src_ty = src_ty
        self.retvar = retvar        # in loops: the status variable

    # -- expressions
    def sym(self, n, st):
        k = n['kind']
        if k == 'ParenExpr':
            return self.sym(kids(n)[0], st)
        if k in ('ImplicitCastExpr', 'CStyleCastExpr'):
            ck = n.get('castKind')
            if ck in ('LValueToRValue', 'NoOp'):
                return self.sym(kids(n)[0], st)
            if ck in ('IntegralCast', 'IntegralToFloating', 'FloatingToIntegral', 'FloatingCast'):
                inner = kids(n)[0]
                v = self.sym(inner, st)
                t = cty(n)
                if v[0] == 'const':
                    return ('const', t, conv_const(t, v[1], v[2]))
                if self.tyof(v) == t:
                    return v
                return ('cast', t, v)
            raise Unrec('cast kind %s' % ck)
        if k == 'IntegerLiteral':
            return ('const', cty(n), int(n['value']))
        if k == 'FloatingLiteral':
            t, r = parse_float_literal(self.S.tok(n))
            if t != cty(n):
                raise Unrec('float literal type mismatch')
            return ('const', t, r)
        if k == 'UnaryOperator':
            op = n.get('opcode')
            if op == '-':
                v = self.sym(kids(n)[0], st)
                if v[0] != 'const':
                    raise Unrec('negation of non-constant')
                t = cty(n)
                if t in INTBITS:
                    z = -v[2]
                    lo, hi = irange(t)
                    if not (lo <= z <= hi):
                        if INTBITS[t][1]:
                            raise Unrec('signed overflow in constant')
                        z = wrap(t, z)
                    return ('const', t, z)
                return ('const', t, -v[2])
            if op == '*':
                d = deref_of(n)
                if d and d[0] == self.srcptr:
                    if d[1]:
                        st['adv_src'] = st.get('adv_src', 0) + 1
                    return ('src',)
                raise Unrec('deref of ' + str(d))
            raise Unrec('unary ' + str(op))
        if k == 'DeclRefExpr':
            nm = n['referencedDecl']['name']
            if nm in st['vars']:
                return st['vars'][nm]
            raise Unrec('variable ' + nm)
        if k == 'BinaryOperator':
            op = n.get('opcode')
            a, b = kids(n)
            if op in ('*', '+', '-'):
                x, y = self.sym(a, st), self.sym(b, st)
                if x[0] != 'const' or y[0] != 'const':
                    raise Unrec('arithmetic on non-constants')
                t = cty(n)
                if x[1] != t or y[1] != t:
                    raise Unrec('operand types')
                z = {'*': x[2] * y[2], '+': x[2] + y[2], '-': x[2] - y[2]}[op]
                if t in INTBITS:
                    lo, hi = irange(t)
                    if not (lo <= z <= hi):
                        if INTBITS[t][1]:
                            raise Unrec('signed overflow in constant')
                        z = wrap(t, z)
                else:
                    z = rne(t, z)
                    if isinstance(z, str):
                        raise Unrec('inf')
                return ('const', t, z)
            if op == '&':
                x, y = self.sym(a, st), self.sym(b, st)
                if y[0] != 'const':
                    raise Unrec('& non-constant')
                return ('band', x, y[2])
        raise Unrec('expression ' + k + ' ' + str(n.get('opcode', '')))

    def tyof(self, v):
        if v[0] == 'src':
            return self.src_ty
        if v[0] in ('const', 'cast'):
            return v[1]
        return None

    def cond(self, n, st):
        n0 = n
        while n0['kind'] == 'ParenExpr':
            n0 = kids(n0)[0]
        if n0['kind'] == 'BinaryOperator':
            op = n0.get('opcode')
            a, b = kids(n0)
            if op == '||':
                return ('or', self.cond(a, st), self.cond(b, st))
            if op in ('>', '<', '>=', '<=', '==', '!='):
                if refname(a) == 'fillp':
                    return ('fillp',)
                x, y = self.sym(a, st), self.sym(b, st)
                ta, tb = cty(strip_paren(a)), cty(strip_paren(b))
                if ta != tb:
                    raise Unrec('comparison operand types differ')
                return ('cmp', op, ta, x, y)
        # `if (x)`  -> x != 0
        v = self.sym(n0, st)
        return ('nz', v)

    # -- statements: returns a tree  ('if', cond, T, E) | ('ret', status_sv, out)
    def run(self, stmts, st):
        if not stmts:
            # fell off the end of a loop body
            if self.retvar is None:
                raise Unrec('no return')
            return self.leaf(st, st['vars'][self.retvar])
        s, rest = stmts[0], stmts[1:]
        k = s['kind']
        if k == 'CompoundStmt':
            return self.run(kids(s) + rest, st)
        if k == 'NullStmt':
            return self.run(rest, st)
        if k == 'DeclStmt':
            for d in kids(s):
                if d['kind'] != 'VarDecl':
                    raise Unrec('decl')
                init = [c for c in kids(d) if 'Attr' not in c['kind']]
                if init and qt(d) in CTY:
                    v = self.sym(init[0], st)
                    t = CTY[qt(d)]
                    if v[0] == 'const' and v[1] != t:
                        v = ('const', t, conv_const(t, v[1], v[2]))
                    elif self.tyof(v) not in (None, t):
                        v = ('cast', t, v)
                    st['vars'][d['name']] = v
                    st['types'][d['name']] = t
                elif qt(d) in CTY:
                    st['vars'][d['name']] = ('undef',)
                    st['types'][d['name']] = CTY[qt(d)]
                elif qt(d).endswith('*'):
                    # byte cursor: uchar *cp = (uchar *) xp;
                    if init and refname(init[0]) != 'xp':
                        raise Unrec('pointer init')
                    st['ptr'][d['name']] = 0 if init else None
                else:
                    raise Unrec('declaration of type ' + qt(d))
            return self.run(rest, st)
        if k == 'IfStmt':
            parts = kids(s)
            c = self.cond(parts[0], st)
            if c == ('fillp',):
                if len(parts) != 2:
                    raise Unrec('fillp test with else')
                self.do_fill(parts[1], st)
                return self.run(rest, st)
            t_ = self.run([parts[1]] + rest, clone(st))
            e_ = self.run(([parts[2]] if len(parts) > 2 else []) + rest, clone(st))
            return ('if', c, t_, e_)
        if k == 'ReturnStmt':
            if self.retvar is not None:
                raise Unrec('return inside loop body')
            return self.leaf(st, self.sym(kids(s)[0], st))
        if k == 'ContinueStmt':
            if self.retvar is None:
                raise Unrec('continue outside loop')
            return self.leaf(st, st['vars'][self.retvar])
        if k == 'BinaryOperator' and s.get('opcode') == '=':
            lhs, rhs = kids(s)
            nm = refname(lhs)
            if nm is not None:
                if nm in st['ptr']:            # cp = (uchar *) xp;
                    if refname(rhs) != 'xp':
                        raise Unrec('pointer assignment')
                    st['ptr'][nm] = 0
                    return self.run(rest, st)
                if nm not in st['types']:
                    raise Unrec('assignment to ' + nm)
                v = self.sym(rhs, st)
                t = st['types'][nm]
                if v[0] == 'const' and v[1] != t:
                    v = ('const', t, conv_const(t, v[1], v[2]))
                st['vars'][nm] = v
                return self.run(rest, st)
            d = deref_of(lhs)
            if d:
                p, inc = d
                if p == self.dstptr:
                    v = self.sym(rhs, st)
                    st['out'] = ('val', cty(lhs), v)
                    if inc:
                        st['adv_dst'] = st.get('adv_dst', 0) + 1
                    return self.run(rest, st)
                if p in st['ptr'] and st['ptr'][p] is not None:
                    v = self.sym(rhs, st)
                    st['bytes'][st['ptr'][p]] = (cty(lhs), v)
                    if inc:
                        st['ptr'][p] += 1
                    return self.run(rest, st)
            raise Unrec('assignment')
        if k == 'UnaryOperator' and s.get('opcode') == '++':
            nm = refname(kids(s)[0])
            if nm == self.srcptr:
                st['adv_src'] = st.get('adv_src', 0) + 1
            elif nm == self.dstptr:
                st['adv_dst'] = st.get('adv_dst', 0) + 1
            else:
                raise Unrec('increment of ' + str(nm))
            return self.run(rest, st)
        if k == 'CallExpr':
            fn = refname(kids(s)[0])
            args = kids(s)[1:]
            m = re.fullmatch(r'(put|get)_ix_(\w+)', fn or '')
            if m and m.group(1) == self.mode and refname(args[0]) == 'xp':
                a1 = strip(args[1])
                if a1['kind'] == 'UnaryOperator' and a1.get('opcode') == '&':
                    var = refname(kids(a1)[0])
                    if var not in st['types']:
                        raise Unrec('ix arg')
                    if self.mode == 'put':
                        st['out'] = ('val', st['types'][var], st['vars'][var])
                    else:
                        if self.src_ty != st['types'][var]:
                            raise Unrec('ix type of source')
                        st['vars'][var] = ('src',)
                    return self.run(rest, st)
                if refname(a1) == 'ip':
                    st['out'] = ('ident',)
                    return self.run(rest, st)
            if fn in ('swapn2b', 'swapn4b') and [refname(a) for a in args[:2]] == ['xp', 'xp'] and \
                    st.get('rawfill') == int(fn[5]) == tsize(self.xcty) and self.sym(args[2], st) == ('const', 'Longlong', 1):
                st['out'] = ('val', self.xcty, ('fill', None))
                return self.run(rest, st)
            raise Unrec('call ' + str(fn))
        raise Unrec('statement ' + k)

    def do_fill(self, body, st):
        b = body
        while b['kind'] == 'CompoundStmt' and len(kids(b)) == 1:
            b = kids(b)[0]
        if b['kind'] != 'CallExpr' or refname(kids(b)[0]) != 'memcpy':
            raise Unrec('fillp branch')
        dst, srcp, n = kids(b)[1:]
        if refname(srcp) != 'fillp':
            raise Unrec('memcpy source')
        nv = self.sym(n, st)
        d = strip(dst)
        if d['kind'] == 'UnaryOperator' and d.get('opcode') == '&':
            var = refname(kids(d)[0])
            t = st['types'].get(var)
            if t is None or nv[0] != 'const' or nv[2] != tsize(t):
                raise Unrec('fill size')
            old = st['vars'][var]
            st['vars'][var] = ('fill', old if old[0] == 'const' else None)
            return
        nm = refname(d)
        if nm == self.dstptr and self.retvar is not None:       # inline loops: memcpy(xp, fillp, 1)
            if nv[0] != 'const' or nv[2] != 1:
                raise Unrec('fill size')
            st['out'] = ('val', self.xcty, ('fill', None))
            return
        if nm == 'xp' and self.retvar is None and self.mode == 'put':   # memcpy(xp, fillp, 2); swapn2b(xp,xp,1)
            if nv[0] != 'const':
                raise Unrec('fill size')
            st['rawfill'] = nv[2]
            return
        raise Unrec('fill destination')

    def leaf(self, st, status):
        out = st.get('out')
        if out is None and st['bytes']:
            out = ('bytes', dict(st['bytes']))
        return ('ret', status, out, st.get('adv_src', 0), st.get('adv_dst', 0))


def strip_paren(n):
    while n['kind'] == 'ParenExpr':
        n = kids(n)[0]
    return n


def tsize(t):
    return INTBITS[t][0] // 8 if t in INTBITS else (4 if t == 'Float' else 8)


def same_repr(a, b):
    if a in INTBITS and b in INTBITS:
        return INTBITS[a] == INTBITS[b]
    return a == b


def clone(st):
    return dict(vars=dict(st['vars']), types=dict(st['types']), ptr=dict(st['ptr']), bytes=dict(st['bytes']),
                **{k: v for k, v in st.items() if k not in ('vars', 'types', 'ptr', 'bytes')})


def newstate():
    return dict(vars={}, types={}, ptr={}, bytes={})


# ------------------------------------------------------------------ tree -> decision list
def chain_of(v, src_ty):
    """v must be casts applied to the source; returns the list of types"""
    ch = []
    while v[0] == 'cast':
        ch.append(v[1])
        v = v[2]
    if v[0] != 'src':
        raise Unrec('operand is not a conversion of the source')
    ch.reverse()
    return ch


def flatten(tree, ex, status_ok, status_err):
    """tree -> ([tests], default) ; test = dict(op, cmp, chain, k, act)"""
    tests = []
    while tree[0] == 'if':
        _, c, T, E = tree
        alts = []

        def disj(c):
            if c[0] == 'or':
                disj(c[1]); disj(c[2])
            else:
                alts.append(c)
        disj(c)
        if T[0] != 'ret':
            raise Unrec('then-branch is not terminal')
        act = action_of(T, ex, status_ok, status_err)
        if act[0] == 'cast':
            raise Unrec('then-branch converts')
        for a in alts:
            if a[0] != 'cmp':
                raise Unrec('condition form ' + a[0])
            _, op, t, x, y = a
            if y[0] != 'const':
                raise Unrec('comparison with non-constant')
            k = y[2] if y[1] == t else conv_const(t, y[1], y[2])
            tests.append(dict(op=op, cmp=t, chain=chain_of(x, ex.src_ty), k=k, act=act))
        tree = E
    d = action_of(tree, ex, status_ok, status_err)
    if d[0] != 'cast':
        raise Unrec('default path does not convert the source')
    return tests, d


def action_of(ret, ex, status_ok, status_err):
    _, status, out, adv_s, adv_d = ret
    if out is None:
        raise Unrec('path stores nothing')
    if ex.retvar is not None and (adv_s != 1 or adv_d != 1):
        raise Unrec('loop path does not advance both pointers exactly once')
    if status == status_ok:
        err = False
    elif status == status_err:
        err = True
    else:
        raise Unrec('status ' + str(status))
    if out[0] == 'ident':
        if err:
            raise Unrec('identity with error')
        return ('cast', [], None)
    if out[0] != 'val':
        raise Unrec('stored form ' + out[0])
    _, t, v = out
    if v[0] == 'fill':
        if not err:
            raise Unrec('fill without ERANGE')
        d = v[1]
        if d is not None and d[1] != t:
            raise Unrec('fill default type')
        return ('fill', True, (t, d[2]) if d is not None else None)
    if v[0] == 'const':
        k = v[2] if v[1] == t else conv_const(t, v[1], v[2])
        if err:
            return ('fill', False, (t, k))        # get side: default fill constant, no fillp
        return ('store', (t, k))
    ch = chain_of(v, ex.src_ty)
    if ex.tyof(v) != t:
        ch = ch + [t]
    if err:
        raise Unrec('conversion path returns an error')
    return ('cast', ch, t)


def special_bytes(tree, ex, nbytes):
    """put_NC_<X>_schar / _uchar for 2- and 4-byte X: the bytes are written by hand
    (sign bytes 0xff/0x00 resp. zero bytes, then the low byte)"""
    def is_bytes(r, hi):
        if r[0] != 'ret' or r[1] != ('const', 'Int', 0) or r[2] is None or r[2][0] != 'bytes':
            return False
        b = r[2][1]
        if set(b) != set(range(nbytes)):
            return False
        if any(b[i] != ('Uchar', ('const', 'Uchar', hi)) for i in range(nbytes - 1)):
            return False
        lo = b[nbytes - 1]
        return lo[0] == 'Uchar' and lo[1] in (('cast', 'Uchar', ('src',)), ('src',))
    if nbytes not in (2, 4):
        return None
    if is_bytes(tree, 0) and ex.src_ty in ('Uchar', 'Schar'):
        return 'BZext'
    if tree[0] == 'if' and tree[1] == ('nz', ('band', ('cast', 'Int', ('src',)), 0x80)) and \
            is_bytes(tree[2], 0xff) and is_bytes(tree[3], 0) and ex.src_ty == 'Schar':
        return 'BSext'
    return None


# ------------------------------------------------------------------ per function
def norm(s):
    s = re.sub(r'\s+', ' ', s)
    s = re.sub(r'\s*([(){};,*=+\-<>!&|%])\s*', r'\1', s)
    return s.strip()


def analyse_leaf(fn, S, mode, X, I):
    """static ncmpix_{put,get}_NC_X_I -> body dict"""
    body = [c for c in kids(fn) if c['kind'] == 'CompoundStmt']
    if not body:
        raise Unrec('no body')
    params = [c['name'] for c in kids(fn) if c['kind'] == 'ParmVarDecl']
    if params != (['xp', 'ip', 'fillp'] if mode == 'put' else ['xp', 'ip']):
        raise Unrec('parameters')
    if mode == 'put':
        ex = Exec(S, 'put', 'ip', None, ICTY[I])
    else:
        ex = Exec(S, 'get', None, 'ip', XCTY[X])
    ex.xcty = XCTY[X]
    tree = ex.run(kids(body[0]), newstate())
    nb = XSIZE[X]
    sp = special_bytes(tree, ex, nb) if mode == 'put' else None
    if sp:
        return dict(kind=sp, tests=[], casts=[])
    # a leading test followed by the byte pattern (put_NC_USHORT_schar, put_NC_UINT_schar)
    if mode == 'put' and tree[0] == 'if' and tree[2][0] == 'ret' and special_bytes(tree[3], ex, nb):
        tests, _ = flatten(('if', tree[1], tree[2], ('ret', ('const', 'Int', 0), ('ident',), 0, 0)), ex,
                           ('const', 'Int', 0), ('const', 'Int', -60))
        return dict(kind=special_bytes(tree[3], ex, nb), tests=tests, casts=[])
    tests, d = flatten(tree, ex, ('const', 'Int', 0), ('const', 'Int', -60))
    dst = XCTY[X] if mode == 'put' else ICTY[I]
    if d[2] is None:
        if tests:
            raise Unrec('identity with tests')
        if not same_repr(ex.src_ty, dst):
            raise Unrec('identity between different representations')
        return dict(kind='BIdent', tests=[], casts=[])
    if d[2] != dst:
        raise Unrec('stored type %s is not the destination type %s' % (d[2], dst))
    for t in tests:
        for a in (t['act'],):
            if a[0] in ('fill', 'store') and a[-1] is not None and a[-1][0] != dst:
                raise Unrec('action type')
    return dict(kind='BTests', tests=tests, casts=d[1])


LOOP_CALL = re.compile(
    r'^\{(?P<rnd>const MPI_Offset rndup=nelems%(?P<rmod>\d+);)?(?:const )?char\*xp=\((?:const )?char\*\)\*xpp;int status=0;'
    r'for\(;nelems!=0;nelems--,xp\+=(?P<stride>\d+),tp\+\+\)\{(?:const )?int lstatus=(?P<leaf>ncmpix_(?:put|get)_NC_\w+)\((?P<args>xp,tp(?:,fillp)?)\);'
    r'if\(status==0\)status=lstatus;\}'
    r'(?P<pad>if\(rndup!=0\)(?:\{\(void\)memcpy\(xp,nada,\(size_t\)\((?P<padn>\d+)\)\);xp\+=(?P<padn2>\d+);\}|xp\+=(?P<padn3>\d+);))?'
    r'\*xpp=\((?:const )?void\*\)xp;return status;\}$')
SWAPN = re.compile(
    r'^\{swapn(?P<n>[248])b\((?P<a>tp,\*xpp|\*xpp,tp),nelems\);\*xpp=\((?:const )?void\*\)\(\((?:const )?char\*\)\(\*xpp\)\+nelems\*(?P<sz>\d+)\);return 0;\}$')
MEMCPY = re.compile(
    r'^\{(?P<rnd>MPI_Offset rndup=nelems%4;if\(rndup\)rndup=4-rndup;)?\(void\)memcpy\((?P<a>tp,\*xpp|\*xpp,tp),\(size_t\)nelems\);'
    r'\*xpp=\(void\*\)\(\(char\*\)\(\*xpp\)\+nelems(?P<rg>\+rndup)?\);'
    r'(?P<pz>if\(rndup\)\{\(void\)memcpy\(\*xpp,nada,\(size_t\)rndup\);\*xpp=\(void\*\)\(\(char\*\)\(\*xpp\)\+rndup\);\})?return 0;\}$')
INLINE = re.compile(
    r'^\{int status=0;(?P<rnd>MPI_Offset rndup=nelems%4;)?(?P<xt>schar|uchar)\*xp=\((?P=xt)\*\)\(?\*xpp\)?;(?P<rnd2>if\(rndup\)rndup=4-rndup;)?'
    r'while\(nelems--!=0\)(?P<body>\{.*?\})'
    r'(?P<pad>if\(rndup\)\{\(void\)memcpy\(xp,nada,\(size_t\)rndup\);xp\+=rndup;\})?'
    r'\*xpp=\((?:const )?void\*\)(?:xp|\(xp\+rndup\));return status;\}$')


def analyse_fn(name, funcs, S):
    m = re.fullmatch(r'ncmpix_(pad_)?(put|get)n_NC_([A-Z0-9]+)_([a-z]+)', name)
    pad, mode, X, I = bool(m.group(1)), m.group(2), m.group(3), m.group(4)
    ent = dict(name=name, pad=pad, mode=mode, X=X, I=I, src=(ICTY[I] if mode == 'put' else XCTY[X]),
               dst=(XCTY[X] if mode == 'put' else ICTY[I]), loop='LUnrec', kind='BUnrec', tests=[], casts=[], why='')
    try:
        fn = funcs.get(name)
        if fn is None:
            raise Unrec('function not found')
        params = [c['name'] for c in kids(fn) if c['kind'] == 'ParmVarDecl']
        if params != (['xpp', 'nelems', 'tp', 'fillp'] if mode == 'put' else ['xpp', 'nelems', 'tp']):
            raise Unrec('parameters')
        ptypes = [qt(c) for c in kids(fn) if c['kind'] == 'ParmVarDecl']
        pt = S.resolve(ptypes[2].replace('*', '').strip())
        if CTY.get(pt) != ICTY[I]:
            raise Unrec('memory type of the buffer parameter: ' + pt)
        body = [c for c in kids(fn) if c['kind'] == 'CompoundStmt'][0]
        txt = norm(S.span(body))
        mm = SWAPN.match(txt)
        if mm:
            want = 'tp,*xpp' if mode == 'get' else '*xpp,tp'
            if mm.group('a') != want or int(mm.group('n')) != XSIZE[X] or int(mm.group('sz')) != XSIZE[X] \
                    or not same_repr(ICTY[I], XCTY[X]):
                raise Unrec('swapn shape')
            ent.update(loop='LSwap', kind='BIdent')
            return ent
        mm = MEMCPY.match(txt)
        if mm:
            want = 'tp,*xpp' if mode == 'get' else '*xpp,tp'
            if mm.group('a') != want or not same_repr(ICTY[I], XCTY[X]) or XSIZE[X] != 1:
                raise Unrec('memcpy shape')
            if bool(mm.group('rnd')) != pad:
                raise Unrec('padding of memcpy')
            if pad and not (mm.group('rg') or mm.group('pz')):
                raise Unrec('padding of memcpy')
            ent.update(loop='LMemcpy', kind='BIdent')
            return ent
        mm = LOOP_CALL.match(txt)
        if mm:
            if int(mm.group('stride')) != XSIZE[X]:
                raise Unrec('stride')
            if mm.group('leaf') != 'ncmpix_%s_NC_%s_%s' % (mode, X, I):
                raise Unrec('calls ' + mm.group('leaf'))
            if mm.group('args') != ('xp,tp,fillp' if mode == 'put' else 'xp,tp'):
                raise Unrec('leaf arguments')
            if bool(mm.group('rnd')) != pad or bool(mm.group('pad')) != pad:
                raise Unrec('padding')
            leaf = funcs.get(mm.group('leaf'))
            if leaf is None:
                raise Unrec('leaf not found')
            ent.update(analyse_leaf(leaf, S, mode, X, I))
            ent['loop'] = 'LCall'
            return ent
        mm = INLINE.match(txt)
        if mm:
            if CTY[{'schar': 'signed char', 'uchar': 'unsigned char'}[mm.group('xt')]] != XCTY[X]:
                raise Unrec('external element type')
            if bool(mm.group('rnd')) != pad or bool(mm.group('rnd2')) != pad:
                raise Unrec('padding')
            if pad and mode == 'put' and not mm.group('pad'):
                raise Unrec('padding')
            w = [c for c in kids(body) if c['kind'] == 'WhileStmt']
            if len(w) != 1:
                raise Unrec('loop')
            lb = kids(w[0])[1]
            if mode == 'put':
                ex = Exec(S, 'put', 'tp', 'xp', ICTY[I], retvar='status')
            else:
                ex = Exec(S, 'get', 'xp', 'tp', XCTY[X], retvar='status')
            ex.xcty = XCTY[X]
            st = newstate()
            st['vars']['status'] = ('prev',)
            st['types']['status'] = 'Int'
            tree = ex.run([lb], st)
            tests, d = flatten(tree, ex, ('prev',), ('const', 'Int', -60))
            if d[2] != ent['dst']:
                raise Unrec('stored type')
            ent.update(loop='LInline', kind='BTests', tests=tests, casts=d[1])
            return ent
        raise Unrec('function shape: ' + txt[:160])
    except Unrec as e:
        ent.update(loop='LUnrec', kind='BUnrec', tests=[], casts=[], why=str(e))
        return ent
    except (KeyError, IndexError, ValueError, TypeError) as e:
        ent.update(loop='LUnrec', kind='BUnrec', tests=[], casts=[], why='translator exception %r' % (e,))
        return ent


def load_ast(libdir):
    src = os.path.join(libdir, 'gen', 'ncx.i')
    text = open(src, errors='replace').read()
    # glibc headers preprocessed for gcc use the 2-argument form of attribute malloc, unknown to clang 14
    text = re.sub(r'__attribute__ \(\(__malloc__ \([A-Za-z_0-9]+, \d+\)\)\)', '', text)
    with tempfile.TemporaryDirectory(prefix='trncx.', dir=os.environ.get('TMPDIR', '/var/tmp')) as d:
        p = os.path.join(d, 'ncx_clean.c')
        with open(p, 'w') as f:
            f.write(text)
        r = subprocess.run(['clang', '-x', 'c', '-fsyntax-only', '-w', '-Xclang', '-ast-dump=json',
                            '-Xclang', '-ast-dump-filter=ncmpix_', p], stdout=subprocess.PIPE, stderr=subprocess.PIPE)
        err = r.stderr.decode(errors='replace')
        if r.returncode != 0 or 'error:' in err:
            raise SystemExit('tr_ncx: clang could not parse ncx.i:\n' + err[-2000:])
        out = r.stdout.decode()
    dec = json.JSONDecoder()
    i, funcs = 0, {}
    while True:
        while i < len(out) and out[i].isspace():
            i += 1
        if i >= len(out):
            break
        o, i = dec.raw_decode(out, i)
        if o.get('kind') == 'FunctionDecl' and any(c.get('kind') == 'CompoundStmt' for c in kids(o)):
            funcs[o['name']] = o
    return funcs, Src(text)


def sizes_ok(libdir):
    cfg = open(os.path.join(libdir, 'include', 'config.h')).read()
    def val(n):
        m = re.search(r'#define\s+%s\s+(\d+)' % n, cfg)
        return int(m.group(1)) if m else None
    return (val('SIZEOF_LONG') == 8 and val('SIZEOF_INT') == 4 and val('SIZEOF_SHORT') == 2 and
            val('SIZEOF_LONG_LONG') == 8)


# byte-order helpers of ncx.c: their bodies are not interpreted (the value-level model does not see
# bytes); they are accepted only when textually identical (modulo white space) to the known
# big-endian encoders/decoders for a little-endian LP64 host.  A changed helper makes every
# function that uses it unrecognised; the helpers themselves are exercised by the correspondence run.
HELPERS = {
    'swapn2b': '94e9d76f730beb7c', 'swap4b': '741c6a67c673963b', 'swapn4b': '2455fa3ebc8c45fc',
    'swap8b': '958cc8c7e770f4d9', 'swapn8b': '96b9b29b5d2d8be3',
    'get_ix_short': '02f536f31b716ba5', 'put_ix_short': '4f6d81160124ed7e',
    'get_ix_ushort': '8df389cd8ac8321d', 'put_ix_ushort': 'abca9d3548727b7a',
    'get_ix_int': 'b77e9e428e385229', 'put_ix_int': 'e78f9cab537e2ee0',
    'get_ix_uint': '0b43c945f50ea688', 'put_ix_uint': '9d181a73dc366719',
    'get_ix_float': 'd21f387248019826', 'put_ix_float': '6942be25c672915b',
    'get_ix_double': '2309a12d99c7f575', 'put_ix_double': '937ce3cc07714c12',
    'get_ix_int64': '9bb1668b5036085c', 'put_ix_int64': 'f4e7f25459004e25',
    'get_ix_uint64': '2b5953b40cd86b3c', 'put_ix_uint64': 'eaa4e0416f4afca1',
}
HELPER_DEPS = {'get_ix_float': ['swap4b'], 'put_ix_float': ['swap4b'], 'get_ix_double': ['swap8b'], 'put_ix_double': ['swap8b']}
IXNAME = dict(SHORT='short', USHORT='ushort', INT='int', UINT='uint', FLOAT='float', DOUBLE='double', INT64='int64', UINT64='uint64')


def helpers_ok(text):
    import hashlib
    ok = set()
    for m in re.finditer(r'^static void\n((?:get_ix_|put_ix_|swapn?\d+b)\w*)\(([^)]*)\)\n\{\n(.*?)\n\}\n', text, re.S | re.M):
        body = norm(m.group(2) + '{' + m.group(3) + '}')
        if HELPERS.get(m.group(1)) == hashlib.sha1(body.encode()).hexdigest()[:16]:
            ok.add(m.group(1))
    return {h for h in ok if all(d in ok for d in HELPER_DEPS.get(h, []))}


def build_table(libdir):
    funcs, S = load_ast(libdir)
    ok = sizes_ok(libdir)
    hok = helpers_ok(S.text.decode())
    table = []
    for pad in (False, True):
        for mode in ('put', 'get'):
            for X in (PADX if pad else XTYPES):
                for I in ITYPES:
                    name = 'ncmpix_%s%sn_NC_%s_%s' % ('pad_' if pad else '', mode, X, I)
                    e = analyse_fn(name, funcs, S)
                    if not ok:
                        e.update(loop='LUnrec', kind='BUnrec', tests=[], casts=[], why='type sizes are not LP64')
                    need = []
                    if e['loop'] == 'LCall':
                        need = ['%s_ix_%s' % (mode, IXNAME[X])]
                        if e['kind'] in ('BSext', 'BZext') and any(t['act'][0] == 'fill' for t in e['tests']):
                            need.append('swapn%db' % XSIZE[X])
                    elif e['loop'] == 'LSwap':
                        need = ['swapn%db' % XSIZE[X]]
                    miss = [h for h in need if h not in hok]
                    if miss:
                        e.update(loop='LUnrec', kind='BUnrec', tests=[], casts=[], why='byte-order helper changed: ' + ','.join(miss))
                    table.append(e)
    return table


# ------------------------------------------------------------------ Coq output
PREAMBLE = """(* GENERATED by tools/tr_ncx.py from <libdir>/gen/ncx.i (clang AST of the preprocessed, m4-generated
   ncx.c of the tree under verification).  Do not edit.
   One record per function ncmpix_[pad_]{putn,getn}_NC_<X>_<I>:
     loop shape, and for ONE element the decision list of the range tests the code performs
     (operator, comparison type after the usual arithmetic conversions, conversions applied to
     the source operand, constant AS CONVERTED to the comparison type, action), then the cast
     chain of the in-range path.  BUnrec/LUnrec = function not understood (fail closed).
   The type declarations below are fixed text; only `ncx_table` depends on the source. *)
From Coq Require Import ZArith List.
Import ListNotations.
Local Open Scope Z_scope.

(* C arithmetic types (LP64) *)
Inductive cty := Schar | Uchar | Short | Ushort | Int | Uint | Long | Ulong | Longlong | Ulonglong
               | Float | Double.
(* numeric external (file) types *)
Inductive xty := XBYTE | XUBYTE | XSHORT | XUSHORT | XINT | XUINT | XFLOAT | XDOUBLE | XINT64 | XUINT64.
Inductive cop := OGt | OLt | OGe | OLe | OEq | ONe.
(* constants: exact integer, or finite binary float (-1)^neg * m * 2^e *)
Inductive kconst := KI (z : Z) | KF (neg : bool) (m e : Z).
(* AFill p d : status NC_ERANGE; stored := *fillp if p and fillp != NULL, else d (None: nothing stored)
   AStore k  : status NC_NOERR; stored := k *)
Inductive cact := AFill (from_fillp : bool) (dflt : option kconst) | AStore (k : kconst).
Record ctest := mkT { t_op : cop; t_cmp : cty; t_chain : list cty; t_k : kconst; t_act : cact }.
Inductive cbody :=
  | BIdent                                   (* element copied / byte-swapped unchanged *)
  | BTests (ts : list ctest) (casts : list cty)  (* first test that holds decides; else cast chain *)
  | BSext (ts : list ctest)                  (* tests, else bytes: sign byte(s) 0xff/0x00 by (v & 0x80), low byte (uchar)v *)
  | BZext (ts : list ctest)                  (* tests, else bytes: zero byte(s), low byte (uchar)v *)
  | BUnrec.
Inductive cloop := LMemcpy | LSwap | LCall | LInline | LUnrec.
Inductive cdir := Put | Get.
Record cfun := mkF { f_dir : cdir; f_pad : bool; f_x : xty; f_i : cty; f_loop : cloop; f_body : cbody }.

(* request-level code around the conversion (fixed declarations; the three definitions at the end of the
   file are translated from ncmpio_wait.c, ncmpio_varn.c and dispatchers/var_getput.c as built):
   req_commit, loop over the completed GET requests, after err = ncmpio_unpack_xbuf(...):
     GateOwn    : if (err) { if (req->status && *req->status == NC_NOERR) *req->status = err;
                             if (status == NC_NOERR) status = err; }
     GateGlobal : if (err && status == NC_NOERR) { if (req->status) *req->status = err; status = err; }
   ncmpio_{put,get}_varn after err = ncmpio_i{put,get}_varn(...):
     VarnEarlyAny   : if (err != NC_NOERR && independent) return err;        (the queued request is not waited for)
     VarnEarlyFatal : if (err != NC_NOERR && err != NC_ERANGE && independent) return err;
   ncmpi_m{put,get}_var*: loop posting one request per variable:
     MputBreakAny : if (err != NC_NOERR) break;  then wait for the i requests posted BEFORE the failing one
     MputContinue : if (err == NC_ERANGE) { erange = err; err = NC_NOERR; } if (err != NC_NOERR) break;  ... wait for
                    the i posted requests;  if (err == NC_NOERR) err = erange; *)
Inductive gate_kind := GateOwn | GateGlobal | GateUnrec.
Inductive varn_kind := VarnEarlyAny | VarnEarlyFatal | VarnUnrec.
Inductive mput_kind := MputBreakAny | MputContinue | MputUnrec.
"""


def strip_comments(t):
    return re.sub(r'/\*.*?\*/', '', t, flags=re.S)


def request_level(libdir):
    """(gate, varn, mput) constructor names from the sources as built; unknown text -> *Unrec"""
    G = os.path.join(libdir, 'gen', 'src')
    def rd(p):
        try:
            return norm(strip_comments(open(os.path.join(G, p), errors='replace').read()))
        except OSError:
            return ''
    w = rd('drivers/ncmpio/ncmpio_wait.c')
    gate = 'GateUnrec'
    m = re.findall(r'lead_req->buf,lead_req->xbuf\);(if\(err.*?)if\(fIsSet\(lead_req->flag,NC_REQ_XBUF_TO_BE_FREED\)\)', w)
    if len(m) == 1:
        blk = m[0]
        if blk == 'if(err!=NC_NOERR){if(lead_req->status!=NULL&&*lead_req->status==NC_NOERR)*lead_req->status=err;if(status==NC_NOERR)status=err;}':
            gate = 'GateOwn'
        elif blk == 'if(err!=NC_NOERR&&status==NC_NOERR){if(lead_req->status!=NULL)*lead_req->status=err;status=err;}':
            gate = 'GateGlobal'
    # the status words are reset by extract_reqs and the get queue is kept in posting order
    if 'statuses[i]=NC_NOERR;' not in w:
        gate = 'GateUnrec'
    v = rd('drivers/ncmpio/ncmpio_varn.c')
    a = len(re.findall(r'if\(err!=NC_NOERR&&fIsSet\(reqMode,NC_REQ_INDEP\)\)return err;\}status=ncmpio_wait\(ncdp,1,&reqid,NULL,reqMode\);return\(err!=NC_NOERR\)\?\s*err\s*:\s*status;', v))
    b = len(re.findall(r'if\(err!=NC_NOERR&&err!=NC_ERANGE&&fIsSet\(reqMode,NC_REQ_INDEP\)\)return err;\}status=ncmpio_wait\(ncdp,1,&reqid,NULL,reqMode\);return\(err!=NC_NOERR\)\?\s*err\s*:\s*status;', v))
    varn = 'VarnEarlyAny' if (a, b) == (2, 0) else 'VarnEarlyFatal' if (a, b) == (0, 2) else 'VarnUnrec'
    d = rd('dispatchers/var_getput.c')
    posts = len(re.findall(r'pncp->driver->i(?:put|get)_var\(pncp->ncp,varids\[i\]', d))
    brk = len(re.findall(r'&reqs\[i\],reqMode\);(?:NCI_Free\((?:start|count)\);)?if\(err!=NC_NOERR\)break;\}status=pncp->driver->wait\(pncp->ncp,i,reqs,NULL,reqMode\);NCI_Free\(reqs\);return\(err!=NC_NOERR\)\?\s*err\s*:\s*status;', d))
    cont = len(re.findall(r'&reqs\[i\],reqMode\);(?:NCI_Free\((?:start|count)\);)?if\(err==NC_ERANGE\)\{erange=err;err=NC_NOERR;\}if\(err!=NC_NOERR\)break;\}status=pncp->driver->wait\(pncp->ncp,i,reqs,NULL,reqMode\);NCI_Free\(reqs\);if\(err==NC_NOERR\)err=erange;return\(err!=NC_NOERR\)\?\s*err\s*:\s*status;', d))
    inits = len(re.findall(r'int i,reqMode=0,status=NC_NOERR,err,erange=NC_NOERR,\*reqs;', d))
    mput = 'MputBreakAny' if posts > 0 and posts == brk and cont == 0 else \
           'MputContinue' if posts > 0 and posts == cont == inits and brk == 0 else 'MputUnrec'
    return gate, varn, mput

def zs(z):
    return '(%d)' % z if z < 0 else '%d' % z


def kconst(t, v):
    if t in INTBITS:
        return '(KI %s)' % zs(v)
    neg, m, e = fdecomp(t, v)
    return '(KF %s %d %s)' % ('true' if neg else 'false', m, zs(e))


def coq_entry(e):
    ops = {'>': 'OGt', '<': 'OLt', '>=': 'OGe', '<=': 'OLe', '==': 'OEq', '!=': 'ONe'}
    ts = []
    for t in e['tests']:
        a = t['act']
        if a[0] == 'fill':
            act = '(AFill %s %s)' % ('true' if a[1] else 'false',
                                      ('(Some %s)' % kconst(*a[2])) if a[2] is not None else 'None')
        else:
            act = '(AStore %s)' % kconst(*a[1])
        ts.append('mkT %s %s [%s] %s %s' % (ops[t['op']], t['cmp'], '; '.join(t['chain']), kconst(t['cmp'], t['k']), act))
    if e['kind'] == 'BUnrec':
        body = 'BUnrec'
    elif e['kind'] == 'BIdent':
        body = 'BIdent'
    elif e['kind'] in ('BSext', 'BZext'):
        body = '(%s [%s])' % (e['kind'], '; '.join(ts))
    else:
        body = '(BTests [%s] [%s])' % (';\n      '.join(ts), '; '.join(e['casts']))
    return 'mkF %s %s X%s %s %s\n    %s' % ('Put' if e['mode'] == 'put' else 'Get', 'true' if e['pad'] else 'false',
                                            e['X'], ICTY[e['I']], e['loop'], body)


def emit(table, out, rl=('GateUnrec', 'VarnUnrec', 'MputUnrec')):
    L = [PREAMBLE]
    for e in table:
        if e['why']:
            L.append('(* %s: UNRECOGNISED: %s *)' % (e['name'], e['why'].replace('*)', '* )')[:300]))
    L.append('Definition ncx_table : list cfun := [')
    L.append(';\n'.join('  ' + coq_entry(e) for e in table))
    L.append('].')
    L.append('')
    L.append('Definition ncx_unrecognised : nat := %d.' % sum(1 for e in table if e['kind'] == 'BUnrec'))
    L.append('')
    L.append('Definition req_gate : gate_kind := %s.' % rl[0])
    L.append('Definition varn_gate : varn_kind := %s.' % rl[1])
    L.append('Definition mput_gate : mput_kind := %s.' % rl[2])
    open(out, 'w').write('\n'.join(L) + '\n')


if __name__ == '__main__':
    lib, out = sys.argv[1], sys.argv[2]
    tb = build_table(lib)
    rl = request_level(lib)
    emit(tb, out, rl)
    print('tr_ncx: request level: %s %s %s' % rl)
    bad = [e for e in tb if e['kind'] == 'BUnrec']
    print('tr_ncx: %d functions, %d unrecognised' % (len(tb), len(bad)))
    for e in bad[:20]:
        print('  UNRECOGNISED %s: %s' % (e['name'], e['why'][:200]))
