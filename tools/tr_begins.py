#!/usr/bin/env python3
"""tr_begins.py <libdir> <out.v>: coq/Gen_begins.v = Gallina rendering of NC_begins
(src/drivers/ncmpio/ncmpio_enddef.c as built), by tools/tr_cfun.py (target begins)."""
import sys, os
sys.path.insert(0, os.path.dirname(os.path.abspath(__file__)))
import tr_cfun
sys.exit(tr_cfun.main(sys.argv[1], sys.argv[2], 'begins'))
