#!/usr/bin/env python3
"""mkprops.py <Cxx> <spec-file>: assemble coq/Properties_<Cxx>.v from proved lemmas.
spec file lines:  `import Module`  |  `thm <theorem_name> <lemma_name>`  |  `# comment text`
The statement of each theorem is the type Coq prints for the lemma (Check), so the file states
each property in full and closes it by `exact lemma`."""
import sys, subprocess, re, os
pid, spec = sys.argv[1], sys.argv[2]
imports, items, header = [], [], []
for l in open(spec):
    l = l.rstrip('\n')
    if l.startswith('import '): imports.append(l.split()[1])
    elif l.startswith('thm '): _, t, lem = l.split(); items.append((t, lem, []))
    elif l.startswith('#'):
        (items[-1][2] if items else header).append(l[1:].strip())
pre = 'From Coq Require Import ZArith List.\n' + ''.join('From Pnc Require Import %s.\n' % m for m in imports) + 'Set Printing Width 100.\nSet Printing Depth 100000.\n'
out = ['(* Properties_%s.v — statements only: each property theorem is stated in full and closed by' % pid,
       '   `exact <lemma>`; the lemmas live in the Proofs_*.v files.  Assembled by tools/mkprops.py. *)']
out += ['(* %s *)' % h for h in header]
out.append(pre)
for t, lem, doc in items:
    q = pre + 'Check @%s.\n' % lem
    r = subprocess.run(['coqtop', '-Q', '.', 'Pnc', '-w', '-all', '-quiet'], input=q.encode(), cwd='/verif/coq',
                       stdout=subprocess.PIPE, stderr=subprocess.STDOUT).stdout.decode()
    m = re.search(r'@?%s\s*\n?\s*:\s*(.*?)\n\s*\n' % re.escape(lem), r + '\n\n', re.S)
    if not m:
        print('cannot get statement of', lem, r[-500:]); sys.exit(1)
    stmt = m.group(1).rstrip()
    stmt = re.sub(r'\n?Coq < .*$', '', stmt, flags=re.S).rstrip()
    for d in doc: out.append('(* %s *)' % d)
    out.append('Theorem %s :\n  %s.\nProof. exact @%s. Qed.\nPrint Assumptions %s.\n' % (t, stmt.replace('\n', '\n  '), lem, t))
open('/verif/coq/Properties_%s.v' % pid, 'w').write('\n'.join(out))
print('wrote Properties_%s.v with %d theorems' % (pid, len(items)))
