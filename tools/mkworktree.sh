#!/bin/bash
# mkworktree.sh <dir>: scratch git worktree of /repo HEAD with /repo's (untracked) build
# infrastructure and objects copied in, so that `make -C src` / `make check` work there
D=$1
git -C /repo worktree add -f --detach "$D" HEAD >/dev/null 2>&1 || exit 1
rsync -a --exclude .git /repo/ "$D"/ || exit 1
cd "$D" && find . -name '*.trs' -delete && git status --short | grep -v '^??' | head -3
make -C src -j8 >/dev/null 2>&1; ls -la src/libs/.libs/libpnetcdf.a
