#!/usr/bin/env python3
"""c04_atthist.py — attribute-management histories of VALID programs for checks/C19.py (run on the
ASan+UBSan build through the general script driver harness/pnc_impl.c, language harness/SCRIPT.md).
Every history is a script plus, per script line, what a correct library must log:
  * put_att of every external type, then OVERWRITE by put_att / copy_att (same file variable->variable,
    variable->global, file->file) with every (old type, new type) pair and fewer / equal / more
    elements, in define mode and — where legal (new padded size <= old padded size) — in data mode;
  * rename_att to longer / shorter names, del_att in the middle of the attribute list;
  * random mixed histories over two files, two variables + global, 1-2 ranks;
  then enddef / close / reopen and read everything back (type, length, value).
Expectations come from a small dictionary model of 'name -> (type, values)' kept by the builder."""
import struct

XSZ = {1: 1, 2: 1, 3: 2, 4: 4, 5: 4, 6: 8, 7: 1, 8: 2, 9: 4, 10: 8, 11: 8}
PACK = {1: 'b', 2: 'B', 3: 'h', 4: 'i', 5: 'f', 6: 'd', 7: 'B', 8: 'H', 9: 'I', 10: 'q', 11: 'Q'}


def hx(b):
    return b.hex() if b else '-'


def val_hex(t, vals):
    """what get_att logs: the value read with the natural C type of t, little-endian memory bytes"""
    return hx(b''.join(struct.pack('<' + PACK[t], float(v) if t in (5, 6) else v) for v in vals))


def padded(t, n):
    return (n * XSZ[t] + 3) // 4 * 4


class Hist:
    def __init__(self, np_=1):
        self.np = np_
        self.lines = ['nprocs %d' % np_]
        self.exp = {}          # line number (1-based) -> expected tokens after op: [rc] or [rc, type, n, hex]
        self.state = {}        # (file, varid, name bytes) -> (type, vals)
        self.kind = {}         # line number -> short description of the step (for keys / replay)

    def emit(self, text, exp=None, kind=None):
        self.lines.append('* ' + text)
        n = len(self.lines)
        if exp is not None:
            self.exp[n] = exp
        if kind:
            self.kind[n] = kind
        return n

    def put(self, f, v, name, t, vals, kind='put_att'):
        self.emit('put_att %d %d %s %d %d %s' % (f, v, hx(name), t, len(vals), ' '.join(map(str, vals))), ['0'], kind)
        self.state[(f, v, name)] = (t, list(vals))

    def copy(self, f, v, name, f2, v2, kind='copy_att'):
        self.emit('copy_att %d %d %s %d %d' % (f, v, hx(name), f2, v2), ['0'], kind)
        self.state[(f2, v2, name)] = self.state[(f, v, name)]

    def rename(self, f, v, name, new, kind='rename_att'):
        self.emit('rename_att %d %d %s %s' % (f, v, hx(name), hx(new)), ['0'], kind)
        self.state[(f, v, new)] = self.state.pop((f, v, name))

    def delete(self, f, v, name, kind='del_att'):
        self.emit('del_att %d %d %s' % (f, v, hx(name)), ['0'], kind)
        del self.state[(f, v, name)]

    def get(self, f, v, name, kind='get_att'):
        t, vals = self.state[(f, v, name)]
        self.emit('get_att %d %d %s' % (f, v, hx(name)), ['0', str(t), str(len(vals)), val_hex(t, vals)], kind)

    def get_all(self, files, kind):
        for (f, v, name) in sorted(self.state):
            if f in files:
                self.get(f, v, name, kind)

    def text(self):
        return '\n'.join(self.lines) + '\n'


def vals_for(t, n, seed):
    return [1 + (seed * 7 + i * 3) % 90 for i in range(n)]


def setup(h, f, fmt, nvars=2):
    h.emit('create %d %d 1' % (f, fmt), None)
    h.emit('def_dim %d 78 4' % f, None)
    for i in range(nvars):
        h.emit('def_var %d %s %d 1 0' % (f, hx(b'v%d' % i), 4 if i == 0 else 6), ['0', str(i)])


def overwrite_history(fmt, op, mode):
    """op: put | copy_vv | copy_vg | copy_ff ; mode: def | data.  Every (old type, new type) pair x
    new element count 4 / 8 / 9 against an old count of 8"""
    types = list(range(1, 12 if fmt == 5 else 7))
    h = Hist()
    setup(h, 0, fmt)
    if op == 'copy_ff':
        setup(h, 1, fmt)
    sf, sv = 0, 0                                   # source of copies: variable 0 of file 0
    df, dv = {'put': (0, 1), 'copy_vv': (0, 1), 'copy_vg': (0, -1), 'copy_ff': (1, 1)}[op]
    plan = []
    k = 0
    for to in types:
        for tn in types:
            for nn in (4, 8, 9):
                if mode == 'data' and padded(tn, nn) > padded(to, 8):
                    continue                        # growing an attribute needs define mode
                k += 1
                plan.append((b'a%03d' % k, to, tn, nn, k))
    for name, to, tn, nn, k in plan:
        h.put(df, dv, name, to, vals_for(to, 8, k), 'put_att(old)')
        if op != 'put':
            h.put(sf, sv, name, tn, vals_for(tn, nn, k + 1), 'put_att(source)')
    if mode == 'data':
        h.emit('enddef 0', ['0'])
        if op == 'copy_ff':
            h.emit('enddef 1', ['0'])
    for name, to, tn, nn, k in plan:
        rel = 'wider' if XSZ[tn] > XSZ[to] else 'narrower' if XSZ[tn] < XSZ[to] else 'same-width'
        cnt = 'fewer' if nn < 8 else 'equal' if nn == 8 else 'more'
        what = '%s:%s:overwrite-%s-%s' % (op, mode, rel, cnt)
        if op == 'put':
            h.put(df, dv, name, tn, vals_for(tn, nn, k + 1), what)
        else:
            h.copy(sf, sv, name, df, dv, what)
    if mode == 'def':
        h.emit('enddef 0', ['0'])
        if op == 'copy_ff':
            h.emit('enddef 1', ['0'])
    files = (0, 1) if op == 'copy_ff' else (0,)
    h.get_all(files, 'get_att(before close)')
    for f in files:
        h.emit('close %d' % f, ['0'])
    for f in files:
        h.emit('open %d 0' % f, None)
    h.get_all(files, 'get_att(after reopen)')
    for f in files:
        h.emit('inq %d' % f, None)
        h.emit('close %d' % f, ['0'])
    return h


def rename_del_history(fmt, mode, np_=1):
    """rename to longer/shorter names, delete in the middle, on a variable and on NC_GLOBAL"""
    types = list(range(1, 12 if fmt == 5 else 7))
    h = Hist(np_)
    setup(h, 0, fmt)
    names = []
    for v in (-1, 0, 1):
        for i, t in enumerate(types + types[:3]):
            nm = (b'attribute_number_%02d_of_%d' % (i, v + 1)) if i % 2 else (b'n%02d' % i)
            h.put(0, v, nm, t, vals_for(t, 1 + (i * 5) % 11, i + v), 'put_att')
            names.append((v, nm, i))
    if mode == 'data':
        h.emit('enddef 0', ['0'])
    for v, nm, i in names:
        if i % 3 == 0:
            if len(nm) > 6:
                h.rename(0, v, nm, nm[:5] + b'%d' % (i % 10), 'rename_att:%s:shorter' % mode)
            elif mode == 'def':
                h.rename(0, v, nm, nm + b'_renamed_to_a_much_longer_name_' + b'x' * (i * 7 % 60), 'rename_att:def:longer')
            else:
                h.rename(0, v, nm, nm[:1] + b'Z' + nm[2:], 'rename_att:data:same-length')
    if mode == 'data':
        h.emit('redef 0', ['0'])
    for (f, v, nm) in sorted(h.state):
        if (len(nm) + v) % 4 == 1:
            h.delete(0, v, nm, 'del_att:middle')
    # re-create some deleted names with another type, overwrite some survivors
    for j, (f, v, nm) in enumerate(sorted(h.state)):
        if j % 5 == 0:
            t = types[(j * 3) % len(types)]
            h.put(0, v, nm, t, vals_for(t, 2 + j % 9, j), 'put_att:after-delete')
    h.emit('enddef 0', ['0'])
    h.get_all((0,), 'get_att(before close)')
    h.emit('close 0', ['0'])
    h.emit('open 0 0', None)
    h.get_all((0,), 'get_att(after reopen)')
    h.emit('inq 0', None)
    h.emit('close 0', ['0'])
    return h


def random_history(rng, np_=1):
    """random mixed history over two files x (global, two variables); the builder's dictionary is the oracle"""
    fmt = rng.choice([1, 2, 5])
    types = list(range(1, 12 if fmt == 5 else 7))
    h = Hist(np_)
    setup(h, 0, fmt)
    setup(h, 1, rng.choice([1, 2, 5]) if fmt != 5 else 5)      # file 1 must accept file 0's types
    indef = {0: True, 1: True}
    pool = [b'x', b'yy', b'zzz', b'long_attribute_name', b'q1', b'units', b'_FillValueX']
    for step in range(rng.range(30, 80)):
        c = rng.below(100)
        f = rng.below(2)
        v = rng.choice([-1, 0, 1])
        if c < 35:
            nm = rng.choice(pool)
            t = rng.choice(types)
            n = rng.range(1, 12)
            old = h.state.get((f, v, nm))
            if not indef[f] and (old is None or padded(t, n) > padded(old[0], len(old[1]))):
                h.emit('redef %d' % f, ['0']); indef[f] = True
            h.put(f, v, nm, t, vals_for(t, n, step), 'put_att:random')
        elif c < 60 and h.state:
            (sf, sv, nm) = rng.choice(sorted(h.state))
            df, dv = rng.below(2), rng.choice([-1, 0, 1])
            if (df, dv) == (sf, sv):
                continue
            src = h.state[(sf, sv, nm)]
            old = h.state.get((df, dv, nm))
            if not indef[df] and (old is None or padded(src[0], len(src[1])) > padded(old[0], len(old[1]))):
                h.emit('redef %d' % df, ['0']); indef[df] = True
            h.copy(sf, sv, nm, df, dv, 'copy_att:random')
        elif c < 72 and h.state:
            (f2, v2, nm) = rng.choice(sorted(h.state))
            new = rng.choice(pool) + b'%d' % rng.below(50)
            if (f2, v2, new) in h.state:
                continue
            if not indef[f2] and len(new) > len(nm):
                h.emit('redef %d' % f2, ['0']); indef[f2] = True
            h.rename(f2, v2, nm, new, 'rename_att:random')
        elif c < 82 and h.state:
            (f2, v2, nm) = rng.choice(sorted(h.state))
            if not indef[f2]:
                h.emit('redef %d' % f2, ['0']); indef[f2] = True
            h.delete(f2, v2, nm, 'del_att:random')
        elif c < 92:
            if indef[f]:
                h.emit('enddef %d' % f, ['0']); indef[f] = False
            else:
                h.emit('redef %d' % f, ['0']); indef[f] = True
        elif h.state:
            (f2, v2, nm) = rng.choice(sorted(h.state))
            h.get(f2, v2, nm, 'get_att:random')
    for f in (0, 1):
        if indef[f]:
            h.emit('enddef %d' % f, ['0'])
    h.get_all((0, 1), 'get_att(before close)')
    for f in (0, 1):
        h.emit('close %d' % f, ['0'])
    for f in (0, 1):
        h.emit('open %d 0' % f, None)
    h.get_all((0, 1), 'get_att(after reopen)')
    for f in (0, 1):
        h.emit('inq %d' % f, None)
        h.emit('close %d' % f, ['0'])
    return h


def family(rng, thorough):
    """-> list of (tag, Hist)"""
    out = []
    for fmt in ((5, 1, 2) if thorough else (5, 1)):
        for op in ('put', 'copy_vv', 'copy_vg', 'copy_ff'):
            for mode in ('def', 'data'):
                out.append(('ow_%d_%s_%s' % (fmt, op, mode), overwrite_history(fmt, op, mode)))
        for mode in ('def', 'data'):
            out.append(('rn_%d_%s' % (fmt, mode), rename_del_history(fmt, mode, 1 if fmt == 5 else 2)))
    for k in range(120 if thorough else 16):
        out.append(('rnd_%d' % k, random_history(rng.fork('atthist-%d' % k), 1 + k % 2)))
    return out


def judge(h, impl_log):
    """impl_log: {(line, rank): tokens}.  -> list of (line, rank, what, expected, got)"""
    bad = []
    for ln, exp in sorted(h.exp.items()):
        for r in range(h.np):
            got = impl_log.get((ln, r))
            if got is None:
                bad.append((ln, r, 'line not executed', exp, None)); continue
            g = got[1:1 + len(exp)]
            if g != exp:
                bad.append((ln, r, 'rc' if g[:1] != exp[:1] else 'value', exp, g))
    return bad
