#!/bin/bash
# Run the repository's own test suite with the hook guard OFF on a scratch copy of /repo's
# working tree and compare the PASS set with BASELINE.json.stable_pass.
REPO=${PNC_REPO:-/repo}
S=$(mktemp -d "${TMPDIR:-/var/tmp}/pncbase.XXXXXX")
trap 'rm -rf "$S"' EXIT
rsync -a --exclude .git "$REPO"/ "$S"/ || exit 2
cd "$S" || exit 2
find . -name '*.trs' -delete
make -k check -j8 > "$S/check.log" 2>&1
python3 - "$S" <<'PY'
import sys,os,json,re
root=sys.argv[1]
res={}
for d,_,fs in os.walk(root):
    for f in fs:
        if f.endswith('.trs'):
            p=os.path.join(d,f)
            txt=open(p,errors='replace').read()
            m=re.search(r':test-result:\s*(\w+)',txt)
            name=os.path.relpath(p,root)[:-4]
            res[name]=m.group(1) if m else '?'
base=json.load(open('/root/.vp/BASELINE.json'))['stable_pass'] if os.path.exists('/root/.vp/BASELINE.json') else []
bad=[b for b in base if res.get(b)!='PASS']
print("results: %d PASS, %d other"%(sum(1 for v in res.values() if v=='PASS'),sum(1 for v in res.values() if v!='PASS')))
if bad:
    print("baseline tests not passing:",bad); sys.exit(1)
print("baseline_off OK: all %d stable tests PASS with guard off"%len(base))
PY
