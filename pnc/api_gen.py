"""Session generators for the API-level correspondence (C01, C15, C05, C06, C16, C03)."""
from .session import Session
from .gen import Schema, rand_request, decompose, hx, fmt_list


def rw_ops(sess, rng, nops, allow_indep=True, allow_varm=True):
    """a mixed sequence of valid blocking writes/reads on the session's variables"""
    s = sess.s
    f = sess.f
    np_ = sess.np
    written = set()
    for _ in range(nops):
        v = rng.choice(s.vars)
        c = rng.below(100)
        if c < 45:       # collective put
            start, count, stride = rand_request(rng, v, sess.numrecs, True)
            forms = None
            # All ranks of one collective call address the SAME variable: record / fixed-size /
            # scalar variables make the library run different sequences of collectives (numrecs
            # agreement, scalar varn -> var1 path); mixing them is examined under C08, not here.
            if np_ > 1 and v.nd == 0:
                r = rng.below(np_)
                sess.begin_indep()
                sess.one_access('put', 'i', v, start, count, stride, who=str(r))
                sess.emit('* end_indep %d' % f)
                sess.emit('* sync %d' % f)
                continue
            zc = [v]
            if np_ > 1 and v.nd > 0 and rng.chance(1, 2):
                shares = decompose(rng, v, start, count, stride, np_)
                sess.emit('{')
                for r, (st, cn, sd) in enumerate(shares):
                    form = rng.choice(['vara', 'vars']) if all(t == 1 for t in sd) else 'vars'
                    sess.one_access('put', 'c', v, st, cn, sd, who=str(r), form=form)
                sess.emit('}')
            else:
                form = None
                if not allow_varm:
                    form = rng.choice(['vara', 'vars', 'varn']) if all(t == 1 for t in stride) else 'vars'
                if np_ == 1:
                    sess.one_access('put', 'c', v, start, count, stride, form=form)
                else:
                    # one writer, the other ranks take part with zero-length requests (concurrent
                    # overlapping writes are undefined in MPI-IO and excluded by the property)
                    if form is None:
                        ns = any(t != 1 for t in stride)
                        opts = ['vars', 'vars', 'varm'] + ([] if ns else ['vara', 'vara', 'varn'])
                        if v.nd > 0 and all(c == 1 for c in count) and not ns:
                            opts.append('var1')
                        form = rng.choice(opts)
                    wform = form
                    w = rng.below(np_)
                    sess.emit('{')
                    for r in range(np_):
                        if r == w:
                            sess.one_access('put', 'c', v, start, count, stride, who=str(r), form=form)
                        else:
                            # every rank must call the same API family (varn_all is iput+wait_all
                            # inside, a different sequence of collectives than vara_all)
                            vz = rng.choice(zc)
                            sess.one_access('put', 'c', vz, [0] * vz.nd, [0] * vz.nd, [1] * vz.nd, who=str(r),
                                            form='varn' if wform == 'varn' else 'vara')
                    sess.emit('}')
            sess.note_put_numrecs(v, start, count, stride)
            written.add(v.vid)
        elif c < 75:     # collective get
            if v.isrec and sess.numrecs == 0:
                continue
            start, count, stride = rand_request(rng, v, sess.numrecs, False)
            if np_ > 1 and v.nd > 0 and rng.chance(1, 3):
                shares = decompose(rng, v, start, count, stride, np_)
                sess.emit('{')
                for r, (st, cn, sd) in enumerate(shares):
                    form = 'vara' if all(t == 1 for t in sd) else 'vars'
                    sess.one_access('get', 'c', v, st, cn, sd, who=str(r), forget=True, form=form)
                sess.emit('}')
            else:
                form = None
                if not allow_varm:
                    form = rng.choice(['vara', 'vars', 'varn']) if all(t == 1 for t in stride) else 'vars'
                sess.one_access('get', 'c', v, start, count, stride, forget=True, form=form)
        elif c < 85 and allow_indep:   # independent section
            sess.begin_indep()
            r = rng.below(np_)      # one active rank per section: unsynchronised accesses of
            for __ in range(rng.range(1, 3)):   # different ranks to the same data would race
                vv = rng.choice(s.vars)
                st, cn, sd = rand_request(rng, vv, sess.rank_numrecs[r], True)
                form = rng.choice(['vara', 'vars']) if all(t == 1 for t in sd) else 'vars'
                sess.one_access('put', 'i', vv, st, cn, sd, who=str(r), form=form)
                sess.note_put_numrecs(vv, st, cn, sd, ranks=[r], coll=False)
                if rng.chance(1, 2):
                    sess.one_access('get', 'i', vv, st, cn, sd, who=str(r), forget=True, form=form)
            sess.emit('* end_indep %d' % f)
            sess.agree_numrecs()
            sess.emit('* sync %d' % f)
        elif c < 92:
            sess.emit('* inq_numrecs %d' % f)
        else:
            sess.sync_point()


def read_all(sess, rng):
    for v in sess.s.vars:
        if v.isrec and sess.numrecs == 0:
            continue
        start = [0] * v.nd
        count = [sess.numrecs if (i == 0 and v.isrec) else d for i, d in enumerate(v.shape)]
        sess.one_access('get', 'c', v, start, count, [1] * v.nd, forget=True, form='vara' if v.nd else 'var1')


def gen_rw_session(rng, np_=None, nops=None, align=True, **kw):
    sess = Session(rng, np_=np_)
    schema = Schema(rng, **kw)
    hints = []
    ea = None
    if align and rng.chance(1, 3):
        hints.append(('nc_header_align_size', str(rng.choice([1, 4, 8, 64, 512, 100]))))
    if align and rng.chance(1, 4):
        hints.append(('nc_record_align_size', str(rng.choice([4, 8, 64, 512, 100]))))
    if align and rng.chance(1, 4):
        ea = [rng.choice([0, 0, 10, 64]), rng.choice([0, 4, 16, 512]), rng.choice([0, 0, 8, 100]), rng.choice([0, 4, 64])]
    if rng.chance(1, 4):
        sess.emit('env PNETCDF_RELAX_COORD_BOUND=0')
    sess.create(schema, enddef_args=ea, hints=hints)
    sess.sync_point()
    rw_ops(sess, rng, nops or rng.range(6, 18))
    sess.sync_point()
    read_all(sess, rng)
    sess.emit('* close %d' % sess.f)
    sess.emit('* open %d 0' % sess.f)
    sess.emit('* inq %d' % sess.f, kind='inq')
    read_all(sess, rng)
    sess.emit('* snapshot %d' % sess.f, kind='snapshot', noframe=True)
    sess.emit('* close %d' % sess.f)
    return sess


def gen_big_session(rng, np_=None):
    """requests larger than NC_BYTE_SWAP_BUFFER_SIZE (4096 bytes) with non-contiguous buffer datatypes and
    the in-place byte swap hint in all three settings: the packing / swapping decisions of put_varm
    and get_varm depend on request size, buffer contiguity, need of conversion and need of swap"""
    sess = Session(rng, np_=np_ or rng.choice([1, 1, 2, 3]))
    f = sess.f
    schema = Schema(rng, maxdims=2, maxvars=2, maxlen=6)
    # replace the fixed dimensions by larger ones
    schema.dims = [(n, (0 if l == 0 else rng.choice([24, 33, 40, 50]))) for n, l in schema.dims]
    for v in schema.vars:
        v.shape = [schema.dims[d][1] for d in v.dimids]
        if v.nd > 2:
            v.dimids = v.dimids[:2]; v.shape = v.shape[:2]
        if v.xtype in (1, 2, 7):
            v.xtype = rng.choice([3, 4, 5, 6] if schema.fmt < 5 else [3, 4, 5, 6, 8, 9, 10, 11])
    swap = rng.choice(['auto', 'auto', 'enable', 'disable'])
    sess.create(schema, hints=[('nc_in_place_swap', swap)])
    sess.sync_point()
    for _ in range(rng.range(2, 5)):
        v = rng.choice([x for x in schema.vars if x.nd > 0] or schema.vars)
        if v.nd == 0:
            continue
        # a large block: all of the fastest dimension, most of the slower one (3 records for record variables)
        count = [(3 if (i == 0 and v.isrec) else (d if i == v.nd - 1 else max(1, d - rng.below(3)))) for i, d in enumerate(v.shape)]
        start = [0] * v.nd
        stride = [1] * v.nd
        nel = 1
        for c in count:
            nel *= c
        same = rng.chance(3, 4)                    # memory type = external type: no conversion, swap only
        k = v.xtype if same else rng.choice([4, 5, 6, 10])
        bl = count[-1]
        cnt = nel // bl
        lay = rng.below(3)
        if lay == 0:
            tok, buf = 'x%d' % k, 'v %d %d %d' % (cnt, bl, bl + rng.range(1, 5))      # ghost cells
        elif lay == 1:
            tok, buf = 'x%d' % k, 'c %d' % nel
        else:
            tok, buf = 't%d' % k, 'c'
        seed = sess.next_seed()
        from . import oracle as O
        lim = O.pat_lim(k, v.xtype)
        sess.vmax[v.vid] = max(sess.vmax.get(v.vid, 0), lim)
        args = 'vara %d %s %s' % (v.nd, fmt_list(start), fmt_list(count))
        def emit(who, op):
            bspec = ('v', cnt, bl, int(buf.split()[3])) if buf.startswith('v') else ('c',)
            return sess.emit('%s %s %d %s %d vara %s %s %s%s' % (who, op, f, 'c' if who == '*' or True else 'i', v.vid, tok, buf,
                                                              args.split(' ', 1)[1], (' pat %d' % seed) if op == 'put' else ''),
                             kind=op, op=op, vid=v.vid, start=start, count=count, stride=stride, memk=k, seed=seed, lim=lim,
                             form='vara', buf=bspec, ranks=list(range(sess.np)) if who == '*' else [int(who)], mode='c',
                             flex=tok[0] == 'x')
        if sess.np == 1:
            emit('*', 'put')
        else:
            w = rng.below(sess.np)
            sess.emit('{')
            for r in range(sess.np):
                if r == w:
                    emit(str(r), 'put')
                else:
                    sess.one_access('put', 'c', v, [0] * v.nd, [0] * v.nd, [1] * v.nd, who=str(r), form='vara')
            sess.emit('}')
        sess.note_put_numrecs(v, start, count, stride)
        # read back through a different path: row by row, typed
        for row in range(min(count[0], 3)):
            st = list(start); st[0] = row
            cn = list(count); cn[0] = 1
            sess.one_access('get', 'c', v, st, cn, stride, forget=True, form='vara')
        if rng.chance(1, 2):
            emit('*', 'get')
    sess.sync_point()
    sess.emit('* close %d' % f)
    sess.emit('* open %d 0' % f)
    sess.emit('* inq %d' % f, kind='inq')
    read_all(sess, rng)
    sess.emit('* close %d' % f)
    return sess
