"""Session generators for the API-level correspondence (C01, C15, C05, C06, C16, C03)."""
from .session import Session
from .gen import Schema, rand_request, decompose, hx, fmt_list


def rw_ops(sess, rng, nops, allow_indep=True, allow_varm=True):
    """a mixed sequence of valid blocking writes/reads on the session's variables"""
    s = sess.s
    f = sess.f
    np_ = sess.np
    written = set()
    for _ in range(nops):
        v = rng.choice(s.vars)
        c = rng.below(100)
        if c < 45:       # collective put
            start, count, stride = rand_request(rng, v, sess.numrecs, True)
            forms = None
            # All ranks of one collective call address the SAME variable: record / fixed-size /
            # scalar variables make the library run different sequences of collectives (numrecs
            # agreement, scalar varn -> var1 path); mixing them is examined under C08, not here.
            if np_ > 1 and v.nd == 0:
                r = rng.below(np_)
                sess.begin_indep()
                sess.one_access('put', 'i', v, start, count, stride, who=str(r))
                sess.emit('* end_indep %d' % f)
                sess.emit('* sync %d' % f)
                continue
            zc = [v]
            if np_ > 1 and v.nd > 0 and rng.chance(1, 2):
                shares = decompose(rng, v, start, count, stride, np_)
                sess.emit('{')
                for r, (st, cn, sd) in enumerate(shares):
                    form = rng.choice(['vara', 'vars']) if all(t == 1 for t in sd) else 'vars'
                    sess.one_access('put', 'c', v, st, cn, sd, who=str(r), form=form)
                sess.emit('}')
            else:
                form = None
                if not allow_varm:
                    form = rng.choice(['vara', 'vars', 'varn']) if all(t == 1 for t in stride) else 'vars'
                if np_ == 1:
                    sess.one_access('put', 'c', v, start, count, stride, form=form)
                else:
                    # one writer, the other ranks take part with zero-length requests (concurrent
                    # overlapping writes are undefined in MPI-IO and excluded by the property)
                    if form is None:
                        ns = any(t != 1 for t in stride)
                        opts = ['vars', 'vars', 'varm'] + ([] if ns else ['vara', 'vara', 'varn'])
                        if v.nd > 0 and all(c == 1 for c in count) and not ns:
                            opts.append('var1')
                        form = rng.choice(opts)
                    wform = form
                    w = rng.below(np_)
                    sess.emit('{')
                    for r in range(np_):
                        if r == w:
                            sess.one_access('put', 'c', v, start, count, stride, who=str(r), form=form)
                        else:
                            # every rank must call the same API family (varn_all is iput+wait_all
                            # inside, a different sequence of collectives than vara_all)
                            vz = rng.choice(zc)
                            sess.one_access('put', 'c', vz, [0] * vz.nd, [0] * vz.nd, [1] * vz.nd, who=str(r),
                                            form='varn' if wform == 'varn' else 'vara')
                    sess.emit('}')
            sess.note_put_numrecs(v, start, count, stride)
            written.add(v.vid)
        elif c < 75:     # collective get
            if v.isrec and sess.numrecs == 0:
                continue
            start, count, stride = rand_request(rng, v, sess.numrecs, False)
            if np_ > 1 and v.nd > 0 and rng.chance(1, 3):
                shares = decompose(rng, v, start, count, stride, np_)
                sess.emit('{')
                for r, (st, cn, sd) in enumerate(shares):
                    form = 'vara' if all(t == 1 for t in sd) else 'vars'
                    sess.one_access('get', 'c', v, st, cn, sd, who=str(r), forget=True, form=form)
                sess.emit('}')
            else:
                form = None
                if not allow_varm:
                    form = rng.choice(['vara', 'vars', 'varn']) if all(t == 1 for t in stride) else 'vars'
                sess.one_access('get', 'c', v, start, count, stride, forget=True, form=form)
        elif c < 85 and allow_indep:   # independent section
            sess.begin_indep()
            r = rng.below(np_)      # one active rank per section: unsynchronised accesses of
            for __ in range(rng.range(1, 3)):   # different ranks to the same data would race
                vv = rng.choice(s.vars)
                st, cn, sd = rand_request(rng, vv, sess.rank_numrecs[r], True)
                form = rng.choice(['vara', 'vars']) if all(t == 1 for t in sd) else 'vars'
                sess.one_access('put', 'i', vv, st, cn, sd, who=str(r), form=form)
                sess.note_put_numrecs(vv, st, cn, sd, ranks=[r], coll=False)
                if rng.chance(1, 2):
                    sess.one_access('get', 'i', vv, st, cn, sd, who=str(r), forget=True, form=form)
            sess.emit('* end_indep %d' % f)
            sess.agree_numrecs()
            sess.emit('* sync %d' % f)
        elif c < 92:
            sess.emit('* inq_numrecs %d' % f)
        else:
            sess.sync_point()


def read_all(sess, rng):
    for v in sess.s.vars:
        if v.isrec and sess.numrecs == 0:
            continue
        start = [0] * v.nd
        count = [sess.numrecs if (i == 0 and v.isrec) else d for i, d in enumerate(v.shape)]
        sess.one_access('get', 'c', v, start, count, [1] * v.nd, forget=True, form='vara' if v.nd else 'var1')


def gen_rw_session(rng, np_=None, nops=None, align=True, **kw):
    sess = Session(rng, np_=np_)
    schema = Schema(rng, **kw)
    hints = []
    ea = None
    if align and rng.chance(1, 3):
        hints.append(('nc_header_align_size', str(rng.choice([1, 4, 8, 64, 512, 100]))))
    if align and rng.chance(1, 4):
        hints.append(('nc_record_align_size', str(rng.choice([4, 8, 64, 512, 100]))))
    if align and rng.chance(1, 4):
        ea = [rng.choice([0, 0, 10, 64]), rng.choice([0, 4, 16, 512]), rng.choice([0, 0, 8, 100]), rng.choice([0, 4, 64])]
    if rng.chance(1, 4):
        sess.emit('env PNETCDF_RELAX_COORD_BOUND=0')
    sess.create(schema, enddef_args=ea, hints=hints)
    sess.sync_point()
    rw_ops(sess, rng, nops or rng.range(6, 18))
    sess.sync_point()
    read_all(sess, rng)
    sess.emit('* close %d' % sess.f)
    sess.emit('* open %d 0' % sess.f)
    sess.emit('* inq %d' % sess.f, kind='inq')
    read_all(sess, rng)
    sess.emit('* snapshot %d' % sess.f, kind='snapshot', noframe=True)
    sess.emit('* close %d' % sess.f)
    return sess
