"""Sessions exercising metadata, layout, redefinition, fill and abort (C03, C06, C16, C18) and the
format oracle: the implementation's file is decoded by the extracted specification decoder
(HeaderSpec.decode via `pnc_model --decode`) and compared with what the session defined."""
import copy, os, subprocess
from .session import Session, judge
from .gen import Schema, rand_request, hx, fmt_list, ELSIZE
from .api_gen import rw_ops, read_all
from . import oracle as O

ATT_RANGE = {1: (-100, 100), 3: (-30000, 30000), 4: (-10**6, 10**6), 5: (-1000, 1000), 6: (-10**6, 10**6),
             7: (0, 200), 8: (0, 60000), 9: (0, 10**6), 10: (-10**12, 10**12), 11: (0, 10**12)}


def rand_att(rng, types, name):
    t = rng.choice(types)
    n = rng.choice([0, 1, 1, 2, 3, 5, 8])
    if t == 2:
        vals = [rng.range(32, 126) for _ in range(n)]
    else:
        lo, hi = ATT_RANGE[t]
        vals = [rng.range(lo, hi) for _ in range(n)]
    return (name, t, vals)


def att_ext_bytes(t, vals):
    if t == 2:
        return bytes(v & 255 for v in vals)
    return b''.join(O.ext_bytes(t, v) for v in vals)


class MetaState:
    """what the script has defined so far (the expected logical header)"""
    def __init__(self, fmt):
        self.fmt = fmt; self.dims = []; self.gatts = []; self.vars = []   # vars: dict(name,type,dimids,atts)

    def set_att(self, lst, a):
        for i, x in enumerate(lst):
            if x[0] == a[0]:
                lst[i] = a; return
        lst.append(a)


def emit_schema(sess, rng, schema, ms, f=0, natt=None):
    """define dims, global attributes, variables with attributes; records everything in ms"""
    for n, l in schema.dims[len(ms.dims):]:
        sess.emit('* def_dim %d %s %d' % (f, hx(n), -1 if l == 0 else l)); ms.dims.append((n, l))
    for i in range(rng.range(0, 3) if natt is None else natt):
        a = rand_att(rng, schema.types, 'g%d' % rng.below(4))
        sess.emit('* put_att %d -1 %s %d %d %s' % (f, hx(a[0]), a[1], len(a[2]), fmt_list(a[2])))
        ms.set_att(ms.gatts, a)
    for v in schema.vars[len(ms.vars):]:
        sess.emit('* def_var %d %s %d %d %s' % (f, hx(v.name), v.xtype, v.nd, fmt_list(v.dimids)))
        mv = dict(name=v.name, type=v.xtype, dimids=list(v.dimids), atts=[])
        ms.vars.append(mv)
        for i in range(rng.range(0, 2) if natt is None else natt):
            a = rand_att(rng, schema.types, 'a%d' % rng.below(3))
            sess.emit('* put_att %d %d %s %d %d %s' % (f, v.vid, hx(a[0]), a[1], len(a[2]), fmt_list(a[2])))
            ms.set_att(mv['atts'], a)


def meta_point(sess, ms, **kw):
    """inq + snapshot whose decoded content must equal the metadata defined so far"""
    sess.emit('* inq %d' % sess.f, kind='inq')
    sess.emit('* snapshot %d' % sess.f, kind='snapshot', meta=copy.deepcopy(ms.__dict__), **kw)


def gen_meta_session(rng, np_=None, redefs=None, with_data=True):
    sess = Session(rng, np_=np_ or rng.choice([1, 1, 2, 3]))
    f = sess.f
    schema = Schema(rng, maxvars=3, maxdims=3)
    ms = MetaState(schema.fmt)
    hints = []
    sess.align = {}
    if rng.chance(1, 2):
        a = rng.choice([4, 8, 64, 100, 512, 4096]); hints.append(('nc_header_align_size', a)); sess.align['h'] = a
    if rng.chance(1, 3):
        a = rng.choice([4, 64, 100, 512]); hints.append(('nc_record_align_size', a)); sess.align['r'] = a
    if rng.chance(1, 4):
        jn, js = rng.range(3000, 9000), rng.below(200)
        sess.emit('* junk %d %d %d' % (f, jn, js), kind='junk')
        sess.junk = (jn, js)
    for k, v in hints:
        sess.emit('hint %s %s' % (k, v))
    sess.emit('* create %d %d 1' % (f, schema.fmt), kind='create')
    sess.s = schema
    emit_schema(sess, rng, schema, ms)
    ea = None
    if rng.chance(1, 3):
        ea = [rng.choice([0, 0, 16, 200]), rng.choice([0, 4, 64, 512]), rng.choice([0, 0, 8, 128]), rng.choice([0, 4, 64])]
        sess.emit('* _enddef %d %s' % (f, fmt_list(ea)), kind='enddef')
    else:
        sess.emit('* enddef %d' % f, kind='enddef')
    meta_point(sess, ms, first=True, ea=ea)
    if with_data:
        rw_ops(sess, rng, rng.range(2, 6), allow_indep=False)
    meta_point(sess, ms)
    for k in range(redefs if redefs is not None else rng.choice([0, 1, 1, 2])):
        sess.emit('* redef %d' % f)
        # grow: new dims, vars (fixed and/or record), attributes
        if rng.chance(1, 2):
            schema.dims.append(('e%d' % k, rng.range(1, 4)))
        nrec0 = sum(1 for v in schema.vars if v.isrec)
        for _ in range(rng.range(0, 2)):
            has_rec = any(d[1] == 0 for d in schema.dims)
            schema.add_var(has_rec and rng.chance(1, 2))
        emit_schema(sess, rng, schema, ms)
        if rng.chance(1, 3):
            ea = [rng.choice([0, 64, 300]), 0, rng.choice([0, 32]), 0]
            sess.emit('* _enddef %d %s' % (f, fmt_list(ea)), kind='enddef')
        else:
            sess.emit('* enddef %d' % f, kind='enddef')
        meta_point(sess, ms, noframe=True)
        if with_data:
            rw_ops(sess, rng, rng.range(1, 4), allow_indep=False)
            meta_point(sess, ms)
    read_all(sess, rng)
    sess.emit('* close %d' % f)
    if with_data and rng.chance(1, 3):
        # last phase (the API-level model stops predicting at the first data-mode attribute update)
        sess.emit('* open %d 1' % f)
        read_all(sess, rng)
        meta_point(sess, ms, noframe=True)
        datamode_atts(sess, rng, schema, ms)
        read_all(sess, rng)
        sess.emit('* close %d' % f)
        return sess
    sess.emit('* open %d 0' % f)
    read_all(sess, rng)
    meta_point(sess, ms, noframe=True)
    sess.emit('* close %d' % f)
    return sess


def padded(t, n):
    return (n * (1 if t == 2 else ELSIZE[t]) + 3) // 4 * 4


def datamode_atts(sess, rng, schema, ms):
    """attribute updates in DATA mode: an existing attribute may be overwritten when its encoded (padded)
    size does not grow - the header is rewritten in place; anything that would grow the header must be
    refused with NC_ENOTINDEFINE and leave file and header alone (there may be no free space behind the
    header).  (The API-level Coq model leaves data-mode attribute updates to the metadata model of C07: the
    rest of such a session is judged by the oracles on the implementation's own observations.)"""
    f = sess.f
    cands = [(-1, ms.gatts)] + [(i, v['atts']) for i, v in enumerate(ms.vars)]
    cands = [(vid, l) for vid, l in cands if l]
    if not cands:
        return
    for _ in range(rng.range(1, 4)):
        vid, lst = rng.choice(cands)
        name, t, vals = rng.choice(lst)
        n = len(vals)
        kind = rng.choice(['same', 'fewer', 'wider', 'wider_fewer', 'more', 'narrower'])
        types = [x for x in schema.types if x != 2] if t != 2 else [2]
        nt, nn = t, n
        if kind == 'fewer':
            nn = max(n - 1 - rng.below(2), 0)
        elif kind in ('wider', 'wider_fewer') and t != 2:
            wid = [x for x in types if ELSIZE[x] > ELSIZE[t]]
            if not wid:
                continue
            nt = rng.choice(wid)
            nn = n if kind == 'wider' else max(n - 1, 1)
        elif kind == 'more':
            nn = n + rng.choice([1, 1, 2, 5])
        elif kind == 'narrower' and t != 2:
            nar = [x for x in types if ELSIZE[x] < ELSIZE[t]]
            if not nar:
                continue
            nt = rng.choice(nar)
        if nt == 2:
            nv = [rng.range(32, 126) for _ in range(nn)]
        else:
            lo, hi = ATT_RANGE[nt]
            nv = [rng.range(lo, hi) for _ in range(nn)]
        ok = padded(nt, nn) <= padded(t, n)
        sess.emit('* put_att %d %d %s %d %d %s' % (f, vid, hx(name), nt, nn, fmt_list(nv)), kind='datamode_att',
                  expect_rc=0 if ok else -38, what='%s: type %d x %d over type %d x %d' % (kind, nt, nn, t, n))
        if ok:
            ms.set_att(lst, (name, nt, nv))
        meta_point(sess, ms, noframe=True)


def gen_bigvar_meta_session(rng):
    """header of a file whose last variable exceeds the 32-bit size field of CDF-1/2 (vsize must then be
    stored as 2^32-1), at / just below / above 2^32-4 bytes, as last fixed variable or last record variable;
    only definitions: the file stays a few hundred bytes and is decoded by the specification decoder"""
    sess = Session(rng, np_=rng.choice([1, 1, 2]))
    f = sess.f
    fmt = rng.choice([1, 2, 2, 5])
    ms = MetaState(fmt)
    sess.align = {}
    sess.emit('* create %d %d 1' % (f, fmt), kind='create')
    class S_: pass
    sc = S_(); sc.vars = []; sc.fmt = fmt; sc.dims = []
    sess.s = sc
    def dim(n, l):
        sess.emit('* def_dim %d %s %d' % (f, hx(n), -1 if l == 0 else l)); ms.dims.append((n, l)); return len(ms.dims) - 1
    def var(n, t, ids, natt=0):
        sess.emit('* def_var %d %s %d %d %s' % (f, hx(n), t, len(ids), fmt_list(ids)))
        ms.vars.append(dict(name=n, type=t, dimids=list(ids), atts=[]))
    as_rec = rng.chance(1, 3)
    t = rng.choice([1, 3, 4, 6] if fmt < 5 else [1, 3, 4, 6, 10])
    xs = ELSIZE[t]
    target = 2**32 - 4 + rng.choice([-8, -4, 0, 4, 8, 16, 2**20]) // xs * xs      # bytes (per record for a record variable)
    if fmt == 1 and not as_rec and rng.chance(1, 2):
        target = 2**31 - 4 + rng.choice([0, 4, 8])
    n = max(target // xs, 1)
    small = dim('s', rng.range(1, 3))
    if rng.chance(1, 2):
        var('a', rng.choice([1, 3, 4]), [small])
    if as_rec:
        tdim = dim('t', 0)
        if n <= 2**31 - 1 or fmt == 5:
            b = dim('b', n); ids = [tdim, b]
        else:
            k = 2 if n // 2 <= 2**31 - 1 else 4
            b1 = dim('b1', n // k); b2 = dim('b2', k); ids = [tdim, b1, b2]
        var('big', t, ids)
    else:
        if n <= 2**31 - 1 or fmt == 5:
            b = dim('b', n); ids = [b]
        else:
            k = 2 if n // 2 <= 2**31 - 1 else 4
            b1 = dim('b1', n // k); b2 = dim('b2', k); ids = [b1, b2]
        var('big', t, ids)
    sess.emit('* enddef %d' % f, kind='enddef')
    meta_point(sess, ms, first=True, noframe=True)
    sess.emit('* close %d' % f)
    sess.emit('* open %d 0' % f)
    meta_point(sess, ms, noframe=True)
    sess.emit('* close %d' % f)
    return sess


def decode_file(model_exe, hexbytes, workdir, tag):
    p = os.path.join(workdir, 'dec-%s.hex' % tag)
    open(p, 'w').write(hexbytes + '\n')
    out = subprocess.run([model_exe, '--decode', p], stdout=subprocess.PIPE, stderr=subprocess.STDOUT, timeout=120).stdout.decode()
    os.remove(p)
    return out.strip().split('\n')


def judge_datamode_atts(sess, res):
    fails = []
    for ln in range(1, len(sess.lines) + 1):
        a = sess.ann.get(ln)
        if not a or a.get('kind') != 'datamode_att':
            continue
        for r in range(sess.np):
            o = res.impl.get((ln, r))
            if o is not None and len(o) > 1 and int(o[1]) != a['expect_rc']:
                fails.append(dict(kind='datamode-att:' + ('accepted-growth' if a['expect_rc'] else 'refused'), line=ln, rank=r,
                                  detail='put_att in data mode (%s) returned %s, expected %d' % (a['what'], o[1], a['expect_rc'])))
                break
    return fails


def judge_meta(sess, res, model_exe, workdir):
    """format oracle on the implementation's snapshots"""
    fails = []
    view = None
    for ln in range(1, len(sess.lines) + 1):
        a = sess.ann.get(ln)
        if not a:
            continue
        if a['kind'] == 'inq':
            o = res.impl.get((ln, 0))
            view = None
            if o is not None and int(o[1]) == 0:
                v = O.FileView(o[2:])
                view = v if v.ok else None
        if a['kind'] != 'snapshot' or 'meta' not in a:
            continue
        o = res.impl.get((ln, 0))
        if o is None or len(o) < 4 or int(o[1]) != 0 or o[3] == 'big':
            fails.append(dict(kind='no-snapshot', line=ln, rank=0, detail=sess.lines[ln - 1])); continue
        dec = decode_file(model_exe, o[3], workdir, '%d' % ln)
        if not dec or not dec[0].startswith('H '):
            fails.append(dict(kind='format:undecodable', line=ln, rank=0, detail='specification decoder rejects the file: %s' % dec[:1])); continue
        H = dec[0].split()
        m = a['meta']
        jk = getattr(sess, 'junk', None)
        if jk:
            # nothing of the clobbered predecessor may survive: look for a run of its byte pattern
            data = bytes.fromhex(o[3]) if o[3] != '-' else b''
            run = 0
            for i in range(min(len(data), jk[0])):
                run = run + 1 if data[i] == (jk[1] + i * 13) % 251 + 1 else 0
                if run >= 12:
                    fails.append(dict(kind='clobber:predecessor-survives', line=ln, rank=0,
                                      detail='bytes %d..%d of the new file are those of the clobbered file' % (i - 11, i)))
                    break
        if H[4] != 'strict':
            fails.append(dict(kind='format:not-strict', line=ln, rank=0, detail='padding / vsize / dimid rule violated'))
        if H[5] != 'layout':
            fails.append(dict(kind='format:layout', line=ln, rank=0, detail='variables not in definition order / aligned / disjoint'))
        if int(H[1]) != m['fmt']:
            fails.append(dict(kind='format:version', line=ln, rank=0, detail='version %s, requested %d' % (H[1], m['fmt'])))
        dd = [l.split() for l in dec if l.startswith('D ')]
        want_d = [[ 'D', hx(n), str(l)] for n, l in m['dims']]
        if dd != want_d:
            fails.append(dict(kind='format:dims', line=ln, rank=0, detail='decoded %s expected %s' % (dd, want_d)))
        aa = [l.split() for l in dec if l.startswith('A ')]
        want_a = []
        for (n, t, vals) in m['gatts']:
            b = att_ext_bytes(t, vals)
            want_a.append(['A', '-1', hx(n), str(t), str(len(vals)), b.hex() if b else '-'])
        for i, v in enumerate(m['vars']):
            for (n, t, vals) in v['atts']:
                b = att_ext_bytes(t, vals)
                want_a.append(['A', str(i), hx(n), str(t), str(len(vals)), b.hex() if b else '-'])
        if sorted(aa) != sorted(want_a):
            fails.append(dict(kind='format:attributes', line=ln, rank=0, detail='decoded %s expected %s' % (aa[:6], want_a[:6])))
        vv = [l.split() for l in dec if l.startswith('V ')]
        if [(x[1], x[2], x[4:4 + int(x[3])]) for x in vv] != [(hx(v['name']), str(v['type']), [str(d) for d in v['dimids']]) for v in m['vars']]:
            fails.append(dict(kind='format:variables', line=ln, rank=0, detail='decoded %s' % vv[:4]))
        # the library's own reports equal what is in the file
        if view is not None:
            if view.hsize != int(H[3]):
                fails.append(dict(kind='report:header-size', line=ln, rank=0, detail='inq_header_size %d, encoded header %s bytes' % (view.hsize, H[3])))
            begins = [int(x[-1]) for x in vv]
            if [x['off'] for x in view.vars] != begins:
                fails.append(dict(kind='report:varoffset', line=ln, rank=0, detail='inq_varoffset %s, file %s' % ([x['off'] for x in view.vars], begins)))
            if view.numrecs >= 0 and view.numrecs != int(H[2]):
                fails.append(dict(kind='report:numrecs', line=ln, rank=0, detail='library %d file %s' % (view.numrecs, H[2])))
            fixed = [b for b, mv in zip(begins, m['vars']) if not (mv['dimids'] and m['dims'][mv['dimids'][0]][1] == 0)]
            recs = [b for b, mv in zip(begins, m['vars']) if (mv['dimids'] and m['dims'][mv['dimids'][0]][1] == 0)]
            if fixed and view.hext != fixed[0]:
                fails.append(dict(kind='report:header-extent', line=ln, rank=0, detail='extent %d first fixed variable %d' % (view.hext, fixed[0])))
            if a.get('first'):
                al = getattr(sess, 'align', {})
                if 'h' in al and fixed:
                    A = (al['h'] + 3) // 4 * 4
                    if fixed[0] % A:
                        fails.append(dict(kind='align:header', line=ln, rank=0, detail='first variable at %d, nc_header_align_size %d' % (fixed[0], al['h'])))
                if 'r' in al and recs:
                    A = (al['r'] + 3) // 4 * 4
                    if recs[0] % A:
                        fails.append(dict(kind='align:record', line=ln, rank=0, detail='record section at %d, nc_record_align_size %d' % (recs[0], al['r'])))
                ea = a.get('ea')
                if ea and fixed and fixed[0] < int(H[3]) + ea[0]:
                    fails.append(dict(kind='align:h_minfree', line=ln, rank=0, detail='begin_var %d < header %s + h_minfree %d' % (fixed[0], H[3], ea[0])))
    return fails


def gen_redef_session(rng, np_=None):
    """C06: data written, then redefinitions that grow / re-align the header, add fixed and record
    variables (changing recsize), with a small data-mover round size; abort of a redefinition and of
    a fresh create"""
    sess = Session(rng, np_=np_ or rng.choice([1, 2, 3, 4]))
    f = sess.f
    unit = rng.choice([16, 64, 1000, 0])
    if unit:
        sess.emit('env PNETCDF_VERIF_MOVE_UNIT=%d' % unit)
    schema = Schema(rng, maxvars=3, maxdims=3, want_rec=rng.chance(3, 4))
    ms = MetaState(schema.fmt)
    if rng.chance(1, 2):
        sess.emit('hint nc_header_align_size %d' % rng.choice([4, 8, 64]))   # small extent: growth forces moves
    sess.emit('* create %d %d 1' % (f, schema.fmt), kind='create')
    sess.s = schema
    emit_schema(sess, rng, schema, ms, natt=rng.choice([0, 1]))
    if rng.chance(1, 2):
        # free space after the header and between the fixed and the record section: a later header growth
        # may then move some sections and not others
        ea0 = [rng.choice([0, 0, 40]), rng.choice([0, 4]), rng.choice([0, 64, 600, 2000]), rng.choice([0, 4, 256])]
        sess.emit('* _enddef %d %s' % (f, fmt_list(ea0)), kind='enddef')
    else:
        sess.emit('* enddef %d' % f, kind='enddef')
    meta_point(sess, ms, first=True)
    # every variable fully written (three records) so that every byte of old data is known
    for v in schema.vars:
        cnt = [3 if (i == 0 and v.isrec) else d for i, d in enumerate(v.shape)]
        st = [0] * v.nd
        if sess.np == 1 or v.nd == 0:
            if sess.np > 1:
                sess.begin_indep(); sess.one_access('put', 'i', v, st, cnt, [1] * v.nd, who='0', form='vara' if v.nd else 'var1')
                sess.emit('* end_indep %d' % f); sess.emit('* sync %d' % f)
            else:
                sess.one_access('put', 'c', v, st, cnt, [1] * v.nd, form='vara' if v.nd else 'var1')
        else:
            from .gen import decompose
            sess.emit('{')
            for r, (s1, c1, t1) in enumerate(decompose(rng, v, st, cnt, [1] * v.nd, sess.np)):
                sess.one_access('put', 'c', v, s1, c1, t1, who=str(r), form='vara')
            sess.emit('}')
        sess.note_put_numrecs(v, st, cnt, [1] * v.nd)
    rw_ops(sess, rng, rng.range(1, 4), allow_indep=False)
    meta_point(sess, ms)
    for k in range(rng.choice([1, 1, 2, 3])):
        aborting = rng.chance(1, 4)
        if aborting:
            before = sess.emit('* snapshot %d' % f, kind='snapshot', noframe=True)
        recvars = [v for v in schema.vars if v.isrec and v.nd >= 1]
        from_indep = sess.np > 1 and recvars and not aborting and rng.chance(1, 3)
        if from_indep:
            # redef entered DIRECTLY from independent mode after the last rank alone has appended records:
            # redef must first agree on the record count (as end_indep_data does), or rank 0 writes a header
            # with too few records and the ranks move different amounts of data
            v = rng.choice(recvars)
            st = [sess.numrecs] + [0] * (v.nd - 1)
            cnt = [rng.range(1, 2)] + list(v.shape[1:])
            sess.begin_indep()
            sess.one_access('put', 'i', v, st, cnt, [1] * v.nd, who=str(sess.np - 1), form='vara')
            sess.note_put_numrecs(v, st, cnt, [1] * v.nd)
        sess.emit('* redef %d' % f)
        if rng.chance(1, 2):
            # fill mode: enddef fills the NEW variables (fixed ones, and record variables for every existing
            # record) after the data has been moved - the fill must not touch any old element
            sess.emit('* set_fill %d 0' % f)
        saved = (copy.deepcopy(schema.dims), list(schema.vars), copy.deepcopy(ms))
        mode = rng.below(4)
        if mode == 0 or rng.chance(1, 3):       # header growth through a long attribute
            n = rng.choice([8, 40, 300])
            a = ('big%d' % k, 2, [rng.range(65, 90) for _ in range(n)])
            sess.emit('* put_att %d -1 %s 2 %d %s' % (f, hx(a[0]), n, fmt_list(a[2])))
            ms.set_att(ms.gatts, a)
        if mode >= 1:
            if rng.chance(1, 2):
                schema.dims.append(('e%d' % k, rng.range(1, 4)))
            has_rec = any(d[1] == 0 for d in schema.dims)
            for _ in range(rng.range(1, 2)):
                schema.add_var(has_rec and rng.chance(1, 2))
        emit_schema(sess, rng, schema, ms, natt=0)
        if aborting:
            sess.emit('* abort %d' % f)
            schema.dims, schema.vars, ms2 = saved
            ms.__dict__.update(ms2.__dict__)
            for i, v in enumerate(schema.vars):
                v.vid = i
            sess.emit('* snapshot %d' % f, kind='snapshot', noframe=True, same_as=before)
            sess.emit('* open %d 1' % f)
            meta_point(sess, ms, noframe=True)
            read_all(sess, rng)
            continue
        if rng.chance(1, 3):
            ea = [rng.choice([0, 64, 300]), rng.choice([0, 0, 64]), rng.choice([0, 32]), rng.choice([0, 0, 64])]
            sess.emit('* _enddef %d %s' % (f, fmt_list(ea)), kind='enddef')
        else:
            sess.emit('* enddef %d' % f, kind='enddef')
        if from_indep:
            sess.emit('* sync %d' % f)
        meta_point(sess, ms, noframe=True)
        read_all(sess, rng)
        rw_ops(sess, rng, rng.range(1, 4), allow_indep=False)
        meta_point(sess, ms)
    read_all(sess, rng)
    sess.emit('* close %d' % f)
    if rng.chance(1, 3):
        # abort of a freshly created file removes it
        sess.emit('* create 1 %d 1' % schema.fmt)
        sess.emit('* def_dim 1 %s 3' % hx('q'))
        sess.emit('* abort 1')
        sess.emit('0 exists 1', kind='exists', expect=-1)
    sess.emit('* open %d 0' % f)
    read_all(sess, rng)
    meta_point(sess, ms, noframe=True)
    sess.emit('* close %d' % f)
    return sess


def judge_redef(sess, res):
    fails = []
    for ln in range(1, len(sess.lines) + 1):
        a = sess.ann.get(ln)
        if not a:
            continue
        if a['kind'] == 'snapshot' and a.get('same_as'):
            o = res.impl.get((ln, 0)); p = res.impl.get((a['same_as'], 0))
            if o is None or p is None or len(o) < 4 or len(p) < 4:
                fails.append(dict(kind='abort:no-snapshot', line=ln, rank=0, detail='')); continue
            if o[2:4] != p[2:4]:
                fails.append(dict(kind='abort:file-changed', line=ln, rank=0,
                                  detail='file after aborting the redefinition differs from the file at redef (sizes %s / %s)' % (p[2], o[2])))
        if a['kind'] == 'exists':
            o = res.impl.get((ln, 0))
            if o is None or int(o[1]) != a['expect']:
                fails.append(dict(kind='abort:create-not-removed', line=ln, rank=0, detail='file still exists after abort of a fresh create'))
    return fails
