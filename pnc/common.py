"""Shared machinery of the /verif checks: library build cache, translators, Coq build,
model extraction, harness builds, MPI runs, evidence, verdict protocol, known findings.

Everything a check needs is rebuilt from /repo's CURRENT working tree: the library cache key
is a hash of the tree contents (tools/buildlib.sh), the generated Coq files are rewritten from
the sources as built, and the Coq development is re-made against them."""
import os, sys, json, time, subprocess, hashlib, shutil, tempfile, re, fcntl, atexit, glob

VERIF = os.path.dirname(os.path.dirname(os.path.abspath(__file__)))
REPO = os.environ.get('PNC_REPO', '/repo')
COQ = os.path.join(VERIF, 'coq')
BUILD = os.path.join(VERIF, 'build')
MPIEXEC = ['mpiexec', '--allow-run-as-root', '--oversubscribe']
os.environ.setdefault('OMPI_MCA_rmaps_base_oversubscribe', '1')
os.environ.setdefault('OMPI_MCA_btl_vader_single_copy_mechanism', 'none')
os.environ.setdefault('OMPI_MCA_btl', 'self,vader')   # no network probing in the sealed sandbox

FORBIDDEN = r'\b(Admitted|admit|Axiom|Parameter|Conjecture|Admit Obligations)\b|Unset Guard|bypass_check|type-in-type|impredicative-set|native_compute'


class SplitMix64:
    def __init__(self, seed):
        self.s = seed & 0xFFFFFFFFFFFFFFFF
    def next(self):
        self.s = (self.s + 0x9E3779B97F4A7C15) & 0xFFFFFFFFFFFFFFFF
        z = self.s
        z = ((z ^ (z >> 30)) * 0xBF58476D1CE4E5B9) & 0xFFFFFFFFFFFFFFFF
        z = ((z ^ (z >> 27)) * 0x94D049BB133111EB) & 0xFFFFFFFFFFFFFFFF
        return z ^ (z >> 31)
    def below(self, n):
        return self.next() % n if n > 0 else 0
    def range(self, lo, hi):          # inclusive
        return lo + self.below(hi - lo + 1)
    def choice(self, l):
        return l[self.below(len(l))]
    def chance(self, num, den):
        return self.below(den) < num
    def shuffle(self, l):
        for i in range(len(l) - 1, 0, -1):
            j = self.below(i + 1)
            l[i], l[j] = l[j], l[i]
    def fork(self, tag):
        return SplitMix64(self.next() ^ (hash_str(tag)))


def hash_str(s):
    return int(hashlib.sha1(s.encode()).hexdigest()[:16], 16)


def load_factor():
    """>= 1: how much longer than on an idle machine a run may take now (1-minute load average against the
    number of cores).  Watchdog times are multiplied by it, so that an expired watchdog means a blocked
    process and not a slow machine; a real hang still expires, only later."""
    try:
        l1 = os.getloadavg()[0]; n = os.cpu_count() or 1
    except OSError:
        return 1.0
    return max(1.0, min(8.0, 2.0 * l1 / n))


def sh(cmd, timeout=None, cwd=None, env=None, inp=None):
    """run a command, return (rc, stdout+stderr text); rc -9 on timeout (scaled by load_factor())"""
    if timeout is not None:
        timeout = timeout * load_factor()
    try:
        p = subprocess.run(cmd, shell=isinstance(cmd, str), cwd=cwd, env=env, input=inp,
                           stdout=subprocess.PIPE, stderr=subprocess.STDOUT, timeout=timeout)
        return p.returncode, p.stdout.decode(errors='replace')
    except subprocess.TimeoutExpired as e:
        return -9, (e.stdout or b'').decode(errors='replace') + '\n[timeout]'


_scratch_dirs = []
def scratch(prefix='pncchk.'):
    d = tempfile.mkdtemp(prefix=prefix, dir=os.environ.get('TMPDIR', '/var/tmp'))
    _scratch_dirs.append(d)
    return d
def _cleanup():
    for d in _scratch_dirs:
        shutil.rmtree(d, ignore_errors=True)
atexit.register(_cleanup)


class Lock:
    def __init__(self, name):
        os.makedirs(BUILD, exist_ok=True)
        self.path = os.path.join(BUILD, '.lock-' + name)
    def __enter__(self):
        self.f = open(self.path, 'w'); fcntl.flock(self.f, fcntl.LOCK_EX); return self
    def __exit__(self, *a):
        fcntl.flock(self.f, fcntl.LOCK_UN); self.f.close()


# ---------------------------------------------------------------- library
_libcache = {}
def libdir(variant='default'):
    """build (or fetch from the content-addressed cache) libpnetcdf.a of /repo's working tree"""
    if variant in _libcache:
        return _libcache[variant]
    rc, out = sh([os.path.join(VERIF, 'tools', 'buildlib.sh'), variant], timeout=1800)
    path = out.strip().split('\n')[-1] if out.strip() else ''
    if rc != 0 or not os.path.isfile(os.path.join(path, '.ok')):
        raise BuildFailure('library build (%s) failed:\n%s' % (variant, out[-3000:]))
    _libcache[variant] = path
    return path


class BuildFailure(Exception):
    pass


def build_c(lib, sources, name, extra=None, mpi=True):
    """compile a C harness against the library in `lib`; cached inside the lib directory by
    content hash of the sources and flags"""
    extra = extra or []
    h = hashlib.sha1()
    for s in sources:
        h.update(open(s, 'rb').read())
    h.update(' '.join(extra).encode())
    exe = os.path.join(lib, 'h-%s-%s' % (name, h.hexdigest()[:12]))
    if os.path.isfile(exe):
        return exe
    with Lock('cc-' + name):
        if os.path.isfile(exe):
            return exe
        for old in glob.glob(os.path.join(lib, 'h-%s-*' % name)):
            os.remove(old)
        cc = 'mpicc' if mpi else 'gcc'
        cmd = [cc, '-g', '-O1', '-w', '-I' + os.path.join(lib, 'include'),
               '-I' + os.path.join(lib, 'gen', 'src', 'drivers', 'include'),
               '-I' + os.path.join(lib, 'gen', 'src', 'include'),
               '-I' + os.path.join(VERIF, 'harness')] + extra + ['-o', exe + '.tmp'] + sources + \
              [os.path.join(lib, 'libpnetcdf.a'), '-lm']
        rc, out = sh(cmd, timeout=300)
        if rc != 0:
            raise BuildFailure('harness build %s failed:\n%s' % (name, out[-3000:]))
        os.rename(exe + '.tmp', exe)
    return exe


# ---------------------------------------------------------------- translators + Coq
def write_if_changed(path, text):
    old = open(path).read() if os.path.exists(path) else None
    if old != text:
        with open(path, 'w') as f:
            f.write(text)
        return True
    return False


def run_translators(lib, which=('consts',)):
    """regenerate coq/Gen_*.v from the sources as built; returns {name: changed?}"""
    res = {}
    with Lock('coq'):
        for w in which:
            out = os.path.join(COQ, 'Gen_%s.v' % w)
            tmp = out + '.new'
            rc, log = sh([sys.executable, os.path.join(VERIF, 'tools', 'tr_%s.py' % w), lib, tmp], timeout=300)
            if rc != 0 or not os.path.exists(tmp):
                raise BuildFailure('translator tr_%s failed:\n%s' % (w, log[-2000:]))
            txt = open(tmp).read(); os.remove(tmp)
            res[w] = write_if_changed(out, txt)
    return res


def coq_makefile():
    mk = os.path.join(COQ, 'Makefile')
    proj = os.path.join(COQ, '_CoqProject')
    vs = sorted(os.path.basename(p) for p in glob.glob(os.path.join(COQ, '*.v')) if not os.path.basename(p).startswith('Dbg'))
    stamp = os.path.join(COQ, '.files')
    cur = '\n'.join(vs)
    if not os.path.exists(mk) or not os.path.exists(stamp) or open(stamp).read() != cur \
       or os.path.getmtime(proj) > os.path.getmtime(mk):
        rc, out = sh(['coq_makefile', '-f', '_CoqProject'] + vs + ['-o', 'Makefile'], cwd=COQ, timeout=60)
        if rc != 0:
            raise BuildFailure('coq_makefile failed: ' + out)
        open(stamp, 'w').write(cur)


def coq_make(targets, timeout=3000):
    """full .vo build (never -vos) of the given targets; returns (ok, log)"""
    with Lock('coq'):
        coq_makefile()
        rc, out = sh(['make', '-k', '-j16'] + list(targets), cwd=COQ, timeout=timeout)
    return rc == 0, out


def theorems_of(vfile):
    txt = open(vfile).read()
    return re.findall(r'^\s*(?:Theorem|Lemma|Corollary|Example)\s+([A-Za-z0-9_\']+)', txt, re.M)


def dep_closure(vname):
    """local .v files (module names) that Properties/…/<vname>.v depends on, transitively"""
    seen, todo = set(), [vname]
    while todo:
        m = todo.pop()
        if m in seen:
            continue
        p = os.path.join(COQ, m + '.v')
        if not os.path.exists(p):
            continue
        seen.add(m)
        txt = open(p).read()
        for line in re.findall(r'(?m)^\s*(?:From\s+Pnc\s+)?Require\s+(?:Import\s+|Export\s+)?([^.]*)\.', txt):
            for w in line.split():
                w = w.split('.')[-1]
                if w not in ('Import', 'Export') and os.path.exists(os.path.join(COQ, w + '.v')):
                    todo.append(w)
    return sorted(seen)


def forbidden_scan(pid=None):
    """the development the property depends on must contain none of: Admitted, admit, Axiom, Parameter,
    Conjecture, ... (scoped to the dependency closure of Properties_<pid>.v; whole directory if pid is None)"""
    bad = []
    files = [os.path.join(COQ, m + '.v') for m in dep_closure('Properties_' + pid)] if pid else sorted(glob.glob(os.path.join(COQ, '*.v')))
    for p in files:
        txt = open(p).read()
        txt = re.sub(r'\(\*.*?\*\)', '', txt, flags=re.S)      # comments do not count
        for m in re.finditer(FORBIDDEN, txt):
            bad.append('%s: %s' % (os.path.basename(p), m.group(0)))
    return bad


def prove(pid, gens=('consts',), lib=None, timeout=3000):
    """regenerate Gen files, build Properties_<pid>.vo, collect theorem names and
    Print Assumptions output.  Returns dict(ok, obligations, discharged, names, failed,
    assumptions, log, gen_changed, forbidden)"""
    lib = lib or libdir()
    changed = run_translators(lib, gens)
    vfile = os.path.join(COQ, 'Properties_%s.v' % pid)
    names = theorems_of(vfile)
    t0 = time.time()
    ok, log = coq_make(['Properties_%s.vo' % pid], timeout=timeout)
    res = dict(ok=ok, names=names, obligations=len(names), gen_changed=changed, log=log[-6000:],
               wall=time.time() - t0, failed=[], assumptions={}, forbidden=forbidden_scan(pid))
    if ok:
        # capture Print Assumptions output by recompiling the statements file alone (its .vo deps exist)
        with Lock('coq'):
            rc, out = sh(['coqc', '-Q', '.', 'Pnc', '-w', '-all', 'Properties_%s.v' % pid], cwd=COQ, timeout=600)
        if rc != 0:
            ok = False; res['ok'] = False; res['log'] = out[-6000:]
        else:
            res['assumptions'] = parse_assumptions(out, names)
    if not ok:
        # which statement/lemma broke?
        m = re.findall(r'File "\./([A-Za-z0-9_]+\.v)", line (\d+)', res['log'])
        res['failed'] = ['%s:%s' % x for x in m] or ['build']
        res['discharged'] = 0
    else:
        res['discharged'] = len(names)
    if res['forbidden']:
        res['ok'] = False
        res['failed'] += ['forbidden:' + x for x in res['forbidden']]
        res['discharged'] = 0
    return res


def parse_assumptions(out, names):
    """split coqc stdout into the blocks printed by successive Print Assumptions commands"""
    blocks = re.split(r'(?m)^(?=Closed under the global context|Axioms:)', out)
    blocks = [b.strip() for b in blocks if b.strip().startswith(('Closed under', 'Axioms:'))]
    res = {}
    for i, n in enumerate(names):
        if i < len(blocks):
            b = blocks[i]
            if b.startswith('Closed'):
                res[n] = []
            else:
                res[n] = sorted(set(re.findall(r'(?m)^([A-Za-z_][A-Za-z0-9_.\']*)\s*:', b[len('Axioms:'):])))
    return res


# axioms of the standard library / installed libraries that the brief allows (each is named in
# the trusted base of the evidence when it occurs); anything else is reported
ALLOWED_AXIOMS = {
    'functional_extensionality_dep', 'FunctionalExtensionality.functional_extensionality_dep',
    'ClassicalDedekindReals.sig_forall_dec', 'ClassicalDedekindReals.sig_not_dec',
    'Classical_Prop.classic', 'classic', 'sig_forall_dec', 'sig_not_dec',
    'JMeq_eq', 'JMeq.JMeq_eq', 'Eqdep.Eq_rect_eq.eq_rect_eq', 'eq_rect_eq',
    'proof_irrelevance', 'ProofIrrelevance.proof_irrelevance', 'propositional_extensionality',
    'ClassicalEpsilon.constructive_indefinite_description', 'constructive_indefinite_description',
}


# ---------------------------------------------------------------- extracted model
def model_exe():
    """extract Exec.v to OCaml and build pnc_model (cached on the hash of the model sources)"""
    srcs = ['Gen_consts.v', 'Base.v', 'Header.v', 'Access.v', 'Data.v', 'Disk.v', 'Move.v', 'Fill.v', 'HeaderSpec.v', 'Exec.v', 'Extract.v']
    h = hashlib.sha1()
    for s in srcs:
        h.update(open(os.path.join(COQ, s), 'rb').read())
    h.update(open(os.path.join(VERIF, 'harness', 'driver.ml'), 'rb').read())
    exe = os.path.join(BUILD, 'pnc_model-' + h.hexdigest()[:12])
    if os.path.isfile(exe):
        return exe
    ok, log = coq_make(['Extract.vo'])
    if not ok:
        raise BuildFailure('model build failed:\n' + log[-3000:])
    with Lock('ocaml'):
        if os.path.isfile(exe):
            return exe
        for old in glob.glob(os.path.join(BUILD, 'pnc_model-*')):
            os.remove(old)
        d = scratch('pncml.')
        for f in ('pnc_model.ml', 'pnc_model.mli'):
            shutil.copy(os.path.join(COQ, f), d)
        shutil.copy(os.path.join(VERIF, 'harness', 'driver.ml'), d)
        rc, out = sh('ocamlfind ocamlopt -O2 -package zarith -linkpkg -w -a pnc_model.mli pnc_model.ml driver.ml -o pnc_model 2>&1 || '
                     'ocamlfind ocamlopt -package zarith -linkpkg -w -a pnc_model.mli pnc_model.ml driver.ml -o pnc_model', cwd=d, timeout=600)
        if not os.path.isfile(os.path.join(d, 'pnc_model')):
            raise BuildFailure('ocaml build failed:\n' + out[-3000:])
        shutil.move(os.path.join(d, 'pnc_model'), exe)
    return exe


# ---------------------------------------------------------------- running
def mpirun(np, exe, args, env=None, timeout=120, cwd=None):
    e = dict(os.environ)
    if env:
        e.update(env)
    return sh(MPIEXEC + ['-n', str(np), exe] + list(args), timeout=timeout, env=e, cwd=cwd)


# ---------------------------------------------------------------- known findings
def known_findings(pid):
    p = os.path.join(VERIF, 'known_findings.json')
    if not os.path.exists(p):
        return []
    return [k for k in json.load(open(p)).get('findings', []) if k.get('property') == pid]


# ---------------------------------------------------------------- check context
class Ctx:
    def __init__(self, pid, level, tier=None, seed=None):
        self.pid = pid
        self.level = level
        self.tier = tier or os.environ.get('VERIF_TIER', 'quick')
        if self.tier not in ('quick', 'thorough'):
            self.tier = 'quick'
        try:
            self.seed = int(seed if seed is not None else os.environ.get('VERIF_SEED', '1'))
        except ValueError:
            self.seed = 1
        self.t0 = time.time()
        self.cov = dict(evaluations=0, distinct_nontrivial=0, rule='', samples=[],
                        obligations=0, discharged=0, checker_cmd='', trusted_base=[])
        self.assumptions = []
        self.violations = []
        self.known_hit = []
        self._distinct = set()
        self.kf = known_findings(pid)
        self.rng = SplitMix64(self.seed * 0x10001 + hash_str(pid))
        os.makedirs(os.path.join(VERIF, 'replay'), exist_ok=True)
        os.makedirs(os.path.join(VERIF, 'evidence'), exist_ok=True)

    # -- coverage accounting
    def count(self, case_repr, nontrivial=True):
        self.cov['evaluations'] += 1
        if nontrivial:
            self._distinct.add(hashlib.sha1(case_repr.encode()).digest()[:10])
        if len(self.cov['samples']) < 4 and nontrivial:
            self.cov['samples'].append(case_repr[:1500])

    def add_proof(self, pr, checker_cmd):
        self.cov['obligations'] += pr['obligations']
        self.cov['discharged'] += pr['discharged']
        self.cov['checker_cmd'] = checker_cmd
        self.cov.setdefault('theorems', []).extend(pr['names'])
        self.cov['proof_wall_s'] = round(pr['wall'], 1)
        self.cov['generated_files_changed'] = pr['gen_changed']
        ax = sorted({a for l in pr['assumptions'].values() for a in l})
        self.cov['axioms_reported_by_Print_Assumptions'] = ax
        unknown = [a for a in ax if a.split('.')[-1] not in {x.split('.')[-1] for x in ALLOWED_AXIOMS}]
        if unknown:
            pr['ok'] = False
            pr['failed'].append('unexpected axioms: ' + ','.join(unknown))
        return pr['ok']

    # -- verdicts
    def is_known(self, key):
        for k in self.kf:
            if k.get('status', 'open') == 'open' and k['key'] == key:
                return k
        return None

    def violation(self, what, replay, key=None, no_input=False):
        """report a violation (or a KNOWN-FINDING line when `key` is listed)"""
        k = self.is_known(key) if key else None
        if k is not None:
            if key not in self.known_hit:
                self.known_hit.append(key)
                print('KNOWN-FINDING: property=%s %s [%s]' % (self.pid, k['what'], key))
            return False
        n = len(self.violations)
        path = os.path.join(VERIF, 'replay', '%s-%s-%d.json' % (self.pid, self.tier, n))
        replay = dict(replay)
        replay.update(property=self.pid, what=what, key=key, seed=self.seed, tier=self.tier)
        with open(path, 'w') as f:
            json.dump(replay, f, indent=1)
        self.violations.append(dict(what=what, replay=path, key=key))
        print('VIOLATION property=%s replay=%s%s' % (self.pid, path, ' no-failing-input-found' if no_input else ''))
        sys.stdout.flush()
        return True

    def finish(self, extra_assumptions=()):
        self.cov['distinct_nontrivial'] = len(self._distinct)
        cov = dict(self.cov)
        if cov['obligations'] == 0:
            for k in ('obligations', 'discharged', 'checker_cmd'):
                cov.pop(k)
        cov['known_findings_reproduced'] = self.known_hit
        ev = dict(property_id=self.pid, tier=self.tier, seed=self.seed, level=self.level,
                  coverage=cov, assumptions=list(self.assumptions) + list(extra_assumptions),
                  wall_s=round(time.time() - self.t0, 1), violations=len(self.violations))
        # evidence/ only ever holds runs against /repo itself; a run against a scratch tree (PNC_REPO, used
        # to test the checks against seeded changes) is recorded apart
        evdir = 'evidence' if os.environ.get('PNC_REPO', '/repo').rstrip('/') == '/repo' else 'evidence_mut'
        os.makedirs(os.path.join(VERIF, evdir), exist_ok=True)
        with open(os.path.join(VERIF, evdir, self.pid + '.json'), 'w') as f:
            json.dump(ev, f, indent=1)
        print('%s %s: obligations %s/%s, evaluations %d (distinct non-trivial %d), violations %d, known findings %d, %.0fs'
              % (self.pid, self.tier, cov.get('discharged', '-'), cov.get('obligations', '-'),
                 cov['evaluations'], cov['distinct_nontrivial'], len(self.violations), len(self.known_hit),
                 time.time() - self.t0))
        return 1 if self.violations else 0


TRUSTED_COMMON = [
    'Coq 8.16.1 kernel + coqc, vm_compute (no native_compute)',
    'translators tools/tr_*.py (regenerate Gen_*.v from the sources as built in this run)',
    'extraction with ExtrOcamlBasic only (Extract Inductive bool/option/unit/prod/list/sumbool; no Extract Constant; Z/positive/nat stay Coq datatypes), ocamlfind ocamlopt, harness/driver.ml (parsing/printing glue, zarith only for decimal I/O)',
    'correspondence harness: harness/*.c linked against libpnetcdf.a rebuilt from /repo working tree with -DPNETCDF_VERIF, python orchestration in pnc/',
    'modelled, not verified: OpenMPI/ROMIO (views, collectives, datatypes), POSIX file system, C compiler, utf8proc',
]
