"""Script generators (structured, mostly valid; a separate invalid stream) for the API-level
correspondence.  All randomness comes from one SplitMix64 state."""
from .common import SplitMix64


def hx(s):
    return s.encode().hex() if s else '-'


ELSIZE = {1: 1, 2: 1, 3: 2, 4: 4, 5: 4, 6: 8, 7: 1, 8: 2, 9: 4, 10: 8, 11: 8}


class Var:
    def __init__(self, vid, name, xtype, dimids, shape, isrec):
        self.vid, self.name, self.xtype, self.dimids, self.shape, self.isrec = vid, name, xtype, dimids, shape, isrec
    @property
    def nd(self):
        return len(self.shape)


class Schema:
    """a random schema; shape[0] == 0 marks the record dimension"""
    def __init__(self, rng, fmt=None, maxdims=4, maxvars=4, maxlen=5, want_rec=None, nrecvars=None):
        self.rng = rng
        self.fmt = fmt or rng.choice([1, 2, 5])
        self.types = [1, 2, 3, 4, 5, 6] if self.fmt < 5 else list(range(1, 12))
        self.dims = []        # (name, len) ; len 0 = unlimited
        has_rec = rng.chance(2, 3) if want_rec is None else want_rec
        if has_rec:
            self.dims.append(('t', 0))
        nfixed = rng.range(1, maxdims)
        for i in range(nfixed):
            self.dims.append(('d%d' % i, rng.range(1, maxlen)))
        self.vars = []
        nv = rng.range(1, maxvars)
        nrec_target = nrecvars if nrecvars is not None else (rng.choice([0, 1, 1, 2, 3]) if has_rec else 0)
        for v in range(nv):
            isrec = has_rec and (v < nrec_target)
            self.add_var(isrec)
        if all(v.nd == 0 for v in self.vars):
            self.add_var(False, nd=1)       # zero-length participation needs a non-scalar variable
        rng.shuffle(self.vars)
        for i, v in enumerate(self.vars):
            v.vid = i; v.name = 'v%d' % i
        self.numrecs = 0

    def add_var(self, isrec, nd=None, xtype=None):
        rng = self.rng
        fixed_ids = [i for i, d in enumerate(self.dims) if d[1] != 0]
        if nd is None:
            nd = rng.choice([0, 1, 1, 2, 2, 3, 3, 4]) if not isrec else rng.choice([1, 2, 2, 3, 4])
        k = nd - 1 if isrec else nd
        ids = [rng.choice(fixed_ids) for _ in range(k)]
        if isrec:
            ids = [0] + ids
        shape = [self.dims[i][1] for i in ids]
        xt = xtype or rng.choice(self.types)
        v = Var(len(self.vars), 'v%d' % len(self.vars), xt, ids, shape, isrec)
        self.vars.append(v)
        return v

    def define_lines(self, f=0):
        out = []
        for n, l in self.dims:
            out.append('* def_dim %d %s %d' % (f, hx(n), -1 if l == 0 else l))
        for v in self.vars:
            out.append('* def_var %d %s %d %d %s' % (f, hx(v.name), v.xtype, v.nd, ' '.join(map(str, v.dimids))))
        return out


def memtype_for(rng, v, flex=None):
    """(token, k): a memory type compatible with the variable (no NC_ECHAR)"""
    if v.xtype == 2:
        k = 2
    else:
        k = rng.choice([1, 3, 4, 5, 6, 7, 8, 9, 10, 11, v.xtype, v.xtype])
    if flex is None:
        flex = rng.chance(1, 3)
    return ('x%d' % k if flex else 't%d' % k), k, flex


def rand_request(rng, v, numrecs, forwrite, maxrec=6, strided=None):
    """a VALID (start,count,stride) for variable v; returns lists (may be empty for scalars)"""
    start, count, stride = [], [], []
    for i, s in enumerate(v.shape):
        if i == 0 and v.isrec:
            lim = maxrec if forwrite else numrecs
        else:
            lim = s
        if lim <= 0:
            start.append(0); count.append(0); stride.append(1); continue
        mode = rng.below(10)
        if mode < 3:            # full
            st, c, t = 0, lim, 1
        elif mode < 5:          # single
            st, c, t = rng.below(lim), 1, rng.choice([1, 1, 2, 3])
        else:
            t = rng.choice([1, 1, 1, 2, 2, 3]) if (strided is None or strided) else 1
            st = rng.below(lim)
            maxc = (lim - 1 - st) // t + 1
            c = rng.range(1, maxc)
        start.append(st); count.append(c); stride.append(t)
    if strided is False:
        stride = [1] * len(stride)
    return start, count, stride


def fmt_list(l):
    return ' '.join(map(str, l))


def access_tokens(rng, v, start, count, stride, memtok, k, flex, form=None, buf=None, imap=None, allow_resized=False):
    """tokens '<varid> <form> <memtype> <buf> <formargs>' for a request; picks a form able to express it"""
    nd = v.nd
    nel = 1
    for c in count:
        nel *= c
    need_stride = any(t != 1 for t in stride)
    if form is None:
        opts = []
        if nd > 0 and all(c == 1 for c in count) and not need_stride:
            opts += ['var1']
        if not need_stride:
            opts += ['vara', 'vara', 'varn']
        opts += ['vars', 'vars', 'varm']
        form = rng.choice(opts)
    if flex:
        if buf is None:
            b = rng.below(6)
            if b < 3 or nel <= 0:
                buf = 'c %d' % max(nel, 0)
            elif b < 5:
                # vector layout: split nel into count*blocklen
                bl = rng.choice([d for d in range(1, nel + 1) if nel % d == 0])
                cnt = nel // bl
                # 'r': the same layout handed over as bufcount = cnt instances of a RESIZED contiguous type
                buf = '%s %d %d %d' % (rng.choice(['v', 'v', 'r']) if allow_resized else 'v', cnt, bl, bl + rng.below(3))
            else:
                buf = 'n'
    else:
        buf = 'c'
    if form == 'var1':
        args = 'var1 %d %s' % (nd, fmt_list(start))
    elif form == 'vara':
        args = 'vara %d %s %s' % (nd, fmt_list(start), fmt_list(count))
    elif form == 'vars':
        args = 'vars %d %s %s %s' % (nd, fmt_list(start), fmt_list(count), fmt_list(stride) if nd else '')
    elif form == 'varm':
        if imap is None:
            # row-major imap, possibly a transposition of the last two dims
            im = [1] * nd
            for i in range(nd - 2, -1, -1):
                im[i] = im[i + 1] * max(count[i + 1], 1)
            if nd >= 2 and rng.chance(1, 2) and flex is False:
                # transpose last two dims: memory is [..., c_{n-1}, c_{n-2}]
                im[nd - 1] = max(count[nd - 2], 1); im[nd - 2] = 1
            imap = im
        args = 'varm %d %s %s %s %s' % (nd, fmt_list(start), fmt_list(count), fmt_list(stride), fmt_list(imap))
    elif form == 'varn':
        # split along the first dimension with count > 1 into 2 sub-requests when possible
        parts = [(start, count)]
        for i in range(nd):
            if count[i] >= 2:
                h = rng.range(1, count[i] - 1)
                s2 = list(start); s2[i] = start[i] + h
                c1 = list(count); c1[i] = h
                c2 = list(count); c2[i] = count[i] - h
                parts = [(start, c1), (s2, c2)]
                break
        if nd == 0:
            args = 'varn 1 0'
        else:
            args = 'varn %d %d %s' % (len(parts), nd, ' '.join(fmt_list(s) + ' ' + fmt_list(c) for s, c in parts))
    else:
        args = 'var'
    return '%d %s %s %s' % (v.vid, args.split(' ', 1)[0], memtok, buf) + (' ' + args.split(' ', 1)[1] if ' ' in args else '')


def decompose(rng, v, start, count, stride, np_):
    """split a request among np_ ranks along one dimension (block); ranks without a share get count 0"""
    nd = v.nd
    cands = [i for i in range(nd) if count[i] >= 1]
    if not cands:
        return [(start, count, stride)] * np_
    d = rng.choice(cands)
    c = count[d]
    base, rem = divmod(c, np_)
    out = []
    pos = 0
    for r in range(np_):
        cr = base + (1 if r < rem else 0)
        s = list(start); cc = list(count)
        s[d] = start[d] + pos * stride[d]; cc[d] = cr
        if cr == 0:
            s[d] = start[d]
        out.append((s, cc, list(stride)))
        pos += cr
    rng.shuffle(out)
    return out
