"""C15: sessions mixing valid requests with requests that do not fit the variable (one perturbation at
a time), zero-length requests, and the oracle: rejected with the documented code, no byte of the file
changed by a rejected or zero-length request, accepted requests change only addressed elements."""
from .session import Session
from .gen import Schema, rand_request, access_tokens, hx, fmt_list
from .api_gen import rw_ops, read_all

EINVALCOORDS, EEDGE, ESTRIDE, ENEGATIVECNT, EIOMISMATCH = -40, -57, -58, -210, -209


def perturb(rng, v, start, count, stride, numrecs, isput, strict):
    """returns (start, count, stride, expected_rc, form, tag) or None"""
    nd = v.nd
    if nd == 0:
        return None
    d = rng.below(nd)
    isrecdim = (d == 0 and v.isrec)
    lim = numrecs if isrecdim else v.shape[d]
    s, c, t = list(start), list(count), list(stride)
    # make every dimension before d valid and non-empty so that d decides
    kind = rng.choice(['neg_start', 'big_start', 'eq_start', 'neg_count', 'edge', 'stride0', 'stride_neg', 'stride_edge', 'stride_edge_exact', 'stride_edge_exact', 'stride_last_valid', 'stride_huge'])
    form = 'vars'
    if kind == 'neg_start':
        s[d] = -1 - rng.below(3); exp = EINVALCOORDS
    elif kind == 'big_start':
        if isrecdim and isput:
            return None                      # writes may start beyond the current number of records
        s[d] = lim + 1 + rng.below(3); c[d] = 1; exp = EINVALCOORDS
    elif kind == 'eq_start':
        if isrecdim and isput:
            return None
        s[d] = lim
        if rng.chance(1, 2):
            c[d] = 0; exp = EINVALCOORDS if strict else 0     # relaxed rule: start == len allowed with zero count
            if isrecdim and not isput and numrecs == 0:
                exp = 0 if not strict else EINVALCOORDS
        else:
            c[d] = 1; exp = EINVALCOORDS
    elif kind == 'neg_count':
        c[d] = -1 - rng.below(3); exp = ENEGATIVECNT
        if any(x == 0 for x in c[:d]) :
            pass
    elif kind == 'edge':
        if isrecdim and isput:
            return None
        if lim == 0:
            return None
        s[d] = rng.below(lim); c[d] = lim - s[d] + 1 + rng.below(2); t[d] = 1; exp = EEDGE
    elif kind == 'stride0':
        t[d] = 0; exp = ESTRIDE
        if isrecdim and not isput:
            return None
    elif kind == 'stride_neg':
        t[d] = -1 - rng.below(2); exp = ESTRIDE
        if c[d] > 1 or (isrecdim and not isput):
            return None                      # the edge test (start+(count-1)*stride) would speak first
    elif kind in ('stride_edge_exact', 'stride_last_valid'):
        # the last addressed index lands exactly ON the dimension length (must be rejected), or exactly on
        # the last valid index (must be accepted): the boundary of the strided edge test
        if (isrecdim and isput) or lim < 2:
            return None
        t[d] = rng.choice([2, 2, 3, 5])
        c[d] = rng.range(2, 4)
        last = lim if kind == 'stride_edge_exact' else lim - 1
        s[d] = last - (c[d] - 1) * t[d]
        if s[d] < 0:
            c[d] = 2; t[d] = 2; s[d] = last - 2
            if s[d] < 0:
                return None
        exp = EEDGE if kind == 'stride_edge_exact' else 0
    elif kind == 'stride_huge':
        # strides for which (count-1)*stride does not fit 64 bits (or lands on a small value after wrapping):
        # the edge test must still reject them
        if (isrecdim and isput) or lim < 2:
            return None
        c[d] = rng.range(2, min(lim, 5))
        s[d] = rng.below(lim - c[d] + 1)
        k = c[d] - 1
        t[d] = rng.choice([2**62, 2**62 + 1, 2**63 - 1, 2**64 // k + 1, (2**64 + lim - 1 - s[d]) // k, 2**63 // k + 1,
                           2**61 + 1, 2**32, 2**31])
        if t[d] > 2**63 - 1:
            t[d] = 2**63 - 1
        exp = EEDGE
    else:  # stride_edge
        if (isrecdim and isput) or lim < 2:
            return None
        s[d] = lim - 1; c[d] = 2; t[d] = 2; exp = EEDGE
    # other dimensions: valid, non-empty (so no earlier error and no zero-length shortcut)
    for i in range(nd):
        if i != d:
            l2 = (numrecs if not isput else max(numrecs, 3)) if (i == 0 and v.isrec) else v.shape[i]
            if l2 <= 0:
                return None
            s[i] = min(max(s[i], 0), l2 - 1); c[i] = 1; t[i] = max(t[i], 1)
    if kind in ('neg_start', 'big_start', 'eq_start', 'neg_count', 'edge'):
        # the same argument errors through the other API families: vara, and varn (one list of segments;
        # a request with count >= 2 is split in two segments, the invalid part may be the second one)
        form = rng.choice(['vars', 'vara', 'varn', 'varn'])
        if form != 'vars':
            t = [1] * nd
    return s, c, t, exp, form, kind


def seg_rc(v, isput, strict, numrecs, st, cn):
    """documented verdict for one unit-stride segment (start, count) of variable v: all starts are
    checked first (NC_EINVALCOORDS), then the counts (NC_ENEGATIVECNT, NC_EEDGE)"""
    lims = []
    for i in range(v.nd):
        isrecdim = (i == 0 and v.isrec)
        lims.append(None if (isrecdim and isput) else (numrecs if isrecdim else v.shape[i]))
    for i in range(v.nd):
        if st[i] < 0:
            return EINVALCOORDS
        lim = lims[i]
        if lim is None:
            continue
        if i == 0 and v.isrec and not isput and lim == 0 and cn[i] > 0:
            return EINVALCOORDS
        if strict:
            if st[i] >= lim:
                return EINVALCOORDS
        elif st[i] > lim or (st[i] == lim and cn[i] > 0):
            return EINVALCOORDS
    for i in range(v.nd):
        if cn[i] < 0:
            return ENEGATIVECNT
        lim = lims[i]
        if lim is not None and (cn[i] > lim or st[i] + cn[i] > lim):
            return EEDGE
    return 0


def varn_expected(line, v, isput, strict, numrecs):
    """first failing segment's verdict of an emitted varn line (None if the line cannot be parsed)"""
    t = line.split()
    try:
        i = t.index('varn') + 2                 # memory type token follows
        if t[i] == 'c':
            i += 1 if t[i - 1][0] == 't' else 2
        elif t[i] == 'n':
            i += 1
        else:
            i += 4
        nseg, nd = int(t[i]), int(t[i + 1]); i += 2
        for _ in range(nseg):
            st = [int(x) for x in t[i:i + nd]]; cn = [int(x) for x in t[i + nd:i + 2 * nd]]; i += 2 * nd
            rc = seg_rc(v, isput, strict, numrecs, st, cn)
            if rc:
                return rc
        return 0
    except (ValueError, IndexError):
        return None


def gen_inv_session(rng, np_=None):
    sess = Session(rng, np_=np_ or rng.choice([1, 1, 1, 2, 3]))
    f = sess.f
    strict = rng.chance(1, 2)
    sess.emit('env PNETCDF_RELAX_COORD_BOUND=%d' % (0 if strict else 1))
    schema = Schema(rng, maxvars=3, maxdims=3)
    sess.create(schema)
    sess.sync_point()
    rw_ops(sess, rng, rng.range(2, 5), allow_indep=False)
    sess.sync_point()
    for _ in range(rng.range(4, 10)):
        v = rng.choice(schema.vars)
        isput = rng.chance(1, 2)
        if np_ is None and sess.np > 1 and v.isrec and isput:
            continue        # (errors on a record variable in a collective put: see C08)
        if (not isput) and v.isrec and sess.numrecs == 0:
            continue
        start, count, stride = rand_request(rng, v, sess.numrecs, isput)
        c = rng.below(10)
        before = sess.emit('* snapshot %d' % f, kind='snapshot', noframe=True)
        if c < 7:
            p = perturb(rng, v, start, count, stride, sess.numrecs, isput, strict)
            if p is None:
                continue
            s, cn, t, exp, form, tag = p
            ln = sess.one_access('put' if isput else 'get', 'c', v, s, cn, t, form=form)
            sess.ann[ln]['expect_rc'] = exp
            sess.ann[ln]['perturbation'] = tag
            if sess.ann[ln].get('form') == 'varn' and v.nd > 0:
                # the request was split into segments: the verdict is that of the first offending segment
                e2 = varn_expected(sess.lines[ln - 1], v, isput, strict, sess.numrecs)
                if e2 is not None and e2 != 0:
                    sess.ann[ln]['expect_rc'] = e2
            if exp == 0 and tag != 'stride_last_valid':
                sess.ann[ln]['count'] = [0] * v.nd       # zero-length: addresses nothing
            if tag == 'stride_last_valid':
                sess.ann[ln]['expect_rc'] = None
                sess.note_put_numrecs(v, s, cn, t) if isput else None
        elif c < 9 and v.nd > 0:
            # zero-length request
            cn = list(count); cn[rng.below(v.nd)] = 0
            ln = sess.one_access('put' if isput else 'get', 'c', v, start, cn, [1] * v.nd, form='vara')
            sess.ann[ln]['perturbation'] = 'zero-length'
        else:
            # flexible API: buffer size does not match the request
            nel = 1
            for x in count:
                nel *= x
            if v.nd == 0 or nel == 0:
                continue
            k = v.xtype
            acc = '%d vara x%d c %d %d %s %s' % (v.vid, k, nel + 1 + rng.below(2), v.nd, fmt_list(start), fmt_list(count))
            ln = sess.emit('* %s %d c %s%s' % ('put' if isput else 'get', f, acc, ' pat 5' if isput else ''),
                           kind='put' if isput else 'get', op='put' if isput else 'get', vid=v.vid, start=start, count=count,
                           stride=[1] * v.nd, memk=k, seed=5, lim=100, form='vara', buf=('c',), ranks=list(range(sess.np)),
                           mode='c', flex=True, expect_rc=EIOMISMATCH, perturbation='bufcount')
        sess.emit('* snapshot %d' % f, kind='snapshot', noframe=True, same_as=before, after=ln)
    sess.sync_point()
    read_all(sess, rng)
    sess.emit('* close %d' % f)
    return sess


def judge_inv(sess, res):
    fails = []
    for ln in range(1, len(sess.lines) + 1):
        a = sess.ann.get(ln)
        if not a or a['kind'] != 'snapshot' or not a.get('same_as'):
            continue
        o = res.impl.get((ln, 0)); p = res.impl.get((a['same_as'], 0))
        if o is None or p is None or len(o) < 4 or len(p) < 4:
            continue
        acc = sess.ann.get(a['after'], {})
        rcs = [int(res.impl[(a['after'], r)][1]) for r in range(sess.np) if (a['after'], r) in res.impl and len(res.impl[(a['after'], r)]) > 1]
        rejected = all(rc != 0 for rc in rcs) and rcs
        zero = acc.get('perturbation') == 'zero-length' or (acc.get('expect_rc') == 0)
        if (rejected or zero) and o[2:4] != p[2:4]:
            fails.append(dict(kind='rejected-request-changed-file' if rejected else 'zero-length-request-changed-file',
                              line=ln, rank=0, detail='%s: file differs after the call (sizes %s -> %s)' % (sess.lines[a['after'] - 1], p[2], o[2])))
    return fails
