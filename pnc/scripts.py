"""Running operation scripts (harness/SCRIPT.md) on the implementation (pnc_impl, real library
under mpiexec) and on the extracted Coq model (pnc_model), and diffing the observation logs."""
import os, shutil, concurrent.futures as cf
from . import common as C
from .cmp import read_log, compare

IMPL_SRC = os.path.join(C.VERIF, 'harness', 'pnc_impl.c')


def impl_exe(lib, asan=False):
    extra = ['-fsanitize=address,undefined', '-fno-sanitize-recover=undefined', '-fno-omit-frame-pointer'] if asan else []
    return C.build_c(lib, [IMPL_SRC], 'pnc_impl' + ('_asan' if asan else ''), extra=extra)


def nprocs_of(script):
    for l in script.split('\n'):
        if l.startswith('nprocs'):
            return int(l.split()[1])
    return 1


class Result:
    pass


def run_script(script, impl, model, workdir, tag, timeout=60, env=None, keep=False, want_model=True):
    """returns Result with .impl (dict (line,rank)->tokens), .model, .mism, .ncmp, .nskip,
    .hang (bool), .crash (text or None)"""
    d = os.path.join(workdir, tag)
    os.makedirs(d, exist_ok=True)
    sp = os.path.join(d, 'script.txt')
    open(sp, 'w').write(script)
    np_ = nprocs_of(script)
    e = {'PNC_DIR': d, 'PNC_OUT': os.path.join(d, 'out')}
    if env:
        e.update(env)
    if np_ == 1:
        ee = dict(os.environ); ee.update(e)
        rc, out = C.sh([impl, sp], timeout=timeout, env=ee, cwd=d)
    else:
        rc, out = C.mpirun(np_, impl, [sp], env=e, timeout=timeout, cwd=d)
    r = Result()
    r.rc = rc; r.stdout = out[-4000:]
    r.hang = (rc == -9)
    r.crash = None if rc in (0, -9) else out[-2000:]
    r.impl = {}
    for k in range(np_):
        r.impl.update(read_log(os.path.join(d, 'out.%d' % k)))
    r.np = np_
    r.model = {}
    r.mism = []; r.ncmp = 0; r.nskip = 0
    if want_model:
        mrc, mout = C.sh('ulimit -s unlimited 2>/dev/null; exec %s %s' % (model, sp), timeout=timeout * 4)
        mp = os.path.join(d, 'model.out')
        open(mp, 'w').write(mout)
        r.model = read_log(mp)
        r.model_rc = mrc
        if mrc != 0:
            r.mism = [dict(line=0, rank=0, why='model interpreter failed: ' + mout[-300:], impl=None, model=[])]
        else:
            r.ncmp, r.nskip, r.mism = compare(r.impl, r.model, np_)
    if not keep:
        shutil.rmtree(d, ignore_errors=True)
    r.dir = d
    return r


def run_many(scripts, impl, model, workdir, jobs=8, timeout=60, env=None, want_model=True):
    """scripts: list of (tag, text). Runs them in parallel; yields (tag, text, Result)"""
    def one(x):
        tag, text = x
        return tag, text, run_script(text, impl, model, workdir, tag, timeout=timeout, env=env, want_model=want_model)
    with cf.ThreadPoolExecutor(max_workers=jobs) as ex:
        for res in ex.map(one, scripts):
            yield res


def shrink(script, still_fails, max_steps=200):
    """delta debugging on script lines (keeps the header lines and balanced groups)"""
    lines = script.split('\n')
    head = [l for l in lines if l.startswith(('nprocs', 'env '))]
    body = [l for l in lines if not l.startswith(('nprocs', 'env ')) and l.strip() and not l.startswith('#')]
    # units: a group { ... } is one unit
    units = []; cur = None
    for l in body:
        if l.strip() == '{':
            cur = [l]
        elif l.strip() == '}':
            cur.append(l); units.append(cur); cur = None
        elif cur is not None:
            cur.append(l)
        else:
            units.append([l])
    def text(us):
        return '\n'.join(head + [l for u in us for l in u]) + '\n'
    steps = 0
    n = 2
    while len(units) >= 2 and steps < max_steps:
        chunk = max(1, len(units) // n)
        reduced = False
        for i in range(0, len(units), chunk):
            cand = units[:i] + units[i + chunk:]
            steps += 1
            if cand and still_fails(text(cand)):
                units = cand; n = max(n - 1, 2); reduced = True
                break
            if steps >= max_steps:
                break
        if not reduced:
            if chunk == 1:
                break
            n = min(n * 2, len(units))
    return text(units)
